(* RouterSpec: the DECLARATIVE side of C05, written from the property text and the Rest.li protocol documentation
   (https://linkedin.github.io/rest.li/spec/protocol "Message Headers", "Resource methods" tables), independently of
   handler.go: no recursion on fuel, no accumulators, no switch order.  Definitions only; the proofs that the model of
   Http/Router.v satisfies them are in Proofs/RouterProofs.v. *)
From Coq Require Import List Bool Arith NArith Lia.
From Coq.Strings Require Import Byte.
From GR Require Import Base.Bytes Gen.TablesRouter Http.Router.
Import ListNotations.

(* ------------------------------------------------------------------------------------------------ well-formed trees *)
(* What registration through the exported Register* functions can build: names are map keys (unique among siblings),
   Method_Unknown is never registered. *)
Fixpoint wf_node (n : node) : Prop :=
  match n with
  | Node _ _ ms _ _ ss =>
      ~ In Method_Unknown ms /\ NoDup (map n_name ss) /\
      (fix all (l : list node) : Prop := match l with [] => True | x :: r => wf_node x /\ all r end) ss
  end.
Definition wf_nodes (l : list node) : Prop := NoDup (map n_name l) /\ Forall wf_node l.
Definition wf_server (s : server) : Prop := wf_nodes (s_roots s).

(* ------------------------------------------------------------------------------------------------ the protocol's method table *)
(* Rest.li protocol, "Resource methods": HTTP verb of each method *)
Definition proto_verb (m : method) : option verb :=
  match m with
  | Method_get | Method_batch_get | Method_get_all | Method_finder => Some VGet
  | Method_create | Method_batch_create | Method_partial_update | Method_batch_partial_update | Method_action => Some VPost
  | Method_update | Method_batch_update => Some VPut
  | Method_delete | Method_batch_delete => Some VDelete
  | Method_Unknown => None
  end.

(* ... and whether its URI carries an entity key: /coll/{key} (Some true), /coll (Some false), either (None: actions
   exist at entity level and at collection level) *)
Definition proto_entity (m : method) : option bool :=
  match m with
  | Method_get | Method_update | Method_partial_update | Method_delete => Some true
  | Method_create | Method_batch_get | Method_batch_create | Method_batch_delete | Method_batch_update
  | Method_batch_partial_update | Method_get_all | Method_finder => Some false
  | Method_action | Method_Unknown => None
  end.

Definition entity_matches (m : method) (hasEntity : bool) : bool :=
  match proto_entity m with Some b => Bool.eqb b hasEntity | None => true end.

(* "X-RestLi-Method ... is optional for GET, PUT and DELETE, where it is inferred": the method of a header-less request
   to a collection-like resource, as a table over (verb, entity key present, q present and non-empty, ids present).
   None: no method is inferred, or the inferred one does not fit the URI (key with ids on PUT/DELETE, neither on
   PUT/DELETE). *)
Definition proto_infer (v : verb) (hasEntity qSet hasIds : bool) : option method :=
  match v, hasEntity, qSet, hasIds with
  | VGet, true, _, _ => Some Method_get
  | VGet, false, true, _ => Some Method_finder
  | VGet, false, false, true => Some Method_batch_get
  | VGet, false, false, false => Some Method_get_all
  | VPut, true, _, false => Some Method_update
  | VPut, false, _, true => Some Method_batch_update
  | VPut, _, _, _ => None
  | VDelete, true, _, false => Some Method_delete
  | VDelete, false, _, true => Some Method_batch_delete
  | VDelete, _, _, _ => None
  | VPost, _, _, _ => None      (* POST requires the header *)
  | VOther, _, _, _ => None
  end.

(* the method a request to a collection-like resource is routed to; hm = the method named by the header
   (Method_Unknown: absent or not one of the 13 names).  A header that contradicts the verb is left unspecified by the
   property; this table answers None there and the theorems exclude the combination ([specified]). *)
Definition spec_collection (hm : method) (v : verb) (hasEntity qSet hasIds : bool) : option method :=
  match proto_verb hm with
  | None => proto_infer v hasEntity qSet hasIds
  | Some v' => if verb_eqb v' v && entity_matches hm hasEntity then Some hm else None
  end.

(* "the method of a request to a simple resource always follows from the verb and the action parameter" *)
Definition spec_simple (v : verb) (actionSet : bool) : option method :=
  match v with
  | VGet => Some Method_get
  | VPut => Some Method_update
  | VDelete => Some Method_delete
  | VPost => Some (if actionSet then Method_action else Method_partial_update)
  | VOther => None
  end.

(* a simple resource has no entity key (its URI is /simple, never /simple/{key}): with one, no method is routed *)
Definition spec_method (coll : bool) (hm : method) (v : verb) (hasEntity qSet hasIds actionSet : bool) : option method :=
  if coll then spec_collection hm v hasEntity qSet hasIds
  else if hasEntity then None else spec_simple v actionSet.

(* the two combinations the property leaves unspecified *)
Definition specified (coll : bool) (hm : method) (v : verb) : Prop :=
  if coll then hm = Method_Unknown \/ proto_verb hm = Some v        (* the header does not contradict the verb *)
  else v = VOther -> hm = Method_Unknown.                            (* no header on a non-GET/POST/PUT/DELETE verb *)

Definition specifiedb (coll : bool) (hm : method) (v : verb) : bool :=
  if coll then method_eqb hm Method_Unknown || match proto_verb hm with Some v' => verb_eqb v' v | None => false end
  else negb (verb_eqb v VOther) || method_eqb hm Method_Unknown.

(* what the model's inference statement yields, as "routed to m" / "not routed" *)
Definition infer_routed (coll : bool) (v : verb) (hm : method) (hasEntity hasIds qSet actionSet : bool) : option method :=
  match infer coll v hm hasEntity hasIds qSet actionSet with
  | Cont m => if method_eqb m Method_Unknown then None else Some m
  | Ret _ => None
  end.

Definition all_verbs : list verb := [VGet; VPost; VPut; VDelete; VOther].
Definition bools : list bool := [true; false].

(* the finite statement of inference_table: 2 kinds x 5 verbs x 14 header methods x 2^4 flags *)
Definition inference_table_holds : bool :=
  forallb (fun coll => forallb (fun v => forallb (fun hm => forallb (fun e => forallb (fun i => forallb (fun q => forallb (fun a =>
    implb (specifiedb coll hm v)
      (match infer_routed coll v hm e i q a, spec_method coll hm v e q i a with
       | Some m1, Some m2 => method_eqb m1 m2
       | None, None => true
       | _, _ => false
       end)) bools) bools) bools) bools) all_methods) all_verbs) bools.

(* ------------------------------------------------------------------------------------------------ "its path names a registered resource" *)

(* the request path is the mount prefix followed by '/'-separated segments *)
Definition path_of (s : server) (req : request) (segs : list bytes) : Prop :=
  r_path req = s_prefix s ++ join_with [x2f] segs /\ segs <> [] /\ Forall (fun g => mem_byte x2f g = false) segs.

(* walk sibs segs ps ks n hasEntity: starting among the sibling nodes [sibs], the segments name node n, walking parent
   keys (every collection above n is followed by a key) and sub-resources; ps = the resource path segments, ks = the
   entity keys met (including n's own when hasEntity) *)
Inductive walk : list node -> list bytes -> list segment -> list bytes -> node -> bool -> Prop :=
  | W_end : forall sibs n s,
      In n sibs -> n_name n = s -> walk sibs [s] [(s, n_coll n)] [] n false
  | W_key : forall sibs n s k,
      In n sibs -> n_name n = s -> n_coll n = true -> valid_ror2 k = true ->
      walk sibs [s; k] [(s, true)] [k] n true
  | W_sub_simple : forall sibs n s s' rest ps ks t e,
      In n sibs -> n_name n = s -> n_coll n = false ->
      walk (n_subs n) (s' :: rest) ps ks t e ->
      walk sibs (s :: s' :: rest) ((s, false) :: ps) ks t e
  | W_sub_coll : forall sibs n s k s' rest ps ks t e,
      In n sibs -> n_name n = s -> n_coll n = true -> valid_ror2 k = true ->
      walk (n_subs n) (s' :: rest) ps ks t e ->
      walk sibs (s :: k :: s' :: rest) ((s, true) :: ps) (k :: ks) t e.

(* the path leaves the tree at an unknown resource / sub-resource name (before any malformed key) *)
Inductive walk_unknown : list node -> list bytes -> Prop :=
  | U_here : forall sibs s rest,
      (forall n, In n sibs -> n_name n <> s) -> walk_unknown sibs (s :: rest)
  | U_simple : forall sibs n s s' rest,
      In n sibs -> n_name n = s -> n_coll n = false ->
      walk_unknown (n_subs n) (s' :: rest) -> walk_unknown sibs (s :: s' :: rest)
  | U_coll : forall sibs n s k s' rest,
      In n sibs -> n_name n = s -> n_coll n = true -> valid_ror2 k = true ->
      walk_unknown (n_subs n) (s' :: rest) -> walk_unknown sibs (s :: k :: s' :: rest).

Definition unknown_resource (s : server) (req : request) : Prop :=
  has_prefix (s_prefix s) (r_path req) = false \/
  exists segs, path_of s req segs /\ walk_unknown (s_roots s) segs.

(* "its Rest.li method is registered on that resource": finders and actions are registered by name *)
Definition registered (p : node) (m : method) (name : option bytes) (params : list (bytes * bytes)) : Prop :=
  match m with
  | Method_finder => name = Some (param_or_empty param_finder params) /\ In (param_or_empty param_finder params) (n_finders p)
  | Method_action => name = Some (param_or_empty param_action params) /\ In (param_or_empty param_action params) (n_actions p)
  | _ => name = None /\ In m (n_methods p)
  end.

(* The property's "if and only if", right-hand side.  The request's parameters are those ParseQueryParams yields
   ([parse_query]; its own correctness is the subject of C04/C14). *)
Definition routed_spec (s : server) (req : request) (t : target) : Prop :=
  exists segs ps ks p hasEntity params m name,
    path_of s req segs /\
    walk (s_roots s) segs ps ks p hasEntity /\
    parse_query (r_query req) = Some params /\
    spec_method (n_coll p) (header_method (r_header req)) (r_verb req) hasEntity
                (negb (bytes_eqb (param_or_empty param_finder params) []))
                (has_param entity_ids_field params)
                (negb (bytes_eqb (param_or_empty param_action params) [])) = Some m /\
    registered p m name params /\
    t = (ps, m, ks, name).

(* the premise that excludes the two unspecified combinations, for the resource the path names (if it names one) *)
Definition specified_for (s : server) (req : request) : Prop :=
  forall segs ps ks p hasEntity, path_of s req segs -> walk (s_roots s) segs ps ks p hasEntity ->
    specified (n_coll p) (header_method (r_header req)) (r_verb req).

(* ------------------------------------------------------------------------------------------------ filters *)

(* indices of the context-adding filters among the first k *)
Fixpoint ctx_ids_from (fs : list fkind) (i : nat) : list nat :=
  match fs with
  | [] => []
  | FCtx :: r => i :: ctx_ids_from r (S i)
  | _ :: r => ctx_ids_from r (S i)
  end.
Definition ctx_ids (fs : list fkind) : list nat := ctx_ids_from fs 0.

(* PreRequest of filter i sees the context values added by the context-adding filters before it *)
Definition pre_events (fs : list fkind) : list event :=
  map (fun i => EvPre i (ctx_ids (firstn i fs))) (seq 0 (length fs)).
Definition post_events (fs : list fkind) : list event :=
  map (fun i => EvPost i (ctx_ids fs)) (seq 0 (length fs)).

Definition passing (f : fkind) : Prop := f = FPass \/ f = FCtx.

Definition is_pre (e : event) : bool := match e with EvPre _ _ => true | _ => false end.
Definition is_post (e : event) : bool := match e with EvPost _ _ => true | _ => false end.
Definition is_stub (e : event) : bool := match e with EvStub _ => true | _ => false end.

Definition set_path (req : request) (p : bytes) : request :=
  {| r_verb := r_verb req; r_header := r_header req; r_path := p; r_query := r_query req; r_body := r_body req |}.
Definition set_header (req : request) (h : bytes) : request :=
  {| r_verb := r_verb req; r_header := h; r_path := r_path req; r_query := r_query req; r_body := r_body req |}.
