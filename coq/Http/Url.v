(* Url: formatQueryUrl + joinContextAndResourcePath (v2/restli/http.go:75-132; restli/http.go of the root module is the
   same code) and the URL part of newRequest (http.go:171, :201), transcribed over UrlModel.  No proofs here. *)
From Coq Require Import List Bool Arith NArith ZArith Lia.
From Coq.Strings Require Import Byte.
From GR Require Import Base.Bytes Gen.TablesTunnel Http.UrlModel.
Import ListNotations.

(* http.go:119-132 joinContextAndResourcePath(hostUrl, escapedContextPath, u) *)
Definition join_context_and_resource_path (host_url : URL) (esc_ctx : bytes) (u : URL) : ures URL :=
  match unescape esc_ctx with                                            (* url.PathUnescape, :120 *)
  | None => UErr EEscape
  | Some ctx =>
      UOk {| u_scheme := u_scheme host_url; u_host := u_host host_url;   (* joined := *hostUrl *)
             u_path := ctx ++ u_path u;                                  (* :125 *)
             u_rawpath := esc_ctx ++ escaped_path u;                     (* :126 *)
             u_forcequery := u_forcequery u;                             (* :128 *)
             u_rawquery := u_rawquery u;                                 (* :127 *)
             u_omithost := u_omithost host_url |}
  end.

Definition nth_byte (n : nat) (s : bytes) : option byte := nth_error s n.

(* http.go:101-111: the context path of the resolved URL with a trailing /root[/...] stripped *)
Definition resolved_path (host_url : URL) : bytes :=
  c_slash :: trim_suffix [c_slash] (trim_prefix [c_slash] (escaped_path host_url)).

Definition strip_root (resolved root : bytes) : bytes :=
  match last_index (c_slash :: root) resolved with
  | Some idx =>
      if Nat.eqb (length resolved) (idx + length root + 1)
         || match nth_byte (idx + length root + 1) resolved with Some c => Byte.eqb c c_slash | None => false end
      then firstn idx resolved else resolved
  | None => resolved
  end.

(* http.go:75-114 formatQueryUrl; rp.ResourcePath() = rpath, rp.RootResource() = root, query = None for a nil
   QueryParamsEncoder, the resolver answers host_url *)
Definition format_query_url (host_url : URL) (root rpath : bytes) (query : option bytes) : ures URL :=
  let path := rpath ++ match query with Some params => c_qmark :: params | None => [] end in   (* :81-88 *)
  match parse path with                                                                        (* :90 *)
  | UErr e => UErr e
  | UOk u =>
      let resolved := resolved_path host_url in                                                (* :101 *)
      if bytes_eqb resolved [c_slash] then join_context_and_resource_path host_url [] u        (* :103-105 *)
      else join_context_and_resource_path host_url (strip_root resolved root) u                (* :108-113 *)
  end.

(* http.go:171 + :201: u.String() is handed to http.NewRequestWithContext, which parses it again; this is the URL
   of the *http.Request the caller gets (tunnelling off) *)
Definition new_request_url (host_url : URL) (root rpath : bytes) (query : option bytes) : ures URL :=
  match format_query_url host_url root rpath query with
  | UErr e => UErr e
  | UOk u => match url_string u with
             | UErr e => UErr e
             | UOk s => request_url_of_string s
             end
  end.

(* http.go:191-199, the URL part of the tunnelling branch: when the threshold test (transcribed by the translator into
   Gen/TablesTunnel.v, one definition per module generation) holds of len(u.RawQuery), the query travels in the body
   (C14) and the request goes to the same URL with `u.RawQuery = ""` (:198) - every other field, RawPath and ForceQuery
   included, is kept. *)
Definition tunnel_test (v2 : bool) : Z -> Z -> bool := if v2 then tunnel_condition else tunnel_condition_root.

Definition tunnel_url (v2 : bool) (threshold : Z) (u : URL) : URL :=
  if tunnel_test v2 threshold (Z.of_nat (length (u_rawquery u)))
  then {| u_scheme := u_scheme u; u_host := u_host u; u_path := u_path u; u_rawpath := u_rawpath u;
          u_forcequery := u_forcequery u; u_rawquery := []; u_omithost := u_omithost u |}
  else u.

(* http.go:171-201 for a client with QueryTunnellingThreshold = threshold: the URL of the *http.Request *)
Definition new_request_url_t (v2 : bool) (threshold : Z) (host_url : URL) (root rpath : bytes) (query : option bytes) : ures URL :=
  match format_query_url host_url root rpath query with
  | UErr e => UErr e
  | UOk u => match url_string (tunnel_url v2 threshold u) with
             | UErr e => UErr e
             | UOk s => request_url_of_string s
             end
  end.

(* ---- a long-lived client.  newRequest / formatQueryUrl read two things of the *Client: its QueryTunnellingThreshold and
   its HostnameResolver (whose answer for this request is r_base); they write nothing.  The client of the model therefore
   is its configuration, and the URLs of a HISTORY of requests are the URLs of the single requests. *)
Record request := { r_base : URL; r_root : bytes; r_rpath : bytes; r_query : option bytes }.

Definition request_url (v2 : bool) (threshold : Z) (r : request) : ures URL :=
  new_request_url_t v2 threshold (r_base r) (r_root r) (r_rpath r) (r_query r).

Definition client_urls (v2 : bool) (threshold : Z) (history : list request) : list (ures URL) :=
  map (request_url v2 threshold) history.

(* ---- inputs of the property *)

(* the base URL value a resolver returns when it was produced by url.Parse (or filled in to the same effect):
   scheme, host and the escaped path [bp] as setPath stores it *)
Definition mk_base (scheme host bp : bytes) : URL :=
  match set_path bp with
  | Some (p, rp) => {| u_scheme := scheme; u_host := host; u_path := p; u_rawpath := rp; u_forcequery := false;
                       u_rawquery := []; u_omithost := false |}
  | None => {| u_scheme := scheme; u_host := host; u_path := bp; u_rawpath := []; u_forcequery := false;
               u_rawquery := []; u_omithost := false |}
  end.

(* a context path as text: /seg1/seg2.../segn, optionally followed by one more slash *)
Definition render_ctx (segs : list bytes) (trailing : bool) : bytes :=
  concat (map (cons c_slash) segs) ++ (if trailing then [c_slash] else []).

(* ---- the specification of the context, independent of the code's string surgery:
   drop one trailing slash, split into segments, cut the path at the LAST segment that is the root resource name
   (this removes a final "/root" as well as a "/root/..." tail) *)
Definition strip_trailing_slash (p : bytes) : bytes :=
  match rev p with
  | c :: r => if Byte.eqb c c_slash then rev r else p
  | [] => p
  end.

Fixpoint cut_last_root (root : bytes) (l : list bytes) : option (list bytes) :=
  match l with
  | [] => None
  | s :: t =>
      match cut_last_root root t with
      | Some p => Some (s :: p)
      | None => if bytes_eqb s root then Some [] else None
      end
  end.

Definition context (bp root : bytes) : bytes :=
  let l := split_on c_slash (strip_trailing_slash bp) in
  join_with [c_slash] (match cut_last_root root l with Some p => p | None => l end).

(* ---- the grammar premises (boolean, so that the harness evaluates the same predicates) *)
Definition pct_ok (s : bytes) : bool := match unescape s with Some _ => true | None => false end.
Definition no_slash (s : bytes) : bool := negb (mem_byte c_slash s).

Definition seg_ok (s : bytes) : bool := negb (null s) && valid_encoded s && no_slash s && pct_ok s.

Definition scheme_tail_byte (c : byte) : bool := is_lower c || is_digit c || mem_byte c scheme_punct.
Definition scheme_ok (s : bytes) : bool :=
  match s with [] => true | c :: r => is_lower c && forallb scheme_tail_byte r end.

(* reg-name bytes (letters, digits, - . _ ~), optionally followed by a non-empty decimal port *)
Definition hostname_byte (c : byte) : bool := is_alnum c || mem_byte c path_unreserved_extra.
Definition host_ok (h : bytes) : bool :=
  let (name, port) := cut_byte c_colon h in
  negb (null name) && forallb hostname_byte name
  && match port with None => true | Some d => negb (null d) && forallb is_digit d end.

Definition root_ok (root : bytes) : bool := negb (null root) && no_slash root.

(* the root name is a complete segment at most in the last position *)
Definition root_only_final (root : bytes) (segs : list bytes) : bool :=
  forallb (fun s => negb (bytes_eqb s root)) (removelast segs).

Definition in_grammar (scheme host : bytes) (segs : list bytes) (root : bytes) : bool :=
  scheme_ok scheme && (null host || host_ok host) && forallb seg_ok segs && root_ok root && root_only_final root segs.

(* what the path encoder hands over: "/root" followed by nothing or by "/...", made of bytes Go's validEncoded accepts,
   with well-formed %XX triplets.  Proofs/UrlProofs.v shows that the output alphabet of the ROR2 path writer
   (Gen/TablesUrl.v + the structural bytes it emits) satisfies [valid_encoded]. *)
Definition path_has_root (root rpath : bytes) : bool :=
  has_prefix (c_slash :: root) rpath
  && match skipn (S (length root)) rpath with [] => true | c :: _ => Byte.eqb c c_slash end.

Definition valid_path (root rpath : bytes) : bool := path_has_root root rpath && valid_encoded rpath && pct_ok rpath.

(* what the query encoder hands over: no control byte and no '#' *)
Definition query_byte_ok (c : byte) : bool := negb (is_ctl c) && negb (Byte.eqb c c_hash).
Definition valid_query (q : option bytes) : bool := match q with Some s => forallb query_byte_ok s | None => true end.

Definition raw_query_of (q : option bytes) : bytes := match q with Some s => s | None => [] end.
Definition force_query_of (q : option bytes) : bool := match q with Some [] => true | _ => false end.

(* the request is tunnelled: the threshold test of the module generation holds of the length of the encoder's query *)
Definition tunnels (v2 : bool) (threshold : Z) (q : option bytes) : bool :=
  tunnel_test v2 threshold (Z.of_nat (length (raw_query_of q))).
