(* RouterHeap: a heap-level model of the mutable routing tree, of registration (subNode) and of Handler()/clone(),
   in which ALIASING IS EXPRESSIBLE: nodes live at locations, a node's subNodes map holds locations.  It exists to
   justify the persistent-value model of Http/Router.v ([run_ops], [handler_of]) by a refinement proof
   (Proofs/RouterHeapProofs.v): because clone() copies every node it reaches, the handler's nodes are disjoint from the
   live tree's, so registrations made afterwards (which mutate live nodes in place) cannot show through.
   With a shallow clone() (sub nodes shared) the refinement statement is false.  No proofs here. *)
From Coq Require Import List Bool Arith NArith Lia.
From Coq.Strings Require Import Byte.
From GR Require Import Base.Bytes Gen.TablesRouter Http.Router.
Import ListNotations.

Definition loc := nat.

(* handler.go:30-37 pathNode; the three handler maps are owned by the node (clone() copies them with copyMap), the
   subNodes map holds pointers *)
Record hnode := {
  h_name : bytes; h_coll : bool;
  h_methods : list method; h_finders : list bytes; h_actions : list bytes;
  h_subs : list (bytes * loc)
}.

Definition heap := list hnode.

Definition h_dummy : hnode :=
  {| h_name := []; h_coll := false; h_methods := []; h_finders := []; h_actions := []; h_subs := [] |}.

Definition hget (h : heap) (l : loc) : hnode := nth l h h_dummy.

(* *p = n (l is allocated) *)
Definition hset (h : heap) (l : loc) (n : hnode) : heap := firstn l h ++ n :: skipn (S l) h.

Definition h_with_subs (n : hnode) (ss : list (bytes * loc)) : hnode :=
  {| h_name := h_name n; h_coll := h_coll n; h_methods := h_methods n; h_finders := h_finders n;
     h_actions := h_actions n; h_subs := ss |}.

Fixpoint assoc_loc (k : bytes) (l : list (bytes * loc)) : option loc :=
  match l with
  | [] => None
  | (k', v) :: r => if bytes_eqb k' k then Some v else assoc_loc k r
  end.

(* handler.go:411-420 newSubNode *)
Definition h_new (nm : bytes) (c : bool) : hnode :=
  {| h_name := nm; h_coll := c; h_methods := []; h_finders := []; h_actions := []; h_subs := [] |}.

(* handler.go:475-490 subNode(segments): walks from l, allocating the missing nodes (at the end of the heap) and linking
   them into their parent's map IN PLACE.  None = log.Panicf (inconsistent isCollection). *)
Fixpoint h_subnode (h : heap) (l : loc) (segs : list segment) : option (heap * loc) :=
  match segs with
  | [] => Some (h, l)
  | (nm, c) :: rest =>
      let n := hget h l in
      match assoc_loc nm (h_subs n) with
      | Some l' => if Bool.eqb (h_coll (hget h l')) c then h_subnode h l' rest else None
      | None =>
          let l' := length h in
          let h1 := hset h l (h_with_subs n (h_subs n ++ [(nm, l')])) ++ [h_new nm c] in
          h_subnode h1 l' rest
      end
  end.

(* handler.go:513-516 etc.: p.methods[method] = ... on the node subNode returned; registering twice panics *)
Definition h_add_what (n : hnode) (w : reg_what) : option hnode :=
  match w with
  | RMethod m => if mem_method m (h_methods n) then None else
      Some {| h_name := h_name n; h_coll := h_coll n; h_methods := h_methods n ++ [m]; h_finders := h_finders n;
              h_actions := h_actions n; h_subs := h_subs n |}
  | RFinder f => if mem_bytes f (h_finders n) then None else
      Some {| h_name := h_name n; h_coll := h_coll n; h_methods := h_methods n; h_finders := h_finders n ++ [f];
              h_actions := h_actions n; h_subs := h_subs n |}
  | RAction f => if mem_bytes f (h_actions n) then None else
      Some {| h_name := h_name n; h_coll := h_coll n; h_methods := h_methods n; h_finders := h_finders n;
              h_actions := h_actions n ++ [f]; h_subs := h_subs n |}
  end.

Definition h_register (h : heap) (root : loc) (segs : list segment) (w : reg_what) : option heap :=
  match h_subnode h root segs with
  | Some (h1, l) =>
      match h_add_what (hget h1 l) w with
      | Some n' => Some (hset h1 l n')
      | None => None
      end
  | None => None
  end.

(* handler.go:47-64 clone() with copyCloneableMap: every sub node is cloned first, then the copy of this node (with the
   new sub locations and its own copies of the handler maps) is allocated.  Returns the new heap and the location of the
   copy.  Fuel bounds the depth (never exhausted on a tree with fuel = length of the heap). *)
Fixpoint h_clone (fuel : nat) (h : heap) (l : loc) : heap * loc :=
  match fuel with
  | O => (h, l)
  | S f =>
      let n := hget h l in
      let '(h1, ss) :=
        fold_left (fun (acc : heap * list (bytes * loc)) (e : bytes * loc) =>
                     let '(hc, done) := acc in
                     let '(h2, l2) := h_clone f hc (snd e) in
                     (h2, done ++ [(fst e, l2)]))
                  (h_subs n) (h, []) in
      (h1 ++ [h_with_subs n ss], length h1)
  end.

(* the tree a location denotes (fuel bounds the depth) *)
Fixpoint reify (fuel : nat) (h : heap) (l : loc) : node :=
  match fuel with
  | O => Node [] false [] [] [] []
  | S f =>
      let n := hget h l in
      Node (h_name n) (h_coll n) (h_methods n) (h_finders n) (h_actions n)
           (map (fun e => reify f h (snd e)) (h_subs n))
  end.

(* the live server (its root pathNode; the root's own subNodes are the root resources) and the handlers obtained *)
Record hworld := { hw_heap : heap; hw_prefix : bytes; hw_root : loc; hw_handlers : list loc }.

(* handler.go:66-76 Handler(): a copy of the root pathNode, then clone() *)
Definition hstep (w : hworld) (o : op) : option hworld :=
  match o with
  | OpRegister segs what =>
      match h_register (hw_heap w) (hw_root w) segs what with
      | Some h' => Some {| hw_heap := h'; hw_prefix := hw_prefix w; hw_root := hw_root w; hw_handlers := hw_handlers w |}
      | None => None
      end
  | OpHandler =>
      let '(h', l') := h_clone (length (hw_heap w)) (hw_heap w) (hw_root w) in
      Some {| hw_heap := h'; hw_prefix := hw_prefix w; hw_root := hw_root w; hw_handlers := hw_handlers w ++ [l'] |}
  end.

Fixpoint hrun (ops : list op) (w : hworld) : option hworld :=
  match ops with
  | [] => Some w
  | o :: r => match hstep w o with Some w' => hrun r w' | None => None end
  end.

(* handler.go:437-457 NewPrefixedServer: one root pathNode *)
Definition new_hworld (prefix_arg : bytes) : hworld :=
  {| hw_heap := [h_new [] false]; hw_prefix := normalize_prefix prefix_arg; hw_root := 0; hw_handlers := [] |}.

(* abstraction to the persistent-value model *)
Definition roots_at (h : heap) (l : loc) : list node := n_subs (reify (S (length h)) h l).
Definition abs (w : hworld) : world :=
  {| w_server := {| s_prefix := hw_prefix w; s_roots := roots_at (hw_heap w) (hw_root w) |};
     w_handlers := map (fun l => {| s_prefix := hw_prefix w; s_roots := roots_at (hw_heap w) l |}) (hw_handlers w) |}.
