(* UrlModel: a hand-written model of the parts of Go's net/url (go1.23, $GOROOT/src/net/url/url.go) and of
   net/http.NewRequestWithContext that request URL construction uses.  MODELLED, NOT VERIFIED: validated by the C15
   correspondence stream only.  Not modelled (the functions answer [UErr EUnmodelled], never a guess): userinfo (an at sign in
   the authority), IP-literal hosts (bracketed), %-escapes in hosts, opaque URLs, non-empty fragments.
   No definition matches on byte constructors: bytes are classified through [bn] (= Byte.to_N) and [Byte.eqb]. *)
From Coq Require Import List Bool Arith NArith Lia.
From Coq.Strings Require Import Byte.
From GR Require Import Base.Bytes.
Import ListNotations.
Local Open Scope N_scope.

(* ---- byte classes *)
Definition in_range (lo hi : N) (c : byte) : bool := (lo <=? bn c) && (bn c <=? hi).
Definition is_lower (c : byte) := in_range 97 122 c.
Definition is_upper (c : byte) := in_range 65 90 c.
Definition is_digit (c : byte) := in_range 48 57 c.
Definition is_alpha (c : byte) := is_lower c || is_upper c.
Definition is_alnum (c : byte) := is_alpha c || is_digit c.

Definition c_slash : byte := x2f.   (* / *)
Definition c_qmark : byte := x3f.   (* ? *)
Definition c_hash : byte := x23.    (* # *)
Definition c_pct : byte := x25.     (* % *)
Definition c_colon : byte := x3a.   (* : *)
Definition c_at : byte := x40.      (* @ *)
Definition c_lbrack : byte := x5b.  (* [ *)
Definition c_star : byte := x2a.    (* * *)

(* url.go:49 ishex, :61 unhex *)
Definition ishex (c : byte) : bool := is_digit c || in_range 97 102 c || in_range 65 70 c.
Definition unhex (c : byte) : N :=
  if is_digit c then bn c - 48
  else if in_range 97 102 c then bn c - 97 + 10
  else if in_range 65 70 c then bn c - 65 + 10
  else 0.

(* url.go:102 shouldEscape(c, encodePath): alnum and -_.~ never; of the reserved set only the question mark; everything else *)
Definition path_unreserved_extra : bytes := [x2d; x5f; x2e; x7e].                        (* - _ . ~ *)
Definition path_reserved_allowed : bytes := [x24; x26; x2b; x2c; x2f; x3a; x3b; x3d; x40]. (* $ & + , / : ; = @ *)
Definition should_escape_path (c : byte) : bool :=
  negb (is_alnum c || mem_byte c path_unreserved_extra || mem_byte c path_reserved_allowed).

(* url.go:102 shouldEscape(c, encodeHost) *)
Definition host_allowed : bytes :=                                                       (* sub-delims, colon, brackets, angle brackets, double quote, and - _ . ~ *)
  [x21; x24; x26; x27; x28; x29; x2a; x2b; x2c; x3b; x3d; x3a; x5b; x5d; x3c; x3e; x22; x2d; x5f; x2e; x7e].
Definition should_escape_host (c : byte) : bool := negb (is_alnum c || mem_byte c host_allowed).

(* url.go:734 validEncoded(s, encodePath), per byte *)
Definition valid_encoded_extra : bytes :=                                                (* sub-delims, colon, at, brackets, percent *)
  [x21; x24; x26; x27; x28; x29; x2a; x2b; x2c; x3b; x3d; x3a; x40; x5b; x5d; x25].
Definition valid_encoded_byte (c : byte) : bool := mem_byte c valid_encoded_extra || negb (should_escape_path c).
Definition valid_encoded (s : bytes) : bool := forallb valid_encoded_byte s.

(* url.go:201 unescape(s, encodePath | encodePathSegment): the two modes do not differ; None = EscapeError *)
Definition hexval (h1 h2 : byte) : byte := nb (unhex h1 * 16 + unhex h2).
Fixpoint unescape (s : bytes) : option bytes :=
  match s with
  | [] => Some []
  | c :: t =>
      if Byte.eqb c c_pct then
        match t with
        | h1 :: h2 :: r => if ishex h1 && ishex h2 then option_map (cons (hexval h1 h2)) (unescape r) else None
        | _ => None
        end
      else option_map (cons c) (unescape t)
  end.

(* url.go:286 escape(s, encodePath) with upperhex *)
Definition upperhex_tab : bytes := [x30; x31; x32; x33; x34; x35; x36; x37; x38; x39; x41; x42; x43; x44; x45; x46].
Definition upperhex (n : N) : byte := nth (N.to_nat n) upperhex_tab x30.
Definition escape_path (s : bytes) : bytes :=
  flat_map (fun c => if should_escape_path c then [c_pct; upperhex (bn c / 16); upperhex (bn c mod 16)] else [c]) s.

(* ---- the URL struct (User, Opaque, Fragment are always nil / "" in the modelled subset) *)
Record URL := { u_scheme : bytes; u_host : bytes; u_path : bytes; u_rawpath : bytes;
                u_forcequery : bool; u_rawquery : bytes; u_omithost : bool }.

Inductive uerr := EEscape | ECtl | EMissingScheme | EColonSegment | EInvalidPort | EInvalidHost | EUnmodelled.
Inductive ures (A : Type) := UOk (a : A) | UErr (e : uerr).
Arguments UOk {A} a.
Arguments UErr {A} e.

Definition opt_bytes_eqb (a : option bytes) (b : bytes) : bool :=
  match a with Some x => bytes_eqb x b | None => false end.

Definition null (s : bytes) : bool := match s with [] => true | _ => false end.

(* url.go:718 EscapedPath *)
Definition escaped_path (u : URL) : bytes :=
  if negb (null (u_rawpath u)) && valid_encoded (u_rawpath u) && opt_bytes_eqb (unescape (u_rawpath u)) (u_path u)
  then u_rawpath u
  else if bytes_eqb (u_path u) [c_star] then [c_star]
  else escape_path (u_path u).

(* url.go:691 setPath: (Path, RawPath) *)
Definition set_path (p : bytes) : option (bytes * bytes) :=
  match unescape p with
  | None => None
  | Some path => Some (path, if bytes_eqb p (escape_path path) then [] else p)
  end.

(* ---- strings helpers *)
Definition trim_prefix (pre s : bytes) : bytes := if has_prefix pre s then skipn (length pre) s else s.
Definition trim_suffix (suf s : bytes) : bytes := if has_suffix suf s then firstn (length s - length suf) s else s.

Fixpoint count_byte (c : byte) (s : bytes) : nat :=
  match s with [] => 0%nat | x :: r => ((if Byte.eqb x c then 1 else 0) + count_byte c r)%nat end.

(* strings.Cut(s, string(c)) *)
Fixpoint cut_byte (c : byte) (s : bytes) : bytes * option bytes :=
  match s with
  | [] => ([], None)
  | x :: r => if Byte.eqb x c then ([], Some r) else let (a, b) := cut_byte c r in (x :: a, b)
  end.

(* strings.LastIndex(s, sub) (None = -1) *)
Fixpoint last_index (sub s : bytes) : option nat :=
  match s with
  | [] => if null sub then Some 0%nat else None
  | _ :: t =>
      match last_index sub t with
      | Some i => Some (S i)
      | None => if has_prefix sub s then Some 0%nat else None
      end
  end.

(* url.go:1290 stringContainsCTLByte *)
Definition is_ctl (c : byte) : bool := (bn c <? 32) || (bn c =? 127).
Definition contains_ctl (s : bytes) : bool := existsb is_ctl s.

(* url.go:444 getScheme *)
Inductive gs_result := GsNone | GsErr | GsSome (scheme rest : bytes).
Definition scheme_punct : bytes := [x2b; x2d; x2e].  (* + - . *)
Fixpoint get_scheme_from (first : bool) (pre s : bytes) : gs_result :=
  match s with
  | [] => GsNone
  | c :: t =>
      if is_alpha c then get_scheme_from false (pre ++ [c]) t
      else if is_digit c || mem_byte c scheme_punct then (if first then GsNone else get_scheme_from false (pre ++ [c]) t)
      else if Byte.eqb c c_colon then (if first then GsErr else GsSome pre t)
      else GsNone
  end.
Definition get_scheme (s : bytes) : gs_result := get_scheme_from true [] s.

(* strings.ToLower on ASCII *)
Definition to_lower_byte (c : byte) : byte := if is_upper c then nb (bn c + 32) else c.
Definition to_lower (s : bytes) : bytes := map to_lower_byte s.

(* url.go:793 validOptionalPort *)
Definition valid_optional_port (p : bytes) : bool :=
  match p with
  | [] => true
  | c :: r => Byte.eqb c c_colon && forallb is_digit r
  end.

(* url.go:624 parseHost for hosts that are not IP literals and hold no %-escape *)
Definition parse_host (h : bytes) : ures bytes :=
  if has_prefix [c_lbrack] h then UErr EUnmodelled
  else
    let port_ok := match last_index [c_colon] h with
                   | Some i => valid_optional_port (skipn i h)
                   | None => true
                   end in
    if negb port_ok then UErr EInvalidPort
    else if mem_byte c_pct h then UErr EUnmodelled
    else if existsb (fun c => (bn c <? 128) && should_escape_host c) h then UErr EInvalidHost
    else UOk h.

(* url.go:587 parseAuthority without userinfo *)
Definition parse_authority (a : bytes) : ures bytes :=
  if mem_byte c_at a then UErr EUnmodelled else parse_host a.

(* url.go:540-545: the ForceQuery / RawQuery split *)
Definition split_query (rest : bytes) : bytes * bytes * bool :=
  if has_suffix [c_qmark] rest && Nat.eqb (count_byte c_qmark rest) 1
  then (firstn (length rest - 1) rest, [], true)
  else let (a, b) := cut_byte c_qmark rest in (a, match b with Some q => q | None => [] end, false).

(* url.go:507 parse(rawURL, viaRequest = false), the part after the scheme has been split off (:538-583) *)
Definition parse_rest (scheme rest0 : bytes) : ures URL :=
  let '(rest, rawquery, force) := split_query rest0 in
  if negb (has_prefix [c_slash] rest) && negb (null scheme) then UErr EUnmodelled (* opaque *)
  else if negb (has_prefix [c_slash] rest) && mem_byte c_colon (fst (cut_byte c_slash rest)) then UErr EColonSegment
  else
    let with_authority := (negb (null scheme) || negb (has_prefix [c_slash; c_slash; c_slash] rest))
                          && has_prefix [c_slash; c_slash] rest in
    let authority := fst (cut_byte c_slash (skipn 2 rest)) in
    let rest' := if with_authority then skipn (2 + length authority) rest else rest in
    match (if with_authority then parse_authority authority else UOk []) with
    | UErr e => UErr e
    | UOk host =>
        match set_path rest' with
        | None => UErr EEscape
        | Some (path, rawpath) =>
            UOk {| u_scheme := scheme; u_host := host; u_path := path; u_rawpath := rawpath;
                   u_forcequery := force; u_rawquery := rawquery;
                   u_omithost := negb with_authority && negb (null scheme) && has_prefix [c_slash] rest |}
        end
    end.

(* url.go:507 parse(rawURL, viaRequest = false) *)
Definition parse_nofrag (raw : bytes) : ures URL :=
  if contains_ctl raw then UErr ECtl
  else if bytes_eqb raw [c_star] then
    UOk {| u_scheme := []; u_host := []; u_path := [c_star]; u_rawpath := []; u_forcequery := false; u_rawquery := [];
           u_omithost := false |}
  else
    match get_scheme raw with
    | GsErr => UErr EMissingScheme
    | GsNone => parse_rest [] raw
    | GsSome s r => parse_rest (to_lower s) r
    end.

(* url.go:474 Parse: cut off #frag; a non-empty fragment is outside the modelled subset *)
Definition parse (raw : bytes) : ures URL :=
  let (u, frag) := cut_byte c_hash raw in
  match frag with
  | Some (_ :: _) => UErr EUnmodelled
  | _ => parse_nofrag u
  end.

(* url.go:829 String (User = nil, Opaque = "", Fragment = ""); a host that escape(h, encodeHost) would change is
   outside the modelled subset *)
Definition url_string (u : URL) : ures bytes :=
  if existsb should_escape_host (u_host u) then UErr EUnmodelled
  else
    let sch := if null (u_scheme u) then [] else u_scheme u ++ [c_colon] in
    let auth :=
      if negb (null (u_scheme u)) || negb (null (u_host u)) then
        if u_omithost u && null (u_host u) then []
        else (if negb (null (u_host u)) || negb (null (u_path u)) then [c_slash; c_slash] else []) ++ u_host u
      else [] in
    let path := escaped_path u in
    let sep := if negb (null path) && negb (has_prefix [c_slash] path) && negb (null (u_host u)) then [c_slash] else [] in
    let dot := if null (sch ++ auth ++ sep) && mem_byte c_colon (fst (cut_byte c_slash path)) then [x2e; c_slash] else [] in
    let q := if u_forcequery u || negb (null (u_rawquery u)) then c_qmark :: u_rawquery u else [] in
    UOk (sch ++ auth ++ sep ++ dot ++ path ++ q).

(* url.go:1165 RequestURI (Opaque = "") *)
Definition request_uri (u : URL) : bytes :=
  (if null (escaped_path u) then [c_slash] else escaped_path u)
  ++ (if u_forcequery u || negb (null (u_rawquery u)) then c_qmark :: u_rawquery u else []).

(* net/http/http.go removeEmptyPort (hosts without ']') as applied by NewRequestWithContext (request.go:920) *)
Definition remove_empty_port (h : bytes) : bytes := if mem_byte c_colon h then trim_suffix [c_colon] h else h.

(* net/http/request.go:911-920: the URL of the request built from the string *)
Definition request_url_of_string (s : bytes) : ures URL :=
  match parse s with
  | UErr e => UErr e
  | UOk u => UOk {| u_scheme := u_scheme u; u_host := remove_empty_port (u_host u); u_path := u_path u;
                    u_rawpath := u_rawpath u; u_forcequery := u_forcequery u; u_rawquery := u_rawquery u;
                    u_omithost := u_omithost u |}
  end.
