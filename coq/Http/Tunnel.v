(* Tunnel: query tunnelling (v2/restli/tunnelling.go; restli/tunnelling.go of the root module is the same code), the
   threshold test of newRequest (http.go:191) and the de-tunnelling step of the server (handler.go:97-101).
   mime/multipart and mime.FormatMediaType/ParseMediaType are external: their framing is MODELLED BY HAND, NOT VERIFIED
   (CRLF line mode only; no header continuation lines, no Content-Transfer-Encoding, one Content-Type parameter), and
   validated by the C14 correspondence stream.  The boundary is an input: the real one is 30 random bytes in lower-case
   hex (multipart.randomBoundary); theorems take "the boundary does not occur in query or body" as a premise.
   No proofs here; no definition matches on byte constructors. *)
From Coq Require Import List Bool Arith NArith ZArith Lia.
From Coq.Strings Require Import Byte.
From GR Require Import Base.Bytes Gen.TablesTunnel Http.UrlModel.
Import ListNotations.

Definition c_cr : byte := x0d.
Definition c_lf : byte := x0a.
Definition c_dash : byte := x2d.
Definition c_sp : byte := x20.
Definition c_tab : byte := x09.
Definition c_semi : byte := x3b.
Definition c_eq : byte := x3d.
Definition c_dq : byte := x22.
Definition crlf : bytes := [c_cr; c_lf].

Definition header := (bytes * bytes)%type.

(* what is on the wire / what the server's *http.Request holds before de-tunnelling *)
Record wire := { w_method : bytes; w_path : bytes; w_rawquery : bytes; w_ct : option bytes; w_override : option bytes;
                 w_other : list header; w_body : bytes }.

(* the *http.Request after DecodeTunnelledQuery; d_body = None is a nil Body *)
Record decoded := { d_method : bytes; d_path : bytes; d_rawquery : bytes; d_uri : bytes; d_ct : option bytes;
                    d_override : option bytes; d_other : list header; d_body : option bytes }.

Inductive dres := DOk (d : decoded) | DErr.   (* DErr: DecodeTunnelledQuery returns an error -> 400, handler.go:98-100 *)

(* ---- mime.FormatMediaType / ParseMediaType, for the shapes that occur *)
Definition is_lhex (c : byte) : bool := is_digit c || in_range 97 102 c.
Definition boundary_ok (b : bytes) : bool := negb (null b) && forallb is_lhex b.

(* tunnelling.go:31: mime.FormatMediaType("multipart/mixed", {"boundary": b}) for a token boundary *)
Definition boundary_param : bytes := multipart_boundary_param ++ [c_eq].
Definition format_multipart_ct (b : bytes) : bytes := multipart_mixed_content_type ++ [c_semi; c_sp] ++ boundary_param ++ b.

Fixpoint trim_left (s : bytes) : bytes :=
  match s with c :: t => if Byte.eqb c c_sp || Byte.eqb c c_tab then trim_left t else s | [] => [] end.
Definition trim_space (s : bytes) : bytes := rev (trim_left (rev (trim_left s))).
Definition unquote (s : bytes) : bytes :=
  match s with
  | c :: t => if Byte.eqb c c_dq then (match rev t with c' :: r => if Byte.eqb c' c_dq then rev r else s | [] => s end) else s
  | [] => []
  end.

(* mime.ParseMediaType: lower-cased media type and the boundary parameter (first parameter only) *)
Definition parse_media_type (v : bytes) : bytes * option bytes :=
  let (mt, rest) := cut_byte c_semi v in
  (to_lower (trim_space mt),
   match rest with
   | None => None
   | Some r => let r' := trim_left r in
               if has_prefix boundary_param (to_lower (firstn (length boundary_param) r'))
               then Some (unquote (trim_space (skipn (length boundary_param) r'))) else None
   end).

(* ---- EncodeTunnelledQuery, tunnelling.go:13-40 *)
Definition part_bytes (b : bytes) (ct body : bytes) : bytes :=
  [c_dash; c_dash] ++ b ++ crlf ++ content_type_header ++ [c_colon; c_sp] ++ ct ++ crlf ++ crlf ++ body ++ crlf.
Definition closing_bytes (b : bytes) : bytes := [c_dash; c_dash] ++ b ++ [c_dash; c_dash] ++ crlf.

(* multipart.Writer: CreatePart x n, Close *)
Definition render_parts (b : bytes) (ps : list (bytes * bytes)) : bytes :=
  concat (map (fun p => part_bytes b (fst p) (snd p)) ps) ++ closing_bytes b.

(* body = None: nil slice; Some []: empty non-nil slice; both have len(body) == 0 (:17) *)
Definition encode_tunnelled_query (b : bytes) (query : bytes) (body : option bytes) : bytes * bytes :=
  match body with
  | Some (c :: r) =>
      (render_parts b [(form_urlencoded_content_type, query); (application_json_content_type, c :: r)],
       format_multipart_ct b)                                                           (* :18-33 *)
  | _ => (query, form_urlencoded_content_type)                                          (* :35-36 *)
  end.

(* ---- the client, http.go:176-199 *)
Definition http_post : bytes := [x50; x4f; x53; x54].

(* http.go:191, transcribed by the translator into Gen/TablesTunnel.v *)
Definition tunnelled (threshold : Z) (query : bytes) : bool := tunnel_condition threshold (Z.of_nat (length query)).

Definition client_request (b : bytes) (threshold : Z) (verb path query : bytes) (body : option bytes)
           (other : list header) : wire :=
  let ct0 := match body with Some _ => Some application_json_content_type | None => None end in   (* :186-189 *)
  if tunnelled threshold query then
    let (nb, tct) := encode_tunnelled_query b query body in                                        (* :193 *)
    {| w_method := http_post; w_path := path; w_rawquery := []; w_ct := Some tct; w_override := Some verb;
       w_other := other; w_body := nb |}                                                           (* :194-198 *)
  else
    {| w_method := verb; w_path := path; w_rawquery := query; w_ct := ct0; w_override := None; w_other := other;
       w_body := match body with Some x => x | None => [] end |}.

(* ---- mime/multipart.Reader (CRLF mode) *)
Fixpoint read_line (s : bytes) : bytes * bytes * bool :=          (* line incl. LF, rest, found LF *)
  match s with
  | [] => ([], [], false)
  | c :: t => if Byte.eqb c c_lf then ([c], t, true) else let '(l, r, f) := read_line t in (c :: l, r, f)
  end.

Definition dash_boundary (b : bytes) : bytes := [c_dash; c_dash] ++ b.
Definition nl_dash_boundary (b : bytes) : bytes := crlf ++ dash_boundary b.

(* multipart.go isBoundaryDelimiterLine / isFinalBoundary *)
Definition is_delim_line (b line : bytes) : bool :=
  has_prefix (dash_boundary b) line && bytes_eqb (trim_left (skipn (length (dash_boundary b)) line)) crlf.
Definition is_final_line (b line : bytes) : bool :=
  has_prefix (dash_boundary b ++ [c_dash; c_dash]) line
  && (let r := trim_left (skipn (length (dash_boundary b) + 2) line) in null r || bytes_eqb r crlf).

(* multipart.go matchAfterPrefix at the position after the prefix; the whole message is buffered, so "need more data"
   never arises: end of data counts as a match *)
Definition match_after (rest : bytes) : bool :=
  match rest with
  | [] => true
  | c :: r => Byte.eqb c c_sp || Byte.eqb c c_tab || Byte.eqb c c_cr || Byte.eqb c c_lf
              || (Byte.eqb c c_dash && match r with c2 :: _ => Byte.eqb c2 c_dash | [] => false end)
  end.

(* scanUntilBoundary: the part body ends where "\r\n--boundary" followed by a terminator starts *)
Fixpoint scan_nl (nlb : bytes) (data : bytes) : option (bytes * bytes) :=
  match data with
  | [] => None                                                       (* io.ErrUnexpectedEOF *)
  | c :: t =>
      if has_prefix nlb data && match_after (skipn (length nlb) data) then Some ([], data)
      else match scan_nl nlb t with Some (body, rest) => Some (c :: body, rest) | None => None end
  end.
Definition scan_body (b : bytes) (data : bytes) : option (bytes * bytes) :=
  if has_prefix (dash_boundary b) data && match_after (skipn (length (dash_boundary b)) data)
  then Some ([], data)                                               (* total == 0: a leading --boundary *)
  else scan_nl (nl_dash_boundary b) data.

(* textproto.ReadMIMEHeader for "Key: value" lines ended by an empty line *)
Definition token_byte (c : byte) : bool := is_alnum c || mem_byte c [x2d; x5f; x2e; x21; x23; x24; x25; x26; x27; x2a; x2b; x5e; x60; x7c; x7e].
Definition strip_eol (line : bytes) : bytes := trim_suffix [c_cr] (trim_suffix [c_lf] line).
Fixpoint read_headers (fuel : nat) (data : bytes) : option (list header * bytes) :=
  match fuel with
  | O => None
  | S f =>
      let '(line, rest, found) := read_line data in
      if negb found then None
      else if null (strip_eol line) then Some ([], rest)
      else
        let (k, v) := cut_byte c_colon (strip_eol line) in
        match v with
        | None => None
        | Some v' =>
            if null k || negb (forallb token_byte k) then None
            else match read_headers f rest with
                 | Some (hs, rest') => Some ((to_lower k, trim_space v') :: hs, rest')
                 | None => None
                 end
        end
  end.

Definition header_get (k : bytes) (hs : list header) : bytes :=
  match find (fun h => bytes_eqb (fst h) (to_lower k)) hs with Some h => snd h | None => [] end.

(* Reader.nextPart: skip to the next delimiter line *)
Inductive nb_result := NbPart (rest : bytes) | NbEnd | NbErr.
Fixpoint next_boundary (fuel : nat) (b : bytes) (parts_read expect : bool) (data : bytes) : nb_result :=
  match fuel with
  | O => NbErr
  | S f =>
      let '(line, rest, found) := read_line data in
      if negb found then (if is_final_line b line then NbEnd else NbErr)
      else if is_delim_line b line then NbPart rest
      else if is_final_line b line then NbEnd
      else if expect then NbErr
      else if negb parts_read then next_boundary f b parts_read expect rest
      else if bytes_eqb line crlf then next_boundary f b parts_read true rest
      else NbErr
  end.

(* all parts as (Content-Type header, body); None: a framing error somewhere *)
Fixpoint read_parts (fuel : nat) (b : bytes) (parts_read : bool) (data : bytes) : option (list (bytes * bytes)) :=
  match fuel with
  | O => None
  | S f =>
      match next_boundary (S (length data)) b parts_read false data with
      | NbErr => None
      | NbEnd => Some []
      | NbPart rest =>
          match read_headers (S (length rest)) rest with
          | None => None
          | Some (hs, rest1) =>
              match scan_body b rest1 with
              | None => None
              | Some (body, rest2) =>
                  match read_parts f b true rest2 with
                  | Some ps => Some ((header_get content_type_header hs, body) :: ps)
                  | None => None
                  end
              end
          end
      end
  end.
Definition parse_multipart (b : bytes) (data : bytes) : option (list (bytes * bytes)) :=
  if null b then None else read_parts (S (length data)) b false data.       (* "multipart: boundary is empty" *)

(* ---- DecodeTunnelledQuery, tunnelling.go:42-119 *)
(* tunnelling.go:83-107: the loop over the parts; state = (RawQuery, Body, Content-Type) *)
Fixpoint decode_parts (ps : list (bytes * bytes)) (q : bytes) (body : option bytes) : option (bytes * option bytes) :=
  match ps with
  | [] => Some (q, body)
  | (ct, data) :: r =>
      if bytes_eqb ct form_urlencoded_content_type then decode_parts r data body            (* :93-95 *)
      else if bytes_eqb ct application_json_content_type then decode_parts r q (Some data)  (* :96-103 *)
      else None                                                                             (* :104-105 *)
  end.

(* URL.RequestURI() for path and raw query (ForceQuery is false on a server request without '?') *)
Definition uri_of (path q : bytes) : bytes := (if null path then [c_slash] else path) ++ (if null q then [] else c_qmark :: q).

Definition opt_nonempty (o : option bytes) : option bytes := match o with Some [] => None | x => x end.

Definition decode_tunnelled_query (r : wire) : dres :=
  let untouched ov :=
    DOk {| d_method := w_method r; d_path := w_path r; d_rawquery := w_rawquery r;
           d_uri := uri_of (w_path r) (w_rawquery r); d_ct := w_ct r; d_override := ov; d_other := w_other r;
           d_body := Some (w_body r) |} in
  match opt_nonempty (w_override r) with                                         (* :52 getAndDeleteHeader *)
  | None => untouched (w_override r)                                             (* :53-55; an empty header value stays *)
  | Some tm =>
      if negb (bytes_eqb (w_method r) http_post) then untouched None             (* :53-55, the header is gone *)
      else if negb (null (w_rawquery r)) then DErr                               (* :58-61 *)
      else
        let (mt, bparam) := parse_media_type (match opt_nonempty (w_ct r) with Some v => v | None => [] end) in  (* :74 *)
        let mk q ct body :=
          DOk {| d_method := tm; d_path := w_path r; d_rawquery := q; d_uri := uri_of (w_path r) q; d_ct := ct;
                 d_override := None; d_other := w_other r; d_body := body |} in
        if bytes_eqb mt form_urlencoded_content_type then mk (w_body r) None (Some [])                  (* :76-80 *)
        else if bytes_eqb mt multipart_mixed_content_type then                                           (* :81 *)
          match parse_multipart (match bparam with Some b => b | None => [] end) (w_body r) with
          | None => DErr                                                                                 (* :88-90 *)
          | Some ps =>
              match decode_parts ps [] None with
              | None => DErr                                                                             (* :104-105 *)
              | Some (q, body) =>
                  if null q then DErr                                                                    (* :108-110 *)
                  else match body with
                       | None => DErr                                                                    (* :112-114 *)
                       | Some data => mk q (Some application_json_content_type) (Some data)              (* :103, :111, :115 *)
                       end
              end
          end
        else DErr                                                                                        (* :116-118: any other / no content type *)
  end.

(* what the server sees for a request that was sent without tunnelling *)
Definition server_view (r : wire) : decoded :=
  {| d_method := w_method r; d_path := w_path r; d_rawquery := w_rawquery r; d_uri := uri_of (w_path r) (w_rawquery r);
     d_ct := w_ct r; d_override := w_override r; d_other := w_other r; d_body := Some (w_body r) |}.

(* handler.go:97-101 then routing: a request reaches routing only when de-tunnelling succeeded *)
Inductive routed := Routed (d : decoded) | Rejected400.
Definition serve (r : wire) : routed := match decode_tunnelled_query r with DOk d => Routed d | DErr => Rejected400 end.
