(* Router: executable model of the server-side routing of go-restli (v2/restli/handler.go; the root module's
   restli/handler.go is the same code with different import names - the translator transcribes both inference statements
   and Proofs/RouterProofs.v proves them equal).  No proofs here.

   What is transcribed by hand (each definition names the Go lines it mirrors) and what is regenerated:
     - Gen/TablesRouter.v (translator): the method table, MethodNameMapping, header / reserved parameter names, the
       with-body / without-body wrapper of each Register*, and [v2_infer], the MECHANICAL transcription of the
       `if p.isCollection {...} else {...}` statement of receive (method inference + entity-presence validation).
     - here: the resource tree and its registration, the path walk of receive, query parsing (ParseQueryParams,
       ValidateRor2Input), the handler lookup, the filter protocol, Handler()/clone(), ServeHTTP's prefix handling,
       AddToMux + net/http.ServeMux matching for the two patterns registered per root resource.

   Go maps are association lists looked up by key (first match); registration keeps keys unique ([reg_in]).
   Mutable state: the model is persistent-value: Handler() returns the VALUE [clone_roots] computes, later registrations
   build a new server value.  That go-restli's clone() shares nothing with the live tree is what the correspondence
   checks (late registrations on the real server must not show through a handler obtained earlier). *)
From Coq Require Import List Bool Arith NArith Lia.
From Coq.Strings Require Import Byte.
From GR Require Import Base.Bytes Gen.TablesRouter.
Import ListNotations.

(* ------------------------------------------------------------------------------------------------ the routing table *)

(* handler.go:30-37 pathNode: ResourcePathSegment{name,isCollection}, methods, finders, actions, subNodes.  A handler is
   identified by where it is registered, so the maps are modelled by their key sets. *)
Inductive node : Type :=
  Node (name : bytes) (coll : bool) (methods : list method) (finders actions : list bytes) (subs : list node).

Definition n_name (n : node) := match n with Node a _ _ _ _ _ => a end.
Definition n_coll (n : node) := match n with Node _ a _ _ _ _ => a end.
Definition n_methods (n : node) := match n with Node _ _ a _ _ _ => a end.
Definition n_finders (n : node) := match n with Node _ _ _ a _ _ => a end.
Definition n_actions (n : node) := match n with Node _ _ _ _ a _ => a end.
Definition n_subs (n : node) := match n with Node _ _ _ _ _ a => a end.

(* p.subNodes[name] *)
Fixpoint find_sub (s : bytes) (l : list node) : option node :=
  match l with
  | [] => None
  | n :: r => if bytes_eqb (n_name n) s then Some n else find_sub s r
  end.

Definition mem_bytes (s : bytes) (l : list bytes) : bool := existsb (bytes_eqb s) l.
Definition mem_method (m : method) (l : list method) : bool := existsb (method_eqb m) l.

Definition segment := (bytes * bool)%type.   (* ResourcePathSegment: name, isCollection *)

(* ------------------------------------------------------------------------------------------------ registration *)

Inductive reg_what := RMethod (m : method) | RFinder (name : bytes) | RAction (name : bytes).

(* handler.go:513-516 / finders.go:79-82 / actions.go:111-114: registering twice panics (None) *)
Definition add_what (n : node) (w : reg_what) : option node :=
  match n, w with
  | Node a c ms fs acs ss, RMethod m => if mem_method m ms then None else Some (Node a c (ms ++ [m]) fs acs ss)
  | Node a c ms fs acs ss, RFinder f => if mem_bytes f fs then None else Some (Node a c ms (fs ++ [f]) acs ss)
  | Node a c ms fs acs ss, RAction f => if mem_bytes f acs then None else Some (Node a c ms fs (acs ++ [f]) ss)
  end.

Definition with_subs (n : node) (ss : list node) : node :=
  match n with Node a c ms fs acs _ => Node a c ms fs acs ss end.

(* subNode.subNodes[s.name] = n' (the key is always the node's own name) *)
Fixpoint put_sub (n' : node) (l : list node) : list node :=
  match l with
  | [] => [n']
  | n :: r => if bytes_eqb (n_name n) (n_name n') then n' :: r else n :: put_sub n' r
  end.

(* handler.go:475-490 subNode(segments) followed by the registration on the node it returns.  None = log.Panicf
   (inconsistent isCollection, or duplicate registration). *)
Fixpoint reg_in (subs : list node) (segs : list segment) (w : reg_what) : option (list node) :=
  match segs with
  | [] => Some subs   (* registration on the root pathNode itself: never consulted by ServeHTTP *)
  | (nm, c) :: rest =>
      let cur := match find_sub nm subs with Some n => n | None => Node nm c [] [] [] [] end in  (* newSubNode, handler.go:411 *)
      if Bool.eqb (n_coll cur) c then
        match rest with
        | [] => match add_what cur w with Some n' => Some (put_sub n' subs) | None => None end
        | _ :: _ => match reg_in (n_subs cur) rest w with
                    | Some ss => Some (put_sub (with_subs cur ss) subs)
                    | None => None
                    end
        end
      else None
  end.

(* ------------------------------------------------------------------------------------------------ requests *)

Record request := {
  r_verb : verb;          (* req.Method after DecodeTunnelledQuery (handler.go:94, tunnelling.go:56) *)
  r_header : bytes;       (* req.Header.Get(MethodHeader): "" when absent *)
  r_path : bytes;         (* req.URL.EscapedPath() *)
  r_query : bytes;        (* req.URL.RawQuery after DecodeTunnelledQuery *)
  r_body : bool           (* a non-empty (JSON object) body is present *)
}.

(* http.go:55-61: MethodNameMapping[h]; a missing key yields the zero value Method_Unknown *)
Fixpoint assoc_method (h : bytes) (l : list (bytes * method)) : method :=
  match l with
  | [] => Method_Unknown
  | (k, m) :: r => if bytes_eqb k h then m else assoc_method h r
  end.
Definition header_method (h : bytes) : method := assoc_method h method_name_mapping.

(* restlicodec/ror2_reader.go:38-54 ValidateRor2Input: only a ')' without a matching '(' is rejected *)
Fixpoint valid_ror2_from (parens : nat) (s : bytes) : bool :=
  match s with
  | [] => true
  | c :: r =>
      if Byte.eqb c x28 then valid_ror2_from (S parens) r
      else if Byte.eqb c x29 then match parens with O => false | S p => valid_ror2_from p r end
      else valid_ror2_from parens r
  end.
Definition valid_ror2 (s : bytes) : bool := valid_ror2_from 0 s.

(* strings.Cut(s, string(c)) *)
Definition cut (c : byte) (s : bytes) : bytes * bytes :=
  match index_byte c s with
  | Some i => (firstn i s, skipn (S i) s)
  | None => (s, [])
  end.

(* restlicodec/query_reader.go:54-80 ParseQueryParams: the map is the list, newest first (a later duplicate overwrites) *)
Fixpoint parse_params (parts : list bytes) (acc : list (bytes * bytes)) : option (list (bytes * bytes)) :=
  match parts with
  | [] => Some acc
  | p :: r =>
      if bytes_eqb p [] then parse_params r acc
      else let (k, v) := cut x3d p in
           if valid_ror2 v then parse_params r ((k, v) :: acc) else None
  end.
Definition parse_query (q : bytes) : option (list (bytes * bytes)) := parse_params (split_on x26 q) [].

Fixpoint assoc (k : bytes) (l : list (bytes * bytes)) : option bytes :=
  match l with
  | [] => None
  | (k', v) :: r => if bytes_eqb k' k then Some v else assoc k r
  end.
Definition param_or_empty (k : bytes) (l : list (bytes * bytes)) : bytes :=
  match assoc k l with Some v => v | None => [] end.
Definition has_param (k : bytes) (l : list (bytes * bytes)) : bool :=
  match assoc k l with Some _ => true | None => false end.

(* ------------------------------------------------------------------------------------------------ routing *)

(* what a routed request is routed to: resource path segments, method, entity segments, finder / action name *)
Definition target := (list segment * method * list bytes * option bytes)%type.

(* Reject status restli: restli = true when the answer is a Rest.li error response (X-RestLi-Error-Response: true),
   false for net/http's plain http.NotFound *)
Inductive route := Dispatch (t : target) | Reject (status : N) (restli : bool).

Definition infer := v2_infer.

(* handler.go:213-324 (the inference statement 230-300 is [infer]) *)
Definition finish (p : node) (ps : list segment) (ks : list bytes) (hasEntity : bool) (req : request) : route :=
  match parse_query (r_query req) with
  | None => Reject 400 true                                                     (* :215-218 *)
  | Some params =>
      let finder := param_or_empty param_finder params in                       (* :220-223 *)
      let action := param_or_empty param_action params in                       (* :225-228 *)
      let hasIds := has_param entity_ids_field params in                        (* :238 *)
      match infer (n_coll p) (r_verb req) (header_method (r_header req)) hasEntity hasIds
                  (negb (bytes_eqb finder [])) (negb (bytes_eqb action [])) with
      | Ret s => Reject s true
      | Cont m =>
          if method_eqb m Method_finder then                                    (* :307-312 *)
            if mem_bytes finder (n_finders p) then Dispatch (ps, m, ks, Some finder) else Reject 400 true
          else if method_eqb m Method_action then                               (* :313-318 *)
            if mem_bytes action (n_actions p) then Dispatch (ps, m, ks, Some action) else Reject 400 true
          else if mem_method m (n_methods p) then Dispatch (ps, m, ks, None)    (* :320-323 *)
          else Reject 400 true
      end
  end.

(* handler.go:182-211 receive: rem = remainingSegments (rem[0] is this node's own name).  Each call consumes at least
   one segment; fuel = number of segments suffices ([RouterProofs.receive_fuel]).  Reject 0 = out of fuel. *)
Fixpoint receive (fuel : nat) (p : node) (ps : list segment) (ks : list bytes) (rem : list bytes) (req : request) : route :=
  match fuel with
  | O => Reject 0 false
  | S f =>
      let ps := ps ++ [(n_name p, n_coll p)] in                                 (* :188 *)
      let descend (hasEntity : bool) (ks : list bytes) (rest : list bytes) :=
        match rest with
        | [] => finish p ps ks hasEntity req
        | s :: _ =>                                                             (* :203-210 *)
            match find_sub s (n_subs p) with
            | Some sub => receive f sub ps ks rest req
            | None => Reject 404 true
            end
        end in
      match rem with
      | [] => finish p ps ks false req                                          (* len(remainingSegments) = 0: not reachable from ServeHTTP *)
      | _ :: r1 =>
          match r1 with
          | k :: r2 =>
              if n_coll p then                                                  (* :191-199 *)
                if valid_ror2 k then descend true (ks ++ [k]) r2 else Reject 400 true
              else descend false ks r1                                          (* :201 *)
          | [] => descend false ks r1
          end
      end
  end.

Record server := { s_prefix : bytes; s_roots : list node }.

(* handler.go:78-109 ServeHTTP up to the call of receive (DecodeTunnelledQuery has already been applied to [req]) *)
Definition route_root (s : server) (req : request) : route :=
  if has_prefix (s_prefix s) (r_path req) then                                  (* :81-84 *)
    let segs := split_on x2f (skipn (length (s_prefix s)) (r_path req)) in      (* :86-88 *)
    match segs with
    | [] => Reject 404 false
    | s0 :: _ =>
        match find_sub s0 (s_roots s) with                                      (* :89-92 *)
        | None => Reject 404 false
        | Some sub => receive (length segs) sub [] [] segs req                  (* :109 *)
        end
    end
  else Reject 404 false.

(* ------------------------------------------------------------------------------------------------ filters and the method *)

(* the three kinds of the property's quantifier plus a filter failing in PostRequest *)
Inductive fkind := FPass | FCtx | FFailPre | FFailPost.

(* seen = indices of the context-adding filters whose value is visible in the context at that point *)
Inductive event := EvPre (i : nat) (seen : list nat) | EvStub (seen : list nat) | EvPost (i : nat) (seen : list nat).

(* handler.go:342-351: PreRequest in registration order, stop at the first error *)
Fixpoint run_pre (fs : list fkind) (i : nat) (seen : list nat) : list event * option (list nat) :=
  match fs with
  | [] => ([], Some seen)
  | f :: r =>
      match f with
      | FFailPre => ([EvPre i seen], None)
      | FCtx => let (ev, res) := run_pre r (S i) (seen ++ [i]) in (EvPre i seen :: ev, res)
      | _ => let (ev, res) := run_pre r (S i) seen in (EvPre i seen :: ev, res)
      end
  end.

Definition indexed {A} (l : list A) : list (nat * A) := combine (seq 0 (length l)) l.

(* handler.go:110-117: PostRequest from the last filter to the first, stop at the first error *)
Fixpoint run_post (rfs : list (nat * fkind)) (seen : list nat) : list event * bool :=
  match rfs with
  | [] => ([], true)
  | (i, f) :: r =>
      match f with
      | FFailPost => ([EvPost i seen], false)
      | _ => let (ev, ok) := run_post r seen in (EvPost i seen :: ev, ok)
      end
  end.

(* what the harness observes.  o_status: 0 stands for "a 2xx status" (which one is C08's subject). *)
Record obs := { o_status : N; o_restli : bool; o_events : list event; o_stub : option target; o_seen : option target }.

(* the wrapper each Register* installs (handler.go:543-590, finders.go:96-98): methods registered through
   registerMethodWithBody need a JSON body, the others and finders refuse one; actions with no parameters ignore it *)
Definition body_ok (m : method) (body : bool) : bool :=
  if mem_method m methods_with_body then body
  else if mem_method m methods_without_body || method_eqb m Method_finder then negb body
  else true.

Definition t_method (t : target) : method := match t with (_, m, _, _) => m end.

(* handler.go:337-353 and 110-137 for a routed request.  stub_fails: the resource method returns an error response
   (status 418 in the harness).  A filter error is a plain error: 500 without the error header. *)
Definition exec (fs : list fkind) (stub_fails body : bool) (t : target) : obs :=
  let (pre, res) := run_pre fs 0 [] in
  match res with
  | None => {| o_status := 500; o_restli := false; o_events := pre; o_stub := None; o_seen := Some t |}
  | Some seen =>
      if negb (body_ok (t_method t) body) then
        {| o_status := 400; o_restli := true; o_events := pre; o_stub := None;
           o_seen := match pre with [] => None | _ => Some t end |}
      else if stub_fails then
        {| o_status := 418; o_restli := true; o_events := pre ++ [EvStub seen]; o_stub := Some t; o_seen := Some t |}
      else
        let (post, ok) := run_post (rev (indexed fs)) seen in
        {| o_status := if ok then 0 else 500; o_restli := false; o_events := pre ++ [EvStub seen] ++ post;
           o_stub := Some t; o_seen := Some t |}
  end.

Definition of_route (fs : list fkind) (stub_fails body : bool) (r : route) : obs :=
  match r with
  | Dispatch t => exec fs stub_fails body t
  | Reject s rl => {| o_status := s; o_restli := rl; o_events := []; o_stub := None; o_seen := None |}
  end.

(* ------------------------------------------------------------------------------------------------ mounting *)

Inductive mount := Bare | Mux.

(* handler.go:492-499 AddToMux: two patterns per root resource; (true, p) is the subtree pattern p (ends with '/') *)
Definition mux_patterns (s : server) : list (bool * bytes) :=
  flat_map (fun n => [(false, s_prefix s ++ n_name n); (true, s_prefix s ++ n_name n ++ [x2f])]) (s_roots s).

(* net/http ServeMux (Go 1.22+) for method-less, host-less patterns made of literal segments: the exact pattern matches
   that path only, the subtree pattern every path it is a prefix of.  (The real mux compares unescaped segments; for a
   percent-escaped spelling of a root name it then reaches the handler, which answers the same plain 404.) *)
Definition pat_match (path : bytes) (p : bool * bytes) : bool :=
  if fst p then has_prefix (snd p) path else bytes_eqb (snd p) path.

Definition dot_seg (s : bytes) : bool := bytes_eqb s [x2e] || bytes_eqb s [x2e; x2e].

Fixpoint clean_segs (l : list bytes) : bool :=
  match l with
  | [] => true
  | [s] => negb (dot_seg s)                              (* the last segment may be empty: a trailing slash is kept *)
  | s :: r => negb (bytes_eqb s []) && negb (dot_seg s) && clean_segs r
  end.

(* net/http server.go cleanPath(p) == p: rooted, no empty / "." / ".." segment (ServeMux answers 301 otherwise) *)
Definition mux_clean (path : bytes) : bool :=
  match path with
  | c :: r => Byte.eqb c x2f && clean_segs (split_on x2f r)
  | [] => false
  end.

Definition route_mount (mt : mount) (s : server) (req : request) : route :=
  match mt with
  | Bare => route_root s req
  | Mux =>
      if mux_clean (r_path req) then
        if existsb (pat_match (r_path req)) (mux_patterns s) then route_root s req
        else Reject 404 false                                                   (* http.NotFoundHandler *)
      else Reject 301 false                                                     (* redirect to the cleaned path *)
  end.

Definition serve (mt : mount) (s : server) (fs : list fkind) (stub_fails : bool) (req : request) : obs :=
  of_route fs stub_fails (r_body req) (route_mount mt s req).

(* ------------------------------------------------------------------------------------------------ Handler() snapshots *)

(* handler.go:55-64 clone(): a new node with copies of the three handler maps and clones of the sub nodes *)
Fixpoint clone_node (n : node) : node :=
  match n with
  | Node a c ms fs acs ss => Node a c (map (fun x => x) ms) (map (fun x => x) fs) (map (fun x => x) acs) (map clone_node ss)
  end.

(* handler.go:66-76 Handler() *)
Definition handler_of (s : server) : server := {| s_prefix := s_prefix s; s_roots := map clone_node (s_roots s) |}.

(* handler.go:437-457 NewPrefixedServer *)
Definition normalize_prefix (p : bytes) : bytes :=
  let p := match p with [] => [x2f] | _ => p end in
  if has_suffix [x2f] p then p else p ++ [x2f].

Inductive op := OpRegister (segs : list segment) (w : reg_what) | OpHandler.

(* the live server and the handlers obtained so far (oldest first) *)
Record world := { w_server : server; w_handlers : list server }.

Definition step (w : world) (o : op) : option world :=
  match o with
  | OpRegister segs what =>
      match reg_in (s_roots (w_server w)) segs what with
      | Some rs => Some {| w_server := {| s_prefix := s_prefix (w_server w); s_roots := rs |}; w_handlers := w_handlers w |}
      | None => None
      end
  | OpHandler => Some {| w_server := w_server w; w_handlers := w_handlers w ++ [handler_of (w_server w)] |}
  end.

Fixpoint run_ops (ops : list op) (w : world) : option world :=
  match ops with
  | [] => Some w
  | o :: r => match step w o with Some w' => run_ops r w' | None => None end
  end.

Definition new_world (prefix_arg : bytes) : world :=
  {| w_server := {| s_prefix := normalize_prefix prefix_arg; s_roots := [] |}; w_handlers := [] |}.
