(* EndToEnd: the composition client -> wire -> router for one call of a generated client method (C02).
     generated ResourcePath()            codegen/resources/resource.go:170-241: RawPathSegment("/name/") + the key written with the
                                         ROR2 path writer, per collection segment
     generated EncodeQueryParams()       codegen/resources/method_utils.go, finder.go, action.go: BuildQueryParams (query_writer.go:42-75:
                                         entries sorted by name, "name=" + ROR2 query flavour), "q" for finders, the constant
                                         "action=<name>" for actions, "ids" for batch requests (batchkeyset/set.go:30-43)
     restli.newRequest                   http.go:142-208: verb, X-RestLi-Method, tunnelling
     server                              Http/Router.v route_root = ServeHTTP + receive on the de-tunnelled request
   Keys and parameter values are documents (Codec/Doc.v): what Codec/Encode.v's [enc] yields for the typed value; their byte
   rendering is Codec/Render.v's [render_ror2] instantiated with the regenerated character tables (Gen/TablesCodec.v).
   Query tunnelling is C14's subject: [tunnel_transparent_end_to_end] says the server's view after DecodeTunnelledQuery is
   that of the untunnelled request, for every threshold; the composition here is stated on that view ([as_served]), the
   bytes actually sent ([on_wire]) are compared with the implementation by the correspondence.
   net/http and net/url are external: that the escaped path the client built is what req.URL.EscapedPath() returns on the
   server is C15's encoder_output_accepted_by_net_url + the correspondence.  No proofs here. *)
From Coq Require Import List Bool Arith NArith ZArith.
From Coq.Strings Require Import Byte.
From GR Require Import Base.Bytes Codec.Doc Codec.Escape Codec.Render Gen.TablesCodec Gen.TablesRouter Http.Router.
Import ListNotations.

Section E2E.
  Variable fmtF : bool -> N -> bytes.   (* strconv float text: an oracle, as in Codec/Render.v *)

  Definition ror2 (fl : flavour) (d : doc) : bytes :=
    render_ror2 fmtF v2_hex_chars v2_unescaped_path_chars v2_unescaped_query_chars v2_header_escaped_chars
                v2_empty_string v2_list_prefix fl d.

  Definition c_slash : byte := x2f.
  Definition c_amp : byte := x26.
  Definition c_eq : byte := x3d.
  Definition c_qm : byte := x3f.

  (* one segment of the resource path: its name and whether it is a collection (carries a key) *)
  Record rseg := { sg_name : bytes; sg_coll : bool }.

  Record call := {
    cl_segs : list rseg;               (* parents first, the resource last *)
    cl_keys : list doc;                (* the path keys, in order; the resource's own key only for entity-level methods *)
    cl_method : method;
    cl_name : option bytes;            (* finder / action name *)
    cl_params : list (bytes * doc);    (* query parameters as written by MarshalFields: declared parameters that are set, paging start / count *)
    cl_ids : option (list doc);        (* batch requests: the keys *)
    cl_has_query : bool                (* a QueryParamsEncoder is passed (then "?" is appended even when it encodes to "") *)
  }.

  (* ---- the path: ResourcePath() *)
  Fixpoint path_segs (segs : list rseg) (keys : list doc) : list bytes :=
    match segs with
    | [] => []
    | s :: r =>
        if sg_coll s then
          match keys with
          | k :: ks => sg_name s :: ror2 FPath k :: path_segs r ks
          | [] => sg_name s :: path_segs r []
          end
        else sg_name s :: path_segs r keys
    end.
  Definition resource_path (c : call) : bytes := c_slash :: join_with [c_slash] (path_segs (cl_segs c) (cl_keys c)).

  (* ---- the query: BuildQueryParams *)
  Fixpoint insert_sorted (x : bytes) (l : list bytes) : list bytes :=
    match l with [] => [x] | y :: r => if bytes_ltb x y then x :: l else y :: insert_sorted x r end.
  Definition sort_bytes (l : list bytes) : list bytes := fold_right insert_sorted [] l.

  (* batchkeyset/set.go:30-43: the keys in the query flavour, sorted as strings, written raw into a List(...) *)
  Definition ids_value (keys : list doc) : bytes :=
    v2_list_prefix ++ join_with [x2c] (sort_bytes (map (ror2 FQuery) keys)) ++ [x29].

  Definition query_entries (c : call) : list (bytes * bytes) :=
    let declared := map (fun kd => (fst kd, ror2 FQuery (snd kd))) (cl_params c) in
    let finder := match cl_method c, cl_name c with
                  | Method_finder, Some n => [(param_finder, ror2 FQuery (DLeaf (LStr n)))]
                  | _, _ => []
                  end in
    let ids := match cl_ids c with Some ks => [(entity_ids_field, ids_value ks)] | None => [] end in
    sort_entries (finder ++ ids ++ declared).

  Definition render_entries (l : list (bytes * bytes)) : bytes :=
    join_with [c_amp] (map (fun kv => fst kv ++ [c_eq] ++ snd kv) l).

  (* actions: restli.QueryParamsString("action=<name>"), action.go:46-52 *)
  Definition client_query (c : call) : bytes :=
    match cl_method c, cl_name c with
    | Method_action, Some n => param_action ++ [c_eq] ++ n
    | _, _ => render_entries (query_entries c)
    end.

  (* ---- the verb: http.go NewGetRequest / NewDeleteRequest / NewCreateRequest / NewJsonRequest call sites *)
  Definition verb_of (m : method) : verb :=
    match m with
    | Method_get | Method_get_all | Method_batch_get | Method_finder => VGet
    | Method_create | Method_batch_create | Method_partial_update | Method_batch_partial_update | Method_action => VPost
    | Method_update | Method_batch_update => VPut
    | Method_delete | Method_batch_delete => VDelete
    | Method_Unknown => VOther
    end.
  Definition has_body (m : method) : bool :=
    match verb_of m with VPost | VPut => true | _ => false end.

  (* ---- what the server routes on: the request after DecodeTunnelledQuery (C14), under a context path *)
  Definition as_served (ctx : bytes) (c : call) : request :=
    {| r_verb := verb_of (cl_method c); r_header := method_name (cl_method c); r_path := ctx ++ resource_path c;
       r_query := client_query c; r_body := has_body (cl_method c) |}.

  (* ---- what is sent: http.go:189-199 *)
  Record sent := { w_verb : verb; w_uri : bytes; w_method_header : bytes; w_override : option verb }.
  Definition tunnels (threshold : Z) (q : bytes) : bool := (0 <? threshold)%Z && (threshold <? Z.of_nat (length q))%Z.
  Definition on_wire (ctx : bytes) (threshold : Z) (c : call) : sent :=
    let q := client_query c in
    let p := ctx ++ resource_path c in
    if tunnels threshold q then
      {| w_verb := VPost; w_uri := p; w_method_header := method_name (cl_method c); w_override := Some (verb_of (cl_method c)) |}
    else
      {| w_verb := verb_of (cl_method c);
         w_uri := if cl_has_query c then p ++ [c_qm] ++ q else p;
         w_method_header := method_name (cl_method c); w_override := None |}.

  (* ---- the target the call is meant for *)
  Definition seg_of (s : rseg) : segment := (sg_name s, sg_coll s).
  Definition call_target (c : call) : target :=
    (map seg_of (cl_segs c), cl_method c, map (ror2 FPath) (cl_keys c),
     match cl_method c with Method_finder | Method_action => cl_name c | _ => None end).

  (* the server side of one string key: the segment is percent-decoded by the ROR2 reader (ror2_reader.go ReadString:
     the empty-string marker, else url.PathUnescape) *)
  Definition read_string_segment (seg : bytes) : option bytes :=
    if bytes_eqb seg v2_empty_string then Some [] else unescape false seg.
End E2E.
