(* UrlEnc: the output alphabets of the ROR2 path writer and of the ROR2 query writer, as boolean predicates over the
   tables the translator re-reads from /repo (Gen/TablesUrl.v).
   restlicodec/path_writer.go Ror2PathEscape: a byte of a key is written raw iff it is in unescapedPathCharacters, else
   as %XX (hexEscape); around the escaped primitives the ROR2 writer emits only the structural bytes ( ) , : ' and the
   resource path template contributes '/' and the literal segment names.
   restlicodec/query_writer.go Ror2QueryEscape: same with unescapedQueryCharacters; structural bytes ( ) , : ' & = . *)
From Coq Require Import List Bool.
From Coq.Strings Require Import Byte.
From GR Require Import Base.Bytes Http.UrlModel Http.Url.
Import ListNotations.

Definition ror2_path_structural : bytes := [x28; x29; x2c; x3a; x27; x2f; x25].        (* ( ) , : ' / % *)
Definition ror2_query_structural : bytes := [x28; x29; x2c; x3a; x27; x26; x3d; x25].  (* ( ) , : ' & = % *)

Definition encoded_path_byte (tab : bytes) (c : byte) : bool := mem_byte c tab || mem_byte c ror2_path_structural.
Definition encoded_query_byte (tab : bytes) (c : byte) : bool := mem_byte c tab || mem_byte c ror2_query_structural.

(* an encoder-produced resource path for the root resource [root] *)
Definition encoded_path (tab : bytes) (root rpath : bytes) : bool :=
  path_has_root root rpath && forallb (encoded_path_byte tab) rpath && pct_ok rpath.

(* an encoder-produced query (None: the call has no query parameters at all) *)
Definition encoded_query (tab : bytes) (q : option bytes) : bool :=
  match q with Some s => forallb (encoded_query_byte tab) s | None => true end.
