(* Status: the response path of the v2 server and the client's reading of it (C08).
     v2/restli/server.go, finders.go, actions.go   Register* adapters: default status, invoking the implementation,
                                                   wrapping of errors (newErrorResponsef, handler.go:386-397)
     v2/restli/handler.go:501-590                  registerMethod / WithNoBody / WithBody: 400 for path, query, body errors
     v2/restli/handler.go:326-353                  receive: recover() around the handler
     v2/restli/handler.go:109-180                  ServeHTTP's tail, marshalResponseBody
     v2/restli/errors.go:42-77, http.go:276-347    client: IsErrorResponse, DoAndIgnore / DoAndUnmarshal
     v2/restli/collection.go:64-87                 client: the created id read from X-RestLi-Id
   The resource implementation is an input: [impl] says what it did (returned a value / a nil / an error object it holds
   at a heap location / a plain error / panicked, and whether it overrode ctx.ResponseStatus first).  Error objects live in a
   heap so that "ServeHTTP does not modify the resource's error object" is a statement about heap cells: the only place
   the model can write a cell is [serve_error_response], and it does so exactly for the fields the translator finds
   assigned through the resource's pointer (Gen/TablesStatus.serve_in_place_writes; none in the current code).
   Statuses, formats and the registration table come from Gen/TablesStatus.v (regenerated from the source).
   net/http is external (modelled, not verified): WriteHeader panics for a code outside 100..999 (checkWriteHeaderCode; ServeHTTP's
   status guard, handler.go:139-148, keeps such codes away from it);
   StatusText is the copied table.  Go's fmt is modelled for the two verbs the formats use (%q of an identifier, %s).
   No proofs here. *)
From Coq Require Import List Bool Arith NArith ZArith Lia.
From Coq.Strings Require Import Byte.
From GR Require Import Base.Bytes Base.Dec Gen.TablesStatus.
Import ListNotations.
Local Open Scope Z_scope.

(* ------------------------------------------------------------------------------------------------ error responses *)

(* common.ErrorResponse (ErrorResponse.gr.go:17-38): every field optional.  errorDetails is an empty record in Go
   (ErrorDetails struct{}): only its presence exists. *)
Record err_resp := mkErr {
  e_status : option Z;          (* Status *int32 *)
  e_svc : option Z;             (* ServiceErrorCode *)
  e_code : option bytes;        (* Code *)
  e_message : option bytes;     (* Message *)
  e_doc : option bytes;         (* DocUrl *)
  e_reqid : option bytes;       (* RequestId *)
  e_exc : option bytes;         (* ExceptionClass *)
  e_stack : option bytes;       (* StackTrace *)
  e_dtype : option bytes;       (* ErrorDetailType *)
  e_details : bool              (* ErrorDetails != nil *)
}.

Definition err_empty : err_resp := mkErr None None None None None None None None None false.
Definition with_message (e : err_resp) (m : option bytes) : err_resp :=
  mkErr (e_status e) (e_svc e) (e_code e) m (e_doc e) (e_reqid e) (e_exc e) (e_stack e) (e_dtype e) (e_details e).
Definition with_status (e : err_resp) (s : option Z) : err_resp :=
  mkErr s (e_svc e) (e_code e) (e_message e) (e_doc e) (e_reqid e) (e_exc e) (e_stack e) (e_dtype e) (e_details e).

Definition oZ_eqb (a b : option Z) : bool :=
  match a, b with Some x, Some y => Z.eqb x y | None, None => true | _, _ => false end.
Definition ob_eqb (a b : option bytes) : bool :=
  match a, b with Some x, Some y => bytes_eqb x y | None, None => true | _, _ => false end.
Definition err_eqb (a b : err_resp) : bool :=
  oZ_eqb (e_status a) (e_status b) && oZ_eqb (e_svc a) (e_svc b) && ob_eqb (e_code a) (e_code b) &&
  ob_eqb (e_message a) (e_message b) && ob_eqb (e_doc a) (e_doc b) && ob_eqb (e_reqid a) (e_reqid b) &&
  ob_eqb (e_exc a) (e_exc b) && ob_eqb (e_stack a) (e_stack b) && ob_eqb (e_dtype a) (e_dtype b) &&
  Bool.eqb (e_details a) (e_details b).

(* the heap of error objects owned by resource code *)
Definition loc := nat.
Definition heap := list err_resp.
Definition h_get (h : heap) (l : loc) : option err_resp := nth_error h l.
Fixpoint h_set (h : heap) (l : loc) (e : err_resp) : heap :=
  match h, l with
  | [], _ => []
  | _ :: t, O => e :: t
  | x :: t, S l' => x :: h_set t l' e
  end.

(* ------------------------------------------------------------------------------------------------ fmt, StatusText *)

Definition c_pct : byte := x25.
Definition c_q : byte := x71.
Definition c_s : byte := x73.
Definition c_dq : byte := x22.
Definition missing_s : bytes := [x25; x21; x73; x28; x4d; x49; x53; x53; x49; x4e; x47; x29].  (* "%!s(MISSING)" *)
Definition missing_q : bytes := [x25; x21; x71; x28; x4d; x49; x53; x53; x49; x4e; x47; x29].  (* "%!q(MISSING)" *)

(* %q of a Go string that needs no escaping (method, finder and action names are identifiers: [plain_name]) *)
Definition quote (s : bytes) : bytes := c_dq :: s ++ [c_dq].
Definition plain_char (c : byte) : bool :=
  let n := bn c in ((48 <=? n) && (n <=? 57) || (65 <=? n) && (n <=? 90) || (97 <=? n) && (n <=? 122) || (n =? 95))%N.
Definition plain_name (s : bytes) : bool := forallb plain_char s.

(* fmt.Sprintf for formats made of text, %q and %s; operands beyond the verbs are dropped by the call sites' construction
   (newErrorResponsef appends the cause as the last operand and every format that gets a cause ends in %s) *)
Fixpoint sprintf (f : bytes) (args : list bytes) : bytes :=
  match f with
  | [] => []
  | c :: t =>
      if Byte.eqb c c_pct then
        match t with
        | v :: t' =>
            if Byte.eqb v c_q then
              match args with a :: r => quote a ++ sprintf t' r | [] => missing_q ++ sprintf t' [] end
            else if Byte.eqb v c_s then
              match args with a :: r => a ++ sprintf t' r | [] => missing_s ++ sprintf t' [] end
            else c :: sprintf t args
        | [] => [c]
        end
      else c :: sprintf t args
  end.

Fixpoint assocZ (k : Z) (l : list (Z * bytes)) : option bytes :=
  match l with [] => None | (k', v) :: r => if Z.eqb k k' then Some v else assocZ k r end.
(* http.StatusText: "" for an unknown code *)
Definition status_text (s : Z) : bytes := match assocZ s status_text_table with Some t => t | None => [] end.

(* ------------------------------------------------------------------------------------------------ method kinds *)

(* what RegisterResource wires a resource method to *)
Definition mkind := regfn.

(* the name the adapters print in messages: Method.String() for REST methods, the finder / action name otherwise *)
Record meth := { m_kind : mkind; m_name : bytes }.

(* Go errors as the server sees them *)
Inductive errv :=
| EShared (l : loc)              (* the ErrorResponse pointer the resource returned (it may hold on to it) *)
| EFresh (e : err_resp)          (* an error response allocated by the server for this request *)
| EPlainErr (msg : bytes).       (* any other error; msg = err.Error() *)

(* newErrorResponsef (handler.go:386-397): an ErrorResponse cause is passed through unchanged; otherwise a new error
   response with the call site's status and the formatted message (the cause appended to the operands) *)
Definition new_error_response (cause : option errv) (st : site) (ops : list bytes) : errv :=
  match cause with
  | Some (EShared l) => EShared l
  | Some (EFresh e) => EFresh e
  | Some (EPlainErr msg) =>
      EFresh (with_message (with_status err_empty (Some (s_status st))) (Some (sprintf (s_fmt st) (ops ++ [msg]))))
  | None => EFresh (with_message (with_status err_empty (Some (s_status st))) (Some (sprintf (s_fmt st) ops)))
  end.

(* ------------------------------------------------------------------------------------------------ the implementation *)

(* how serializing a (non-nil) returned value goes: restlicodec marshalling of generated types is C01/C04's subject *)
Inductive marsh := MOk | MPanic (txt : bytes) | MErr (txt : bytes).

Inductive ret :=
| RValue (m : marsh)   (* a non-nil result (entity, elements, batch response, created entity, action result) *)
| RNil.                (* the zero value of a pointer result: a nil *T returned with a nil error *)

Inductive outcome :=
| OReturn (r : ret)            (* returned normally with a nil error; methods without a result ignore r *)
| OErrResp (l : loc)           (* returned the ErrorResponse pointer l *)
| OPlain (msg : bytes)         (* returned another error *)
| OPanic (msg : bytes).        (* panicked; msg = fmt.Sprint(r) *)

Record impl := {
  i_override : option Z;       (* ctx.ResponseStatus = s executed by the implementation before returning / panicking *)
  i_outcome : outcome;
  i_created_status : Z;        (* create: CreatedEntity.Status (0 = unset); ignored elsewhere *)
  i_id_marshals : bool         (* create: the id serializes into X-RestLi-Id *)
}.

(* runtime error text of a nil dereference (Go runtime constant; validated by the correspondence) *)
Definition nil_deref : bytes :=
  [x72;x75;x6e;x74;x69;x6d;x65;x20;x65;x72;x72;x6f;x72;x3a;x20;x69;x6e;x76;x61;x6c;x69;x64;x20;x6d;x65;x6d;x6f;x72;x79;x20;
   x61;x64;x64;x72;x65;x73;x73;x20;x6f;x72;x20;x6e;x69;x6c;x20;x70;x6f;x69;x6e;x74;x65;x72;x20;x64;x65;x72;x65;x66;x65;x72;
   x65;x6e;x63;x65].
Definition id_marshal_error : bytes := [x69; x64].   (* stands for the text of the id's marshalling error *)

(* the response body handed to ServeHTTP: nil, or a Marshaler whose MarshalRestLi behaves as [marsh] *)
Inductive rbody := NoBody | Body (m : marsh).

(* what the adapter closure returns to receive, with the status it left in ctx, and whether it set the id headers *)
Inductive hres :=
| HRet (b : rbody) (e : option errv)
| HPanic (msg : bytes).
Record hout := { ho_res : hres; ho_status : Z; ho_id : bool }.

Definition body_of (r : ret) : rbody :=
  match r with RValue m => Body m | RNil => Body (MPanic nil_deref) end.

Definition apply_override (s : Z) (i : impl) : Z := match i_override i with Some o => o | None => s end.

(* the closure each Register* function passes down (server.go, finders.go:44-66, actions.go:73-96), from the point where
   the request has been decoded.  [s0] is ctx.ResponseStatus on entry (ServeHTTP's initial value). *)
Definition reg_closure (k : mkind) (s0 : Z) (i : impl) : hout :=
  let s1 := match reg_default_status k with Some d => d | None => s0 end in
  let s2 := apply_override s1 i in
  let plain b e := {| ho_res := HRet b e; ho_status := s2; ho_id := false |} in
  match i_outcome i with
  | OPanic msg => {| ho_res := HPanic msg; ho_status := s2; ho_id := false |}
  | OErrResp l => plain NoBody (Some (EShared l))   (* a typed nil result riding along (`return get(...)`) is overwritten at handler.go:133 *)
  | OPlain msg => plain NoBody (Some (EPlainErr msg))
  | OReturn r =>
      match k with
      | RegisterCreate | RegisterCreateWithReturnEntity =>
          match r with
          | RNil => {| ho_res := HPanic nil_deref; ho_status := s2; ho_id := false |}   (* createdEntity.Id on a nil pointer *)
          | RValue m =>
              if i_id_marshals i then
                let s3 := if Z.eqb (i_created_status i) 0 then s2 else i_created_status i in
                {| ho_res := HRet (match k with RegisterCreateWithReturnEntity => Body m | _ => NoBody end) None;
                   ho_status := s3; ho_id := true |}
              else
                let st := match k with RegisterCreateWithReturnEntity => site_createret_idheader | _ => site_create_idheader end in
                plain NoBody (Some (new_error_response (Some (EPlainErr id_marshal_error)) st [[x63;x72;x65;x61;x74;x65]]))
          end
      | RegisterUpdate | RegisterPartialUpdate | RegisterDelete | RegisterAction => plain NoBody None
      | RegisterBatchCreate | RegisterBatchCreateWithReturnEntity =>
          (* &common.Elements{Elements: entities}: a nil slice is an empty list *)
          plain (match r with RValue m => Body m | RNil => Body MOk end) None
      | _ => plain (body_of r) None
      end
  end.

(* registerMethod (handler.go:534-539), registerFinder (finders.go:98-103), registerAction (actions.go:133-146):
   what the registered handler does with the closure's result *)
Definition wrap_site (k : mkind) : site :=
  match reg_adapter k with
  | AdBody | AdNoBody => site_method_failed
  | AdFinder => site_finder_failed
  | AdAction => site_action_failed
  end.

Definition adapter_wrap (m : meth) (o : hout) : hout :=
  match ho_res o with
  | HPanic _ => o
  | HRet b None => o
  | HRet b (Some e) =>
      match reg_adapter (m_kind m) with
      | AdBody | AdNoBody =>
          (* handler.go:535: an error that is not an ErrorResponse pointer is wrapped by newErrorResponsef, anything else is returned as is *)
          match e with
          | EPlainErr _ => {| ho_res := HRet NoBody (Some (new_error_response (Some e) (wrap_site (m_kind m)) [m_name m]));
                              ho_status := ho_status o; ho_id := ho_id o |}
          | _ => o
          end
      | AdFinder | AdAction =>
          {| ho_res := HRet NoBody (Some (new_error_response (Some e) (wrap_site (m_kind m)) [m_name m]));
             ho_status := ho_status o; ho_id := ho_id o |}
      end
  end.

(* ------------------------------------------------------------------------------------------------ request decoding *)

(* a request that reached the right handler but does not decode (the causes' texts are inputs: they come from the codec) *)
Inductive reqdefect :=
| RqOk
| RqBadPath (cause : bytes)     (* UnmarshalResourcePath fails *)
| RqBadQuery (cause : bytes)    (* UnmarshalQueryParamsDecoder fails *)
| RqBadBody (cause : bytes)     (* the body does not decode (WithBody adapters, action arguments) *)
| RqExtraBody.                  (* a body on a method / finder that takes none *)

(* Some e: the handler answers e without invoking the implementation *)
Definition decode_request (m : meth) (d : reqdefect) : option errv :=
  let nm := [m_name m] in
  match reg_adapter (m_kind m), d with
  | _, RqOk => None
  | (AdBody | AdNoBody), RqBadPath c => Some (new_error_response (Some (EPlainErr c)) site_method_path nm)
  | (AdBody | AdNoBody), RqBadQuery c => Some (new_error_response (Some (EPlainErr c)) site_method_query nm)
  | AdNoBody, RqExtraBody => Some (new_error_response None site_nobody_body nm)
  | AdNoBody, RqBadBody _ => Some (new_error_response None site_nobody_body nm)
  | AdBody, RqBadBody c => Some (new_error_response (Some (EPlainErr c)) site_body_invalid nm)
  | AdBody, RqExtraBody => None
  | AdFinder, RqBadPath c => Some (new_error_response (Some (EPlainErr c)) site_finder_path nm)
  | AdFinder, RqBadQuery c => Some (new_error_response (Some (EPlainErr c)) site_finder_query nm)
  | AdFinder, (RqExtraBody | RqBadBody _) => Some (new_error_response None site_finder_body [])
  | AdAction, RqBadPath c => Some (new_error_response None site_action_path nm)   (* the cause is NOT passed: actions.go:116 *)
  | AdAction, RqBadQuery _ => None                                                 (* actions read no query parameters *)
  | AdAction, RqBadBody c => Some (new_error_response (Some (EPlainErr c)) site_action_args nm)
  | AdAction, RqExtraBody => None
  end.

(* ------------------------------------------------------------------------------------------------ receive, ServeHTTP *)

Definition stack_marker : bytes := [x53].   (* the stack trace's text is not modelled: "S" stands for it *)

(* receive's defer/recover (handler.go:326-336) around the handler *)
Definition receive_handler (m : meth) (d : reqdefect) (i : impl) : rbody * option errv * Z * bool * bool (* invoked *) :=
  match decode_request m d with
  | Some e => (NoBody, Some e, serve_initial_status, false, false)
  | None =>
      let o := adapter_wrap m (reg_closure (m_kind m) serve_initial_status i) in
      match ho_res o with
      | HRet b e => (b, e, ho_status o, ho_id o, true)
      | HPanic msg =>
          (NoBody,
           Some (EFresh (mkErr (Some recover_status) None None (Some msg) None None None
                               (if recover_has_stack then Some stack_marker else None) None false)),
           ho_status o, ho_id o, true)
      end
  end.

Inductive wbody :=
| WNone                      (* no body *)
| WValue                     (* the serialized result *)
| WError (e : err_resp)      (* a serialized error response *)
| WText (msg : bytes).       (* http.Error: text/plain *)

Record response := { r_status : Z; r_errhdr : bool; r_idhdr : bool; r_body : wbody }.

Inductive served := Resp (r : response) (h : heap) | ServePanic (h : heap).   (* ServePanic: a panic escapes ServeHTTP *)

(* net/http checkWriteHeaderCode *)
Definition valid_code (s : Z) : bool := (100 <=? s) && (s <=? 999).

Definition in_place (f : bytes) : bool := existsb (bytes_eqb f) serve_in_place_writes.
Definition f_message : bytes := [x4d; x65; x73; x73; x61; x67; x65].   (* "Message" *)

(* handler.go:119-133: the error-response branch.  Returns the object that gets serialized and the heap afterwards. *)
Definition serve_error_response (h : heap) (ev : errv) : option (err_resp * Z * heap) :=
  let go (e : err_resp) (shared : option loc) :=
    let st := match e_status e with Some s => s | None => serve_unset_status end in
    match e_message e with
    | Some _ => (e, st, h)
    | None =>
        let e' := with_message e (Some (status_text st)) in
        match shared with
        | Some l => if in_place f_message then (e', st, h_set h l e') else (e', st, h)    (* current code: a copy *)
        | None => (e', st, h)
        end
    end in
  match ev with
  | EShared l => match h_get h l with Some e => Some (go e (Some l)) | None => None end
  | EFresh e => Some (go e None)
  | EPlainErr _ => None
  end.

Definition write (s : Z) (hdr idh : bool) (b : wbody) (h : heap) : served :=
  if valid_code s then Resp {| r_status := s; r_errhdr := hdr; r_idhdr := idh; r_body := b |} h else ServePanic h.

(* handler.go:139-163 *)
Definition serve_body (s : Z) (hdr idh : bool) (b : option (marsh + err_resp)) (h : heap) : served :=
  match b with
  | None => write s hdr idh WNone h
  | Some (inr e) => write s hdr idh (WError e) h          (* generated ErrorResponse marshalling does not fail *)
  | Some (inl MOk) => write s hdr idh WValue h
  | Some (inl (MPanic txt)) =>
      write serve_marshal_fail_status (hdr || serve_marshal_fail_sets_header) idh
            (WError (mkErr (Some serve_marshal_fail_status) None None (Some (marshal_panic_prefix ++ txt)) None None None None None false)) h
  | Some (inl (MErr txt)) =>
      write serve_marshal_fail_status (hdr || serve_marshal_fail_sets_header) idh
            (WError (mkErr (Some serve_marshal_fail_status) None None (Some txt) None None None None None false)) h
  end.

(* fmt.Sprintf for a format with one %d *)
Definition c_d : byte := x64.
Fixpoint sprintf_d (f : bytes) (z : Z) : bytes :=
  match f with
  | [] => []
  | c :: t =>
      if Byte.eqb c c_pct then
        match t with
        | v :: t' => if Byte.eqb v c_d then print_dec z ++ t' else c :: sprintf_d t z
        | [] => [c]
        end
      else c :: sprintf_d t z
  end.

(* handler.go:139-148: a status net/http cannot write is turned into an error response before anything is serialized
   (Gen/TablesStatus.serve_status_guard = None in a tree without that statement) *)
Definition status_guard (s : Z) (hdr : bool) (b : option (marsh + err_resp)) : Z * bool * option (marsh + err_resp) :=
  match serve_status_guard with
  | Some (lo, hi) =>
      if (s <? lo) || (hi <? s) then
        (serve_guard_status, hdr || serve_guard_sets_header,
         Some (inr (mkErr (Some serve_guard_status) None None (Some (sprintf_d serve_guard_fmt s)) None None None None None false)))
      else (s, hdr, b)
  | None => (s, hdr, b)
  end.

Definition guarded_body (s : Z) (hdr idh : bool) (b : option (marsh + err_resp)) (h : heap) : served :=
  let '(s', hdr', b') := status_guard s hdr b in serve_body s' hdr' idh b' h.

(* ServeHTTP from the call of receive on (no filters: PostRequest is C05's subject) *)
Definition serve (h : heap) (m : meth) (d : reqdefect) (i : impl) : served * bool :=
  let '(b, e, s, idh, invoked) := receive_handler m d i in
  (match e with
   | Some (EPlainErr msg) => write serve_plain_error_status false idh (WText msg) h
   | Some ev =>
       match serve_error_response h ev with
       | Some (e', st, h') => guarded_body st serve_sets_error_header idh (Some (inr e')) h'
       | None => ServePanic h     (* dangling location: not constructible from a well-formed impl *)
       end
   | None => guarded_body s false idh (match b with NoBody => None | Body m' => Some (inl m') end) h
   end, invoked).

(* ------------------------------------------------------------------------------------------------ the client *)

(* how the generated client reads the reply of each method kind (collection.go, simple.go, finders.go, actions.go,
   collection_batch_methods.go) *)
Inductive reading := RdIgnore | RdUnmarshal | RdCreated | RdCreatedAndUnmarshal.
Definition client_reading (k : mkind) : reading :=
  match k with
  | RegisterCreate => RdCreated
  | RegisterCreateWithReturnEntity => RdCreatedAndUnmarshal
  | RegisterUpdate | RegisterPartialUpdate | RegisterDelete | RegisterAction => RdIgnore
  | _ => RdUnmarshal
  end.

Inductive cres :=
| COk                          (* nil error (and, where the method has one, a decoded result) *)
| CCreated (status : Z)        (* nil error, CreatedEntity{Id, Status: res.StatusCode} *)
| CError (e : err_resp) (decoded : bool)   (* *restli.Error: the error response it carries; DeserializationError == nil *)
| CUnexpected (status : Z)     (* *UnexpectedStatusCodeError *)
| CNoIdHeader                  (* *CreateResponseHasNoEntityHeaderError *)
| CDecodeErr.                  (* the body does not decode as the expected result *)

(* errors.go:42-77 then http.go:276-347 *)
Definition client (k : mkind) (r : response) : cres :=
  if r_errhdr r then
    match r_body r with
    | WError e => CError (match e_status e with Some _ => e | None => with_status e (Some (r_status r)) end) true
    | _ => CError (with_status err_empty (Some (r_status r))) false
    end
  else if negb (Z.eqb (r_status r / 100) 2) then CUnexpected (r_status r)
  else
    let unm := match r_body r with WValue => COk | _ => CDecodeErr end in
    match client_reading k with
    | RdIgnore => COk
    | RdUnmarshal => unm
    | RdCreated => if r_idhdr r then CCreated (r_status r) else CNoIdHeader
    | RdCreatedAndUnmarshal =>
        match unm with COk => if r_idhdr r then CCreated (r_status r) else CNoIdHeader | c => c end
    end.

(* the whole exchange *)
Inductive exchange := Exchanged (r : response) (c : cres) (h : heap) (invoked : bool) | Crashed (h : heap).
Definition call (h : heap) (m : meth) (d : reqdefect) (i : impl) : exchange :=
  match serve h m d i with
  | (Resp r h', inv) => Exchanged r (client (m_kind m) r) h' inv
  | (ServePanic h', _) => Crashed h'
  end.

(* ------------------------------------------------------------------------------------------------ filters *)

(* restli.Filter (handler.go:435-445): what a hook returns.  An error response built by a filter is a fresh object. *)
Inductive fresult := FOk | FPlain (msg : bytes) | FErrResp (e : err_resp).
Record filter := { f_pre : fresult; f_post : fresult }.

Definition fresult_err (r : fresult) : option errv :=
  match r with FOk => None | FPlain msg => Some (EPlainErr msg) | FErrResp e => Some (EFresh e) end.
Fixpoint first_err (l : list fresult) : option errv :=
  match l with
  | [] => None
  | r :: t => match fresult_err r with Some e => Some e | None => first_err t end
  end.

(* receive, handler.go:352-361: PreRequest in registration order before the handler, the first error is receive's result *)
Definition run_pre_filters (fs : list filter) : option errv := first_err (map f_pre fs).
(* ServeHTTP, handler.go:110-117: PostRequest in reverse order, the first error replaces the (nil) error *)
Definition run_post_filters (fs : list filter) : option errv := first_err (map f_post (rev fs)).

Definition receive_f (fs : list filter) (m : meth) (d : reqdefect) (i : impl) : rbody * option errv * Z * bool * bool :=
  match run_pre_filters fs with
  | Some e => (NoBody, Some e, serve_initial_status, false, false)
  | None => receive_handler m d i
  end.

(* ServeHTTP's tail (handler.go:119-180) on receive's result; [serve] is [serve_tail] of [receive_handler] *)
Definition serve_tail (h : heap) (x : rbody * option errv * Z * bool * bool) : served * bool :=
  let '(b, e, s, idh, invoked) := x in
  (match e with
   | Some (EPlainErr msg) => write serve_plain_error_status false idh (WText msg) h
   | Some ev =>
       match serve_error_response h ev with
       | Some (e', st, h') => guarded_body st serve_sets_error_header idh (Some (inr e')) h'
       | None => ServePanic h
       end
   | None => guarded_body s false idh (match b with NoBody => None | Body m' => Some (inl m') end) h
   end, invoked).

(* handler.go:109-117: `responseBody, err := sub.receive(...); if err == nil { for i := len(filters)-1 .. 0 { err = PostRequest(...); if err != nil { break } } }` -
   the PostRequest hooks run only when receive returned no error; an error of receive is never replaced *)
Definition serve_f (h : heap) (fs : list filter) (m : meth) (d : reqdefect) (i : impl) : served * bool :=
  let '(b, e, s, idh, invoked) := receive_f fs m d i in
  serve_tail h (b, match e with Some _ => e | None => run_post_filters fs end, s, idh, invoked).

Definition call_f (h : heap) (fs : list filter) (m : meth) (d : reqdefect) (i : impl) : exchange :=
  match serve_f h fs m d i with
  | (Resp r h', inv) => Exchanged r (client (m_kind m) r) h' inv
  | (ServePanic h', _) => Crashed h'
  end.
