(* The generated constructors New<X>WithDefaultValues and populateLocalDefaultValues
   (v2/codegen/types/record.go:140-179 GeneratePopulateDefaultValues, :181-248 setDefaultValue, :250-257 hasDefaultValue; the root
   module's codegen/types/record.go is the same code over the FLATTENED field list of a record - see Corr/RootCtorCorr.v).

     func New<X>WithDefaultValues() (r *X) {
         r = new(X)                                                       -- [zero_value]
         for every OWN field f (declaration order):                        -- [nested]
             if f is a record reference, neither optional nor defaulted, and that record hasDefaultValue():
                 r.F = *New<F's record>WithDefaultValues()
         r.populateLocalDefaultValues()                                    -- [populate]
         return
     }
     func (r *X) populateLocalDefaultValues() {
         for every OWN field f with a default literal (declaration order):
             if r.F == nil { r.F = <the literal> }                          -- [lit_read]
     }

   Both functions are generated only for a record that declares a default ITSELF (hasDefaultValue ranges over r.Fields: included
   records and the records of nested fields do not count) - [has_ctor].  The embedded structs of included records are whatever
   new(X) left there: their defaults are not filled and their required record fields are not constructed (finding D28).

   The literal: records, unions, arrays and maps are read back from the raw JSON text with restlicodec.NewJsonReader (no excluded
   fields, scopeToIgnore 0 - exactly the [lit_value] of Codec/Decode.v: decJ ps_empty 0 ... true) and a reader error is
   log.Panicln("Illegal default value", err): [Panic], a first-class outcome (the generated `var _ = New<X>WithDefaultValues()`
   makes such a package panic when it is loaded).  The literals `[ ]` / `{ }` of an array / map are not read at all (the two anchored
   regular expressions) - the reader returns the same empty collection for them.  Primitive, enum, fixed and typeref literals are
   converted when the code is GENERATED (getLit) to the Go literal the reader would have produced; the model reads them like the others
   (the abstraction Codec/Decode.v already makes; custom typerefs are not modelled).

   Pure and deterministic: two calls return equal values by construction; that the Go values share no memory is the driver's
   business (the scribble test of harness/codecdrv/c13.go).  No proofs here. *)
From Coq Require Import List Bool Arith ZArith NArith.
From Coq.Strings Require Import Byte.
From GR Require Import Base.Bytes Base.Res Codec.Schema Codec.Doc Codec.Json Codec.Tracker Codec.Decode.
Import ListNotations.

Section Ctor.
  Variable e : env.
  Variable wildcard : bytes.
  Variable parseF : nat -> bytes -> option N.   (* the strconv oracle of Codec/Decode.v *)

  (* record.go:250-257 hasDefaultValue: an OWN field carries a default *)
  Definition has_ctor (n : nat) : bool :=
    match lookup e n with Some (DRecord _ fs) => own_has_default fs | _ => false end.

  (* record.go:181-248 setDefaultValue, the part after `if accessor == nil`: NewJsonReader([]byte(rawJson)) + Reader.Read of the
     field's type; every error (syntax, type, a record literal that lacks a required field) is log.Panicln *)
  Definition lit_read (f : nat) (t : ty) (lit : bytes) : res value :=
    match decode_json e wildcard ps_empty 0 parseF f t lit with
    | DOk v => Ok v
    | DErr EFuel => Err EFuel
    | _ => Panic
    end.

  (* one field of populateLocalDefaultValues *)
  Definition populate_slot (f : nat) (fd : field) (ov : option value) : res (option value) :=
    match ov, f_opt fd with
    | None, Default lit => do v <- lit_read f (f_ty fd) lit; Ok (Some v)
    | _, _ => Ok ov
    end.

  (* record.go:167-176 populateLocalDefaultValues: own fields, declaration order *)
  Fixpoint populate (f : nat) (fs : list field) (vs : list (option value)) : res (list (option value)) :=
    match fs, vs with
    | fd :: fs', ov :: vs' =>
        do x <- populate_slot f fd ov;
        do r <- populate f fs' vs';
        Ok (x :: r)
    | _, _ => Ok vs
    end.

  (* record.go:155-162: `record := f.Type.Record(); record != nil && !f.IsOptionalOrDefault() && record.hasDefaultValue()`;
     C = the constructor of the field's record *)
  Definition nested_slot (C : nat -> res value) (fd : field) (ov : option value) : res (option value) :=
    match f_opt fd, f_ty fd with
    | Required, TRef m => if has_ctor m then do v <- C m; Ok (Some v) else Ok ov
    | _, _ => Ok ov
    end.

  Fixpoint nested (C : nat -> res value) (fs : list field) (vs : list (option value)) : res (list (option value)) :=
    match fs, vs with
    | fd :: fs', ov :: vs' =>
        do x <- nested_slot C fd ov;
        do r <- nested C fs' vs';
        Ok (x :: r)
    | _, _ => Ok vs
    end.

  (* record.go:150-165, over the constructor C of the nested records and the fuel f of the literal reads.
     [Err EType]: no constructor is generated for n (GeneratePopulateDefaultValues returns Empty()) - the call does not compile *)
  Definition ctor_step (C : nat -> res value) (f : nat) (n : nat) : res value :=
    match lookup e n with
    | Some (DRecord incs fs) =>
        if negb (own_has_default fs) then Err EType
        else
          match zero_value e (S (S (length e))) (TRef n) with        (* r = new(X) *)
          | VRec ivs fvs =>
              do fvs1 <- nested C fs fvs;
              do fvs2 <- populate f fs fvs1;
              Ok (VRec ivs fvs2)
          | _ => Err EType
          end
    | _ => Err EType
    end.

  (* New<record n>WithDefaultValues().  A required record field is a struct VALUE in Go, so the recursion is finite for every
     schema that compiles; in the model the fuel bounds it ([Err EFuel]) *)
  Fixpoint ctor (fuel : nat) (n : nat) {struct fuel} : res value :=
    match fuel with
    | 0 => Err EFuel
    | S f => ctor_step (ctor f) f n
    end.
End Ctor.
