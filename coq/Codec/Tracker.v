(* missing_fields.go: the scope stack, excluded-field detection and missing-required-field accounting shared by the readers. *)
From Coq Require Import List Bool Arith ZArith NArith.
From Coq.Strings Require Import Byte.
From GR Require Import Base.Bytes Base.Res Base.Dec Codec.Doc.
Import ListNotations.

Inductive seg := SKey (k : bytes) | SIdx (i : nat).

Record tracker := { t_scope : list seg; t_missing : list bytes }.
Definition tracker0 : tracker := {| t_scope := []; t_missing := [] |}.

(* scopeString (missing_fields.go:76-86): '.' before every non-array segment but the first; "[i]" for array segments *)
Definition seg_text (s : seg) : bytes :=
  match s with SKey k => k | SIdx i => [x5b] ++ print_dec (Z.of_nat i) ++ [x5d] end.
Fixpoint scope_string_from (first : bool) (l : list seg) : bytes :=
  match l with
  | [] => []
  | s :: r =>
      (match s with SKey _ => if first then [] else [x2e] | SIdx _ => [] end) ++ seg_text s ++ scope_string_from false r
  end.
Definition scope_string (l : list seg) : bytes := scope_string_from true l.

Section Tracker.
  Variable wildcard : bytes.
  Variable excl : pathspec.
  Variable ignore : nat.          (* leadingScopeToIgnore *)

  Definition seg_name (s : seg) : bytes := match s with SKey k => k | SIdx _ => wildcard end.

  Definition push (s : seg) (t : tracker) : tracker := {| t_scope := t_scope t ++ [s]; t_missing := t_missing t |}.
  Definition pop (t : tracker) : tracker := {| t_scope := removelast (t_scope t); t_missing := t_missing t |}.

  (* enterMapScope (missing_fields.go:42-64) *)
  Definition enter_map (k : bytes) (t : tracker) : res tracker :=
    let t' := push (SKey k) t in
    if Nat.leb (length (t_scope t')) ignore then Ok t'
    else if ps_matches wildcard excl (map seg_name (skipn ignore (t_scope t')))
         then Err (EExcluded (scope_string (t_scope t')))
         else Ok t'.
  Definition enter_array (i : nat) (t : tracker) : tracker := push (SIdx i) t.

  Definition is_key_excluded (k : bytes) (t : tracker) : bool :=
    match enter_map k t with Ok _ => false | _ => true end.

  (* recordMissingRequiredFields (missing_fields.go:101-114); the Go map order is irrelevant: the list is sorted when raised *)
  Definition record_missing (rem : list bytes) (t : tracker) : tracker :=
    let scope := scope_string (t_scope t) in
    let pre := match scope with [] => [] | _ => scope ++ [x2e] end in
    {| t_scope := t_scope t;
       t_missing := t_missing t ++ map (fun f => pre ++ f) (filter (fun f => negb (is_key_excluded f t)) rem) |}.
End Tracker.

(* sort.Strings *)
Fixpoint insert_bytes (k : bytes) (l : list bytes) : list bytes :=
  match l with
  | [] => [k]
  | k' :: r => if bytes_ltb k' k then k' :: insert_bytes k r else k :: l
  end.
Fixpoint sort_bytes (l : list bytes) : list bytes :=
  match l with [] => [] | k :: r => insert_bytes k (sort_bytes r) end.

Fixpoint remove_bytes (k : bytes) (l : list bytes) : list bytes :=
  match l with [] => [] | k' :: r => if bytes_eqb k k' then remove_bytes k r else k' :: remove_bytes k r end.
