(* The UNTYPED reader: restlicodec.NewInterfaceReader (v2/restlicodec/any_reader.go), the fourth reader kind of C06 / C13 / C04.
   The generated UnmarshalRestLi code is the same for every reader, so [decA] is [decJ] (Codec/Decode.v) with the reader
   primitives replaced, function by function, by those of any_reader.go over a tree of Go values [gval].
   No proofs here (Proofs/AnyProofs.v).

   What is modelled exactly: reflect kinds and the dereference of one pointer level (val, any_reader.go:30-40), ParseInt /
   ParseBool on strings, Go's WRAP-AROUND integer conversions T(i64) (explicit [wrap]), the TRUNCATING float->int conversion
   T(v.Float()) when the truncated value is representable, IEEE-754 round-to-nearest-even for int->float and float64->float32
   ([rne_encode], checked against the hardware on every run by the correspondence), scope push/pop, nil members, atStart.
   What is external: strconv.ParseFloat(s, 64) = [parseF 0] (as in Decode.v).
   Implementation-defined in Go (spec, "Conversions": a float->int conversion whose result does not fit "succeeds but the result
   value is implementation-dependent"): the result is [unspec w bits], a parameter of the model, never an error and never a
   panic; every theorem holds for every [unspec]; the correspondence instantiates it with the marker [unspec_marker] (not an
   int64) and does not compare the value of a case in which the marker appears. *)
From Coq Require Import List Bool Arith ZArith NArith.
From Coq.Strings Require Import Byte.
From GR Require Import Base.Bytes Base.Res Base.Dec Codec.Schema Codec.Doc Codec.Utf8 Codec.Json Codec.Tracker Codec.Decode.
Import ListNotations.

(* A Go value held in an `any`, as far as reflect lets the reader see it.
   GInt: kinds Int, Int8 .. Int64 (v.Int() = z; bitsize is informative).  GFloat: kinds Float32 / Float64, [bits] is the
   float64 pattern of v.Float() (a float32 converts exactly).  GStr: kind String (named string types included, e.g. json.Number).
   GBytes: any slice whose element kind is Uint8: []byte and the named types (json.RawMessage, type B []byte, []MyUint8) alike
   (readString goes through reflect.Value.Bytes).  GArr: any other slice (nil slice = GArr []).  GMap: a map whose key kind is String (nil map = GMap []); the
   entries are listed in the order of the iteration (Go's order is arbitrary: the theorems quantify over every list).
   GNil: the nil interface.  GNilPtr: a typed nil pointer.  GPtr v: a non-nil pointer to v.
   GOther: everything else (uints, bool-less kinds: complex, chan, func, struct, array, map with non-string keys, ...). *)
Inductive gval :=
| GNil
| GBool (b : bool)
| GInt (z : Z) (bitsize : nat)
| GFloat (bits : N) (is32 : bool)
| GStr (s : bytes)
| GBytes (s : bytes)
| GArr (items : list gval)
| GMap (entries : list (bytes * gval))
| GNilPtr
| GPtr (v : gval)
| GOther.

(* ---------------------------------------------------------------------------------------------------------------------------
   Go's numeric conversions
   --------------------------------------------------------------------------------------------------------------------------- *)
(* T(i64) for a signed integer type of w bits: the low w bits, two's complement *)
Definition wrap (w : Z) (z : Z) : Z :=
  let m := (z mod 2 ^ w)%Z in if (m <? 2 ^ (w - 1))%Z then m else (m - 2 ^ w)%Z.

Definition in_width (w : Z) (z : Z) : bool := ((- 2 ^ (w - 1) <=? z) && (z <? 2 ^ (w - 1)))%Z.

(* the bit pattern of the binary float (mbits explicit mantissa bits, ebits exponent bits) nearest to (-1)^neg * m * 2^e,
   ties to even; overflow gives the infinity *)
Definition rne_encode (mbits ebits : N) (neg : bool) (m : N) (e : Z) : N :=
  let sign := if neg then (2 ^ (mbits + ebits))%N else 0%N in
  if (m =? 0)%N then sign
  else
    (let mb := Z.of_N mbits in
     let bias := 2 ^ (Z.of_N ebits - 1) - 1 in
     let emin := 1 - bias in
     let E := Z.of_N (N.log2 m) + e in           (* 2^E <= m * 2^e < 2^(E+1) *)
     let Ec := Z.max E emin in
     let sh := Ec - mb - e in                    (* the weight of the last kept bit is 2^(Ec-mb) *)
     let mz := Z.of_N m in
     let mant :=
       if sh <=? 0 then mz * 2 ^ (- sh)
       else
         let fl := mz / 2 ^ sh in
         let rem := mz mod 2 ^ sh in
         let half := 2 ^ (sh - 1) in
         if (half <? rem) || ((rem =? half) && Z.odd fl) then fl + 1 else fl in
     (* mant carries the implicit bit when the number is normal: (Ec+bias-1)*2^mb + mant is the pattern, carries included *)
     let r := (Ec + bias - 1) * 2 ^ mb + mant in
     let inf := (2 ^ Z.of_N ebits - 1) * 2 ^ mb in
     N.add sign (Z.to_N (if inf <=? r then inf else r)))%Z.

Definition f64_of_Z (z : Z) : N := rne_encode 52 11 (z <? 0)%Z (Z.abs_N z) 0.      (* float64(int64) *)
Definition f32_of_Z (z : Z) : N := rne_encode 23 8 (z <? 0)%Z (Z.abs_N z) 0.       (* float32(int64): ONE rounding *)

Definition f64_exp (b : N) : N := ((b / 2 ^ 52) mod 2048)%N.
Definition f64_man (b : N) : N := (b mod 2 ^ 52)%N.
Definition f64_neg (b : N) : bool := N.testbit b 63.

(* float32(float64) *)
Definition f64_to_f32 (b : N) : N :=
  let sign := if f64_neg b then (2 ^ 31)%N else 0%N in
  if (f64_exp b =? 2047)%N then
    if (f64_man b =? 0)%N then (sign + 255 * 2 ^ 23)%N                          (* infinity *)
    else (sign + 255 * 2 ^ 23 + N.lor (2 ^ 22) (f64_man b / 2 ^ 29))%N          (* NaN: quieted, payload truncated *)
  else if (f64_exp b =? 0)%N then rne_encode 23 8 (f64_neg b) (f64_man b) (-1074)
  else rne_encode 23 8 (f64_neg b) (2 ^ 52 + f64_man b) (Z.of_N (f64_exp b) - 1075).

(* the integer part (truncation toward zero) of a FINITE float64; None for NaN and the infinities *)
Definition f64_trunc (b : N) : option Z :=
  if (f64_exp b =? 2047)%N then None
  else
    let mag :=
      if (f64_exp b =? 0)%N then 0%Z
      else (let m := 2 ^ 52 + Z.of_N (f64_man b) in
            let sh := Z.of_N (f64_exp b) - 1075 in
            if 0 <=? sh then m * 2 ^ sh else m / 2 ^ (- sh))%Z in
    Some (if f64_neg b then (- mag)%Z else mag).

(* the marker the correspondence uses for [unspec]: not an int64 *)
Definition unspec_marker : Z := (2 ^ 64)%Z.

(* ---------------------------------------------------------------------------------------------------------------------------
   what encoding/json.Unmarshal(data, &x) with x of type `any` yields for a document (objects with distinct keys; a number
   whose text overflows float64 makes Unmarshal itself fail: GOther stands for "no value", excluded by the theorems' premises)
   --------------------------------------------------------------------------------------------------------------------------- *)
Section OfJdoc.
  Variable parseF : nat -> bytes -> option N.
  Fixpoint of_jdoc (d : jdoc) : gval :=
    match d with
    | JNull => GNil
    | JBool b => GBool b
    | JNum t => match parseF 0 t with Some b => GFloat b false | None => GOther end
    | JStr s => GStr s
    | JArr items => GArr (map of_jdoc items)
    | JObj es => GMap (map (fun kx => match kx with (k, x) => (k, of_jdoc x) end) es)
    end.
End OfJdoc.

Section AnyDecode.
  Variable e : env.
  Variable wildcard : bytes.
  Variable excl : pathspec.
  Variable ignore : nat.
  Variable parseF : nat -> bytes -> option N.     (* 0 = strconv.ParseFloat(s, 64), None when it returns an error *)
  Variable unspec : Z -> N -> Z.                  (* width, float64 bits: the implementation-defined float->int result *)

  Notation enter_map := (enter_map wildcard excl ignore).
  Notation record_missing := (record_missing wildcard excl ignore).

  (* val() (any_reader.go:30-40): ONE pointer level is dereferenced; a nil pointer is an error.  The result of Elem() on a
     pointer to a pointer / to an interface has kind Ptr / Interface: no reader method accepts it *)
  Definition aval (g : gval) : res gval :=
    match g with
    | GNilPtr => Err EDeser
    | GPtr x => Ok (match x with GPtr _ | GNilPtr | GNil => GOther | _ => x end)
    | _ => Ok g
    end.

  (* readString (any_reader.go:161-172): kind String, or a slice whose element kind is Uint8 (string(v.Bytes())) *)
  Definition astring (v : gval) : res (option bytes) :=
    match v with
    | GStr s => Ok (Some s)
    | GBytes s => Ok (Some s)
    | _ => Ok None
    end.

  (* T(v.Float()) *)
  Definition float_to_int (w : Z) (b : N) : Z :=
    match f64_trunc b with
    | Some z => if in_width w z then z else unspec w b
    | None => unspec w b
    end.

  (* readInt[T] (any_reader.go:70-92) *)
  Definition read_int (w : Z) (g : gval) : res Z :=
    do v <- aval g;
    do os <- astring v;
    match os with
    | Some s => match parse_i64 s with Some z => Ok (wrap w z) | None => Err EDeser end    (* ParseInt(s, 10, 64); T(i64) *)
    | None =>
        match v with
        | GInt z _ => Ok (wrap w z)                   (* v.CanInt(): T(v.Int()) *)
        | GFloat b _ => Ok (float_to_int w b)         (* v.CanFloat(): T(v.Float()) *)
        | _ => Err EDeser                             (* cannotPrimitive *)
        end
    end.

  (* readFloat[T] (any_reader.go:102-124) *)
  Definition read_float (is32 : bool) (g : gval) : res N :=
    do v <- aval g;
    do os <- astring v;
    match os with
    | Some s => match parseF 0 s with Some b => Ok (if is32 then f64_to_f32 b else b) | None => Err EDeser end
    | None =>
        match v with
        | GInt z _ => Ok (if is32 then f32_of_Z z else f64_of_Z z)
        | GFloat b _ => Ok (if is32 then f64_to_f32 b else b)
        | _ => Err EDeser
        end
    end.

  (* ReadBool (any_reader.go:126-145) *)
  Definition read_bool (g : gval) : res bool :=
    do v <- aval g;
    do os <- astring v;
    match os with
    | Some s => match parse_bool s with Some b => Ok b | None => Err EDeser end
    | None => match v with GBool b => Ok b | _ => Err EDeser end
    end.

  (* ReadString (any_reader.go:147-159) *)
  Definition read_string (g : gval) : res bytes :=
    do v <- aval g;
    do os <- astring v;
    match os with Some s => Ok s | None => Err EDeser end.

  (* ReadBytes (any_reader.go:172-190): a string holds one code point (0..255) per byte (range over the string: an invalid
     byte is U+FFFD, above 0xFF); anything else goes through ReadString *)
  Definition read_bytes (g : gval) : res bytes :=
    do v <- aval g;
    match v with
    | GStr s => match latin1_decode (S (length s)) s with Some b => Ok b | None => Err EDeser end
    | _ => do os <- astring v; match os with Some s => Ok s | None => Err EDeser end
    end.

  Definition aprim (p : prim) (g : gval) : res value :=
    match p with
    | PInt => do z <- read_int 32 g; Ok (VInt z)
    | PLong => do z <- read_int 64 g; Ok (VLong z)
    | PFloat => do b <- read_float true g; Ok (VFloat b)
    | PDouble => do b <- read_float false g; Ok (VDouble b)
    | PBool => do b <- read_bool g; Ok (VBool b)
    | PString => do s <- read_string g; Ok (VStr s)
    | PBytes => do s <- read_bytes g; Ok (VBytes s)
    end.

  (* ReadMap (any_reader.go:192-228): a valid value of kind Map whose key kind is String, else InvalidTypeError *)
  Definition amap (g : gval) : res (list (bytes * gval)) :=
    do v <- aval g;
    match v with GMap es => Ok es | _ => Err EDeser end.

  (* ReadArray (any_reader.go:234-262): kind Slice (of ANY element type: the items of a byte slice are uint8 values) *)
  Definition aarr (g : gval) : res (list gval) :=
    do v <- aval g;
    match v with
    | GArr items => Ok items
    | GBytes s => Ok (map (fun _ => GOther) s)
    | _ => Err EDeser
    end.

  (* top = a.atStart: true for the value handed to NewInterfaceReader, false inside ReadMap / ReadArray (cleared before the
     iteration, restored after it).  Skip() is a no-op: an unknown field costs nothing.
     Same generated code as decJ: the structure below is decJ's, line by line. *)
  Fixpoint decA (fuel : nat) (top : bool) (t : ty) (g : gval) (tr : tracker) {struct fuel} : res (value * tracker) :=
    match fuel with
    | 0 => Err EFuel
    | S f =>
        (* populateLocalDefaultValues re-parses the literal with NewJsonReader (no excluded fields, scopeToIgnore 0), whatever the
           reader being used *)
        let lit_value (t' : ty) (lit : bytes) : option value :=
          match parse_json lit with
          | Some jd => match decJ e wildcard ps_empty 0 parseF f true t' jd tracker0 with Ok (v, _) => Some v | _ => None end
          | None => None
          end in
        let fix fill_defaults (fs : list field) (vs : list (option value)) : list (option value) :=
          match fs, vs with
          | fd :: fs', ov :: vs' =>
              (match ov, f_opt fd with
               | None, Default lit => lit_value (f_ty fd) lit
               | _, _ => ov
               end) :: fill_defaults fs' vs'
          | _, _ => vs
          end in
        let fix unmarshal_field (k : nat) (n : nat) (key : bytes) (x : gval) (rv : value) (tr : tracker) {struct k}
            : res (bool * value * tracker) :=
          match k with
          | 0 => Err EFuel
          | S k' =>
              match lookup e n, rv with
              | Some (DRecord incs fs), VRec ivs fvs =>
                  let fix try_incs (is : list nat) (vs : list value) (pos : nat) : res (option (nat * value * tracker)) :=
                    match is, vs with
                    | i :: is', iv :: vs' =>
                        do r <- unmarshal_field k' i key x iv tr;
                        let '(found, iv', tr') := r in
                        if found then Ok (Some (pos, iv', tr')) else try_incs is' vs' (S pos)
                    | _, _ => Ok None
                    end in
                  do hit <- try_incs incs ivs 0;
                  match hit with
                  | Some (pos, iv', tr') => Ok (true, VRec (set_nth pos iv' ivs) fvs, tr')
                  | None =>
                      match index_of key (map f_name fs) 0 with
                      | Some j =>
                          match nth_error fs j with
                          | Some fd =>
                              do r <- decA f false (f_ty fd) x tr;
                              let '(v, tr') := r in
                              Ok (true, VRec ivs (set_nth j (Some v) fvs), tr')
                          | None => Err EType
                          end
                      | None => Ok (false, rv, tr)
                      end
                  end
              | _, _ => Err EType
              end
          end in
        match t with
        | TPrim p => do v <- aprim p g; Ok (v, tr)
        | TEnum syms => do s <- read_string g; Ok (enum_value syms s, tr)
        | TFixed n =>
            do v <- aprim PBytes g;
            match v with VBytes b => if Nat.eqb (length b) n then Ok (VFixed b, tr) else Err EFixedSize | _ => Err EType end
        | TArray t' =>
            do items <- aarr g;
            (fix go (l : list gval) (i : nat) (acc : list value) (tr : tracker) : res (value * tracker) :=
               match l with
               | [] => Ok (VArr (rev acc), tr)
               | x :: r =>
                   do rr <- decA f false t' x (enter_array i tr);
                   let '(v, tr') := rr in go r (S i) (v :: acc) (pop tr')
               end) items 0 [] tr
        | TMap t' =>
            do es <- amap g;
            (fix go (l : list (bytes * gval)) (acc : list (bytes * value)) (tr : tracker) : res (value * tracker) :=
               match l with
               | [] => Ok (VMap (sort_entries acc), tr)
               | (k, x) :: r =>
                   match x with
                   | GNil => go r acc tr                (* a.value == nil: continue *)
                   | _ => do tr1 <- enter_map k tr;
                          do rr <- decA f false t' x tr1;
                          let '(v, tr2) := rr in go r (map_put k v acc) (pop tr2)
                   end
               end) es [] tr
        | TRef n =>
            match lookup e n with
            | Some (DRecord incs fs) =>
                do es <- amap g;
                do r <- (fix go (l : list (bytes * gval)) (rv : value) (rem : list bytes) (tr : tracker)
                           : res (value * list bytes * tracker) :=
                           match l with
                           | [] => Ok (rv, rem, tr)
                           | (k, x) :: r =>
                               match x with
                               | GNil => go r rv rem tr
                               | _ => do tr1 <- enter_map k tr;
                                      do u <- unmarshal_field (S (length e)) n k x rv tr1;
                                      let '(_, rv', tr2) := u in          (* not found: Skip(), a no-op *)
                                      go r rv' (remove_bytes k rem) (pop tr2)
                               end
                           end) es (zero_value e (S (S (length e))) t) (required_fields e (S (length e)) n) tr;
                let '(rv, rem, tr1) := r in
                let tr2 := record_missing rem tr1 in
                let raising := top && negb (match t_missing tr2 with [] => true | _ => false end) in
                let rv' := if raising || negb (own_has_default fs) then rv
                           else match rv with VRec ivs fvs => VRec ivs (fill_defaults fs fvs) | _ => rv end in
                Ok (rv', tr2)
            | Some (DUnion nullable ms) =>
                do es <- amap g;
                do r <- (fix go (l : list (bytes * gval)) (uv : list (option value)) (wasSet : bool) (tr : tracker)
                           : res (list (option value) * bool * tracker) :=
                           match l with
                           | [] => Ok (uv, wasSet, tr)
                           | (k, x) :: r =>
                               match x with
                               | GNil => go r uv wasSet tr
                               | _ => do tr1 <- enter_map k tr;
                                      if wasSet then Err EUnion
                                      else match index_of k (map fst ms) 0 with
                                           | Some j =>
                                               match nth_error ms j with
                                               | Some (_, mt) =>
                                                   do rr <- decA f false mt x tr1;
                                                   let '(v, tr2) := rr in go r (set_nth j (Some v) uv) true (pop tr2)
                                               | None => Err EType
                                               end
                                           | None => Err EUnion
                                           end
                               end
                           end) es (map (fun _ => None) ms) false tr;
                let '(uv, wasSet, tr') := r in
                if negb nullable && negb wasSet then Err EUnion else Ok (VUnion uv, tr')
            | None => Err EType
            end
        end
    end.

  (* NewInterfaceReader(v) + UnmarshalRestLi: no up-front rejection (the value is already parsed) *)
  Definition decode_any (fuel : nat) (t : ty) (g : gval) : dres :=
    finish (is_record e t) (decA fuel true t g tracker0).
End AnyDecode.
