(* Byte rendering of document trees: json_writer.go (compact and pretty) with jwriter.Writer.String's escaper, and
   ror2_writer.go with the three escapers.  Float text is external (strconv 'g' -1 64): the oracle [fmtF]. *)
From Coq Require Import List Bool Arith ZArith NArith.
From Coq.Strings Require Import Byte.
From GR Require Import Base.Bytes Base.Dec Codec.Doc Codec.Escape Codec.Utf8.
Import ListNotations.

(* ---- floats by bit pattern ---- *)
Inductive fclass := FNaN | FPosInf | FNegInf | FFinite.
Definition classify_float (is32 : bool) (bits : N) : fclass :=
  let '(ebits, mbits) := if is32 then (8, 23)%N else (11, 52)%N in
  let mant := (bits mod 2 ^ mbits)%N in
  let ex := ((bits / 2 ^ mbits) mod 2 ^ ebits)%N in
  let sign := (bits / 2 ^ (mbits + ebits))%N in
  if (ex =? 2 ^ ebits - 1)%N then
    if (mant =? 0)%N then (if (sign =? 0)%N then FPosInf else FNegInf) else FNaN
  else FFinite.

Definition s_nan : bytes := [x4e; x61; x4e].
Definition s_inf : bytes := [x49; x6e; x66; x69; x6e; x69; x74; x79].
Definition s_ninf : bytes := x2d :: s_inf.
Definition s_true : bytes := [x74; x72; x75; x65].
Definition s_false : bytes := [x66; x61; x6c; x73; x65].

Section Render.
  Variable fmtF : bool -> N -> bytes.     (* strconv.AppendFloat(float64(v), 'g', -1, 64) of a finite value *)

  (* ---- JSON strings: jwriter.Writer.String (HTML-safe table) ---- *)
  Definition jhex : bytes := [x30; x31; x32; x33; x34; x35; x36; x37; x38; x39; x61; x62; x63; x64; x65; x66].
  Definition json_escape_ascii (c : byte) : bytes :=
    let n := bn c in
    if (n =? 9)%N then [x5c; x74] else if (n =? 13)%N then [x5c; x72] else if (n =? 10)%N then [x5c; x6e]
    else if (n =? 92)%N then [x5c; x5c] else if (n =? 34)%N then [x5c; x22]
    else if (n <? 32)%N || (n =? 38)%N || (n =? 60)%N || (n =? 62)%N
         then [x5c; x75; x30; x30; hex_digit jhex (n / 16); hex_digit jhex (n mod 16)]
    else [c].
  Definition u_fffd : bytes := [x5c; x75; x66; x66; x66; x64].
  Fixpoint json_str_body (fuel : nat) (s : bytes) : bytes :=
    match fuel with
    | 0 => []
    | S f =>
        match s with
        | [] => []
        | c :: r =>
            if (bn c <? 128)%N then json_escape_ascii c ++ json_str_body f r
            else match utf8_decode s with
                 | None => u_fffd ++ json_str_body f r
                 | Some (cp, w) =>
                     if (cp =? 8232)%N || (cp =? 8233)%N
                     then [x5c; x75; x32; x30; x32; hex_digit jhex (cp mod 16)] ++ json_str_body f (skipn w s)
                     else firstn w s ++ json_str_body f (skipn w s)
                 end
        end
    end.
  Definition json_string (s : bytes) : bytes := x22 :: json_str_body (S (length s)) s ++ [x22].

  (* compactJsonWriter.WriteBytes: one code point per byte *)
  Definition latin1_utf8 (s : bytes) : bytes := flat_map (fun c => utf8_encode (bn c)) s.

  Definition json_leaf (l : leaf) : bytes :=
    match l with
    | LInt z => print_dec z
    | LFloat is32 bits =>
        match classify_float is32 bits with
        | FNaN => json_string s_nan | FPosInf => json_string s_inf | FNegInf => json_string s_ninf
        | FFinite => fmtF is32 bits
        end
    | LBool b => if b then s_true else s_false
    | LStr s => json_string s
    | LBytes s => json_string (latin1_utf8 s)
    end.

  Fixpoint spaces (n : nat) : bytes := match n with 0 => [] | S k => x20 :: x20 :: spaces k end.  (* two per level *)
  Definition nl : bytes := [x0a].

  Fixpoint join_bytes (sep : bytes) (l : list bytes) : bytes :=
    match l with [] => [] | [a] => a | a :: r => a ++ sep ++ join_bytes sep r end.

  (* depth = current indent level of the pretty writer *)
  Fixpoint render_json (pretty : bool) (depth : nat) (d : doc) {struct d} : bytes :=
    match d with
    | DLeaf l => json_leaf l
    | DArr [] => [x5b; x5d]
    | DArr items =>
        let rs := (fix go (l : list doc) : list bytes :=
                     match l with [] => [] | x :: r => render_json pretty (S depth) x :: go r end) items in
        if pretty
        then [x5b] ++ nl ++ spaces (S depth) ++ join_bytes ([x2c] ++ nl ++ spaces (S depth)) rs ++ nl ++ spaces depth ++ [x5d]
        else [x5b] ++ join_bytes [x2c] rs ++ [x5d]
    | DObj [] => [x7b; x7d]
    | DObj ents =>
        let rs := (fix go (l : list (bytes * doc)) : list bytes :=
                     match l with
                     | [] => []
                     | (k, x) :: r =>
                         ((if pretty then spaces (S depth) ++ json_string k ++ [x3a; x20] else json_string k ++ [x3a])
                            ++ render_json pretty (S depth) x) :: go r
                     end) ents in
        if pretty
        then [x7b] ++ nl ++ join_bytes ([x2c] ++ nl) rs ++ nl ++ spaces depth ++ [x7d]
        else [x7b] ++ join_bytes [x2c] rs ++ [x7d]
    end.

  (* ---- ROR2 ---- *)
  Variables (hex path_chars query_chars header_chars : bytes).
  Variables (empty_marker list_prefix : bytes).     (* "''" and "List(" *)

  Definition ror2_string (fl : flavour) (s : bytes) : bytes :=
    match s with [] => empty_marker | _ => escape hex path_chars query_chars header_chars fl s end.

  Definition ror2_leaf (fl : flavour) (l : leaf) : bytes :=
    match l with
    | LInt z => print_dec z
    | LFloat is32 bits =>
        match classify_float is32 bits with
        | FNaN => s_nan | FPosInf => s_inf | FNegInf => s_ninf
        | FFinite => escape hex path_chars query_chars header_chars fl (fmtF is32 bits)
        end
    | LBool b => if b then s_true else s_false
    | LStr s => ror2_string fl s
    | LBytes s => ror2_string fl s
    end.

  Fixpoint render_ror2 (fl : flavour) (d : doc) {struct d} : bytes :=
    match d with
    | DLeaf l => ror2_leaf fl l
    | DArr items =>
        list_prefix ++ join_bytes [x2c] ((fix go (l : list doc) : list bytes :=
                                            match l with [] => [] | x :: r => render_ror2 fl x :: go r end) items) ++ [x29]
    | DObj ents =>
        [x28] ++ join_bytes [x2c] ((fix go (l : list (bytes * doc)) : list bytes :=
                                      match l with
                                      | [] => []
                                      | (k, x) :: r => (ror2_string fl k ++ [x3a] ++ render_ror2 fl x) :: go r
                                      end) ents) ++ [x29]
    end.
End Render.
