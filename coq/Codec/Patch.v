(* Partial updates: the generated X_PartialUpdate structs and their (un)marshalers (codegen/types/record_partial_update.go)
   together with restli/patch/partial_update_utils.go (PartialUpdateFieldChecker.CheckField), as functions from a schema and
   an abstract patch value to a document tree and back from a JSON tree.  Function by function; no proofs here.

   The generated struct (record_partial_update.go:36-49):
     type X_PartialUpdate struct {
         Y_PartialUpdate ...            one embedded struct per included record Y (EmptyRecord skipped: not modelled)
         Delete_Fields X_PartialUpdate_Delete_Fields     one bool per OPTIONAL/DEFAULT own field (a required field has no flag)
         Set_Fields    X_PartialUpdate_Set_Fields        one pointer per own field
         F *R_PartialUpdate ...         one pointer per own field whose type is a record R
     }
   [PPatch incs deletes sets nested]: every list but [incs] has one slot per OWN field in declaration order; the slots that do not
   exist in the Go struct (delete flag of a required field, nested patch of a non-record field) are never read by the model
   (exactly as the generator emits the literal [false] for them in CheckFields).
   X_PartialUpdate_Delete_Fields additionally embeds the Delete_Fields structs of the included records; no generated function
   reads or writes those embedded copies (the code goes through X.Y_PartialUpdate.Delete_Fields instead): dead state, not modelled. *)
From Coq Require Import List Bool Arith ZArith NArith.
From Coq.Strings Require Import Byte.
From GR Require Import Base.Bytes Base.Res Codec.Schema Codec.Doc Codec.Tracker Codec.Encode Codec.Json Codec.Decode.
Import ListNotations.

Inductive patch :=
| PPatch (incs : list patch) (deletes : list bool) (sets : list (option value)) (nested : list (option patch)).

Definition p_incs (p : patch) := match p with PPatch a _ _ _ => a end.
Definition p_deletes (p : patch) := match p with PPatch _ a _ _ => a end.
Definition p_sets (p : patch) := match p with PPatch _ _ a _ => a end.
Definition p_nested (p : patch) := match p with PPatch _ _ _ a => a end.

Definition patch_key : bytes := [x70; x61; x74; x63; x68].     (* patch.PatchField = "patch" *)
Definition is_some {A} (o : option A) : bool := match o with Some _ => true | None => false end.

(* f.Type.Record() (codegen/types/type.go:99): a direct reference to a record *)
Definition rec_of (e : env) (t : ty) : option nat :=
  match t with
  | TRef n => match lookup e n with Some (DRecord _ _) => Some n | _ => None end
  | _ => None
  end.

(* PartialUpdateFieldChecker.CheckField (partial_update_utils.go:24-59); acc = (HasDeletes, HasSets) *)
Definition check_field (excluded : bytes -> bool) (name : bytes) (d s p : bool) (acc : bool * bool) : res (bool * bool) :=
  if negb (d || s || p) then Ok acc
  else if excluded name then Err EPatch
  else if (d && s) || (d && p) || (s && p) then Err EPatch
  else Ok (fst acc || d, snd acc || s).

Section Patch.
  Variable e : env.
  Variable wildcard : bytes.

  (* new(X_PartialUpdate) *)
  Fixpoint zero_patch (fuel : nat) (n : nat) : patch :=
    match fuel with
    | 0 => PPatch [] [] [] []
    | S f =>
        match lookup e n with
        | Some (DRecord incs fs) =>
            PPatch (map (zero_patch f) incs) (map (fun _ => false) fs) (map (fun _ => None) fs) (map (fun _ => None) fs)
        | _ => PPatch [] [] [] []
        end
    end.

  (* ---- CheckFields (record_partial_update.go:61-97) ---- *)
  (* the own fields, in declaration order; the generator passes the literal false for the delete flag of a required field
     and for the nested flag of a non-record field *)
  Fixpoint check_own (excluded : bytes -> bool) (fs : list field) (ds : list bool) (ss : list (option value))
           (ns : list (option patch)) (acc : bool * bool) : res (bool * bool) :=
    match fs, ds, ss, ns with
    | [], [], [], [] => Ok acc
    | fd :: fs', d :: ds', s :: ss', n :: ns' =>
        do acc' <- check_field excluded (f_name fd)
                               (if is_required (f_opt fd) then false else d)
                               (is_some s)
                               (match rec_of e (f_ty fd) with Some _ => is_some n | None => false end) acc;
        check_own excluded fs' ds' ss' ns' acc'
    | _, _, _, _ => Err EType
    end.

  (* the included records' CheckFields first (same fieldChecker, same keyChecker), then the own fields.
     NOT recursive into nested patches: those are checked when they are themselves (un)marshaled. *)
  Fixpoint check_fields (fuel : nat) (n : nat) (excluded : bytes -> bool) (p : patch) (acc : bool * bool) : res (bool * bool) :=
    match fuel with
    | 0 => Err EFuel
    | S f =>
        match lookup e n, p with
        | Some (DRecord incs fs), PPatch ips ds ss ns =>
            do acc1 <- (fix go (is : list nat) (ps : list patch) (acc : bool * bool) : res (bool * bool) :=
                          match is, ps with
                          | [], [] => Ok acc
                          | i :: is', ip :: ps' => do a <- check_fields f i excluded ip acc; go is' ps' a
                          | _, _ => Err EType
                          end) incs ips acc;
            check_own excluded fs ds ss ns acc1
        | _, _ => Err EType
        end
    end.

  (* checkAllFields: a fresh fieldChecker *)
  Definition check_patch (fuel : nat) (n : nat) (excluded : bytes -> bool) (p : patch) : res (bool * bool) :=
    check_fields fuel n excluded p (false, false).

  (* ---- $delete list ---- *)
  (* X_PartialUpdate_Delete_Fields.MarshalDeleteFields: the flagged optional/default OWN fields, sorted by name *)
  Definition own_deletes (fs : list field) (ds : list bool) : list bytes :=
    map fst (sort_entries (flat_map (fun fd_d : field * bool =>
                                       if negb (is_required (f_opt (fst fd_d))) && snd fd_d then [(f_name (fst fd_d), tt)] else [])
                                    (combine fs ds))).

  (* X_PartialUpdate.MarshalDeleteFields (record_partial_update.go:283-297): for each included record Y it calls
     x.Y_PartialUpdate.Delete_Fields.MarshalDeleteFields, i.e. Y's OWN flags only (Y's own includes are not visited), then the
     own flags *)
  Definition delete_names (n : nat) (p : patch) : list bytes :=
    match lookup e n, p with
    | Some (DRecord incs fs), PPatch ips ds _ _ =>
        flat_map (fun i_ip : nat * patch =>
                    match lookup e (fst i_ip) with
                    | Some (DRecord _ ifs) => own_deletes ifs (p_deletes (snd i_ip))
                    | _ => []
                    end) (combine incs ips)
        ++ own_deletes fs ds
    | _, _ => []
    end.

  (* X_PartialUpdate_Delete_Fields.UnmarshalDeleteField: a switch over the OWN fields (record_partial_update.go:262-281) *)
  Inductive del_res := DelSet (ds : list bool) | DelRequired | DelNoSuch.
  Definition own_unmarshal_delete (fs : list field) (ds : list bool) (name : bytes) : del_res :=
    match index_of name (map f_name fs) 0 with
    | Some j =>
        match nth_error fs j with
        | Some fd => if is_required (f_opt fd) then DelRequired else DelSet (set_nth j true ds)
        | None => DelNoSuch
        end
    | None => DelNoSuch
    end.

  (* X_PartialUpdate.UnmarshalDeleteField (record_partial_update.go:299-311) followed by the caller's
     "if err == NoSuchFieldErr { err = nil }": for each included record Y, Y's Delete_Fields switch (OWN fields of Y only);
     the first answer other than NoSuchFieldErr wins; then the own switch.  An unknown name leaves the struct unchanged. *)
  Definition unmarshal_delete (n : nat) (p : patch) (name : bytes) : res patch :=
    match lookup e n, p with
    | Some (DRecord incs fs), PPatch ips ds ss ns =>
        let fix go (is : list nat) (ps : list patch) (pos : nat) : option (res (list patch)) :=
          match is, ps with
          | i :: is', ip :: ps' =>
              match lookup e i, ip with
              | Some (DRecord _ ifs), PPatch a ids b c =>
                  match own_unmarshal_delete ifs ids name with
                  | DelSet ids' => Some (Ok (set_nth pos (PPatch a ids' b c) ips))
                  | DelRequired => Some (Err EPatch)
                  | DelNoSuch => go is' ps' (S pos)
                  end
              | _, _ => Some (Err EType)
              end
          | _, _ => None
          end in
        match go incs ips 0 with
        | Some r => do ips' <- r; Ok (PPatch ips' ds ss ns)
        | None =>
            match own_unmarshal_delete fs ds name with
            | DelSet ds' => Ok (PPatch ips ds' ss ns)
            | DelRequired => Err EPatch
            | DelNoSuch => Ok p
            end
        end
    | _, _ => Err EType
    end.

  (* ================================================================================================================
     Encoding
     ================================================================================================================ *)
  Variable excl : pathspec.          (* excluded fields of the writer / reader *)
  Notation excluded := (excluded wildcard excl).

  (* keyWriter(key) + the value's marshaler (writer.go:185-205): excluded -> NoopWriter *)
  Definition enc_key (fuel : nat) (scope : list bytes) (key : bytes) (t : ty) (v : value) : res (list (bytes * doc)) :=
    let scope' := scope ++ [key] in
    if excluded scope' then do _ <- enc_noop t v; Ok []
    else do d <- enc e wildcard excl fuel scope' t v; Ok [(key, d)].

  (* X_PartialUpdate_Set_Fields.MarshalFields: a record all of whose fields are optional.  The generated code visits the fields
     in name order, this function in declaration order: the entries are sorted by WriteMap afterwards, and when two values fail
     it only changes which of the two errors is reported. *)
  Fixpoint own_set_entries (fuel : nat) (scope : list bytes) (fs : list field) (ss : list (option value))
    : res (list (bytes * doc)) :=
    match fs, ss with
    | [], [] => Ok []
    | fd :: fs', s :: ss' =>
        do here <- match s with Some v => enc_key fuel scope (f_name fd) (f_ty fd) v | None => Ok [] end;
        do rest <- own_set_entries fuel scope fs' ss';
        Ok (here ++ rest)
    | _, _ => Err EType
    end.

  (* X_PartialUpdate.MarshalSetFields (record_partial_update.go:337-349): the included records' MarshalSetFields (recursively),
     then the own Set_Fields *)
  Fixpoint set_entries (fuel : nat) (scope : list bytes) (n : nat) (p : patch) : res (list (bytes * doc)) :=
    match fuel with
    | 0 => Err EFuel
    | S f =>
        match lookup e n, p with
        | Some (DRecord incs fs), PPatch ips _ ss _ =>
            do a <- (fix go (is : list nat) (ps : list patch) : res (list (bytes * doc)) :=
                       match is, ps with
                       | [], [] => Ok []
                       | i :: is', ip :: ps' => do x <- set_entries f scope i ip; do y <- go is' ps'; Ok (x ++ y)
                       | _, _ => Err EType
                       end) incs ips;
            do b <- own_set_entries f scope fs ss;
            Ok (a ++ b)
        | _, _ => Err EType
        end
    end.

  (* the nested patches of the OWN record-typed fields (record_partial_update.go:130-139 iterates r.SortedFields(), i.e. the own
     fields only: a record-typed field inherited from an included record is checked by CheckFields but never written).
     keyWriter(name) of an excluded key is the NoopWriter, whose WriteMap returns nil without running the callback. *)
  Section Nested.
    Variable rec : list bytes -> nat -> patch -> res doc.
    Fixpoint nested_entries (scope : list bytes) (fs : list field) (ns : list (option patch)) : res (list (bytes * doc)) :=
      match fs, ns with
      | [], [] => Ok []
      | fd :: fs', np :: ns' =>
          do here <- match rec_of e (f_ty fd), np with
                     | Some m, Some q =>
                         if excluded (scope ++ [f_name fd]) then Ok []
                         else do d <- rec (scope ++ [f_name fd]) m q; Ok [(f_name fd, d)]
                     | _, _ => Ok []
                     end;
          do rest <- nested_entries scope fs' ns';
          Ok (here ++ rest)
      | _, _ => Err EType
      end.
  End Nested.

  Definition str_leaf (s : bytes) : doc := DLeaf (LStr s).

  (* MarshalRestLiPatch(writer) (record_partial_update.go:108-144), the writer being at [scope]:
     WriteMap { CheckFields(fieldChecker, writer); $delete array; $set map; nested patches } *)
  Fixpoint enc_patch_at (fuel : nat) (scope : list bytes) (n : nat) (p : patch) {struct fuel} : res doc :=
    match fuel with
    | 0 => Err EFuel
    | S f =>
        match lookup e n, p with
        | Some (DRecord incs fs), PPatch ips ds ss ns =>
            (* the writer is the KeyChecker: IsKeyExcluded(k) = Matches(scope ++ [k]) (writer.go:263-267) *)
            do hs <- check_patch f n (fun k => excluded (scope ++ [k])) p;
            do del <- (if fst hs then
                         if excluded (scope ++ [op_delete]) then Ok []
                         else Ok [(op_delete, DArr (map str_leaf (delete_names n p)))]
                       else Ok []);
            do set <- (if snd hs then
                         if excluded (scope ++ [op_set]) then Ok []
                         else do ents <- set_entries f (scope ++ [op_set]) n p; Ok [(op_set, DObj (sort_entries ents))]
                       else Ok []);
            do nst <- nested_entries (enc_patch_at f) scope fs ns;
            Ok (DObj (sort_entries (del ++ set ++ nst)))
        | _, _ => Err EType
        end
    end.

  (* MarshalRestLi(writer) (record_partial_update.go:145-149), the writer at the root:
     WriteMap { MarshalRestLiPatch(keyWriter("patch").SetScope()) } - SetScope() copies the writer with an EMPTY scope, so the
     directives are relative to the record; NoopWriter.SetScope() is the NoopWriter *)
  Definition enc_patch (fuel : nat) (n : nat) (p : patch) : res doc :=
    if excluded [patch_key] then Ok (DObj [])
    else do d <- enc_patch_at fuel [] n p; Ok (DObj [(patch_key, d)]).

  (* ================================================================================================================
     Decoding (JSON tree level, like decJ)
     ================================================================================================================ *)
  Variable ignore : nat.
  Variable parseF : nat -> bytes -> option N.
  Notation enter_map := (enter_map wildcard excl ignore).
  Notation is_key_excluded := (is_key_excluded wildcard excl ignore).
  Notation decJ := (decJ e wildcard excl ignore parseF).

  (* X_PartialUpdate.UnmarshalSetField (record_partial_update.go:351-363): the included records first (recursively), then the
     own Set_Fields.UnmarshalField switch *)
  Fixpoint unmarshal_set (k : nat) (fuel : nat) (n : nat) (key : bytes) (jd : jdoc) (p : patch) (tr : tracker) {struct k}
    : res (bool * patch * tracker) :=
    match k with
    | 0 => Err EFuel
    | S k' =>
        match lookup e n, p with
        | Some (DRecord incs fs), PPatch ips ds ss ns =>
            let fix try_incs (is : list nat) (ps : list patch) (pos : nat) : res (option (nat * patch * tracker)) :=
              match is, ps with
              | i :: is', ip :: ps' =>
                  do r <- unmarshal_set k' fuel i key jd ip tr;
                  let '(found, ip', tr') := r in
                  if found then Ok (Some (pos, ip', tr')) else try_incs is' ps' (S pos)
              | _, _ => Ok None
              end in
            do hit <- try_incs incs ips 0;
            match hit with
            | Some (pos, ip', tr') => Ok (true, PPatch (set_nth pos ip' ips) ds ss ns, tr')
            | None =>
                match index_of key (map f_name fs) 0 with
                | Some j =>
                    match nth_error fs j with
                    | Some fd =>
                        do r <- decJ fuel false (f_ty fd) jd tr;
                        let '(v, tr') := r in
                        Ok (true, PPatch ips ds (set_nth j (Some v) ss) ns, tr')
                    | None => Err EType
                    end
                | None => Ok (false, p, tr)        (* the caller Skip()s *)
                end
            end
        | _, _ => Err EType
        end
    end.

  (* case "$delete": ReadArray of strings, each handed to UnmarshalDeleteField (the array scope pushed and popped around every
     item leaves the tracker as it was) *)
  Definition dec_deletes (n : nat) (x : jdoc) (p : patch) (tr : tracker) : res (patch * tracker) :=
    match x with
    | JNull => Ok (p, tr)
    | JArr items =>
        (fix go (l : list jdoc) (p : patch) : res (patch * tracker) :=
           match l with
           | [] => Ok (p, tr)
           | it :: r => do s <- jstring it; do p' <- unmarshal_delete n p s; go r p'
           end) items p
    | _ => Err EDeser
    end.

  (* case "$set": ReadMap; every key goes through enterMapScope, then UnmarshalSetField, Skip() when not found *)
  Definition dec_sets (fuel : nat) (n : nat) (x : jdoc) (p : patch) (tr : tracker) : res (patch * tracker) :=
    do es <- match x with JNull => Ok [] | JObj es => Ok es | _ => Err EDeser end;
    (fix go (l : list (bytes * jdoc)) (p : patch) (tr : tracker) : res (patch * tracker) :=
       match l with
       | [] => Ok (p, tr)
       | (k, y) :: r =>
           match y with
           | JNull => go r p tr
           | _ => do tr1 <- enter_map k tr;
                  do u <- unmarshal_set (S (length e)) fuel n k y p tr1;
                  let '(_, p', tr2) := u in go r p' (pop tr2)
           end
       end) es p tr.

  (* the remaining cases of the switch: an OWN record-typed field -> a fresh nested struct, UnmarshalRestLiPatch on it;
     anything else (also a record-typed field inherited from an included record) -> Skip() *)
  Section DecNested.
    Variable rec : nat -> jdoc -> patch -> tracker -> res (patch * tracker).
    Definition dec_nested (fs : list field) (k : bytes) (x : jdoc) (p : patch) (tr : tracker) : res (patch * tracker) :=
      match index_of k (map f_name fs) 0 with
      | Some j =>
          match nth_error fs j with
          | Some fd =>
              match rec_of e (f_ty fd) with
              | Some m =>
                  do r <- rec m x (zero_patch (S (length e)) m) tr;
                  let '(q, tr') := r in
                  match p with PPatch ips ds ss ns => Ok (PPatch ips ds ss (set_nth j (Some q) ns), tr') end
              | None => Ok (p, tr)
              end
          | None => Err EType
          end
      | None => Ok (p, tr)
      end.
  End DecNested.

  (* UnmarshalRestLiPatch(reader) on the struct p (record_partial_update.go:151-203): ReadMap with the switch, then
     CheckFields with the READER as KeyChecker (IsKeyExcluded = enterMapScope + exitScope at the current scope) *)
  Fixpoint dec_patch_at (fuel : nat) (n : nat) (jd : jdoc) (p : patch) (tr : tracker) {struct fuel} : res (patch * tracker) :=
    match fuel with
    | 0 => Err EFuel
    | S f =>
        match lookup e n with
        | Some (DRecord incs fs) =>
            do es <- match jd with JNull => Ok [] | JObj es => Ok es | _ => Err EDeser end;
            do r <- (fix go (l : list (bytes * jdoc)) (p : patch) (tr : tracker) : res (patch * tracker) :=
                       match l with
                       | [] => Ok (p, tr)
                       | (k, x) :: r =>
                           match x with
                           | JNull => go r p tr
                           | _ => do tr1 <- enter_map k tr;
                                  do u <- (if bytes_eqb k op_delete then dec_deletes n x p tr1
                                           else if bytes_eqb k op_set then dec_sets f n x p tr1
                                           else dec_nested (dec_patch_at f) fs k x p tr1);
                                  let '(p', tr2) := u in go r p' (pop tr2)
                           end
                       end) es p tr;
            let '(p1, tr1) := r in
            do _ <- check_patch f n (fun k => is_key_excluded k tr1) p1;
            Ok (p1, tr1)
        | _ => Err EType
        end
    end.

  (* UnmarshalRestLi(reader) (record_partial_update.go:205-215): ReadRecord with the required field "patch"; every other key
     is skipped.  The struct starts as the zero value. *)
  Definition dec_patch (fuel : nat) (n : nat) (jd : jdoc) (tr : tracker) : res (patch * tracker) :=
    do es <- match jd with JNull => Ok [] | JObj es => Ok es | _ => Err EDeser end;
    do r <- (fix go (l : list (bytes * jdoc)) (p : patch) (rem : list bytes) (tr : tracker) : res (patch * list bytes * tracker) :=
               match l with
               | [] => Ok (p, rem, tr)
               | (k, x) :: r =>
                   match x with
                   | JNull => go r p rem tr
                   | _ => do tr1 <- enter_map k tr;
                          do u <- (if bytes_eqb k patch_key then dec_patch_at fuel n x p tr1 else Ok (p, tr1));
                          let '(p', tr2) := u in go r p' (remove_bytes k rem) (pop tr2)
                   end
               end) es (zero_patch (S (length e)) n) [patch_key] tr;
    let '(p, rem, tr1) := r in
    Ok (p, record_missing wildcard excl ignore rem tr1).

  (* the reader raises MissingRequiredFieldsError only when the record is at the start of the input *)
  Definition finish_patch (top : bool) (r : res (patch * tracker)) : res patch :=
    match r with
    | Ok (p, tr) =>
        match t_missing tr with
        | [] => Ok p
        | ms => if top then Err (EMissing (sort_bytes ms)) else Ok p
        end
    | Err x => Err x
    | Panic => Panic
    end.

  (* NewJsonReaderWithExcludedFields(data, excl, ignore) + UnmarshalRestLi.  [pre] = the scope the reader is in when the
     generated UnmarshalRestLi is called: [] for a partial_update body; ["entities"; key] inside a batch_partial_update body
     (then the document is not at the start of the input and nothing is raised here) *)
  Definition decode_patch_json (fuel : nat) (pre : list bytes) (n : nat) (data : bytes) : res patch :=
    match data with
    | [] => Err EDeser
    | _ => if bytes_eqb data lit_null then Err EDeser
           else match parse_json data with
                | None => Err EDeser
                | Some jd =>
                    finish_patch (match pre with [] => true | _ => false end)
                                 (dec_patch fuel n jd {| t_scope := map SKey pre; t_missing := [] |})
                end
    end.
End Patch.
