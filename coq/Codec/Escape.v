(* Percent-escaping as done by Ror2PathEscape / Ror2QueryEscape / headerEncodingEscaper (hexEscape, constants.go),
   and the decoders the readers use: url.PathUnescape / url.QueryUnescape (modelled from net/url: a first pass rejects
   malformed %XX, the second pass decodes; '+' is a space only in query mode). No proofs here. *)
From Coq Require Import List Bool Arith NArith.
From Coq.Strings Require Import Byte.
From GR Require Import Base.Bytes.
Import ListNotations.

Definition hex_digit (tbl : bytes) (n : N) : byte := nth (N.to_nat n) tbl x00.

(* constants.go:20-26 hexEscape: '%', hexChars[c>>4], hexChars[c&15] *)
Definition hex_escape (tbl : bytes) (c : byte) : bytes :=
  [x25; hex_digit tbl (bn c / 16); hex_digit tbl (bn c mod 16)].

Definition escape_with (tbl : bytes) (safe : byte -> bool) (s : bytes) : bytes :=
  flat_map (fun c => if safe c then [c] else hex_escape tbl c) s.

(* net/url unhex / ishex *)
Definition unhex (c : byte) : option N :=
  let n := bn c in
  if (48 <=? n)%N && (n <=? 57)%N then Some (n - 48)%N
  else if (97 <=? n)%N && (n <=? 102)%N then Some (n - 97 + 10)%N
  else if (65 <=? n)%N && (n <=? 70)%N then Some (n - 65 + 10)%N
  else None.

(* url.PathUnescape (plus = false) / url.QueryUnescape (plus = true); None = EscapeError *)
Fixpoint unescape (plus : bool) (s : bytes) : option bytes :=
  match s with
  | [] => Some []
  | c :: r =>
      if Byte.eqb c x25 then
        match r with
        | h :: l :: r' =>
            match unhex h, unhex l, unescape plus r' with
            | Some a, Some b, Some t => Some (nb (16 * a + b) :: t)
            | _, _, _ => None
            end
        | _ => None
        end
      else
        match unescape plus r with
        | Some t => Some ((if plus && Byte.eqb c x2b then x20 else c) :: t)
        | None => None
        end
  end.

Definition in_set (set : bytes) (c : byte) : bool := mem_byte c set.
Definition not_in_set (set : bytes) (c : byte) : bool := negb (mem_byte c set).

(* the three ROR2 flavours *)
Inductive flavour := FHeader | FPath | FQuery.

Section Tables.
  Variables (hex path_chars query_chars header_chars : bytes).
  Definition safe_of (fl : flavour) : byte -> bool :=
    match fl with
    | FHeader => not_in_set header_chars      (* strings.NewReplacer pairs: only these are escaped *)
    | FPath => in_set path_chars              (* Ror2PathEscape *)
    | FQuery => in_set query_chars            (* Ror2QueryEscape; ' ' is hex-escaped explicitly, it is not in the set *)
    end.
  Definition escape (fl : flavour) (s : bytes) : bytes := escape_with hex (safe_of fl) s.
  (* readers: NewRor2Reader (header and path) uses url.PathUnescape, query parameters use url.QueryUnescape *)
  Definition plus_of (fl : flavour) : bool := match fl with FQuery => true | _ => false end.
  Definition unescape_fl (fl : flavour) (s : bytes) : option bytes := unescape (plus_of fl) s.
End Tables.
