(* Document trees produced by the encoders (typed leaves: the byte rendering of a leaf depends on the format),
   PathSpec (pathspec.go) and the canonical ordering of object entries (writer.go:225 sort.Slice by key). *)
From Coq Require Import List Bool Arith ZArith NArith.
From Coq.Strings Require Import Byte.
From GR Require Import Base.Bytes.
Import ListNotations.

Inductive leaf :=
| LInt (z : Z)
| LFloat (is32 : bool) (bits : N)
| LBool (b : bool)
| LStr (s : bytes)
| LBytes (s : bytes).

Inductive doc :=
| DLeaf (l : leaf)
| DArr (items : list doc)
| DObj (entries : list (bytes * doc)).

(* insertion sort of entries by key (bytewise <, Go string comparison); keys are unique in every use, so any correct
   sort yields this list *)
Fixpoint insert_entry {A} (k : bytes) (v : A) (l : list (bytes * A)) : list (bytes * A) :=
  match l with
  | [] => [(k, v)]
  | (k', v') :: r => if bytes_ltb k k' then (k, v) :: l else (k', v') :: insert_entry k v r
  end.
Fixpoint sort_entries {A} (l : list (bytes * A)) : list (bytes * A) :=
  match l with
  | [] => []
  | (k, v) :: r => insert_entry k v (sort_entries r)
  end.

(* ---- PathSpec: pathspec.go ---- *)
Inductive pathspec := PS (children : list (bytes * pathspec)).
Definition ps_children (p : pathspec) := match p with PS c => c end.
Definition ps_empty : pathspec := PS [].

Fixpoint ps_find (k : bytes) (l : list (bytes * pathspec)) : option pathspec :=
  match l with
  | [] => None
  | (k', p) :: r => if bytes_eqb k k' then Some p else ps_find k r
  end.

(* NewPathSpec: insert one directive (already split on "/") *)
Fixpoint ps_insert (segs : list bytes) (p : pathspec) : pathspec :=
  match segs with
  | [] => p
  | s :: r =>
      let cs := ps_children p in
      match ps_find s cs with
      | Some sub => PS (map (fun kv => if bytes_eqb (fst kv) s then (fst kv, ps_insert r (snd kv)) else kv) cs)
      | None => PS (cs ++ [(s, ps_insert r ps_empty)])
      end
  end.

Definition trim_slash (s : bytes) : bytes :=
  match s with c :: r => if Byte.eqb c x2f then r else s | [] => [] end.

(* NewPathSpec(directives...): TrimPrefix "/", strings.Split "/" *)
Definition new_pathspec (directives : list bytes) : pathspec :=
  fold_left (fun p d => ps_insert (split_on x2f (trim_slash d)) p) directives ps_empty.

Definition op_set : bytes := [x24; x73; x65; x74].                       (* "$set" *)
Definition op_delete : bytes := [x24; x64; x65; x6c; x65; x74; x65].     (* "$delete" *)
Definition is_patch_op (s : bytes) : bool := bytes_eqb s op_set || bytes_eqb s op_delete.

Section Matches.
  Variable wildcard : bytes.
  (* genericMatches (pathspec.go:48-76).  The Go code indexes path[0]: every call site passes a non-empty path
     (the scope right after a push); the empty path is answered false here. *)
  Fixpoint ps_matches (p : pathspec) (path : list bytes) {struct path} : bool :=
    match ps_children p with
    | [] => false
    | cs =>
        let body (p0 : bytes) (rest : list bytes) :=
          let m (s : bytes) :=
            match ps_find s cs with
            | None => false
            | Some spec =>
                match ps_children spec with
                | [] => true
                | _ => match rest with [] => false | _ => ps_matches spec rest end
                end
            end in
          m wildcard || m p0 in
        match path with
        | [] => false
        | a :: rest =>
            if is_patch_op a then
              match rest with
              | [] => false
              | b :: rest' => body b rest'
              end
            else body a rest
        end
    end.
End Matches.
