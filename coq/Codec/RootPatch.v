(* Partial updates of the ROOT module generation (github.com/PapaCharlie/go-restli, not .../v2): the X_PartialUpdate structs the
   root generator emits (codegen/types/record_partial_update.go) together with restli/partial_update_utils.go
   (PartialUpdateFieldChecker.CheckField), as functions from a schema and an abstract patch value to a document tree and back from
   a JSON tree.  Function by function; no proofs here.  (The v2 twin is Codec/Patch.v; the two generators do NOT share this code.)

   The root spec parser hands the generator every record with the fields of its included records FLATTENED into it, so the
   environment [e] of this model is the flattened one (Corr/RootCorr.v flat_env): every record is [DRecord [] fs], fs = r.Fields in
   generation order (inherited fields first, then the own ones).  The generated struct (record_partial_update.go:41-55):
     type X_PartialUpdate struct {                     (an empty struct when the record has no field: isEmpty)
         Delete_Fields X_PartialUpdate_Delete_Fields      one bool per OPTIONAL / DEFAULTED field (:202-222; a required field has no flag)
         Set_Fields    X_PartialUpdate_Set_Fields         a generated RECORD with every field of X, all optional, no defaults (:264-289)
         F *R_PartialUpdate ...                           one pointer per field whose type is (directly) a record R (:49-53)
     }
   [RPatch deletes sets nested]: one slot per field of fs, in generation order; the slots that do not exist in the Go struct (delete
   flag of a required field, nested patch of a non-record field) are never read by the model, exactly as the generator emits the
   literal [false] for them in checkAllFields (:67-80). *)
From Coq Require Import List Bool Arith ZArith NArith.
From Coq.Strings Require Import Byte.
From GR Require Import Base.Bytes Base.Res Codec.Schema Codec.Doc Codec.Tracker Codec.Encode Codec.Json Codec.Decode.
Import ListNotations.

Inductive rpatch :=
| RPatch (deletes : list bool) (sets : list (option value)) (nested : list (option rpatch)).

Definition rp_deletes (p : rpatch) := match p with RPatch a _ _ => a end.
Definition rp_sets (p : rpatch) := match p with RPatch _ a _ => a end.
Definition rp_nested (p : rpatch) := match p with RPatch _ _ a => a end.

Definition root_patch_key : bytes := [x70; x61; x74; x63; x68].     (* restli.PatchField = "patch" (partial_update_utils.go:6) *)
Definition rsome {A} (o : option A) : bool := match o with Some _ => true | None => false end.

(* f.Type.Record() (codegen/types/type.go:95-102): a direct reference that resolves to a record *)
Definition root_rec_of (e : env) (t : ty) : option nat :=
  match t with
  | TRef n => match lookup e n with Some (DRecord _ _) => Some n | _ => None end
  | _ => None
  end.

(* f.IsOptionalOrDefault() (codegen/types/record.go:79-81) *)
Definition deletable (fd : field) : bool := negb (is_required (f_opt fd)).

(* PartialUpdateFieldChecker.CheckField (restli/partial_update_utils.go:17-53); acc = (HasDeletes, HasSets) *)
Definition root_check_field (excluded : bytes -> bool) (name : bytes) (d s p : bool) (acc : bool * bool) : res (bool * bool) :=
  if negb (d || s || p) then Ok acc                                      (* :24-26 *)
  else if excluded name then Err EPatch                                  (* :28-34 checker.IsKeyExcluded(fieldName) *)
  else if (d && s) || (d && p) || (s && p) then Err EPatch               (* :36-42 *)
  else Ok (fst acc || d, snd acc || s).                                  (* :44-50 *)

Section RootPatch.
  Variable e : env.
  Variable wildcard : bytes.

  (* new(X_PartialUpdate) *)
  Definition root_zero_patch (n : nat) : rpatch :=
    match lookup e n with
    | Some (DRecord _ fs) => RPatch (map (fun _ => false) fs) (map (fun _ => None) fs) (map (fun _ => None) fs)
    | _ => RPatch [] [] []
    end.

  (* ---- checkAllFields (record_partial_update.go:63-90): a fresh PartialUpdateFieldChecker, then CheckField for every field of
     r.Fields IN GENERATION ORDER; d = the delete flag when the field is optional / defaulted, else the literal false; s = the
     Set_Fields pointer is non-nil; p = the nested pointer is non-nil when the field's type is a record, else the literal false ---- *)
  Fixpoint root_check_own (excluded : bytes -> bool) (fs : list field) (ds : list bool) (ss : list (option value))
           (ns : list (option rpatch)) (acc : bool * bool) : res (bool * bool) :=
    match fs, ds, ss, ns with
    | [], [], [], [] => Ok acc
    | fd :: fs', d :: ds', s :: ss', n :: ns' =>
        do acc' <- root_check_field excluded (f_name fd)
                                    (if deletable fd then d else false)
                                    (rsome s)
                                    (match root_rec_of e (f_ty fd) with Some _ => rsome n | None => false end) acc;
        root_check_own excluded fs' ds' ss' ns' acc'
    | _, _, _, _ => Err EType
    end.

  (* NOT recursive into nested patches: those run their own checkAllFields when they are themselves (un)marshaled *)
  Definition root_check_fields (n : nat) (excluded : bytes -> bool) (p : rpatch) : res (bool * bool) :=
    match lookup e n, p with
    | Some (DRecord _ fs), RPatch ds ss ns => root_check_own excluded fs ds ss ns (false, false)
    | _, _ => Err EType
    end.

  (* ---- X_PartialUpdate_Delete_Fields.MarshalRestLi (record_partial_update.go:225-234): WriteArray of the names of the flagged
     deletable fields, in NAME order (fields := sorted copy of deletableFields, :214-215) ---- *)
  Definition root_delete_names (fs : list field) (ds : list bool) : list bytes :=
    map fst (sort_entries (flat_map (fun fd_d : field * bool =>
                                       if deletable (fst fd_d) && snd fd_d then [(f_name (fst fd_d), tt)] else [])
                                    (combine fs ds))).
  Definition rstr_leaf (s : bytes) : doc := DLeaf (LStr s).
  Definition root_enc_deletes (fs : list field) (ds : list bool) : doc := DArr (map rstr_leaf (root_delete_names fs ds)).

  (* ---- X_PartialUpdate_Delete_Fields.UnmarshalRestLi (record_partial_update.go:236-259): ReadArray; every item is read as a
     string and switched over ALL fields of r.Fields: a required field -> IllegalPartialUpdateError "Cannot delete required"
     (:246-252, since commit d22f0a4), a deletable one -> its flag = true (:254); the switch has no default: any other name is
     ignored.  The array scope pushed and popped around every item leaves the tracker as it was. ---- *)
  Definition root_unmarshal_delete (fs : list field) (ds : list bool) (name : bytes) : res (list bool) :=
    match index_of name (map f_name fs) 0 with
    | Some j =>
        match nth_error fs j with
        | Some fd => if deletable fd then Ok (set_nth j true ds) else Err EPatch
        | None => Ok ds
        end
    | None => Ok ds
    end.

  Definition root_dec_deletes (fs : list field) (x : jdoc) (ds : list bool) (tr : tracker) : res (list bool * tracker) :=
    match x with
    | JNull => Ok (ds, tr)
    | JArr items =>
        (fix go (l : list jdoc) (ds : list bool) : res (list bool * tracker) :=
           match l with
           | [] => Ok (ds, tr)
           | it :: r => do s <- jstring it; do ds' <- root_unmarshal_delete fs ds s; go r ds'
           end) items ds
    | _ => Err EDeser
    end.

  (* ================================================================================================================
     Encoding
     ================================================================================================================ *)
  Variable excl : pathspec.          (* excluded fields of the writer / reader *)
  Notation excluded := (excluded wildcard excl).

  (* keyWriter(key) of genericWriter.WriteMap (restlicodec/writer.go:158-190) + the value's marshaler: an excluded key gets the
     NoopWriter (only an enum's constant lookup can still fail) *)
  Definition root_enc_key (fuel : nat) (scope : list bytes) (key : bytes) (t : ty) (v : value) : res (list (bytes * doc)) :=
    let scope' := scope ++ [key] in
    if excluded scope' then do _ <- enc_noop t v; Ok []
    else do d <- enc e wildcard excl fuel scope' t v; Ok [(key, d)].

  (* X_PartialUpdate_Set_Fields.MarshalRestLi: the generated marshaler of a record all of whose fields are optional
     (record_partial_update.go:276-287 + record_marshaler.go:38-44, 108-124): one WriteMap, the non-nil fields in NAME order.
     This function visits them in generation order and sorts the entries afterwards: when two values fail it only changes which
     of the two errors is reported. *)
  Fixpoint root_set_entries (fuel : nat) (scope : list bytes) (fs : list field) (ss : list (option value))
    : res (list (bytes * doc)) :=
    match fs, ss with
    | [], [] => Ok []
    | fd :: fs', s :: ss' =>
        do here <- match s with Some v => root_enc_key fuel scope (f_name fd) (f_ty fd) v | None => Ok [] end;
        do rest <- root_set_entries fuel scope fs' ss';
        Ok (here ++ rest)
    | _, _ => Err EType
    end.
  Definition root_enc_sets (fuel : nat) (scope : list bytes) (fs : list field) (ss : list (option value)) : res doc :=
    do ents <- root_set_entries fuel scope fs ss; Ok (DObj (sort_entries ents)).

  (* the nested patches (record_partial_update.go:119-128): the record-typed fields in NAME order (fields = r.SortedFields()), each
     non-nil one marshaled with MarshalRestLiPatch(keyWriter(name)); keyWriter of an excluded key is the NoopWriter, whose WriteMap
     returns nil without running the callback (restlicodec/noop.go:21-23).  Generation order here, sorted by the caller. *)
  Section Nested.
    Variable rec : list bytes -> nat -> rpatch -> res doc.
    Fixpoint root_nested_entries (scope : list bytes) (fs : list field) (ns : list (option rpatch)) : res (list (bytes * doc)) :=
      match fs, ns with
      | [], [] => Ok []
      | fd :: fs', np :: ns' =>
          do here <- match root_rec_of e (f_ty fd), np with
                     | Some m, Some q =>
                         if excluded (scope ++ [f_name fd]) then Ok []
                         else do d <- rec (scope ++ [f_name fd]) m q; Ok [(f_name fd, d)]
                     | _, _ => Ok []
                     end;
          do rest <- root_nested_entries scope fs' ns';
          Ok (here ++ rest)
      | _, _ => Err EType
      end.
  End Nested.

  (* MarshalRestLiPatch(writer) (record_partial_update.go:94-133), the writer being at [scope]:
     WriteMap { isEmpty -> return nil; checkAllFields(writer as KeyChecker); if HasDeletes: "$delete"; if HasSets: "$set"; nested }.
     The root WriteMap STREAMS its members in the order supplied: $delete, $set, then the nested patches in name order. *)
  Fixpoint root_enc_patch_at (fuel : nat) (scope : list bytes) (n : nat) (p : rpatch) {struct fuel} : res doc :=
    match fuel with
    | 0 => Err EFuel
    | S f =>
        match lookup e n, p with
        | Some (DRecord _ fs), RPatch ds ss ns =>
            match fs with
            | [] => Ok (DObj [])                                                         (* :100-103 *)
            | _ =>
                (* the writer is the KeyChecker: IsKeyExcluded(k) = Matches(scope ++ [k]) (restlicodec/writer.go:217-222) *)
                do hs <- root_check_own (fun k => excluded (scope ++ [k])) fs ds ss ns (false, false);
                do del <- (if fst hs then
                             if excluded (scope ++ [op_delete]) then Ok []
                             else Ok [(op_delete, root_enc_deletes fs ds)]
                           else Ok []);
                do set <- (if snd hs then
                             if excluded (scope ++ [op_set]) then Ok []
                             else do d <- root_enc_sets f (scope ++ [op_set]) fs ss; Ok [(op_set, d)]
                           else Ok []);
                do nst <- root_nested_entries (root_enc_patch_at f) scope fs ns;
                Ok (DObj (del ++ set ++ sort_entries nst))
            end
        | _, _ => Err EType
        end
    end.

  (* MarshalRestLi(writer) (record_partial_update.go:134-138), the writer at the root:
     WriteMap { MarshalRestLiPatch(keyWriter("patch").SetScope()) } - SetScope() copies the writer with an EMPTY scope
     (restlicodec/writer.go:224-229), so the directives are relative to the record; NoopWriter.SetScope() is the NoopWriter *)
  Definition root_enc_patch (fuel : nat) (n : nat) (p : rpatch) : res doc :=
    if excluded [root_patch_key] then Ok (DObj [])
    else do d <- root_enc_patch_at fuel [] n p; Ok (DObj [(root_patch_key, d)]).

  (* ================================================================================================================
     Decoding (JSON tree level, like decJ)
     ================================================================================================================ *)
  Variable ignore : nat.
  Variable parseF : nat -> bytes -> option N.
  Notation enter_map := (enter_map wildcard excl ignore).
  Notation is_key_excluded := (is_key_excluded wildcard excl ignore).
  Notation decJ := (decJ e wildcard excl ignore parseF).

  (* case "$set": X_PartialUpdate_Set_Fields.UnmarshalRestLi = ReadRecord(reader, nil, switch over all fields, default Skip)
     (record_unmarshaler.go:48-93 on the all-optional set record; reader.go:124-148 readRecord): every non-null member goes through
     enterMapScope; a known field gets a FRESH value (accessor = new(T)) read into it, fields not mentioned keep what the struct
     held; no required fields, no defaults; the record is never at the start of the input, so nothing is raised here *)
  Definition root_dec_sets (fuel : nat) (fs : list field) (x : jdoc) (ss : list (option value)) (tr : tracker)
    : res (list (option value) * tracker) :=
    do es <- match x with JNull => Ok [] | JObj es => Ok es | _ => Err EDeser end;
    do r <- (fix go (l : list (bytes * jdoc)) (ss : list (option value)) (tr : tracker) : res (list (option value) * tracker) :=
               match l with
               | [] => Ok (ss, tr)
               | (k, y) :: r =>
                   match y with
                   | JNull => go r ss tr
                   | _ => do tr1 <- enter_map k tr;
                          do u <- match index_of k (map f_name fs) 0 with
                                  | Some j =>
                                      match nth_error fs j with
                                      | Some fd =>
                                          do rr <- decJ fuel false (f_ty fd) y tr1;
                                          let '(v, tr') := rr in Ok (set_nth j (Some v) ss, tr')
                                      | None => Err EType
                                      end
                                  | None => Ok (ss, tr1)                 (* default: Skip() *)
                                  end;
                          let '(ss', tr2) := u in go r ss' (pop tr2)
                   end
               end) es ss tr;
    let '(ss', tr') := r in
    Ok (ss', record_missing wildcard excl ignore [] tr').

  (* the remaining cases of the switch (record_partial_update.go:166-178): a record-typed field -> a FRESH nested struct,
     UnmarshalRestLiPatch on it; anything else -> Skip() *)
  Section DecNested.
    Variable rec : nat -> jdoc -> rpatch -> tracker -> res (rpatch * tracker).
    Definition root_dec_nested (fs : list field) (k : bytes) (x : jdoc) (ns : list (option rpatch)) (tr : tracker)
      : res (list (option rpatch) * tracker) :=
      match index_of k (map f_name fs) 0 with
      | Some j =>
          match nth_error fs j with
          | Some fd =>
              match root_rec_of e (f_ty fd) with
              | Some m =>
                  do r <- rec m x (root_zero_patch m) tr;
                  let '(q, tr') := r in Ok (set_nth j (Some q) ns, tr')
              | None => Ok (ns, tr)
              end
          | None => Err EType
          end
      | None => Ok (ns, tr)
      end.
  End DecNested.

  (* UnmarshalRestLiPatch(reader) on the struct p (record_partial_update.go:141-187):
     isEmpty -> ReadMap { Skip };  else ReadMap with the switch ("$delete", "$set", the record-typed fields, default Skip), then
     checkAllFields with the READER as KeyChecker (IsKeyExcluded = enterMapScope + exitScope at the current scope,
     restlicodec/missing_fields.go:38-42) *)
  Fixpoint root_dec_patch_at (fuel : nat) (n : nat) (jd : jdoc) (p : rpatch) (tr : tracker) {struct fuel} : res (rpatch * tracker) :=
    match fuel with
    | 0 => Err EFuel
    | S f =>
        match lookup e n with
        | Some (DRecord _ fs) =>
            do es <- match jd with JNull => Ok [] | JObj es => Ok es | _ => Err EDeser end;
            match fs with
            | [] =>                                                                       (* :145-150 *)
                do tr' <- (fix go (l : list (bytes * jdoc)) (tr : tracker) : res tracker :=
                             match l with
                             | [] => Ok tr
                             | (k, x) :: r =>
                                 match x with
                                 | JNull => go r tr
                                 | _ => do tr1 <- enter_map k tr; go r (pop tr1)
                                 end
                             end) es tr;
                Ok (p, tr')
            | _ =>
                do r <- (fix go (l : list (bytes * jdoc)) (p : rpatch) (tr : tracker) : res (rpatch * tracker) :=
                           match l with
                           | [] => Ok (p, tr)
                           | (k, x) :: r =>
                               match x with
                               | JNull => go r p tr
                               | _ => do tr1 <- enter_map k tr;
                                      do u <- (match p with
                                               | RPatch ds ss ns =>
                                                   if bytes_eqb k op_delete then
                                                     do a <- root_dec_deletes fs x ds tr1; Ok (RPatch (fst a) ss ns, snd a)
                                                   else if bytes_eqb k op_set then
                                                     do a <- root_dec_sets f fs x ss tr1; Ok (RPatch ds (fst a) ns, snd a)
                                                   else
                                                     do a <- root_dec_nested (root_dec_patch_at f) fs k x ns tr1;
                                                     Ok (RPatch ds ss (fst a), snd a)
                                               end);
                                      let '(p', tr2) := u in go r p' (pop tr2)
                               end
                           end) es p tr;
                let '(p1, tr1) := r in
                do _ <- root_check_fields n (fun k => is_key_excluded k tr1) p1;
                Ok (p1, tr1)
            end
        | _ => Err EType
        end
    end.

  (* UnmarshalRestLi(reader) (record_partial_update.go:189-197): ReadRecord with RequiredPatchRecordFields = ["patch"]
     (partial_update_utils.go:9); every other key is skipped.  The struct starts as the zero value. *)
  Definition root_dec_patch (fuel : nat) (n : nat) (jd : jdoc) (tr : tracker) : res (rpatch * tracker) :=
    do es <- match jd with JNull => Ok [] | JObj es => Ok es | _ => Err EDeser end;
    do r <- (fix go (l : list (bytes * jdoc)) (p : rpatch) (rem : list bytes) (tr : tracker) : res (rpatch * list bytes * tracker) :=
               match l with
               | [] => Ok (p, rem, tr)
               | (k, x) :: r =>
                   match x with
                   | JNull => go r p rem tr
                   | _ => do tr1 <- enter_map k tr;
                          do u <- (if bytes_eqb k root_patch_key then root_dec_patch_at fuel n x p tr1 else Ok (p, tr1));
                          let '(p', tr2) := u in go r p' (remove_bytes k rem) (pop tr2)
                   end
               end) es (root_zero_patch n) [root_patch_key] tr;
    let '(p, rem, tr1) := r in
    Ok (p, record_missing wildcard excl ignore rem tr1).

  (* readRecord raises MissingRequiredFieldsError only when the record is at the start of the input (reader.go:143-147) *)
  Definition root_finish_patch (top : bool) (r : res (rpatch * tracker)) : res rpatch :=
    match r with
    | Ok (p, tr) =>
        match t_missing tr with
        | [] => Ok p
        | ms => if top then Err (EMissing (sort_bytes ms)) else Ok p
        end
    | Err x => Err x
    | Panic => Panic
    end.

  (* NewJsonReaderWithExcludedFields(data, excl, ignore) (json_reader.go:33-41) + UnmarshalRestLi.  [pre] = the scope the reader is
     in when the generated UnmarshalRestLi is called: [] for a partial_update body; ["entities"; key] inside a batch_partial_update
     body (then the document is not at the start of the input and nothing is raised here) *)
  Definition root_decode_patch_json (fuel : nat) (pre : list bytes) (n : nat) (data : bytes) : res rpatch :=
    match data with
    | [] => Err EDeser
    | _ => if bytes_eqb data lit_null then Err EDeser
           else match parse_json data with
                | None => Err EDeser
                | Some jd =>
                    root_finish_patch (match pre with [] => true | _ => false end)
                                      (root_dec_patch fuel n jd {| t_scope := map SKey pre; t_missing := [] |})
                end
    end.

  (* the same reader handed directly to UnmarshalRestLiPatch on a zero struct (no "patch" envelope, no ReadRecord: whatever
     nested records recorded as missing is never raised) *)
  Definition root_decode_patch_body_json (fuel : nat) (n : nat) (data : bytes) : res rpatch :=
    match data with
    | [] => Err EDeser
    | _ => if bytes_eqb data lit_null then Err EDeser
           else match parse_json data with
                | None => Err EDeser
                | Some jd =>
                    match root_dec_patch_at fuel n jd (root_zero_patch n) tracker0 with
                    | Ok (p, _) => Ok p
                    | Err x => Err x
                    | Panic => Panic
                    end
                end
    end.
End RootPatch.
