(* The encoder: what the generated MarshalRestLi / MarshalFields code (codegen/types/record_marshaler.go, union.go, enum.go,
   fixed.go) does through restlicodec's genericWriter (writer.go:176-261), as a function from a schema and a value to a
   document tree.  v2: WriteMap buffers the entries and emits them sorted by key.  No proofs here. *)
From Coq Require Import List Bool Arith ZArith NArith.
From Coq.Strings Require Import Byte.
From GR Require Import Base.Bytes Base.Res Codec.Schema Codec.Doc.
Import ListNotations.

Section Encode.
  Variable e : env.
  Variable wildcard : bytes.
  Variable excl : pathspec.          (* excluded fields of the writer; ps_empty = none *)

  Definition excluded (scope : list bytes) : bool := ps_matches wildcard excl scope.

  (* a value handed to NoopWriter: nothing is written and no callback runs; only an enum (whose MarshalRestLi looks the
     constant up before writing) can still fail *)
  Definition enc_noop (t : ty) (v : value) : res unit :=
    match t, v with
    | TEnum syms, VEnum k =>
        match k with
        | 0 => Err EEnumConst
        | S i => match nth_error syms i with Some _ => Ok tt | None => Err EEnumConst end
        end
    | _, _ => Ok tt
    end.

  Fixpoint enc (fuel : nat) (scope : list bytes) (t : ty) (v : value) {struct fuel} : res doc :=
    match fuel with
    | 0 => Err EFuel
    | S f =>
        (* keyWriter(key): push the key; excluded -> NoopWriter *)
        let enc_key (key : bytes) (t' : ty) (v' : value) : res (list (bytes * doc)) :=
          let scope' := scope ++ [key] in
          if excluded scope' then do _ <- enc_noop t' v'; Ok []
          else do d <- enc f scope' t' v'; Ok [(key, d)] in
        (* MarshalFields of a record: the included records' MarshalFields first, then the own fields *)
        let fix fields_entries (fs : list field) (vs : list (option value)) : res (list (bytes * doc)) :=
          match fs, vs with
          | [], [] => Ok []
          | fd :: fs', ov :: vs' =>
              do here <- match ov with
                         | Some v' => enc_key (f_name fd) (f_ty fd) v'
                         | None => if is_required (f_opt fd) then Err EType else Ok []
                         end;
              do rest <- fields_entries fs' vs';
              Ok (here ++ rest)
          | _, _ => Err EType
          end in
        match t, v with
        | TPrim PInt, VInt z => Ok (DLeaf (LInt z))
        | TPrim PLong, VLong z => Ok (DLeaf (LInt z))
        | TPrim PFloat, VFloat b => Ok (DLeaf (LFloat true b))
        | TPrim PDouble, VDouble b => Ok (DLeaf (LFloat false b))
        | TPrim PBool, VBool b => Ok (DLeaf (LBool b))
        | TPrim PString, VStr s => Ok (DLeaf (LStr s))
        | TPrim PBytes, VBytes s => Ok (DLeaf (LBytes s))
        | TEnum syms, VEnum k =>
            match k with
            | 0 => Err EEnumConst
            | S i => match nth_error syms i with Some s => Ok (DLeaf (LStr s)) | None => Err EEnumConst end
            end
        | TFixed n, VFixed s => Ok (DLeaf (LBytes s))
        | TArray t', VArr l =>
            (* WriteArray pushes the wildcard *)
            do ds <- mapM (enc f (scope ++ [wildcard]) t') l; Ok (DArr ds)
        | TMap t', VMap es =>
            do ents <- (fix go (l : list (bytes * value)) : res (list (bytes * doc)) :=
                          match l with
                          | [] => Ok []
                          | (k, v') :: r => do a <- enc_key k t' v'; do b <- go r; Ok (a ++ b)
                          end) es;
            Ok (DObj (sort_entries ents))
        | TRef n, VRec ivs fvs =>
            match lookup e n with
            | Some (DRecord incs fs) =>
                do inc_ents <- (fix go (is : list nat) (vs : list value) : res (list (bytes * doc)) :=
                                  match is, vs with
                                  | [], [] => Ok []
                                  | i :: is', iv :: vs' =>
                                      (* the embedded record's MarshalFields writes into the same map: same scope *)
                                      do d <- enc f scope (TRef i) iv;
                                      do a <- match d with DObj ents => Ok ents | _ => Err EType end;
                                      do b <- go is' vs';
                                      Ok (a ++ b)
                                  | _, _ => Err EType
                                  end) incs ivs;
                do own <- fields_entries fs fvs;
                Ok (DObj (sort_entries (inc_ents ++ own)))
            | _ => Err EType
            end
        | TRef n, VUnion ms =>
            match lookup e n with
            | Some (DUnion nullable members) =>
                (* validateAllMembers: members in declaration order; a second set member is an error *)
                do ents <- (fix go (mts : list (bytes * ty)) (vs : list (option value)) (isSet : bool)
                              : res (list (bytes * doc) * bool) :=
                              match mts, vs with
                              | [], [] => Ok ([], isSet)
                              | (alias, mt) :: mts', ov :: vs' =>
                                  match ov with
                                  | None => go mts' vs' isSet
                                  | Some v' =>
                                      if isSet then Err EUnion
                                      else do a <- enc_key alias mt v';
                                           do br <- go mts' vs' true;
                                           Ok (a ++ fst br, snd br)
                                  end
                              | _, _ => Err EType
                              end) members ms false;
                if negb nullable && negb (snd ents) then Err EUnion
                else Ok (DObj (sort_entries (fst ents)))
            | _ => Err EType
            end
        | _, _ => Err EType
        end
    end.
End Encode.
