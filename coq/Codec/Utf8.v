(* utf8.DecodeRuneInString, as far as jwriter.Writer.String needs it: is the next rune well formed, how wide is it,
   and which code point is it. *)
From Coq Require Import List Bool Arith NArith.
From Coq.Strings Require Import Byte.
From GR Require Import Base.Bytes.
Import ListNotations.

Definition is_cont (c : byte) : bool := ((128 <=? bn c) && (bn c <=? 191))%N.
Definition in_rng (lo hi : N) (c : byte) : bool := ((lo <=? bn c) && (bn c <=? hi))%N.

(* Some (code point, width) for a well-formed rune at the head of s; None = RuneError of width 1 (or empty input) *)
Definition utf8_decode (s : bytes) : option (N * nat) :=
  match s with
  | [] => None
  | b0 :: r =>
      let n0 := bn b0 in
      if (n0 <? 128)%N then Some (n0, 1)
      else if in_rng 194 223 b0 then
        match r with
        | b1 :: _ => if is_cont b1 then Some (((n0 - 192) * 64 + (bn b1 - 128))%N, 2) else None
        | _ => None
        end
      else if in_rng 224 239 b0 then
        match r with
        | b1 :: b2 :: _ =>
            let ok1 := if (n0 =? 224)%N then in_rng 160 191 b1 else if (n0 =? 237)%N then in_rng 128 159 b1 else is_cont b1 in
            if ok1 && is_cont b2 then Some (((n0 - 224) * 4096 + (bn b1 - 128) * 64 + (bn b2 - 128))%N, 3) else None
        | _ => None
        end
      else if in_rng 240 244 b0 then
        match r with
        | b1 :: b2 :: b3 :: _ =>
            let ok1 := if (n0 =? 240)%N then in_rng 144 191 b1 else if (n0 =? 244)%N then in_rng 128 143 b1 else is_cont b1 in
            if ok1 && is_cont b2 && is_cont b3
            then Some (((n0 - 240) * 262144 + (bn b1 - 128) * 4096 + (bn b2 - 128) * 64 + (bn b3 - 128))%N, 4) else None
        | _ => None
        end
      else None
  end.

(* utf8.AppendRune for a valid code point (surrogates and > 0x10FFFF are encoded as U+FFFD, as Go does) *)
Definition utf8_encode (r : N) : bytes :=
  let r := if ((55296 <=? r) && (r <=? 57343))%N || (1114111 <? r)%N then 65533%N else r in
  if (r <? 128)%N then [nb r]
  else if (r <? 2048)%N then [nb (192 + r / 64); nb (128 + r mod 64)]
  else if (r <? 65536)%N then [nb (224 + r / 4096); nb (128 + (r / 64) mod 64); nb (128 + r mod 64)]
  else [nb (240 + r / 262144); nb (128 + (r / 4096) mod 64); nb (128 + (r / 64) mod 64); nb (128 + r mod 64)].

Fixpoint valid_utf8_fuel (fuel : nat) (s : bytes) : bool :=
  match fuel with
  | 0 => false
  | S f => match s with
           | [] => true
           | _ => match utf8_decode s with Some (_, w) => valid_utf8_fuel f (skipn w s) | None => false end
           end
  end.
Definition valid_utf8 (s : bytes) : bool := valid_utf8_fuel (S (length s)) s.
