(* The decoders: what the generated UnmarshalRestLi / UnmarshalField code (codegen/types/record_unmarshaler.go, union.go,
   enum.go, fixed.go) does through restlicodec's readers (reader.go readRecord, json_reader.go, ror2_reader.go).
   - decJ : over a parsed JSON tree (the lexer is external; see Json.v)
   - decR : the ROR2 reader at CURSOR level, function by function, every index of the Go code explicit (Panic when out of range)
   No proofs here. *)
From Coq Require Import List Bool Arith ZArith NArith.
From Coq.Strings Require Import Byte.
From GR Require Import Base.Bytes Base.Res Base.Dec Codec.Schema Codec.Doc Codec.Escape Codec.Utf8 Codec.Json Codec.Tracker.
Import ListNotations.

(* outcome of a top-level decode: the readers return the (partially) populated value together with a
   MissingRequiredFieldsError *)
Inductive dres := DOk (v : value) | DMissing (fields : list bytes) (v : value) | DErr (e : err) | DPanic.

(* strconv.ParseBool *)
Definition parse_bool (s : bytes) : option bool :=
  let is l := bytes_eqb s l in
  if is [x31] || is [x74] || is [x54] || is [x54;x52;x55;x45] || is [x74;x72;x75;x65] || is [x54;x72;x75;x65] then Some true
  else if is [x30] || is [x66] || is [x46] || is [x46;x41;x4c;x53;x45] || is [x66;x61;x6c;x73;x65] || is [x46;x61;x6c;x73;x65] then Some false
  else None.

Fixpoint index_of (k : bytes) (l : list bytes) (i : nat) : option nat :=
  match l with [] => None | x :: r => if bytes_eqb k x then Some i else index_of k r (S i) end.

Fixpoint set_nth {A} (n : nat) (x : A) (l : list A) : list A :=
  match l, n with
  | [], _ => []
  | _ :: r, 0 => x :: r
  | y :: r, S n' => y :: set_nth n' x r
  end.

Fixpoint map_put (k : bytes) (v : value) (l : list (bytes * value)) : list (bytes * value) :=
  match l with
  | [] => [(k, v)]
  | (k', v') :: r => if bytes_eqb k k' then (k, v) :: r else (k', v') :: map_put k v r
  end.

(* one code point (0..255) per byte: the inverse of compactJsonWriter.WriteBytes *)
Fixpoint latin1_decode (fuel : nat) (s : bytes) : option bytes :=
  match fuel with
  | 0 => None
  | S f =>
      match s with
      | [] => Some []
      | _ => match utf8_decode s with
             | Some (cp, w) => if (cp <=? 255)%N then option_map (cons (nb cp)) (latin1_decode f (skipn w s)) else None
             | None => None
             end
      end
  end.

Section Decode.
  Variable e : env.
  Variable wildcard : bytes.
  (* The exclusion spec [excl], leadingScopeToIgnore [ignore] and the float oracle [parseF] (strconv float parsing is external:
     0 = ParseFloat(s, 64); 1 = ParseFloat(s, 32); 2 = float32(ParseFloat(s, 64))) are PARAMETERS of jprim / decJ, in the positions
     they had as section variables, and section variables again from the ROR2 part on: the generated populateLocalDefaultValues
     reads every default literal with restlicodec.NewJsonReader (codegen/types/record.go setDefaultValue), i.e. with NO excluded
     fields and scopeToIgnore 0, whatever the reader being used - so decJ calls itself with [ps_empty] and [0] on the literals. *)

  (* ---- schema helpers ---- *)
  Fixpoint zero_value (fuel : nat) (t : ty) : value :=
    match fuel with
    | 0 => VRec [] []
    | S f =>
        match t with
        | TPrim PInt => VInt 0 | TPrim PLong => VLong 0 | TPrim PFloat => VFloat 0 | TPrim PDouble => VDouble 0
        | TPrim PBool => VBool false | TPrim PString => VStr [] | TPrim PBytes => VBytes []
        | TEnum _ => VEnum 0
        | TFixed n => VFixed (repeat x00 n)
        | TArray _ => VArr []
        | TMap _ => VMap []
        | TRef n =>
            match lookup e n with
            | Some (DRecord incs fs) =>
                VRec (map (fun i => zero_value f (TRef i)) incs)
                     (map (fun fd => if is_required (f_opt fd) then Some (zero_value f (f_ty fd)) else None) fs)
            | Some (DUnion _ ms) => VUnion (map (fun _ => None) ms)
            | None => VRec [] []
            end
        end
    end.

  (* RequiredFields of a record: those of the includes (chained through NewRequiredFields), then its own *)
  Fixpoint required_fields (fuel : nat) (n : nat) : list bytes :=
    match fuel with
    | 0 => []
    | S f =>
        match lookup e n with
        | Some (DRecord incs fs) =>
            flat_map (required_fields f) incs ++ map f_name (filter (fun fd => is_required (f_opt fd)) fs)
        | _ => []
        end
    end.

  Definition own_has_default (fs : list field) : bool := existsb (fun fd => has_default (f_opt fd)) fs.

  Definition enum_value (syms : list bytes) (s : bytes) : value :=
    match index_of s syms 0 with Some i => VEnum (S i) | None => VEnum 0 end.

  (* =====================================================================================================
     JSON (tree level)
     ===================================================================================================== *)
  Definition jprim (parseF : nat -> bytes -> option N) (p : prim) (d : jdoc) : res value :=
    match p, d with
    | PInt, JNum t => match parse_i32 t with Some z => Ok (VInt z) | None => Err EDeser end
    | PLong, JNum t => match parse_i64 t with Some z => Ok (VLong z) | None => Err EDeser end
    | PDouble, JNum t | PDouble, JStr t => match parseF 0 t with Some b => Ok (VDouble b) | None => Err EDeser end
    | PFloat, JNum t | PFloat, JStr t => match parseF 2 t with Some b => Ok (VFloat b) | None => Err EDeser end
    | PBool, JBool b => Ok (VBool b)
    | PString, JStr s => Ok (VStr s)
    | PBytes, JStr s => match latin1_decode (S (length s)) s with Some b => Ok (VBytes b) | None => Err EDeser end
    | _, _ => Err EDeser
    end.

  Definition jstring (d : jdoc) : res bytes := match d with JStr s => Ok s | _ => Err EDeser end.

  (* top = this value is the root of the document (lexer.IsStart()) *)
  Fixpoint decJ (excl : pathspec) (ignore : nat) (parseF : nat -> bytes -> option N)
      (fuel : nat) (top : bool) (t : ty) (d : jdoc) (tr : tracker) {struct fuel} : res (value * tracker) :=
    match fuel with
    | 0 => Err EFuel
    | S f =>
        (* the defaults of the own fields of a record: populateLocalDefaultValues re-parses the literal with NewJsonReader:
           no excluded fields, scopeToIgnore 0 *)
        let lit_value (t' : ty) (lit : bytes) : option value :=
          match parse_json lit with
          | Some jd => match decJ ps_empty 0 parseF f true t' jd tracker0 with Ok (v, _) => Some v | _ => None end
          | None => None
          end in
        let fix fill_defaults (fs : list field) (vs : list (option value)) : list (option value) :=
          match fs, vs with
          | fd :: fs', ov :: vs' =>
              (match ov, f_opt fd with
               | None, Default lit => lit_value (f_ty fd) lit
               | _, _ => ov
               end) :: fill_defaults fs' vs'
          | _, _ => vs
          end in
        (* UnmarshalField of record n into the partially decoded value rv: includes first, then the own switch *)
        let fix unmarshal_field (k : nat) (n : nat) (key : bytes) (jd : jdoc) (rv : value) (tr : tracker) {struct k}
            : res (bool * value * tracker) :=
          match k with
          | 0 => Err EFuel
          | S k' =>
              match lookup e n, rv with
              | Some (DRecord incs fs), VRec ivs fvs =>
                  let fix try_incs (is : list nat) (vs : list value) (pos : nat) : res (option (nat * value * tracker)) :=
                    match is, vs with
                    | i :: is', iv :: vs' =>
                        do r <- unmarshal_field k' i key jd iv tr;
                        let '(found, iv', tr') := r in
                        if found then Ok (Some (pos, iv', tr')) else try_incs is' vs' (S pos)
                    | _, _ => Ok None
                    end in
                  do hit <- try_incs incs ivs 0;
                  match hit with
                  | Some (pos, iv', tr') => Ok (true, VRec (set_nth pos iv' ivs) fvs, tr')
                  | None =>
                      match index_of key (map f_name fs) 0 with
                      | Some j =>
                          match nth_error fs j with
                          | Some fd =>
                              do r <- decJ excl ignore parseF f false (f_ty fd) jd tr;
                              let '(v, tr') := r in
                              Ok (true, VRec ivs (set_nth j (Some v) fvs), tr')
                          | None => Err EType
                          end
                      | None => Ok (false, rv, tr)
                      end
                  end
              | _, _ => Err EType
              end
          end in
        match t with
        | TPrim p => do v <- jprim parseF p d; Ok (v, tr)
        | TEnum syms => do s <- jstring d; Ok (enum_value syms s, tr)
        | TFixed n =>
            do v <- jprim parseF PBytes d;
            match v with VBytes b => if Nat.eqb (length b) n then Ok (VFixed b, tr) else Err EFixedSize | _ => Err EType end
        | TArray t' =>
            match d with
            | JNull => Ok (VArr [], tr)
            | JArr items =>
                (fix go (l : list jdoc) (i : nat) (acc : list value) (tr : tracker) : res (value * tracker) :=
                   match l with
                   | [] => Ok (VArr (rev acc), tr)
                   | x :: r =>
                       do rr <- decJ excl ignore parseF f false t' x (enter_array i tr);
                       let '(v, tr') := rr in go r (S i) (v :: acc) (pop tr')
                   end) items 0 [] tr
            | _ => Err EDeser
            end
        | TMap t' =>
            match d with
            | JNull => Ok (VMap [], tr)
            | JObj es =>
                (fix go (l : list (bytes * jdoc)) (acc : list (bytes * value)) (tr : tracker) : res (value * tracker) :=
                   match l with
                   | [] => Ok (VMap (sort_entries acc), tr)
                   | (k, x) :: r =>
                       match x with
                       | JNull => go r acc tr
                       | _ => do tr1 <- enter_map wildcard excl ignore k tr;
                              do rr <- decJ excl ignore parseF f false t' x tr1;
                              let '(v, tr2) := rr in go r (map_put k v acc) (pop tr2)
                       end
                   end) es [] tr
            | _ => Err EDeser
            end
        | TRef n =>
            match lookup e n with
            | Some (DRecord incs fs) =>
                do es <- match d with JNull => Ok [] | JObj es => Ok es | _ => Err EDeser end;
                do r <- (fix go (l : list (bytes * jdoc)) (rv : value) (rem : list bytes) (tr : tracker)
                           : res (value * list bytes * tracker) :=
                           match l with
                           | [] => Ok (rv, rem, tr)
                           | (k, x) :: r =>
                               match x with
                               | JNull => go r rv rem tr
                               | _ => do tr1 <- enter_map wildcard excl ignore k tr;
                                      do u <- unmarshal_field (S (length e)) n k x rv tr1;
                                      let '(_, rv', tr2) := u in          (* not found: Skip() *)
                                      go r rv' (remove_bytes k rem) (pop tr2)
                               end
                           end) es (zero_value (S (S (length e))) t) (required_fields (S (length e)) n) tr;
                let '(rv, rem, tr1) := r in
                let tr2 := record_missing wildcard excl ignore rem tr1 in
                (* only the record at the start of the input raises; populateLocalDefaultValues runs after a nil error *)
                let raising := top && negb (match t_missing tr2 with [] => true | _ => false end) in
                let rv' := if raising || negb (own_has_default fs) then rv
                           else match rv with VRec ivs fvs => VRec ivs (fill_defaults fs fvs) | _ => rv end in
                Ok (rv', tr2)
            | Some (DUnion nullable ms) =>
                do es <- match d with JNull => Ok [] | JObj es => Ok es | _ => Err EDeser end;
                do r <- (fix go (l : list (bytes * jdoc)) (uv : list (option value)) (wasSet : bool) (tr : tracker)
                           : res (list (option value) * bool * tracker) :=
                           match l with
                           | [] => Ok (uv, wasSet, tr)
                           | (k, x) :: r =>
                               match x with
                               | JNull => go r uv wasSet tr
                               | _ => do tr1 <- enter_map wildcard excl ignore k tr;
                                      if wasSet then Err EUnion
                                      else match index_of k (map fst ms) 0 with
                                           | Some j =>
                                               match nth_error ms j with
                                               | Some (_, mt) =>
                                                   do rr <- decJ excl ignore parseF f false mt x tr1;
                                                   let '(v, tr2) := rr in go r (set_nth j (Some v) uv) true (pop tr2)
                                               | None => Err EType
                                               end
                                           | None => Err EUnion
                                           end
                               end
                           end) es (map (fun _ => None) ms) false tr;
                let '(uv, wasSet, tr') := r in
                if negb nullable && negb wasSet then Err EUnion else Ok (VUnion uv, tr')
            | None => Err EType
            end
        end
    end.

  (* ---- from here on [excl], [ignore], [parseF] are fixed ---- *)
  Variable excl : pathspec.
  Variable ignore : nat.
  Variable parseF : nat -> bytes -> option N.

  Notation enter_map := (enter_map wildcard excl ignore).
  Notation record_missing := (record_missing wildcard excl ignore).

  (* =====================================================================================================
     ROR2 (cursor level): ror2_reader.go.  The cursor only moves forward, so the state is the unread suffix of the input
     plus "pos > 0".  u.data[u.pos] is [idx]: Panic when the suffix is empty - every call below is guarded by the same
     test the Go code performs (checkNotAtEnd / atArray), which is what the no-panic theorem establishes.
     ===================================================================================================== *)
  Variable unesc : bytes -> option bytes.        (* url.PathUnescape (header, path) or url.QueryUnescape (query) *)
  Variables (empty_marker list_prefix : bytes).  (* "''" and "List(" *)
  Variable query_reader : bool.                  (* ror2QueryReader: atInputStart() is always false *)

  Record rst := { r_rest : bytes; r_consumed : bool; r_tr : tracker }.
  Definition rinit (data : bytes) (tr : tracker) : rst := {| r_rest := data; r_consumed := false; r_tr := tr |}.
  Definition with_tr (s : rst) (tr : tracker) : rst := {| r_rest := r_rest s; r_consumed := r_consumed s; r_tr := tr |}.
  Definition advance (n : nat) (s : rst) : rst :=
    {| r_rest := skipn n (r_rest s); r_consumed := r_consumed s || negb (Nat.eqb n 0); r_tr := r_tr s |}.
  Definition set_rest (l : bytes) (s : rst) : rst :=   (* the cursor moved to the suffix l (at least one byte was consumed) *)
    {| r_rest := l; r_consumed := true; r_tr := r_tr s |}.

  Definition idx (s : rst) : res byte := match r_rest s with [] => Panic | c :: _ => Ok c end.        (* u.data[u.pos] *)
  Definition check_not_at_end (s : rst) : res unit := match r_rest s with [] => Err EDeser | _ => Ok tt end.
  Definition at_map (s : rst) : bool := match r_rest s with c :: _ => Byte.eqb c x28 | [] => false end.
  (* len(u.data)-u.pos > len(list) && data[pos:pos+len(list)] == list *)
  Definition at_array (s : rst) : bool := Nat.ltb (length list_prefix) (length (r_rest s)) && has_prefix list_prefix (r_rest s).

  Definition is_delim (c : byte) : bool := Byte.eqb c x2c || Byte.eqb c x29.                  (* ',' ')' *)
  Definition is_illegal (c : byte) : bool := Byte.eqb c x28 || Byte.eqb c x2c || Byte.eqb c x29.

  (* readFieldName: scan to ':'; ',' or ')' before it, an empty name, or the end of input are errors *)
  Fixpoint scan_name (l : bytes) : option (bytes * bytes) :=
    match l with
    | [] => None
    | c :: r =>
        if Byte.eqb c x3a then Some ([], r)
        else if is_delim c then None
        else match scan_name r with Some (n, t) => Some (c :: n, t) | None => None end
    end.
  Definition read_field_name (s : rst) : res (bytes * rst) :=
    do _ <- check_not_at_end s;
    match scan_name (r_rest s) with
    | None => Err EDeser
    | Some ([], _) => Err EDeser
    | Some (raw, after) =>
        if bytes_eqb raw empty_marker then Ok ([], set_rest after s)
        else match unesc raw with Some k => Ok (k, set_rest after s) | None => Err EDeser end
    end.

  (* unsafeReadPrimitiveFieldValue *)
  Fixpoint scan_token (l : bytes) : option (bytes * bytes) :=     (* up to, not including, the first ',' or ')' *)
    match l with
    | [] => None
    | c :: r => if is_delim c then Some ([], l)
                else match scan_token r with Some (t, u) => Some (c :: t, u) | None => None end
    end.
  Definition read_token (s : rst) : res (bytes * rst) :=
    do r <- (if r_consumed s
             then match scan_token (r_rest s) with
                  | Some (tok, after) => Ok (tok, {| r_rest := after; r_consumed := true; r_tr := r_tr s |})
                  | None => Err EDeser
                  end
             else (* pos = 0: a top-level primitive is the whole input *)
                  Ok (r_rest s, {| r_rest := []; r_consumed := negb (match r_rest s with [] => true | _ => false end); r_tr := r_tr s |}));
    let '(tok, s') := r in
    if existsb is_illegal tok then Err EDeser else Ok (tok, s').

  Definition read_decoded (s : rst) : res (bytes * rst) :=
    do r <- read_token s;
    let '(tok, s') := r in
    match unesc tok with Some d => Ok (d, s') | None => Err EDeser end.

  Definition read_string (s : rst) : res (bytes * rst) :=
    do r <- read_token s;
    let '(tok, s') := r in
    match tok with
    | [] => Err EDeser
    | _ => if bytes_eqb tok empty_marker then Ok ([], s')
           else match unesc tok with Some d => Ok (d, s') | None => Err EDeser end
    end.

  Definition rprim (p : prim) (s : rst) : res (value * rst) :=
    match p with
    | PString => do r <- read_string s; let '(x, s') := r in Ok (VStr x, s')
    | PBytes => do r <- read_string s; let '(x, s') := r in Ok (VBytes x, s')
    | PInt => do r <- read_decoded s; let '(x, s') := r in
              match parse_i32 x with Some z => Ok (VInt z, s') | None => Err EDeser end
    | PLong => do r <- read_decoded s; let '(x, s') := r in
               match parse_i64 x with Some z => Ok (VLong z, s') | None => Err EDeser end
    | PFloat => do r <- read_decoded s; let '(x, s') := r in
                match parseF 1 x with Some b => Ok (VFloat b, s') | None => Err EDeser end
    | PDouble => do r <- read_decoded s; let '(x, s') := r in
                 match parseF 0 x with Some b => Ok (VDouble b, s') | None => Err EDeser end
    | PBool => do r <- read_decoded s; let '(x, s') := r in
               match parse_bool x with Some b => Ok (VBool b, s') | None => Err EDeser end
    end.

  (* Skip() *)
  Fixpoint skip_scan (inside : bool) (parens : nat) (l : bytes) : option bytes :=
    match l with
    | [] => None
    | c :: r =>
        if Byte.eqb c x28 then (if inside then skip_scan inside (S parens) r else None)
        else if Byte.eqb c x2c then (if inside then (match parens with 0 => Some l | _ => skip_scan inside parens r end) else Some l)
        else if Byte.eqb c x29 then (if inside then (match parens with 0 => Some l | S p => skip_scan inside p r end) else Some l)
        else skip_scan inside parens r
    end.
  Definition rskip (s : rst) : res rst :=
    if negb (r_consumed s) then Ok {| r_rest := []; r_consumed := negb (match r_rest s with [] => true | _ => false end); r_tr := r_tr s |}
    else match skip_scan (at_array s || at_map s) 0 (r_rest s) with
         | Some l => Ok {| r_rest := l; r_consumed := true; r_tr := r_tr s |}
         | None => Err EDeser
         end.

  (* after a map entry / array item: ',' continues, ')' ends, anything else (or the end of input) is an error *)
  Inductive after := Continue (s : rst) | Done (s : rst).
  Definition read_after (s : rst) : res after :=
    do _ <- check_not_at_end s;
    do c <- idx s;
    if Byte.eqb c x2c then Ok (Continue (advance 1 s))
    else if Byte.eqb c x29 then Ok (Done (advance 1 s))
    else Err EDeser.

  Fixpoint decR (fuel : nat) (t : ty) (s : rst) {struct fuel} : res (value * rst) :=
    match fuel with
    | 0 => Err EFuel
    | S f =>
        let lit_value (t' : ty) (lit : bytes) : option value :=
          match parse_json lit with
          | Some jd => match decJ ps_empty 0 parseF f true t' jd tracker0 with Ok (v, _) => Some v | _ => None end
          | None => None
          end in
        let fix fill_defaults (fs : list field) (vs : list (option value)) : list (option value) :=
          match fs, vs with
          | fd :: fs', ov :: vs' =>
              (match ov, f_opt fd with
               | None, Default lit => lit_value (f_ty fd) lit
               | _, _ => ov
               end) :: fill_defaults fs' vs'
          | _, _ => vs
          end in
        let fix unmarshal_field (k : nat) (n : nat) (key : bytes) (rv : value) (s : rst) {struct k}
            : res (bool * value * rst) :=
          match k with
          | 0 => Err EFuel
          | S k' =>
              match lookup e n, rv with
              | Some (DRecord incs fs), VRec ivs fvs =>
                  let fix try_incs (is : list nat) (vs : list value) (pos : nat) : res (option (nat * value * rst)) :=
                    match is, vs with
                    | i :: is', iv :: vs' =>
                        do r <- unmarshal_field k' i key iv s;
                        let '(found, iv', s') := r in
                        if found then Ok (Some (pos, iv', s')) else try_incs is' vs' (S pos)
                    | _, _ => Ok None
                    end in
                  do hit <- try_incs incs ivs 0;
                  match hit with
                  | Some (pos, iv', s') => Ok (true, VRec (set_nth pos iv' ivs) fvs, s')
                  | None =>
                      match index_of key (map f_name fs) 0 with
                      | Some j =>
                          match nth_error fs j with
                          | Some fd =>
                              do r <- decR f (f_ty fd) s;
                              let '(v, s') := r in
                              Ok (true, VRec ivs (set_nth j (Some v) fvs), s')
                          | None => Err EType
                          end
                      | None => Ok (false, rv, s)
                      end
                  end
              | _, _ => Err EType
              end
          end in
        match t with
        | TPrim p => rprim p s
        | TEnum syms => do r <- read_string s; let '(x, s') := r in Ok (enum_value syms x, s')
        | TFixed n =>
            do r <- read_string s; let '(x, s') := r in
            if Nat.eqb (length x) n then Ok (VFixed x, s') else Err EFixedSize
        | TArray t' =>
            if negb (at_array s) then Err EDeser
            else
              let s0 := advance (length list_prefix) s in
              do c <- idx s0;
              if Byte.eqb c x29 then Ok (VArr [], advance 1 s0)
              else
                (fix go (k : nat) (i : nat) (acc : list value) (s : rst) : res (value * rst) :=
                   match k with
                   | 0 => Err EFuel
                   | S k' =>
                       do rr <- decR f t' (with_tr s (enter_array i (r_tr s)));
                       let '(v, s1) := rr in
                       do a <- read_after (with_tr s1 (pop (r_tr s1)));
                       match a with
                       | Continue s2 => go k' (S i) (v :: acc) s2
                       | Done s2 => Ok (VArr (rev (v :: acc)), s2)
                       end
                   end) f 0 [] s0
        | TMap t' =>
            if negb (at_map s) then Err EDeser
            else
              (fix go (k : nat) (acc : list (bytes * value)) (s : rst) : res (value * rst) :=
                 match k with
                 | 0 => Err EFuel
                 | S k' =>
                     do _ <- check_not_at_end s;
                     do c <- idx s;
                     if Byte.eqb c x29 then Ok (VMap (sort_entries acc), advance 1 s)
                     else
                       do nm <- read_field_name s;
                       let '(key, s1) := nm in
                       do tr1 <- enter_map key (r_tr s1);
                       do rr <- decR f t' (with_tr s1 tr1);
                       let '(v, s2) := rr in
                       do a <- read_after (with_tr s2 (pop (r_tr s2)));
                       match a with
                       | Continue s3 => go k' (map_put key v acc) s3
                       | Done s3 => Ok (VMap (sort_entries (map_put key v acc)), s3)
                       end
                 end) f [] (advance 1 s)
        | TRef n =>
            match lookup e n with
            | Some (DRecord incs fs) =>
                let start := negb (r_consumed s) && negb query_reader in   (* atInputStart: pos == 0 *)
                if negb (at_map s) then Err EDeser
                else
                  do r <- (fix go (k : nat) (rv : value) (rem : list bytes) (s : rst) : res (value * list bytes * rst) :=
                             match k with
                             | 0 => Err EFuel
                             | S k' =>
                                 do _ <- check_not_at_end s;
                                 do c <- idx s;
                                 if Byte.eqb c x29 then Ok (rv, rem, advance 1 s)
                                 else
                                   do nm <- read_field_name s;
                                   let '(key, s1) := nm in
                                   do tr1 <- enter_map key (r_tr s1);
                                   do u <- unmarshal_field (S (length e)) n key rv (with_tr s1 tr1);
                                   let '(found, rv', s2) := u in
                                   do s2' <- (if found then Ok s2 else rskip s2);
                                   do a <- read_after (with_tr s2' (pop (r_tr s2')));
                                   match a with
                                   | Continue s3 => go k' rv' (remove_bytes key rem) s3
                                   | Done s3 => Ok (rv', remove_bytes key rem, s3)
                                   end
                             end) f (zero_value (S (S (length e))) t) (required_fields (S (length e)) n) (advance 1 s);
                  let '(rv, rem, s1) := r in
                  let tr2 := record_missing rem (r_tr s1) in
                  let raising := start && negb (match t_missing tr2 with [] => true | _ => false end) in
                  let rv' := if raising || negb (own_has_default fs) then rv
                             else match rv with VRec ivs fvs => VRec ivs (fill_defaults fs fvs) | _ => rv end in
                  Ok (rv', with_tr s1 tr2)
            | Some (DUnion nullable ms) =>
                if negb (at_map s) then Err EDeser
                else
                  do r <- (fix go (k : nat) (uv : list (option value)) (wasSet : bool) (s : rst)
                             : res (list (option value) * bool * rst) :=
                             match k with
                             | 0 => Err EFuel
                             | S k' =>
                                 do _ <- check_not_at_end s;
                                 do c <- idx s;
                                 if Byte.eqb c x29 then Ok (uv, wasSet, advance 1 s)
                                 else
                                   do nm <- read_field_name s;
                                   let '(key, s1) := nm in
                                   do tr1 <- enter_map key (r_tr s1);
                                   if wasSet then Err EUnion
                                   else match index_of key (map fst ms) 0 with
                                        | Some j =>
                                            match nth_error ms j with
                                            | Some (_, mt) =>
                                                do rr <- decR f mt (with_tr s1 tr1);
                                                let '(v, s2) := rr in
                                                do a <- read_after (with_tr s2 (pop (r_tr s2)));
                                                match a with
                                                | Continue s3 => go k' (set_nth j (Some v) uv) true s3
                                                | Done s3 => Ok (set_nth j (Some v) uv, true, s3)
                                                end
                                            | None => Err EType
                                            end
                                        | None => Err EUnion
                                        end
                             end) f (map (fun _ => None) ms) false (advance 1 s);
                  let '(uv, wasSet, s') := r in
                  if negb nullable && negb wasSet then Err EUnion else Ok (VUnion uv, s')
            | None => Err EType
            end
        end
    end.

  (* ValidateRor2Input: only an excess of ')' is rejected up front *)
  Fixpoint validate_ror2 (parens : nat) (l : bytes) : bool :=
    match l with
    | [] => true
    | c :: r => if Byte.eqb c x28 then validate_ror2 (S parens) r
                else if Byte.eqb c x29 then (match parens with 0 => false | S p => validate_ror2 p r end)
                else validate_ror2 parens r
    end.

  Definition is_record (t : ty) : bool :=
    match t with TRef n => match lookup e n with Some (DRecord _ _) => true | _ => false end | _ => false end.

  Definition finish (top_raises : bool) (r : res (value * tracker)) : dres :=
    match r with
    | Ok (v, tr) =>
        match t_missing tr with
        | [] => DOk v
        | ms => if top_raises then DMissing (sort_bytes ms) v else DOk v
        end
    | Err x => DErr x
    | Panic => DPanic
    end.

  (* NewJsonReader + UnmarshalRestLi: empty input and the literal null are rejected up front *)
  Definition decode_json (fuel : nat) (t : ty) (data : bytes) : dres :=
    match data with
    | [] => DErr EDeser
    | _ => if bytes_eqb data lit_null then DErr EDeser
           else match parse_json data with
                | None => DErr EDeser
                | Some jd => finish (is_record t) (decJ excl ignore parseF fuel true t jd tracker0)
                end
    end.

  (* NewRor2Reader(data) + UnmarshalRestLi; query = a query parameter's reader (scope [param], atInputStart always false) *)
  Definition decode_ror2 (fuel : nat) (query_param : option bytes) (t : ty) (data : bytes) : dres :=
    if negb (validate_ror2 0 data) then DErr EDeser
    else
      let tr := match query_param with Some p => {| t_scope := [SKey p]; t_missing := [] |} | None => tracker0 end in
      match decR fuel t (rinit data tr) with
      (* a query parameter's reader never raises itself; QueryParamsReader.ReadRecord collects the missing fields of every
         parameter reader and raises once at the end (query_reader.go:36-52) *)
      | Ok (v, s) => finish (match query_param with None => is_record t | Some _ => true end) (Ok (v, r_tr s))
      | Err x => DErr x
      | Panic => DPanic
      end.
End Decode.
