(* Schemas (the Pegasus type grammar as the generator sees it) and abstract values of generated types. *)
From Coq Require Import List Bool Arith ZArith NArith.
From Coq.Strings Require Import Byte.
From GR Require Import Base.Bytes.
Import ListNotations.

Inductive prim := PInt | PLong | PFloat | PDouble | PBool | PString | PBytes.

(* Named types are indices into the environment, so recursive schemas are expressible.
   Non-custom typerefs are transparent on the wire, in Equals and in ComputeHash: they are their primitive. *)
Inductive ty :=
| TPrim (p : prim)
| TEnum (symbols : list bytes)      (* constant k (1-based) is symbol k; 0 is the generated _unknown constant *)
| TFixed (size : nat)
| TRef (n : nat)                    (* record or union *)
| TArray (t : ty)
| TMap (t : ty).

Inductive optionality :=
| Required
| Optional
| Default (lit : bytes).            (* the schema's default literal: raw JSON, as in the manifest *)

Record field := { f_name : bytes; f_ty : ty; f_opt : optionality }.

Inductive def :=
| DRecord (includes : list nat) (fields : list field)
| DUnion (nullable : bool) (members : list (bytes * ty)).   (* alias, type *)

Definition env := list def.
Definition lookup (e : env) (n : nat) : option def := nth_error e n.

(* Values of the generated Go types.
   VRec: one value per included record (embedded structs, in declaration order), then one slot per own field:
         a Required field always holds a value; Optional/Default fields are pointers (None = nil).
   VUnion: one pointer per member (the generated struct really has one pointer per member).
   Floats are their IEEE-754 bit patterns (32 resp. 64 bits). *)
Inductive value :=
| VInt (z : Z) | VLong (z : Z)
| VFloat (bits : N) | VDouble (bits : N)
| VBool (b : bool)
| VStr (s : bytes) | VBytes (s : bytes)
| VEnum (k : nat)
| VFixed (s : bytes)
| VRec (incs : list value) (fields : list (option value))
| VUnion (members : list (option value))
| VArr (l : list value)
| VMap (es : list (bytes * value)).

Definition is_required (o : optionality) : bool := match o with Required => true | _ => false end.
Definition has_default (o : optionality) : bool := match o with Default _ => true | _ => false end.

Definition prim_eqb (a b : prim) : bool :=
  match a, b with
  | PInt, PInt | PLong, PLong | PFloat, PFloat | PDouble, PDouble | PBool, PBool | PString, PString | PBytes, PBytes => true
  | _, _ => false
  end.

(* int32 / int64 ranges *)
Definition in_i32 (z : Z) : bool := ((-2147483648 <=? z) && (z <=? 2147483647))%Z.
Definition in_i64 (z : Z) : bool := ((-9223372036854775808 <=? z) && (z <=? 9223372036854775807))%Z.

(* structural equality of values (bit patterns for floats; the drivers canonicalise map entries by key) *)
Fixpoint value_eqb (a b : value) {struct a} : bool :=
  let fix list_eqb (x y : list value) : bool :=
    match x, y with [], [] => true | p :: x', q :: y' => value_eqb p q && list_eqb x' y' | _, _ => false end in
  let fix olist_eqb (x y : list (option value)) : bool :=
    match x, y with
    | [], [] => true
    | None :: x', None :: y' => olist_eqb x' y'
    | Some p :: x', Some q :: y' => value_eqb p q && olist_eqb x' y'
    | _, _ => false
    end in
  match a, b with
  | VInt x, VInt y | VLong x, VLong y => Z.eqb x y
  | VFloat x, VFloat y | VDouble x, VDouble y => N.eqb x y
  | VBool x, VBool y => Bool.eqb x y
  | VStr x, VStr y | VBytes x, VBytes y | VFixed x, VFixed y => bytes_eqb x y
  | VEnum x, VEnum y => Nat.eqb x y
  | VRec i1 f1, VRec i2 f2 => list_eqb i1 i2 && olist_eqb f1 f2
  | VUnion m1, VUnion m2 => olist_eqb m1 m2
  | VArr l1, VArr l2 => list_eqb l1 l2
  | VMap e1, VMap e2 =>
      (fix es_eqb (x y : list (bytes * value)) : bool :=
         match x, y with
         | [], [] => true
         | (k1, v1) :: x', (k2, v2) :: y' => bytes_eqb k1 k2 && value_eqb v1 v2 && es_eqb x' y'
         | _, _ => false
         end) e1 e2
  | _, _ => false
  end.
