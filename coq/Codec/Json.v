(* A strict RFC 8259 parser into trees ("modelled, not verified": stands for easyjson's jlexer on WELL-FORMED documents only;
   on ill-formed JSON nothing is claimed about the lexer - see DESIGN.md 3.5).  Numbers keep their text. *)
From Coq Require Import List Bool Arith NArith.
From Coq.Strings Require Import Byte.
From GR Require Import Base.Bytes Codec.Escape Codec.Utf8.
Import ListNotations.

Inductive jdoc :=
| JNull | JBool (b : bool) | JNum (text : bytes) | JStr (s : bytes)
| JArr (items : list jdoc) | JObj (entries : list (bytes * jdoc)).

Definition is_ws (c : byte) : bool := let n := bn c in (n =? 32)%N || (n =? 9)%N || (n =? 10)%N || (n =? 13)%N.
Fixpoint skip_ws (s : bytes) : bytes := match s with c :: r => if is_ws c then skip_ws r else s | [] => [] end.
Definition is_digit (c : byte) : bool := ((48 <=? bn c) && (bn c <=? 57))%N.

Fixpoint take_digits (s : bytes) : bytes * bytes :=
  match s with
  | c :: r => if is_digit c then let '(d, t) := take_digits r in (c :: d, t) else ([], s)
  | [] => ([], [])
  end.

(* number = [ minus ] int [ frac ] [ exp ] *)
Definition parse_number (s : bytes) : option (bytes * bytes) :=
  let '(sign, s1) := match s with c :: r => if Byte.eqb c x2d then ([c], r) else ([], s) | [] => ([], []) end in
  let '(ip, s2) := take_digits s1 in
  match ip with
  | [] => None
  | d0 :: dr =>
      if Byte.eqb d0 x30 && negb (match dr with [] => true | _ => false end) then None   (* leading zero *)
      else
        let frac := match s2 with
                    | c :: r => if Byte.eqb c x2e then
                                  let '(fp, s3) := take_digits r in
                                  match fp with [] => None | _ => Some (c :: fp, s3) end
                                else Some ([], s2)
                    | [] => Some ([], [])
                    end in
        match frac with
        | None => None
        | Some (fp, s3) =>
            let ex := match s3 with
                      | c :: r =>
                          if Byte.eqb c x65 || Byte.eqb c x45 then
                            let '(sg, r') := match r with
                                             | c2 :: r2 => if Byte.eqb c2 x2b || Byte.eqb c2 x2d then ([c2], r2) else ([], r)
                                             | [] => ([], [])
                                             end in
                            let '(ep, s4) := take_digits r' in
                            match ep with [] => None | _ => Some (c :: sg ++ ep, s4) end
                          else Some ([], s3)
                      | [] => Some ([], [])
                      end in
            match ex with
            | None => None
            | Some (ep, s4) => Some (sign ++ ip ++ fp ++ ep, s4)
            end
        end
  end.

Definition hex4 (s : bytes) : option (N * bytes) :=
  match s with
  | a :: b :: c :: d :: r =>
      match unhex a, unhex b, unhex c, unhex d with
      | Some x, Some y, Some z, Some w => Some ((x * 4096 + y * 256 + z * 16 + w)%N, r)
      | _, _, _, _ => None
      end
  | _ => None
  end.

(* the body of a string, after the opening quote; returns the decoded bytes and the input after the closing quote *)
Fixpoint parse_string_body (fuel : nat) (s : bytes) : option (bytes * bytes) :=
  match fuel with
  | 0 => None
  | S f =>
      match s with
      | [] => None
      | c :: r =>
          if Byte.eqb c x22 then Some ([], r)
          else if Byte.eqb c x5c then
            match r with
            | [] => None
            | e :: r' =>
                let simple (b : byte) := match parse_string_body f r' with Some (t, u) => Some (b :: t, u) | None => None end in
                let n := bn e in
                if (n =? 34)%N then simple x22 else if (n =? 92)%N then simple x5c else if (n =? 47)%N then simple x2f
                else if (n =? 98)%N then simple x08 else if (n =? 102)%N then simple x0c else if (n =? 110)%N then simple x0a
                else if (n =? 114)%N then simple x0d else if (n =? 116)%N then simple x09
                else if (n =? 117)%N then
                  match hex4 r' with
                  | None => None
                  | Some (u1, r2) =>
                      (* surrogate pair? *)
                      let pair :=
                        if ((55296 <=? u1) && (u1 <=? 56319))%N then
                          match r2 with
                          | b1 :: b2 :: r3 =>
                              if Byte.eqb b1 x5c && Byte.eqb b2 x75 then
                                match hex4 r3 with
                                | Some (u2, r4) =>
                                    if ((56320 <=? u2) && (u2 <=? 57343))%N
                                    then Some ((65536 + (u1 - 55296) * 1024 + (u2 - 56320))%N, r4) else None
                                | None => None
                                end
                              else None
                          | _ => None
                          end
                        else None in
                      let '(cp, rest) := match pair with Some (cp, r4) => (cp, r4) | None => (u1, r2) end in
                      match parse_string_body f rest with
                      | Some (t, u) => Some (utf8_encode cp ++ t, u)
                      | None => None
                      end
                  end
                else None
            end
          else if (bn c <? 32)%N then None
          else match parse_string_body f r with Some (t, u) => Some (c :: t, u) | None => None end
      end
  end.

Definition lit_true := [x74; x72; x75; x65].
Definition lit_false := [x66; x61; x6c; x73; x65].
Definition lit_null := [x6e; x75; x6c; x6c].

Fixpoint strip_prefix (p s : bytes) : option bytes :=
  match p, s with
  | [], _ => Some s
  | a :: p', b :: s' => if Byte.eqb a b then strip_prefix p' s' else None
  | _, [] => None
  end.

Fixpoint parse_value (fuel : nat) (s : bytes) : option (jdoc * bytes) :=
  match fuel with
  | 0 => None
  | S f =>
      let s := skip_ws s in
      match s with
      | [] => None
      | c :: r =>
          if Byte.eqb c x22 then
            match parse_string_body (S (length r)) r with Some (t, u) => Some (JStr t, u) | None => None end
          else if Byte.eqb c x7b then
            (* object *)
            let r := skip_ws r in
            match r with
            | c2 :: r2 =>
                if Byte.eqb c2 x7d then Some (JObj [], r2)
                else
                  (fix members (k : nat) (s : bytes) (acc : list (bytes * jdoc)) : option (jdoc * bytes) :=
                     match k with
                     | 0 => None
                     | S k' =>
                         match skip_ws s with
                         | q :: s1 =>
                             if Byte.eqb q x22 then
                               match parse_string_body (S (length s1)) s1 with
                               | Some (key, s2) =>
                                   match skip_ws s2 with
                                   | col :: s3 =>
                                       if Byte.eqb col x3a then
                                         match parse_value f s3 with
                                         | Some (v, s4) =>
                                             match skip_ws s4 with
                                             | d :: s5 =>
                                                 if Byte.eqb d x2c then members k' s5 (acc ++ [(key, v)])
                                                 else if Byte.eqb d x7d then Some (JObj (acc ++ [(key, v)]), s5)
                                                 else None
                                             | [] => None
                                             end
                                         | None => None
                                         end
                                       else None
                                   | [] => None
                                   end
                               | None => None
                               end
                             else None
                         | [] => None
                         end
                     end) f r []
            | [] => None
            end
          else if Byte.eqb c x5b then
            let r := skip_ws r in
            match r with
            | c2 :: r2 =>
                if Byte.eqb c2 x5d then Some (JArr [], r2)
                else
                  (fix items (k : nat) (s : bytes) (acc : list jdoc) : option (jdoc * bytes) :=
                     match k with
                     | 0 => None
                     | S k' =>
                         match parse_value f s with
                         | Some (v, s1) =>
                             match skip_ws s1 with
                             | d :: s2 =>
                                 if Byte.eqb d x2c then items k' s2 (acc ++ [v])
                                 else if Byte.eqb d x5d then Some (JArr (acc ++ [v]), s2)
                                 else None
                             | [] => None
                             end
                         | None => None
                         end
                     end) f r []
            | [] => None
            end
          else match strip_prefix lit_true s with
               | Some u => Some (JBool true, u)
               | None =>
                   match strip_prefix lit_false s with
                   | Some u => Some (JBool false, u)
                   | None =>
                       match strip_prefix lit_null s with
                       | Some u => Some (JNull, u)
                       | None => match parse_number s with Some (t, u) => Some (JNum t, u) | None => None end
                       end
                   end
               end
      end
  end.

(* a whole document: one value, then only whitespace *)
Definition parse_json (s : bytes) : option jdoc :=
  match parse_value (S (length s)) s with
  | Some (d, r) => match skip_ws r with [] => Some d | _ => None end
  | None => None
  end.
