(* Correspondence glue for C14.  Two kinds of cases:
   - client cases: (module, threshold, verb, path, query, body, other headers) + the boundary the real multipart writer
     chose; observed: the request the real client built (as re-read from its wire dump by http.ReadRequest) and the
     *http.Request after the real DecodeTunnelledQuery.  Because the boundary is an input of the model, the multipart
     bytes are compared exactly.
   - raw cases: a hand-crafted wire request (malformed tunnelling included); observed: the result of the real
     DecodeTunnelledQuery. *)
From Coq Require Import List Bool Arith ZArith.
From Coq.Strings Require Import Byte.
From GR Require Import Base.Bytes Gen.TablesTunnel Http.UrlModel Http.Tunnel.
Import ListNotations.

Definition opt_eqb (a b : option bytes) : bool :=
  match a, b with Some x, Some y => bytes_eqb x y | None, None => true | _, _ => false end.

Fixpoint headers_eqb (a b : list header) : bool :=
  match a, b with
  | [], [] => true
  | (k1, v1) :: a', (k2, v2) :: b' => bytes_eqb k1 k2 && bytes_eqb v1 v2 && headers_eqb a' b'
  | _, _ => false
  end.

Definition wire_eqb (a b : wire) : bool :=
  bytes_eqb (w_method a) (w_method b) && bytes_eqb (w_path a) (w_path b) && bytes_eqb (w_rawquery a) (w_rawquery b)
  && opt_eqb (w_ct a) (w_ct b) && opt_eqb (w_override a) (w_override b) && headers_eqb (w_other a) (w_other b)
  && bytes_eqb (w_body a) (w_body b).

Definition decoded_eqb (a b : decoded) : bool :=
  bytes_eqb (d_method a) (d_method b) && bytes_eqb (d_path a) (d_path b) && bytes_eqb (d_rawquery a) (d_rawquery b)
  && bytes_eqb (d_uri a) (d_uri b) && opt_eqb (d_ct a) (d_ct b) && opt_eqb (d_override a) (d_override b)
  && headers_eqb (d_other a) (d_other b) && opt_eqb (d_body a) (d_body b).

Definition dres_eqb (a b : dres) : bool :=
  match a, b with DOk x, DOk y => decoded_eqb x y | DErr, DErr => true | _, _ => false end.

(* c_client = Some (root_module, threshold, verb, query, body, boundary): a client case, c_wire is what was observed on the
   wire; None: a raw case, c_wire is the input *)
Record case := { c_client : option (bool * Z * bytes * bytes * option bytes * bytes); c_wire : wire; c_decoded : dres }.

Definition model_wire (c : case) : wire :=
  match c_client c with
  | Some (rootm, th, verb, q, body, b) =>
      (* the root module's threshold test is transcribed separately *)
      let w := client_request b th verb (w_path (c_wire c)) q body (w_other (c_wire c)) in
      if Bool.eqb (tunnel_condition th (Z.of_nat (length q))) (tunnel_condition_root th (Z.of_nat (length q))) || negb rootm
      then w else {| w_method := []; w_path := []; w_rawquery := []; w_ct := None; w_override := None; w_other := []; w_body := [] |}
  | None => c_wire c
  end.

Definition model_out (c : case) : wire * dres := (model_wire c, decode_tunnelled_query (c_wire c)).

Definition check_case (c : case) : bool :=
  wire_eqb (model_wire c) (c_wire c) && dres_eqb (decode_tunnelled_query (c_wire c)) (c_decoded c).

Fixpoint mismatches_from (i : nat) (l : list case) : list nat :=
  match l with
  | [] => []
  | c :: r => if check_case c then mismatches_from (S i) r else i :: mismatches_from (S i) r
  end.
Definition mismatches := mismatches_from 0.

Definition select {A} (idx : list nat) (l : list A) : list A :=
  flat_map (fun i => match nth_error l i with Some x => [x] | None => [] end) idx.
