(* Correspondence glue for C15: the harness records, for each request (tunnelling threshold of the client, base URL the
   resolver answered, root, resource path, query), the URL of the *http.Request the real client built; [mismatches]
   evaluates the model on the same inputs.  The requests come in HISTORIES on long-lived clients (the JSON description of
   a case lists the requests made earlier on the same client); every request of a history is a case of its own and is
   compared with the model's URL for that request ALONE (Props/C15.v url_of_request_history_independent).  It also re-evaluates, in
   Coq, the grammar premises and the specification function [context] that the Go oracle used, so that the oracle and
   the theorems speak about the same predicates. *)
From Coq Require Import List Bool Arith ZArith.
From Coq.Strings Require Import Byte.
From GR Require Import Base.Bytes Gen.TablesUrl Http.UrlModel Http.Url Http.UrlEnc.
Import ListNotations.

Record observed := { o_ok : bool; o_string : bytes; o_epath : bytes; o_rawquery : bytes; o_scheme : bytes;
                     o_host : bytes; o_path : bytes; o_force : bool }.

Definition observed_eqb (a b : observed) : bool :=
  Bool.eqb (o_ok a) (o_ok b) && bytes_eqb (o_string a) (o_string b) && bytes_eqb (o_epath a) (o_epath b)
  && bytes_eqb (o_rawquery a) (o_rawquery b) && bytes_eqb (o_scheme a) (o_scheme b) && bytes_eqb (o_host a) (o_host b)
  && bytes_eqb (o_path a) (o_path b) && Bool.eqb (o_force a) (o_force b).

Definition url_eqb (a b : URL) : bool :=
  bytes_eqb (u_scheme a) (u_scheme b) && bytes_eqb (u_host a) (u_host b) && bytes_eqb (u_path a) (u_path b)
  && bytes_eqb (u_rawpath a) (u_rawpath b) && Bool.eqb (u_forcequery a) (u_forcequery b)
  && bytes_eqb (u_rawquery a) (u_rawquery b) && Bool.eqb (u_omithost a) (u_omithost b).

(* c_base: the fields of the *url.URL the resolver returned.  c_parsed = true: it came from url.Parse of
   scheme://host ++ c_bp, so it must equal [mk_base].  c_segs / c_trailing: how the harness rendered c_bp (None: not from
   the grammar renderer).  c_in_grammar / c_ctx_spec: the Go oracle's evaluation of the premises and of [context].
   c_threshold: Client.QueryTunnellingThreshold; c_tunnel_spec: the oracle's reading of "the query is longer than a
   positive threshold" on the encoder's query. *)
Record case := { c_v2 : bool; c_threshold : Z; c_tunnel_spec : bool; c_base : URL; c_parsed : bool; c_bp : bytes; c_segs : option (list bytes * bool);
                 c_root : bytes; c_rpath : bytes; c_query : option bytes;
                 c_in_grammar : bool; c_ctx_spec : bytes; c_obs : observed }.

Definition err_obs : observed :=
  {| o_ok := false; o_string := []; o_epath := []; o_rawquery := []; o_scheme := []; o_host := []; o_path := [];
     o_force := false |}.

Definition model_out (c : case) : observed :=
  match new_request_url_t (c_v2 c) (c_threshold c) (c_base c) (c_root c) (c_rpath c) (c_query c) with
  | UErr _ => err_obs
  | UOk u =>
      {| o_ok := true; o_string := match url_string u with UOk s => s | UErr _ => [] end; o_epath := escaped_path u;
         o_rawquery := u_rawquery u; o_scheme := u_scheme u; o_host := u_host u; o_path := u_path u;
         o_force := u_forcequery u |}
  end.

Definition premises (c : case) : bool :=
  let ptab := if c_v2 c then v2_unescaped_path_characters else root_unescaped_path_characters in
  let qtab := if c_v2 c then v2_unescaped_query_characters else root_unescaped_query_characters in
  match c_segs c with
  | Some (segs, trailing) =>
      in_grammar (u_scheme (c_base c)) (u_host (c_base c)) segs (c_root c)
      && bytes_eqb (c_bp c) (render_ctx segs trailing)
      && encoded_path ptab (c_root c) (c_rpath c) && encoded_query qtab (c_query c)
  | None => false
  end.

Definition check_case (c : case) : bool :=
  observed_eqb (model_out c) (c_obs c)
  && (negb (c_parsed c) || url_eqb (mk_base (u_scheme (c_base c)) (u_host (c_base c)) (c_bp c)) (c_base c))
  && Bool.eqb (premises c) (c_in_grammar c)
  && bytes_eqb (context (c_bp c) (c_root c)) (c_ctx_spec c)
  && Bool.eqb (tunnel_test (c_v2 c) (c_threshold c) (Z.of_nat (length (raw_query_of (c_query c))))) (c_tunnel_spec c).

Fixpoint mismatches_from (i : nat) (l : list case) : list nat :=
  match l with
  | [] => []
  | c :: r => if check_case c then mismatches_from (S i) r else i :: mismatches_from (S i) r
  end.
Definition mismatches := mismatches_from 0.

Definition select {A} (idx : list nat) (l : list A) : list A :=
  flat_map (fun i => match nth_error l i with Some x => [x] | None => [] end) idx.
