(* Correspondence glue for C12.  Three kinds of cases written by harness/cmd/c12:
   - CIdent / CPath / CPkgName: the real ExportedIdentifier / FqcpToPackagePath / PackageName on a string;
   - CReg: the type graph of a manifest in registration order (built-ins, dependency manifest, input manifest) and
     the DISTINCT outcomes observed in fresh generator processes (registry phase: status and, for every type of the
     input package root in registration order, the package path and type name the real registry assigned).
     The model is evaluated for every relative iteration order of the identifiers in [r_perm] (all permutations, put
     first) and both orders of every reference list; every observed outcome must be one of the model's.
   - CRegM: SEVERAL manifests (input and dependency data types, each with the references the real code computes) in the
     order they were handed to the real cmd.RegisterManifests, the registry's native content before, and what a fresh
     generator process answered: status and, for every type registered under a manifest's package root, the root it was
     filed under and the package path / type name it was assigned.  The model (register_manifests: both passes, then
     finalize) must give the same status, the same number of types and the same (root, package, name) for each.     *)
From Coq Require Import List Bool Arith NArith.
From Coq.Strings Require Import Byte.
From GR Require Import Base.Bytes Gen.TablesGen Gen2.Ident Gen2.Registry.
Import ListNotations.

Definition outcome := (nat * list (bytes * bytes))%type.   (* status 0 ok / 1 error / 2 panic / 3 out of model *)

Inductive case :=
| CIdent (s : bytes) (status : nat) (out : bytes)
| CPath (root fqcp out : bytes)
| CPkgName (s out : bytes)
| CReg (r_reg : list entry) (r_root : bytes) (r_perm : list ident) (r_wf : bool) (r_observed : list outcome)
| CRegM (m_init : list entry) (m_manifests : list manifest) (m_status : nat)
        (m_observed : list (ident * (bytes * (bytes * bytes)))).

Definition status_of {A} (r : gres A) : nat :=
  match r with Ok _ => 0 | Err _ => 1 | Panic => 2 | OutOfModel => 3 end.

Fixpoint insert_all {A} (x : A) (l : list A) : list (list A) :=
  match l with
  | [] => [[x]]
  | y :: r => (x :: l) :: map (cons y) (insert_all x r)
  end.
Fixpoint perms {A} (l : list A) : list (list A) :=
  match l with
  | [] => [[]]
  | x :: r => flat_map (insert_all x) (perms r)
  end.

Definition reorder (reg : list entry) (first : list ident) : list entry :=
  flat_map (fun i => match lookup reg i with Some e => [e] | None => [] end) first ++
  filter (fun e => negb (existsb (ident_eqb (e_id e)) first)) reg.
Definition rev_refs (reg : list entry) : list entry :=
  map (fun e => mkEntry (e_id e) (e_root e) (rev (e_refs e)) (e_cyc e) (e_ovr e)) reg.

Definition project (root : bytes) (orig : list entry) (r : gres registry) : outcome :=
  match r with
  | Ok fin => (0, flat_map (fun e => if bytes_eqb (e_root e) root
                                     then match lookup fin (e_id e) with
                                          | Some f => [(out_pkg f, out_name f)]
                                          | None => []
                                          end
                                     else []) orig)
  | x => (status_of x, [])
  end.

Definition reg_outcomes (reg : list entry) (root : bytes) (perm : list ident) : list outcome :=
  flat_map (fun p => let r := reorder reg p in
                     [project root reg (finalize r); project root reg (finalize (rev_refs r))]) (perms perm).

Fixpoint pairs_eqb (a b : list (bytes * bytes)) : bool :=
  match a, b with
  | [], [] => true
  | (p, n) :: a', (q, m) :: b' => bytes_eqb p q && bytes_eqb n m && pairs_eqb a' b'
  | _, _ => false
  end.
Definition outcome_eqb (a b : outcome) : bool := Nat.eqb (fst a) (fst b) && pairs_eqb (snd a) (snd b).

Fixpoint dedup (l : list outcome) : list outcome :=
  match l with
  | [] => []
  | a :: r => if existsb (outcome_eqb a) r then dedup r else a :: dedup r
  end.

(* CRegM: the types the run added to the registry, as (id, (root, (package, name))) *)
Definition added (init : list entry) (fin : registry) : list (ident * (bytes * (bytes * bytes))) :=
  flat_map (fun e => if known init (e_id e) then [] else [(e_id e, (e_root e, (out_pkg e, out_name e)))]) fin.

Definition regm_ok (init : list entry) (ms : list manifest) (status : nat)
                   (obs : list (ident * (bytes * (bytes * bytes)))) : bool :=
  match register_manifests init ms with
  | Ok fin =>
      Nat.eqb status 0 && Nat.eqb (length (added init fin)) (length obs) &&
      forallb (fun o => match lookup fin (fst o) with
                        | Some e => negb (known init (fst o)) && bytes_eqb (e_root e) (fst (snd o)) &&
                                    bytes_eqb (out_pkg e) (fst (snd (snd o))) && bytes_eqb (out_name e) (snd (snd (snd o)))
                        | None => false
                        end) obs
  | r => Nat.eqb (status_of r) status
  end.

Definition res_bytes (r : gres bytes) : bytes := match r with Ok b => b | _ => [] end.

(* what the model says, in a form that prints usefully for the first mismatches *)
Definition model_out (c : case) : list outcome :=
  match c with
  | CIdent s _ _ => [(status_of (exported_identifier s), [(res_bytes (exported_identifier s), [])])]
  | CPath root f _ => [(0, [(package_path root f, [])])]
  | CPkgName s _ => [(0, [(package_name s, [])])]
  | CReg reg root perm _ _ => dedup (reg_outcomes reg root perm)
  | CRegM init ms _ _ =>
      match register_manifests init ms with
      | Ok fin => [(0, map (fun a => (fst (snd a), snd (snd (snd a)))) (added init fin))]
      | r => [(status_of r, [])]
      end
  end.

Definition check_case (c : case) : bool :=
  match c with
  | CIdent s st out =>
      let m := exported_identifier s in
      Nat.eqb (status_of m) 3 ||                                   (* non-ASCII: outside the model, not compared *)
      (Nat.eqb (status_of m) st && bytes_eqb (res_bytes m) out)
  | CPath root f out => bytes_eqb (package_path root f) out
  | CPkgName s out => bytes_eqb (package_name s) out
  | CReg reg root perm wf obs =>
      Bool.eqb (wf_manifestb reg) wf &&
      let outs := reg_outcomes reg root perm in
      forallb (fun o => existsb (outcome_eqb o) outs) obs
  | CRegM init ms status obs => regm_ok init ms status obs
  end.

Fixpoint mismatches_from (i : nat) (l : list case) : list nat :=
  match l with
  | [] => []
  | c :: r => if check_case c then mismatches_from (S i) r else i :: mismatches_from (S i) r
  end.
Definition mismatches := mismatches_from 0.

Definition select {A} (idx : list nat) (l : list A) : list A :=
  flat_map (fun i => match nth_error l i with Some x => [x] | None => [] end) idx.

(* number of distinct outcomes the model predicts over the explored iteration orders (> 1: order-dependent) *)
Definition order_sensitive (c : case) : bool :=
  match c with CReg reg root perm _ _ => Nat.ltb 1 (length (dedup (reg_outcomes reg root perm))) | _ => false end.
