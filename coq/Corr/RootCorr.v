(* Correspondence glue for the ROOT module generation (github.com/PapaCharlie/go-restli, not .../v2) of the schema-quantified
   codec properties (C01, C04, C06, C07, C11, C13).  Same case format as Corr/CodecCorr.v (the driver harness/rootdrv is
   harness/codecdrv's source compiled against the bindings of the REAL root generator), different reading of it:

   1. Included records.  The root spec parser hands the generator every record with the fields of its included records
      FLATTENED into it, and the generated code is one WriteMap / one switch / one required-field list / one
      populateLocalDefaultValues over all of them (codegen/types/record_marshaler.go generateMarshaler, record_unmarshaler.go
      generateUnmarshaler, record.go GeneratePopulateDefaultValues).  So the model is instantiated on [flat_env fam_env]: the
      SAME family (Gen/FamEnv.v) with every record replaced by the record that has no includes and all inherited fields in
      front of its own; values are flattened the same way before they are handed to the model or compared with it.
      (Consequence, visible on the implementation: defaults of included records ARE filled by the root bindings.)

   2. Encoders.  root genericWriter.WriteMap streams the members in the order the caller supplies (writer.go:158-190); only the
      generic WriteMap helper for Go maps sorts.  The model encoder [enc] sorts every object, hence it predicts the root output
      only up to the ORDER of object members: the implementation's bytes must be equal to the model's bytes, or - when some
      object of the document has two or more members - parse (strict JSON parser Codec/Json.v, resp. the small ROR2 tree parser
      below) to the same tree modulo permutation of the members of every object at every depth.

   3. Decoders.  restlicodec/{reader,json_reader,ror2_reader,query_reader,missing_fields,pathspec}.go of the root module are the
      v2 files up to RequiredFields being passed by value and the absence of NoSuchFieldErr (diffed): the model decoders apply
      unchanged, with the root tables of Gen/TablesCodec.v (the root_ constants), on the flattened environment.

   No proofs here. *)
From Coq Require Import List Bool Arith ZArith NArith.
From Coq.Strings Require Import Byte.
From GR Require Import Base.Bytes Base.Res Codec.Schema Codec.Doc Codec.Escape Codec.Render Codec.Encode Codec.Tracker Codec.Json Codec.Decode
  Gen.TablesCodec Gen.FamEnv.
From GR Require Export Corr.CodecCorr.
Import ListNotations.

(* the case format is CodecCorr's (constructors OEnc / ODec / EncOk / ... are re-exported) *)
Definition case := CodecCorr.case.

(* ---------------------------------------------------------------------------------------------------- flattening *)
Section Flatten.
  Variable e : env.

  (* all fields of record n as the root generator sees them: those of the included records (recursively, include order), then its own *)
  Fixpoint flat_fields (fuel : nat) (n : nat) : list field :=
    match fuel with
    | 0 => []
    | S f =>
        match lookup e n with
        | Some (DRecord incs fs) => flat_map (flat_fields f) incs ++ fs
        | _ => []
        end
    end.

  Definition flat_env (fuel : nat) : env :=
    map (fun n => match lookup e n with
                  | Some (DRecord _ _) => DRecord [] (flat_fields fuel n)
                  | Some d => d
                  | None => DUnion false []
                  end) (seq 0 (length e)).

  (* a value of the schema's shape (VRec incs own, nested) as the value of the flattened record (VRec [] slots) *)
  Fixpoint flat_value (fuel : nat) (t : ty) (v : value) {struct fuel} : value :=
    match fuel with
    | 0 => v
    | S f =>
        match t, v with
        | TArray t', VArr l => VArr (map (flat_value f t') l)
        | TMap t', VMap es => VMap (map (fun kv => (fst kv, flat_value f t' (snd kv))) es)
        | TRef n, VRec ivs fvs =>
            match lookup e n with
            | Some (DRecord incs fs) =>
                let inherited :=
                  (fix go (is : list nat) (vs : list value) : list (option value) :=
                     match is, vs with
                     | i :: is', iv :: vs' =>
                         (match flat_value f (TRef i) iv with VRec _ slots => slots | _ => [] end) ++ go is' vs'
                     | _, _ => []
                     end) incs ivs in
                let own :=
                  (fix go (fs : list field) (vs : list (option value)) : list (option value) :=
                     match fs, vs with
                     | fd :: fs', ov :: vs' => option_map (flat_value f (f_ty fd)) ov :: go fs' vs'
                     | _, _ => []
                     end) fs fvs in
                VRec [] (inherited ++ own)
            | _ => v
            end
        | TRef n, VUnion ms =>
            match lookup e n with
            | Some (DUnion _ members) =>
                VUnion ((fix go (mts : list (bytes * ty)) (vs : list (option value)) : list (option value) :=
                           match mts, vs with
                           | (_, mt) :: mts', ov :: vs' => option_map (flat_value f mt) ov :: go mts' vs'
                           | _, _ => []
                           end) members ms)
            | _ => v
            end
        | _, _ => v
        end
    end.
End Flatten.

Definition fuel0 : nat := CodecCorr.fuel0.
Definition fam_env_root : env := Eval vm_compute in flat_env fam_env fuel0.
Definition flatv (t : ty) (v : value) : value := flat_value fam_env fuel0 t v.

(* ---------------------------------------------------------------------------------------------------- trees modulo member order *)
Inductive tree :=
| TL (tag : nat) (s : bytes)
| TA (items : list tree)
| TO (entries : list (bytes * tree)).

(* members of every object sorted by key (insertion sort of Codec/Doc.v), at every depth *)
Fixpoint tnorm (t : tree) : tree :=
  match t with
  | TL _ _ => t
  | TA l => TA ((fix go (l : list tree) : list tree := match l with [] => [] | x :: r => tnorm x :: go r end) l)
  | TO es => TO (sort_entries ((fix go (l : list (bytes * tree)) : list (bytes * tree) :=
                                  match l with [] => [] | (k, x) :: r => (k, tnorm x) :: go r end) es))
  end.

Fixpoint tree_eqb (a b : tree) {struct a} : bool :=
  match a, b with
  | TL i s, TL j u => Nat.eqb i j && bytes_eqb s u
  | TA l, TA m =>
      (fix go (x y : list tree) : bool :=
         match x, y with [], [] => true | p :: x', q :: y' => tree_eqb p q && go x' y' | _, _ => false end) l m
  | TO l, TO m =>
      (fix go (x y : list (bytes * tree)) : bool :=
         match x, y with
         | [], [] => true
         | (k, p) :: x', (k', q) :: y' => bytes_eqb k k' && tree_eqb p q && go x' y'
         | _, _ => false
         end) l m
  | _, _ => false
  end.

Definition tree_perm_eqb (a b : tree) : bool := tree_eqb (tnorm a) (tnorm b).

Fixpoint jtree (d : jdoc) : tree :=
  match d with
  | JNull => TL 0 []
  | JBool b => TL 1 (if b then [x01] else [x00])
  | JNum t => TL 2 t
  | JStr s => TL 3 s
  | JArr l => TA ((fix go (l : list jdoc) : list tree := match l with [] => [] | x :: r => jtree x :: go r end) l)
  | JObj es => TO ((fix go (l : list (bytes * jdoc)) : list (bytes * tree) :=
                      match l with [] => [] | (k, x) :: r => (k, jtree x) :: go r end) es)
  end.

(* two JSON texts denote the same tree up to the order of object members (jdoc_perm_eqb on the parsed documents) *)
Definition jdoc_perm_eqb (a b : jdoc) : bool := tree_perm_eqb (jtree a) (jtree b).
Definition json_same_modulo_order (x y : bytes) : bool :=
  match parse_json x, parse_json y with
  | Some a, Some b => jdoc_perm_eqb a b
  | _, _ => false
  end.

(* ---- a small ROR2 text -> tree parser: tokens are kept RAW (still escaped), so escaping differences are differences.
   value := "List(" [ value { "," value } ] ")"  |  "(" [ token ":" value { "," token ":" value } ] ")"  |  token
   token := maximal run of bytes other than "," ")" ":"  (the writers escape these three in every flavour) *)
Definition is_delim (c : byte) : bool := Byte.eqb c x2c || Byte.eqb c x29 || Byte.eqb c x3a.
Fixpoint take_token (s : bytes) : bytes * bytes :=
  match s with
  | c :: r => if is_delim c then ([], s) else let '(t, u) := take_token r in (c :: t, u)
  | [] => ([], [])
  end.

Fixpoint rparse (fuel : nat) (s : bytes) {struct fuel} : option (tree * bytes) :=
  match fuel with
  | 0 => None
  | S f =>
      match strip_prefix root_list_prefix s with
      | Some r =>
          match r with
          | c :: r' =>
              if Byte.eqb c x29 then Some (TA [], r')
              else
                (fix items (k : nat) (s : bytes) (acc : list tree) : option (tree * bytes) :=
                   match k with
                   | 0 => None
                   | S k' =>
                       match rparse f s with
                       | Some (v, d :: s2) =>
                           if Byte.eqb d x2c then items k' s2 (acc ++ [v])
                           else if Byte.eqb d x29 then Some (TA (acc ++ [v]), s2)
                           else None
                       | _ => None
                       end
                   end) f r []
          | [] => None
          end
      | None =>
          match s with
          | c :: r =>
              if Byte.eqb c x28 then
                match r with
                | c2 :: r2 =>
                    if Byte.eqb c2 x29 then Some (TO [], r2)
                    else
                      (fix members (k : nat) (s : bytes) (acc : list (bytes * tree)) : option (tree * bytes) :=
                         match k with
                         | 0 => None
                         | S k' =>
                             let '(key, s1) := take_token s in
                             match s1 with
                             | col :: s2 =>
                                 if Byte.eqb col x3a then
                                   match rparse f s2 with
                                   | Some (v, d :: s4) =>
                                       if Byte.eqb d x2c then members k' s4 (acc ++ [(key, v)])
                                       else if Byte.eqb d x29 then Some (TO (acc ++ [(key, v)]), s4)
                                       else None
                                   | _ => None
                                   end
                                 else None
                             | [] => None
                             end
                         end) f r []
                | [] => None
                end
              else let '(t, u) := take_token s in Some (TL 0 t, u)
          | [] => Some (TL 0 [], [])
          end
      end
  end.

Definition parse_ror2 (s : bytes) : option tree :=
  match rparse (S (length s)) s with
  | Some (t, []) => Some t
  | _ => None
  end.

Definition ror2_same_modulo_order (x y : bytes) : bool :=
  match parse_ror2 x, parse_ror2 y with
  | Some a, Some b => tree_perm_eqb a b
  | _, _ => false
  end.

(* does some object of the document have two or more members?  (otherwise there is no order to be modulo of: bytes must be equal) *)
Fixpoint doc_has_order (d : doc) : bool :=
  match d with
  | DLeaf _ => false
  | DArr l => (fix go (l : list doc) : bool := match l with [] => false | x :: r => doc_has_order x || go r end) l
  | DObj es =>
      Nat.ltb 1 (length es)
      || (fix go (l : list (bytes * doc)) : bool := match l with [] => false | (_, x) :: r => doc_has_order x || go r end) es
  end.

(* ---------------------------------------------------------------------------------------------------- the model on a case *)
Definition render_root (c : case) (fmt : nat) (d : doc) : bytes :=
  let fm := lookup_float (c_floats c) in
  let r2 := render_ror2 fm root_hex_chars root_unescaped_path_chars root_unescaped_query_chars root_header_escaped_chars
                        root_empty_string root_list_prefix in
  match fmt with
  | 0 => render_json fm false 0 d
  | 1 => render_json fm true 0 d
  | 2 => r2 FHeader d
  | 3 => r2 FPath d
  | _ => r2 FQuery d
  end.

Definition model_enc_doc (c : case) (fmt : nat) (v : value) : res doc :=
  (* only the JSON and header writers can be constructed with excluded fields *)
  let excl := if Nat.leb fmt 2 then new_pathspec (c_excl c) else ps_empty in
  enc fam_env_root root_wildcard excl fuel0 [] (c_ty c) (flatv (c_ty c) v).

Definition model_enc (c : case) (fmt : nat) (v : value) : res bytes :=
  do d <- model_enc_doc c fmt v; Ok (render_root c fmt d).

Definition enc_agrees_root (c : case) (fmt : nat) (m : res doc) (o : enc_obs) : bool :=
  match m, o with
  | Ok d, EncOk b' =>
      let b := render_root c fmt d in
      bytes_eqb b b'
      || (doc_has_order d
          && (if Nat.leb fmt 1 then json_same_modulo_order b b' else ror2_same_modulo_order b b'))
  | Ok _, EncFail _ => false
  | r, EncFail cl => oclass_eqb (class_of r) cl
  | _, EncOk _ => false
  end.

Definition model_dec (c : case) (fmt : nat) (data : bytes) : dres :=
  let pf := lookup_parse (c_parse c) in
  let excl := new_pathspec (c_excl c) in
  match fmt with
  | 0 | 1 => decode_json fam_env_root root_wildcard excl (c_ignore c) pf fuel0 (c_ty c) data
  | 4 => decode_ror2 fam_env_root root_wildcard ps_empty 0 pf (unescape true) root_empty_string root_list_prefix true fuel0 (Some [x70]) (c_ty c) data
  | _ => decode_ror2 fam_env_root root_wildcard excl (c_ignore c) pf (unescape false) root_empty_string root_list_prefix false fuel0 None (c_ty c) data
  end.

(* the observed value has the schema's shape: flatten it before comparing *)
Definition flat_obs (c : case) (o : dec_obs) : dec_obs :=
  match o with
  | DecOk v => DecOk (flatv (c_ty c) v)
  | DecMissing fs v => DecMissing fs (flatv (c_ty c) v)
  | DecFail cl => o
  end.

Definition check_op (c : case) (o : op) : bool :=
  match o with
  | OEnc fmt v eo => enc_agrees_root c fmt (model_enc_doc c fmt v) eo
  | ODec fmt data dobs => dec_agrees (model_dec c fmt data) (flat_obs c dobs)
  end.
Definition check_case (c : case) : bool := forallb (check_op c) (c_ops c).

Definition model_out (c : case) : list mres :=
  flat_map (fun o => if check_op c o then [] else
                     [match o with OEnc fmt v _ => MEnc (model_enc c fmt v) | ODec fmt data _ => MDec (model_dec c fmt data) end])
           (c_ops c).

Fixpoint mismatches_from (i : nat) (l : list case) : list nat :=
  match l with
  | [] => []
  | c :: r => if check_case c then mismatches_from (S i) r else i :: mismatches_from (S i) r
  end.
Definition mismatches := mismatches_from 0.
Definition select {A} (idx : list nat) (l : list A) : list A := CodecCorr.select idx l.

(* ---------------------------------------------------------------------------------------------------- sanity of the glue itself
   (closed computations; they keep the modulo-order comparison and the flattening from silently degenerating) *)
(* {"a":1,"b":[{"x":1,"y":2}]}  ~  {"b":[{"y":2,"x":1}],"a":1} *)
Example json_modulo_order_accepts :
  json_same_modulo_order
    [x7b;x22;x61;x22;x3a;x31;x2c;x22;x62;x22;x3a;x5b;x7b;x22;x78;x22;x3a;x31;x2c;x22;x79;x22;x3a;x32;x7d;x5d;x7d]
    [x7b;x22;x62;x22;x3a;x5b;x7b;x22;x79;x22;x3a;x32;x2c;x22;x78;x22;x3a;x31;x7d;x5d;x2c;x22;x61;x22;x3a;x31;x7d] = true.
Proof. vm_compute. reflexivity. Qed.
(* {"a":1,"b":2}  vs  {"a":2,"b":1}  and array order matters: [1,2] vs [2,1] *)
Example json_modulo_order_rejects :
  json_same_modulo_order [x7b;x22;x61;x22;x3a;x31;x2c;x22;x62;x22;x3a;x32;x7d] [x7b;x22;x61;x22;x3a;x32;x2c;x22;x62;x22;x3a;x31;x7d] = false
  /\ json_same_modulo_order [x5b;x31;x2c;x32;x5d] [x5b;x32;x2c;x31;x5d] = false.
Proof. vm_compute. split; reflexivity. Qed.
(* (a:1,b:List((x:1,y:''),2))  ~  (b:List((y:'',x:1),2),a:1) *)
Example ror2_modulo_order_accepts :
  ror2_same_modulo_order
    [x28;x61;x3a;x31;x2c;x62;x3a;x4c;x69;x73;x74;x28;x28;x78;x3a;x31;x2c;x79;x3a;x27;x27;x29;x2c;x32;x29;x29]
    [x28;x62;x3a;x4c;x69;x73;x74;x28;x28;x79;x3a;x27;x27;x2c;x78;x3a;x31;x29;x2c;x32;x29;x2c;x61;x3a;x31;x29] = true.
Proof. vm_compute. reflexivity. Qed.
(* (a:1,b:2) vs (a:2,b:1);  (a:%41) vs (a:A): raw tokens are compared;  List(1,2) vs List(2,1) *)
Example ror2_modulo_order_rejects :
  ror2_same_modulo_order [x28;x61;x3a;x31;x2c;x62;x3a;x32;x29] [x28;x61;x3a;x32;x2c;x62;x3a;x31;x29] = false
  /\ ror2_same_modulo_order [x28;x61;x3a;x25;x34;x31;x29] [x28;x61;x3a;x41;x29] = false
  /\ ror2_same_modulo_order [x4c;x69;x73;x74;x28;x31;x2c;x32;x29] [x4c;x69;x73;x74;x28;x32;x2c;x31;x29] = false.
Proof. vm_compute. repeat split; reflexivity. Qed.
(* flattening keeps the environment's indices, removes every include and keeps every field *)
Example flat_env_shape :
  length fam_env_root = length fam_env
  /\ forallb (fun d => match d with DRecord incs _ => match incs with [] => true | _ => false end | DUnion _ _ => true end) fam_env_root = true
  /\ forallb (fun n => match lookup fam_env n, lookup fam_env_root n with
                       | Some (DRecord incs fs), Some (DRecord _ fs') =>
                           Nat.eqb (length fs') (length (flat_fields fam_env fuel0 n)) && Nat.leb (length fs) (length fs')
                       | Some (DUnion _ ms), Some (DUnion _ ms') => Nat.eqb (length ms) (length ms')
                       | _, _ => false
                       end) (seq 0 (length fam_env)) = true.
Proof. vm_compute. repeat split; reflexivity. Qed.
