(* Correspondence glue for the partial-update part of C11 / C07 on the ROOT module generation: the driver (harness/rootdrv/root_patch.go,
   mode c11p of the root driver) builds the X_PartialUpdate structs the REAL root generator emitted for the family from abstract
   patches (one slot per FLATTENED field), marshals them with a compact JSON writer constructed WithExcludedFields (MarshalRestLi =
   the {"patch": ...} envelope, and MarshalRestLiPatch directly), decodes patch documents with a JSON reader constructed
   WithExcludedFields (UnmarshalRestLi at the start of the input or below {"entities": {key: ...}}, and UnmarshalRestLiPatch
   directly); the model (Codec/RootPatch.v on the flattened family environment Corr/RootCorr.v fam_env_root, root tables of
   Gen/TablesCodec.v) is evaluated on the same patches / bytes.

   Encoders: the root WriteMap streams its members, so the bytes must be the model's bytes or - when some object of the document has
   two or more members - parse to the same tree modulo the order of object members (RootCorr.json_same_modulo_order).
   Decoders: exactly.  The set values travel in the schema's shape (VRec incs own) and are flattened (RootCorr.flatv) before they
   are handed to the model or compared with it.  No proofs here. *)
From Coq Require Import List Bool Arith ZArith NArith.
From Coq.Strings Require Import Byte.
From GR Require Import Base.Bytes Base.Res Codec.Schema Codec.Doc Codec.Render Codec.Encode Codec.Tracker Codec.Json Codec.Decode
  Codec.RootPatch Gen.TablesCodec Gen.FamEnv Corr.CodecCorr Corr.RootCorr.
Import ListNotations.

Inductive rpenc_obs := RPEncOk (b : bytes) | RPEncFail (c : oclass).
Inductive rpdec_obs := RPDecOk (p : rpatch) | RPDecFail (c : oclass).

Inductive rpop :=
| RPEnc (p : rpatch) (o : rpenc_obs)                                    (* MarshalRestLi, compact JSON writer with rc_excl *)
| RPEncAt (p : rpatch) (o : rpenc_obs)                                  (* MarshalRestLiPatch on the same writer, no envelope *)
| RPDec (pre : list bytes) (ignore : nat) (data : bytes) (o : rpdec_obs)   (* UnmarshalRestLi, JSON reader with rc_excl, at scope pre *)
| RPDecAt (ignore : nat) (data : bytes) (o : rpdec_obs).                (* UnmarshalRestLiPatch, reader at the start of the input *)

Record rcase := {
  rc_rec : nat;                               (* the record (index in fam_env / fam_env_root) *)
  rc_floats : list (bool * N * bytes);
  rc_parse : list (nat * bytes * option N);
  rc_excl : list bytes;
  rc_ops : list rpop
}.
Definition case := rcase.      (* the name the shard writer (hx.Shards) uses *)

(* the set values of a patch flattened by the type of their field, at every depth of nested patches *)
Fixpoint flat_rpatch (n : nat) (p : rpatch) {struct p} : rpatch :=
  match p with
  | RPatch ds ss ns =>
      match lookup fam_env_root n with
      | Some (DRecord _ fs) =>
          RPatch ds
                 ((fix go (fs : list field) (ss : list (option value)) {struct ss} : list (option value) :=
                     match fs, ss with
                     | fd :: fs', s :: ss' => option_map (flatv (f_ty fd)) s :: go fs' ss'
                     | _, _ => ss
                     end) fs ss)
                 ((fix go (fs : list field) (ns : list (option rpatch)) {struct ns} : list (option rpatch) :=
                     match fs, ns with
                     | fd :: fs', np :: ns' =>
                         (match np, root_rec_of fam_env_root (f_ty fd) with
                          | Some q, Some m => Some (flat_rpatch m q)
                          | _, _ => np
                          end) :: go fs' ns'
                     | _, _ => ns
                     end) fs ns)
      | _ => p
      end
  end.

Fixpoint rpatch_eqb (a b : rpatch) {struct a} : bool :=
  let fix opl (x y : list (option rpatch)) : bool :=
    match x, y with
    | [], [] => true
    | None :: x', None :: y' => opl x' y'
    | Some p :: x', Some q :: y' => rpatch_eqb p q && opl x' y'
    | _, _ => false
    end in
  match a, b with
  | RPatch d1 s1 n1, RPatch d2 s2 n2 =>
      (fix bl (x y : list bool) : bool :=
         match x, y with [], [] => true | p :: x', q :: y' => Bool.eqb p q && bl x' y' | _, _ => false end) d1 d2
      && (fix ol (x y : list (option value)) : bool :=
            match x, y with
            | [], [] => true
            | None :: x', None :: y' => ol x' y'
            | Some p :: x', Some q :: y' => value_eqb p q && ol x' y'
            | _, _ => false
            end) s1 s2
      && opl n1 n2
  end.

Definition render_rp (c : rcase) (d : doc) : bytes := render_json (lookup_float (rc_floats c)) false 0 d.

Definition model_rpenc_doc (c : rcase) (envelope : bool) (p : rpatch) : res doc :=
  let x := new_pathspec (rc_excl c) in
  let q := flat_rpatch (rc_rec c) p in
  if envelope then root_enc_patch fam_env_root root_wildcard x fuel0 (rc_rec c) q
  else root_enc_patch_at fam_env_root root_wildcard x fuel0 [] (rc_rec c) q.

Definition model_rpenc (c : rcase) (envelope : bool) (p : rpatch) : res bytes :=
  do d <- model_rpenc_doc c envelope p; Ok (render_rp c d).

Definition model_rpdec (c : rcase) (pre : list bytes) (ignore : nat) (data : bytes) : res rpatch :=
  root_decode_patch_json fam_env_root root_wildcard (new_pathspec (rc_excl c)) ignore (lookup_parse (rc_parse c)) fuel0 pre (rc_rec c) data.

Definition model_rpdec_at (c : rcase) (ignore : nat) (data : bytes) : res rpatch :=
  root_decode_patch_body_json fam_env_root root_wildcard (new_pathspec (rc_excl c)) ignore (lookup_parse (rc_parse c)) fuel0 (rc_rec c) data.

Definition rpdec_agrees (c : rcase) (m : res rpatch) (o : rpdec_obs) : bool :=
  match m, o with
  | Ok p, RPDecOk p' => rpatch_eqb p (flat_rpatch (rc_rec c) p')
  | Ok _, RPDecFail _ => false
  | r, RPDecFail cl => oclass_eqb (class_of r) cl
  | _, RPDecOk _ => false
  end.

Definition rpenc_agrees (c : rcase) (m : res doc) (o : rpenc_obs) : bool :=
  match m, o with
  | Ok d, RPEncOk b' =>
      let b := render_rp c d in
      bytes_eqb b b' || (doc_has_order d && json_same_modulo_order b b')
  | Ok _, RPEncFail _ => false
  | r, RPEncFail cl => oclass_eqb (class_of r) cl
  | _, RPEncOk _ => false
  end.

Definition check_op (c : rcase) (o : rpop) : bool :=
  match o with
  | RPEnc p eo => rpenc_agrees c (model_rpenc_doc c true p) eo
  | RPEncAt p eo => rpenc_agrees c (model_rpenc_doc c false p) eo
  | RPDec pre ig data dobs => rpdec_agrees c (model_rpdec c pre ig data) dobs
  | RPDecAt ig data dobs => rpdec_agrees c (model_rpdec_at c ig data) dobs
  end.
Definition check_case (c : rcase) : bool := forallb (check_op c) (rc_ops c).

Inductive rmres := RMEnc (r : res bytes) | RMDec (r : res rpatch).
Definition model_out (c : rcase) : list rmres :=
  flat_map (fun o => if check_op c o then [] else
                     [match o with
                      | RPEnc p _ => RMEnc (model_rpenc c true p)
                      | RPEncAt p _ => RMEnc (model_rpenc c false p)
                      | RPDec pre ig data _ => RMDec (model_rpdec c pre ig data)
                      | RPDecAt ig data _ => RMDec (model_rpdec_at c ig data)
                      end])
           (rc_ops c).

Fixpoint mismatches_from (i : nat) (l : list rcase) : list nat :=
  match l with
  | [] => []
  | c :: r => if check_case c then mismatches_from (S i) r else i :: mismatches_from (S i) r
  end.
Definition mismatches := mismatches_from 0.
Definition select {A} (idx : list nat) (l : list A) : list A :=
  flat_map (fun i => match nth_error l i with Some x => [x] | None => [] end) idx.

(* ---------------------------------------------------------------------------------------------------- sanity of the glue itself *)
(* every record of the flattened family has the shape the model expects, and its zero patch has one slot per flattened field *)
Example root_patch_env_shape :
  forallb (fun n => match lookup fam_env_root n with
                    | Some (DRecord incs fs) =>
                        (match incs with [] => true | _ => false end)
                        && (match root_zero_patch fam_env_root n with
                            | RPatch ds ss ns => Nat.eqb (length ds) (length fs) && Nat.eqb (length ss) (length fs) && Nat.eqb (length ns) (length fs)
                            end)
                    | _ => true
                    end) (seq 0 (length fam_env_root)) = true.
Proof. vm_compute. reflexivity. Qed.
