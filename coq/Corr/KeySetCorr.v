(* Correspondence glue for C16: the driver (harness/codecdrv/c16.go) runs the REAL batchkeyset API and the REAL
   BatchResponse.UnmarshalWithKeyLocator on a key list, probes and hand-built replies; the model (Hash/KeySet.v instantiated with
   the C10 models of ComputeHash / Equals, and with the C01 models of the ROR2 query writer and header reader for the key texts)
   must produce the same outcomes. *)
From Coq Require Import List Bool Arith ZArith NArith.
From Coq.Strings Require Import Byte.
From GR Require Import Base.Bytes Base.Res Codec.Schema Codec.Doc Codec.Escape Codec.Render Codec.Encode Codec.Tracker Codec.Json Codec.Decode
  Gen.TablesCodec Gen.TablesFnv Hash.Fnv Hash.Equals Hash.KeySet Corr.CodecCorr.
Import ListNotations.

Definition obs_map := option (list (value * N)).

Record case := {
  c_kind : nat;                                   (* 0: generic set on ComputeHash/Equals; 1: complex key; 2: primitive set *)
  c_hty : hty;                                    (* the key type as Equals / ComputeHash see it *)
  c_ty : ty;                                      (* the key type as the codec sees it *)
  c_floats : list (bool * N * bytes);             (* strconv's text of every float involved (oracle, as in CodecCorr) *)
  c_parse : list (nat * bytes * option N);        (* strconv.ParseFloat on every candidate text *)
  c_keys : list value;                            (* the caller's keys, in AddKey order *)
  c_add : option nat;                             (* observed: index of the first key AddKey rejected *)
  c_mapadd : option bool;                         (* observed (pointer keys): AddAllMapKeys over a map keyed by all the keys returned an error *)
  c_bulk : list (nat * bool);                     (* observed, one entry per BULK entry point driven with the caller's WHOLE key list (id, rejected):
                                                     AddAllKeys on a set of every constructor (NewBatchKeySet, NewPrimitive/Simple/Complex/BytesKeySet), in one
                                                     call and in two; the client functions BatchGet / BatchDelete (slice -> AddAllKeys) and, when the Go map
                                                     holds every key of the list, BatchUpdate / BatchPartialUpdate (map -> AddAllMapKeys): rejected = an error
                                                     and NO request reached the transport *)
  c_ids : bytes;                                  (* observed EncodeQueryParams() (only when every key was added) *)
  c_probes : list (value * option value);         (* observed LocateOriginalKey *)
  c_replies : list (list (bfield * list (bytes * option N)) * option (obs_map * obs_map * obs_map))
}.

Definition fuel0 : nat := 64.

Section Model.
  Variable he : henv.
  Variable ce : env.
  Variable c : case.

  Definition khash (v : value) : N :=
    match c_kind c, c_hty c with
    | 1, HRef n => ck_hashV v2_params he fuel0 n v
    | 2, _ => 0%N
    | _, t => hashV v2_params he fuel0 t v
    end.
  Definition keq (a b : value) : bool :=
    match c_kind c, c_hty c with
    | 1, HRef n => ck_equalsV he fuel0 n a b
    | 2, HPrim p => prim_equal p a b
    | _, t => equalsV he fuel0 t a b
    end.
  Definition set0 : kset value := match c_kind c with 2 => PSet value [] | _ => GSet value [] end.

  (* generic.go:62-68 / primitive.go:47-51: the key through a query-params ROR2 writer *)
  Definition encode_key (v : value) : bytes :=
    match enc ce v2_wildcard ps_empty fuel0 [] (c_ty c) v with
    | Ok d => render_ror2 (lookup_float (c_floats c)) v2_hex_chars v2_unescaped_path_chars v2_unescaped_query_chars v2_header_escaped_chars
                v2_empty_string v2_list_prefix FQuery d
    | _ => [x21; x21]
    end.
  (* structs.go:147 + generic.go:47: NewRor2Reader(rawKey), UnmarshalRestLi[K] *)
  Definition decode_key (raw : bytes) : option value :=
    match decode_ror2 ce v2_wildcard ps_empty 0 (lookup_parse (c_parse c)) (unescape false) v2_empty_string v2_list_prefix false fuel0 None (c_ty c) raw with
    | DOk v => Some v
    | _ => None
    end.

  (* the sequence of AddKey: the set after the keys, or the index of the first rejected key *)
  Fixpoint add_seq (s : kset value) (ks : list value) (i : nat) : kset value * option nat :=
    match ks with
    | [] => (s, None)
    | k :: r => match add _ khash keq s k with Some s' => add_seq s' r (S i) | None => (s, Some i) end
    end.

  Definition model_set := add_seq set0 (c_keys c) 0.

  (* query_writer.go:42-75 with the single parameter "ids": ids=List(k1,k2,...) *)
  Definition model_ids (s : kset value) : bytes :=
    [x69; x64; x73; x3d] ++ v2_list_prefix ++ join_bytes [x2c] (encode_ids _ encode_key s) ++ [x29].

  Fixpoint insert_tag (e : value * N) (l : list (value * N)) : list (value * N) :=
    match l with
    | [] => [e]
    | x :: r => if (snd e <=? snd x)%N then e :: l else x :: insert_tag e r
    end.
  Definition sort_tags (l : list (value * N)) : list (value * N) := fold_right insert_tag [] l.

  Definition model_reply (s : kset value) (fields : list (bfield * list (bytes * option N))) : option (obs_map * obs_map * obs_map) :=
    match unmarshal_with_locator _ khash keq decode_key _ s fields with
    | inl _ => None
    | inr b => Some (option_map sort_tags (b_results _ _ b), option_map sort_tags (b_statuses _ _ b), option_map sort_tags (b_errors _ _ b))
    end.

  Definition ovalue_eqb (a b : option value) : bool :=
    match a, b with Some x, Some y => value_eqb x y | None, None => true | _, _ => false end.
  Fixpoint ents_eqb (a b : list (value * N)) : bool :=
    match a, b with
    | [], [] => true
    | (k1, t1) :: a', (k2, t2) :: b' => value_eqb k1 k2 && N.eqb t1 t2 && ents_eqb a' b'
    | _, _ => false
    end.
  Definition omap_eqb (a b : obs_map) : bool :=
    match a, b with Some x, Some y => ents_eqb x y | None, None => true | _, _ => false end.
  Definition reply_eqb (a b : option (obs_map * obs_map * obs_map)) : bool :=
    match a, b with
    | Some (r1, s1, e1), Some (r2, s2, e2) => omap_eqb r1 r2 && omap_eqb s1 s2 && omap_eqb e1 e2
    | None, None => true
    | _, _ => false
    end.
  Definition onat_eqb (a b : option nat) : bool :=
    match a, b with Some x, Some y => Nat.eqb x y | None, None => true | _, _ => false end.

  Definition check_case : bool :=
    let (s, failed) := model_set in
    onat_eqb failed (c_add c) &&
    (* set.go:55-63 AddAllMapKeys = the fold of AddKey over the map's keys in iteration order; whether it fails does not depend on
       the order (add_all_none_perm) *)
    match c_mapadd c with None => true | Some b => Bool.eqb b (match failed with Some _ => true | None => false end) end &&
    (* set.go:45-63 + collection_batch_methods.go:124-226: every bulk entry point rejects the list (before anything is sent) exactly
       when the fold of AddKey fails somewhere - [add_all] = None, i.e. (Props/C16.v, the add_rejects_duplicates theorems) iff two keys of the list
       are key-equal, wherever they stand in the list *)
    forallb (fun eb => Bool.eqb (snd eb) (match failed with Some _ => true | None => false end)) (c_bulk c) &&
    match failed with
    | Some _ => true
    | None =>
        bytes_eqb (model_ids s) (c_ids c) &&
        forallb (fun p => ovalue_eqb (locate _ khash keq s (fst p)) (snd p)) (c_probes c) &&
        forallb (fun r => reply_eqb (model_reply s (fst r)) (snd r)) (c_replies c)
    end.

  Definition model_out : option nat * bytes * list (option value) * list (option (obs_map * obs_map * obs_map)) :=
    let (s, failed) := model_set in
    (failed, model_ids s, map (fun p => locate _ khash keq s (fst p)) (c_probes c), map (fun r => model_reply s (fst r)) (c_replies c)).
End Model.

Fixpoint mismatches_from (he : henv) (ce : env) (i : nat) (l : list case) : list nat :=
  match l with
  | [] => []
  | c :: r => if check_case he ce c then mismatches_from he ce (S i) r else i :: mismatches_from he ce (S i) r
  end.
Definition mismatches (he : henv) (ce : env) := mismatches_from he ce 0.
Definition select {A} (idx : list nat) (l : list A) : list A :=
  flat_map (fun i => match nth_error l i with Some x => [x] | None => [] end) idx.
