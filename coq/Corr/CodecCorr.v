(* Correspondence glue for the schema-quantified codec properties (C01, C03, C06, C07, C09, C11, C13):
   the driver records, for a value of a family type, what every writer produced and what the matching reader decoded;
   the model is evaluated on the same value (and on the observed bytes). *)
From Coq Require Import List Bool Arith ZArith NArith.
From Coq.Strings Require Import Byte.
From GR Require Import Base.Bytes Base.Res Codec.Schema Codec.Doc Codec.Escape Codec.Render Codec.Encode Codec.Tracker Codec.Json Codec.Decode
  Gen.TablesCodec Gen.FamEnv.
Import ListNotations.

Inductive enc_obs := EncOk (b : bytes) | EncFail (c : oclass).
Inductive dec_obs := DecOk (v : value) | DecMissing (fields : list bytes) (v : value) | DecFail (c : oclass).

(* fmt: 0 compact JSON, 1 pretty JSON, 2 ROR2 header, 3 ROR2 path, 4 ROR2 query (a query parameter's reader) *)
Inductive op :=
| OEnc (fmt : nat) (v : value) (o : enc_obs)       (* the writer of format fmt applied to v produced o *)
| ODec (fmt : nat) (data : bytes) (o : dec_obs).   (* the reader of format fmt applied to data produced o *)

Record case := {
  c_ty : ty;
  c_floats : list (bool * N * bytes);      (* the text Go's strconv prints for every float involved (oracle) *)
  c_parse : list (nat * bytes * option N); (* strconv.ParseFloat on every candidate text: mode (0: 64; 1: 32; 2: float32(64)), text, bits *)
  c_excl : list bytes;                     (* PathSpec directives of the writer/reader *)
  c_ignore : nat;                          (* leadingScopeToIgnore of the reader *)
  c_ops : list op
}.

(* the ROR2 cursor model bounds the number of members it reads from one object by its remaining fuel: large enough for the
   widest record of the family (Wide: 73 fields, plus injected unknown members) at the nesting depths generated *)
Definition fuel0 : nat := 160.

Fixpoint lookup_float (tbl : list (bool * N * bytes)) (is32 : bool) (bits : N) : bytes :=
  match tbl with
  | [] => []
  | (i, b, t) :: r => if Bool.eqb i is32 && N.eqb b bits then t else lookup_float r is32 bits
  end.

Definition render (c : case) (fmt : nat) (d : doc) : bytes :=
  let fm := lookup_float (c_floats c) in
  match fmt with
  | 0 => render_json fm false 0 d
  | 1 => render_json fm true 0 d
  | 2 => render_ror2 fm v2_hex_chars v2_unescaped_path_chars v2_unescaped_query_chars v2_header_escaped_chars v2_empty_string v2_list_prefix FHeader d
  | 3 => render_ror2 fm v2_hex_chars v2_unescaped_path_chars v2_unescaped_query_chars v2_header_escaped_chars v2_empty_string v2_list_prefix FPath d
  | _ => render_ror2 fm v2_hex_chars v2_unescaped_path_chars v2_unescaped_query_chars v2_header_escaped_chars v2_empty_string v2_list_prefix FQuery d
  end.

Definition model_enc (c : case) (fmt : nat) (v : value) : res bytes :=
  (* only the JSON and header writers can be constructed with excluded fields *)
  let excl := if Nat.leb fmt 2 then new_pathspec (c_excl c) else ps_empty in
  do d <- enc fam_env v2_wildcard excl fuel0 [] (c_ty c) v;
  Ok (render c fmt d).

Definition enc_agrees (m : res bytes) (o : enc_obs) : bool :=
  match m, o with
  | Ok b, EncOk b' => bytes_eqb b b'
  | Ok _, EncFail _ => false
  | r, EncFail cl => oclass_eqb (class_of r) cl
  | _, EncOk _ => false
  end.

Fixpoint lookup_parse (tbl : list (nat * bytes * option N)) (mode : nat) (t : bytes) : option N :=
  match tbl with
  | [] => None
  | (m, x, b) :: r => if Nat.eqb m mode && bytes_eqb x t then b else lookup_parse r mode t
  end.

(* the matching reader run on the bytes the implementation produced *)
Definition model_dec (c : case) (fmt : nat) (data : bytes) : dres :=
  let pf := lookup_parse (c_parse c) in
  let excl := new_pathspec (c_excl c) in
  match fmt with
  | 0 | 1 => decode_json fam_env v2_wildcard excl (c_ignore c) pf fuel0 (c_ty c) data
  | 4 => decode_ror2 fam_env v2_wildcard ps_empty 0 pf (unescape true) v2_empty_string v2_list_prefix true fuel0 (Some [x70]) (c_ty c) data
  | _ => decode_ror2 fam_env v2_wildcard excl (c_ignore c) pf (unescape false) v2_empty_string v2_list_prefix false fuel0 None (c_ty c) data
  end.

Fixpoint bytes_list_eqb (a b : list bytes) : bool :=
  match a, b with [], [] => true | x :: a', y :: b' => bytes_eqb x y && bytes_list_eqb a' b' | _, _ => false end.

Definition dclass (d : dres) : oclass :=
  match d with DOk _ => COk | DMissing _ _ => CMissing | DErr x => class_of (@Err unit x) | DPanic => CPanic end.

Definition dec_agrees (m : dres) (o : dec_obs) : bool :=
  match m, o with
  | DOk v, DecOk v' => value_eqb v v'
  | DMissing fs v, DecMissing fs' v' => bytes_list_eqb fs fs' && value_eqb v v'
  | m, DecFail cl => oclass_eqb (dclass m) cl
  | _, _ => false
  end.

Definition check_op (c : case) (o : op) : bool :=
  match o with
  | OEnc fmt v eo => enc_agrees (model_enc c fmt v) eo
  | ODec fmt data dobs => dec_agrees (model_dec c fmt data) dobs
  end.
Definition check_case (c : case) : bool := forallb (check_op c) (c_ops c).

Inductive mres := MEnc (r : res bytes) | MDec (d : dres).
Definition model_out (c : case) : list mres :=
  flat_map (fun o => if check_op c o then [] else
                     [match o with OEnc fmt v _ => MEnc (model_enc c fmt v) | ODec fmt data _ => MDec (model_dec c fmt data) end])
           (c_ops c).

Fixpoint mismatches_from (i : nat) (l : list case) : list nat :=
  match l with
  | [] => []
  | c :: r => if check_case c then mismatches_from (S i) r else i :: mismatches_from (S i) r
  end.
Definition mismatches := mismatches_from 0.
Definition select {A} (idx : list nat) (l : list A) : list A :=
  flat_map (fun i => match nth_error l i with Some x => [x] | None => [] end) idx.
