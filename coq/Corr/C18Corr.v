(* Correspondence glue for C18: the harness forces schedules on the real LazySyncMap through the yield hooks and
   records what it observed; [mismatches] runs the model on the same (program, schedule) by vm_compute and returns the
   indices whose observations differ. *)
From Coq Require Import List Bool Arith.
From GR Require Import D2.LazyMap.
Import ListNotations.

(* what the driver saw a call return: a model-representable value, or a *inFlightValue (never produced by the model) *)
Inductive obs := ORet (r : ret) | OPlaceholder.

Record observed := {
  o_rets : list (list obs);   (* per goroutine: what each completed call returned, in program order *)
  o_computes : list nat;      (* per key 0,1: how many times an f() ran (the caller's f, or Store's closure = arrivals at point 8) *)
  o_final : list obs;         (* per key 0,1: Load after quiescence (only when every goroutine finished, else []) *)
  o_points : list nat;        (* for each schedule step: the yield point the released goroutine was parked at *)
  o_finished : bool           (* every goroutine ran all its operations *)
}.

Record case := { c_prog : list (list op); c_sched : list nat; c_obs : observed }.

Definition keys : list key := [0; 1].

Definition rets_of (h : list event) (t : tid) : list obs :=
  flat_map (fun e => match e with ERes t' _ r => if Nat.eqb t' t then [ORet r] else [] | _ => [] end) h.

(* Load on a quiescent map *)
Definition final_load (s : state) (k : key) : obs :=
  match smap s k with
  | None => ORet RAbsent
  | Some (Val v) => ORet (RVal v)
  | Some (Placeholder p) => if cdone (cells s p) then ORet (cell_ret (cells s p)) else ORet RNil
  end.

Definition finished (s : state) (n : nat) : bool :=
  forallb (fun t => match tops (threads s t) with [] => true | _ => false end) (seq 0 n).

(* None: the schedule picks a goroutine that the model says cannot move *)
Definition model_out (c : case) : option observed :=
  match run_strict (init (prog_of (c_prog c))) (c_sched c) [] with
  | None => None
  | Some (s, pts) =>
      let n := length (c_prog c) in
      let fin := finished s n in
      Some {| o_rets := map (rets_of (hist s)) (seq 0 n);
              o_computes := map (computes s) keys;
              o_final := if fin then map (final_load s) keys else [];
              o_points := pts;
              o_finished := fin |}
  end.

Definition obs_eqb (a b : obs) : bool :=
  match a, b with ORet x, ORet y => ret_eqb x y | OPlaceholder, OPlaceholder => true | _, _ => false end.

Fixpoint list_eqb {A} (eq : A -> A -> bool) (x y : list A) : bool :=
  match x, y with
  | [], [] => true
  | a :: x', b :: y' => eq a b && list_eqb eq x' y'
  | _, _ => false
  end.

Definition observed_eqb (a b : observed) : bool :=
  list_eqb (list_eqb obs_eqb) (o_rets a) (o_rets b) &&
  list_eqb Nat.eqb (o_computes a) (o_computes b) &&
  list_eqb obs_eqb (o_final a) (o_final b) &&
  list_eqb Nat.eqb (o_points a) (o_points b) &&
  Bool.eqb (o_finished a) (o_finished b).

Definition check_case (c : case) : bool :=
  match model_out c with Some o => observed_eqb o (c_obs c) | None => false end.

Fixpoint mismatches_from (i : nat) (l : list case) : list nat :=
  match l with
  | [] => []
  | c :: r => if check_case c then mismatches_from (S i) r else i :: mismatches_from (S i) r
  end.
Definition mismatches := mismatches_from 0.

Definition select {A} (idx : list nat) (l : list A) : list A :=
  flat_map (fun i => match nth_error l i with Some x => [x] | None => [] end) idx.
