(* Correspondence glue for C17.

   THE TIE BETWEEN Conc/Footprint.v AND THE CODE IS THE RACE DETECTOR: harness/cmd/c17 runs the real operations
   concurrently under `go build -race` and reports every data race and every per-request result that differs from the
   serial run.  A modelled-as-safe pair of accesses that races in the real code shows up there, not here.

   What is compared here is small: for each kind of operation the driver drives, the driver states (static table
   `sharedCells` in main.go, written from the Go sources) which SHARED cells the operation can touch and how (class of
   cell, read / write, plain / atomic / locked); the model computes the same summary from [footprint] on sample
   operations of that kind.  The two tables must agree as sets - so an edit of Footprint.v that, say, drops the lock on
   the rand state, or a driver that starts sharing something the model calls private, is noticed. *)
From Coq Require Import List Bool Arith NArith.
From Coq Require QArith.
From Coq.Strings Require Import Byte.
From GR Require Import Base.Bytes Gen.TablesRouter Http.Router Conc.Footprint.
From GR Require D2.Announce.
Import ListNotations.

(* class of a shared cell; None = private to the request / call *)
Definition cell_class (c : cellid) : option nat :=
  match c with
  | CReq _ _ => None
  | CNode (Copy _) _ => Some 1
  | CRoot (Copy _) => Some 2
  | CMethodNames => Some 3
  | CResErr _ => Some 4
  | CResVal _ => Some 5
  | CClient _ => Some 6
  | CHostUrl _ => Some 7
  | CTransport _ => Some 8
  | CD2Services => Some 9
  | CD2Uris => Some 10
  | CSnap _ => Some 11
  | CRng => Some 12
  | CRegistry => Some 13
  | CNode Live _ => Some 14
  | CRoot Live => Some 15
  | CTunnelBuf => Some 16
  | CReqFields => Some 17
  end.

Definition sync_code (s : sync) : nat := match s with Plain => 0 | Atomic => 1 | Locked l => 2 + l end.

Definition entry := (nat * bool * nat)%type.

Definition entry_eqb (a b : entry) : bool :=
  match a, b with (c1, w1, s1), (c2, w2, s2) => Nat.eqb c1 c2 && Bool.eqb w1 w2 && Nat.eqb s1 s2 end.

Definition mem_entry (e : entry) (l : list entry) : bool := existsb (entry_eqb e) l.

Fixpoint dedup (l : list entry) : list entry :=
  match l with
  | [] => []
  | e :: r => if mem_entry e r then dedup r else e :: dedup r
  end.

Definition summary (l : list access) : list entry :=
  dedup (flat_map (fun a => match cell_class (a_cell a) with
                            | Some k => [(k, a_write a, sync_code (a_sync a))]
                            | None => []
                            end) l).

(* sample operations per kind *)
Definition a_ : bytes := [x61].
Definition tree : server :=
  {| s_prefix := [x2f];
     s_roots := [Node a_ true [Method_get; Method_create; Method_get_all] [[x66]] [[x67]] [Node [x62] false [Method_get] [] [] []]] |}.
Definition mkreq (v : verb) (path query : bytes) (body : bool) : request :=
  {| r_verb := v; r_header := []; r_path := path; r_query := query; r_body := body |}.
Definition p_a1 : bytes := [x2f; x61; x2f; x31].
Definition p_a1b : bytes := [x2f; x61; x2f; x31; x2f; x62].
Definition p_zz : bytes := [x2f; x7a].

Definition serve_samples : list op :=
  [ OServe 0 tree [FCtx; FPass] (BOk (Some 3)) (mkreq VGet p_a1 [] false);
    OServe 0 tree [FCtx] (BErr 7 true) (mkreq VGet p_a1b [] false);
    OServe 0 tree [] (BErr 7 false) (mkreq VGet p_a1 [] false);
    OServe 0 tree [FFailPre] (BOk None) (mkreq VGet p_a1 [] false);
    OServe 0 tree [] (BOk None) (mkreq VPost p_a1 [] true);
    OServe 0 tree [] (BOk None) (mkreq VGet p_zz [] false) ].

Definition heap1 : Announce.st := Announce.St [Announce.Cell [x2f; x75] []] [].
Definition ev_add : Announce.tce :=
  Announce.Tce [x2f; x75; x2f; x6e] (Some (Announce.PDecoded [(Announce.Host [x68] [x78], QArith_base.Qmake (Zpos xH) xH)])).
Definition ev_del : Announce.tce := Announce.Tce [x2f; x75; x2f; x6e] None.

Definition samples (kind : nat) : list op :=
  match kind with
  | 0 => serve_samples
  | 1 => [OCall 0 RSimple]
  | 2 => [OResolve 0 1; OResolve 0 2]
  | 3 => [OUriUpdate 0 ev_add heap1; OUriUpdate 0 ev_del heap1]
  | 4 => [ORegLookup]
  | 5 => [ORegRegister]
  | 6 => [OCall 0 (RD2 0 1)]
  | _ => []
  end.

Record case := { c_kind : nat; c_shared : list entry }.

Definition model_out (c : case) : list entry :=
  summary (flat_map (footprint current 0) (samples (c_kind c))).

Definition subset (a b : list entry) : bool := forallb (fun e => mem_entry e b) a.

Definition check_case (c : case) : bool :=
  let m := model_out c in subset m (c_shared c) && subset (c_shared c) m.

Fixpoint mismatches_from (i : nat) (l : list case) : list nat :=
  match l with
  | [] => []
  | c :: r => if check_case c then mismatches_from (S i) r else i :: mismatches_from (S i) r
  end.
Definition mismatches (l : list case) : list nat := mismatches_from 0 l.

Definition select (idx : list nat) (l : list case) : list case :=
  flat_map (fun i => match nth_error l i with Some c => [c] | None => [] end) idx.
