(* Correspondence glue for C10: the driver (harness/codecdrv/c10.go) records, for a pool of values of one family type, the hash
   the REAL ComputeHash returned for each value and the full matrix of the REAL Equals; the model must reproduce both.
   The schema environment (Hash.Fnv.henv) is printed by the driver into the header of every cases file from the same
   schema.json the generator input was made from. *)
From Coq Require Import List Bool Arith ZArith NArith.
From Coq.Strings Require Import Byte.
From GR Require Import Base.Bytes Codec.Schema Gen.TablesFnv Hash.Fnv Hash.Equals.
Import ListNotations.

Record case := {
  c_mode : nat;                      (* 0: Equals / ComputeHash;  1: ComplexKeyEquals / ComputeComplexKeyHash (c_ty = HRef n) *)
  c_ty : hty;
  c_vals : list (value * N);         (* the pool: value, observed hash as uint32 *)
  c_eq : list (list bool)            (* c_eq[i][j] = observed Equals(v_i, v_j) *)
}.

Definition fuel0 : nat := 64.

Definition model_hash (e : henv) (c : case) (v : value) : N :=
  match c_mode c, c_ty c with
  | 1, HRef n => ck_hashV v2_params e fuel0 n v
  | _, t => hashV v2_params e fuel0 t v
  end.

Definition model_eq (e : henv) (c : case) (a b : value) : bool :=
  match c_mode c, c_ty c with
  | 1, HRef n => ck_equalsV e fuel0 n a b
  | _, t => equalsV e fuel0 t a b
  end.

Fixpoint bools_eqb (a b : list bool) : bool :=
  match a, b with [], [] => true | x :: a', y :: b' => Bool.eqb x y && bools_eqb a' b' | _, _ => false end.
Fixpoint rows_eqb (a b : list (list bool)) : bool :=
  match a, b with [], [] => true | x :: a', y :: b' => bools_eqb x y && rows_eqb a' b' | _, _ => false end.

Definition model_hashes (e : henv) (c : case) : list N := map (fun vh => model_hash e c (fst vh)) (c_vals c).
Definition model_matrix (e : henv) (c : case) : list (list bool) :=
  map (fun a => map (fun b => model_eq e c (fst a) (fst b)) (c_vals c)) (c_vals c).

Fixpoint ns_eqb (a b : list N) : bool :=
  match a, b with [], [] => true | x :: a', y :: b' => N.eqb x y && ns_eqb a' b' | _, _ => false end.

Definition check_case (e : henv) (c : case) : bool :=
  ns_eqb (model_hashes e c) (map snd (c_vals c)) && rows_eqb (model_matrix e c) (c_eq c).

(* what the model says, for a disagreeing case: the hashes and the matrix *)
Definition model_out (e : henv) (c : case) : list N * list (list bool) := (model_hashes e c, model_matrix e c).

Fixpoint mismatches_from (e : henv) (i : nat) (l : list case) : list nat :=
  match l with
  | [] => []
  | c :: r => if check_case e c then mismatches_from e (S i) r else i :: mismatches_from e (S i) r
  end.
Definition mismatches (e : henv) := mismatches_from e 0.
Definition select {A} (idx : list nat) (l : list A) : list A :=
  flat_map (fun i => match nth_error l i with Some x => [x] | None => [] end) idx.

(* the two module generations hash identically: the model is instantiated on the v2 constants *)
Definition modules_agree : bool :=
  N.eqb root_fnv_offset v2_fnv_offset && N.eqb root_fnv_prime v2_fnv_prime && N.eqb root_fnv_mask v2_fnv_mask.
