(* C02 correspondence glue: one case = one call of a generated client method; compared: the request the recording
   transport saw (verb, request URI, X-RestLi-Method, X-HTTP-Method-Override) with [on_wire], and the resource method
   that ran with the routing of [as_served] through the family's registration tree. *)
From Coq Require Import List Bool ZArith NArith.
From Coq.Strings Require Import Byte.
From GR Require Import Base.Bytes Codec.Doc Codec.Escape Gen.TablesRouter Http.Router Http.EndToEnd.
Import ListNotations.

(* no float occurs among the family's keys and parameters *)
Definition no_float : bool -> N -> bytes := fun _ _ => [].

Definition build_server (prefix : bytes) (regs : list (list segment * reg_what)) : option server :=
  match fold_left (fun acc r => match acc with Some ns => reg_in ns (fst r) (snd r) | None => None end) regs (Some []) with
  | Some ns => Some {| s_prefix := prefix; s_roots := ns |}
  | None => None
  end.

Record case := {
  c_server : option server;
  c_mount : mount;
  c_ctx : bytes;                  (* context path of the client's base URL *)
  c_threshold : Z;
  c_call : call;
  o_verb : verb;
  o_uri : bytes;
  o_method_header : bytes;
  o_override : option verb;
  o_invoked : option (list segment * method * option bytes)    (* which resource method ran *)
}.

Definition verb_opt_eqb (a b : option verb) : bool :=
  match a, b with Some x, Some y => verb_eqb x y | None, None => true | _, _ => false end.
Definition name_eqb (a b : option bytes) : bool :=
  match a, b with Some x, Some y => bytes_eqb x y | None, None => true | _, _ => false end.
Fixpoint segs_eqb (a b : list segment) : bool :=
  match a, b with
  | [], [] => true
  | (n, c) :: r, (n', c') :: r' => bytes_eqb n n' && Bool.eqb c c' && segs_eqb r r'
  | _, _ => false
  end.

Definition model_out (c : case) : sent * option route :=
  (on_wire no_float (c_ctx c) (c_threshold c) (c_call c),
   match c_server c with
   | Some s => Some (route_mount (c_mount c) s (as_served no_float (c_ctx c) (c_call c)))
   | None => None
   end).

Definition check_case (c : case) : bool :=
  let '(w, r) := model_out c in
  verb_eqb (w_verb w) (o_verb c) && bytes_eqb (w_uri w) (o_uri c) && bytes_eqb (w_method_header w) (o_method_header c) &&
  verb_opt_eqb (w_override w) (o_override c) &&
  match r, o_invoked c with
  | Some (Dispatch (ps, m, ks, nm)), Some (ps', m', nm') =>
      segs_eqb ps ps' && method_eqb m m' && name_eqb nm nm' &&
      (* the entity segments handed to the readers are the encoded keys *)
      match call_target no_float (c_call c) with (_, _, ks', _) => (fix eq (a b : list bytes) := match a, b with [], [] => true | x :: r1, y :: r2 => bytes_eqb x y && eq r1 r2 | _, _ => false end) ks ks' end
  | Some (Reject _ _), None => true
  | _, _ => false
  end.

Fixpoint mism (i : nat) (l : list case) : list nat :=
  match l with
  | [] => []
  | c :: r => if check_case c then mism (S i) r else i :: mism (S i) r
  end.
Definition mismatches (l : list case) : list nat := mism 0 l.
Definition select (idx : list nat) (l : list case) : list case :=
  flat_map (fun i => match nth_error l i with Some c => [c] | None => [] end) idx.
