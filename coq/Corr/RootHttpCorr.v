(* ROOT-module twin of the HTTP checks (C02, C08; checks/roothttp.py): why the models written from the v2 files
   (Http/EndToEnd.v, Http/Router.v, Http/Status.v) are evaluated UNCHANGED on cases observed on the root module
   (github.com/PapaCharlie/go-restli, /repo/restli + the bindings of the root generator).

   The models depend on /repo through regenerated tables and through hand-transcribed control flow.  This file decides, on
   every run, from tables regenerated from BOTH modules:

     root_status_tables_same   every fact of Gen/TablesStatus.v (default status and adapter of each Register* function, the
                               sixteen newErrorResponsef call sites, ServeHTTP's initial / unset / fall-back / guard statuses and
                               header flags, in-place writes, recover handlers, header names, net/http's StatusText) has the
                               same value in Gen/TablesStatusRoot.v (the same extraction run on /repo/restli); the root module
                               lacks exactly RegisterPartialUpdateWithReturnEntity (root_missing_regfns);
     root_codec_tables_same    the escaping tables the request-URL model uses (Gen/TablesCodec.v the root_ tables = the v2_ tables);
     root_router_tables_same   the method table and the transcribed method-inference statement (root_infer = v2_infer on every
                               argument; also Props/C05.root_module_same) and the tunnelling condition;
     root_http_decls_expected  every top-level declaration of restli/{handler,server,http,collection,simple,finders,actions,
                               collection_batch_methods,tunnelling,errors,types}.go is textually the same in both modules after
                               the package renaming (Gen/TablesRootHttp.v), except the declarations listed in
                               [expected_differences] - so the hand transcription of ServeHTTP / receive / registerMethod* /
                               registerFinder / registerAction / newRequest / formatQueryUrl made from the v2 files IS a
                               transcription of the root files.

   When one of them stops holding (a change applied to one module only), this file no longer compiles: the root part of the
   check then runs oracle-only and reports that the model does not apply. *)
From Coq Require Import List Bool ZArith NArith String.
From Coq.Strings Require Import Byte.
From GR Require Import Base.Bytes.
From GR Require Gen.TablesStatus Gen.TablesStatusRoot Gen.TablesRootHttp Gen.TablesCodec Gen.TablesRouter Gen.TablesTunnel.
Import ListNotations.

Module V := GR.Gen.TablesStatus.
Module R := GR.Gen.TablesStatusRoot.

(* ---- status tables *)
Definition emb (r : R.regfn) : V.regfn :=
  match r with
  | R.RegisterAction => V.RegisterAction
  | R.RegisterActionWithResults => V.RegisterActionWithResults
  | R.RegisterBatchCreate => V.RegisterBatchCreate
  | R.RegisterBatchCreateWithReturnEntity => V.RegisterBatchCreateWithReturnEntity
  | R.RegisterBatchDelete => V.RegisterBatchDelete
  | R.RegisterBatchGet => V.RegisterBatchGet
  | R.RegisterBatchPartialUpdate => V.RegisterBatchPartialUpdate
  | R.RegisterBatchUpdate => V.RegisterBatchUpdate
  | R.RegisterCreate => V.RegisterCreate
  | R.RegisterCreateWithReturnEntity => V.RegisterCreateWithReturnEntity
  | R.RegisterDelete => V.RegisterDelete
  | R.RegisterFinder => V.RegisterFinder
  | R.RegisterFinderWithMetadata => V.RegisterFinderWithMetadata
  | R.RegisterGet => V.RegisterGet
  | R.RegisterGetAll => V.RegisterGetAll
  | R.RegisterPartialUpdate => V.RegisterPartialUpdate
  | R.RegisterUpdate => V.RegisterUpdate
  end.

Definition optZ_eqb (a b : option Z) : bool :=
  match a, b with Some x, Some y => Z.eqb x y | None, None => true | _, _ => false end.
Definition adapter_eqb (a : R.adapter) (b : V.adapter) : bool :=
  match a, b with
  | R.AdBody, V.AdBody | R.AdNoBody, V.AdNoBody | R.AdFinder, V.AdFinder | R.AdAction, V.AdAction => true
  | _, _ => false
  end.
Definition site_eqb (a : R.site) (b : V.site) : bool :=
  Z.eqb (R.s_status a) (V.s_status b) && bytes_eqb (R.s_fmt a) (V.s_fmt b) && Bool.eqb (R.s_cause a) (V.s_cause b).
Fixpoint zs_eqb (a b : list Z) : bool :=
  match a, b with [], [] => true | x :: r, y :: s => Z.eqb x y && zs_eqb r s | _, _ => false end.
Fixpoint bss_eqb (a b : list bytes) : bool :=
  match a, b with [], [] => true | x :: r, y :: s => bytes_eqb x y && bss_eqb r s | _, _ => false end.
Fixpoint texts_eqb (a b : list (Z * bytes)) : bool :=
  match a, b with
  | [], [] => true
  | (x, s) :: r, (y, t) :: q => Z.eqb x y && bytes_eqb s t && texts_eqb r q
  | _, _ => false
  end.
Definition guard_eqb (a b : option (Z * Z)) : bool :=
  match a, b with
  | Some (l, h), Some (l', h') => Z.eqb l l' && Z.eqb h h'
  | None, None => true
  | _, _ => false
  end.

Definition v_regfn_tag (r : V.regfn) : nat :=
  (fix idx (l : list V.regfn) (n : nat) : nat :=
     match l with
     | [] => n
     | x :: q => if (match x, r with
                     | V.RegisterAction, V.RegisterAction | V.RegisterActionWithResults, V.RegisterActionWithResults
                     | V.RegisterBatchCreate, V.RegisterBatchCreate
                     | V.RegisterBatchCreateWithReturnEntity, V.RegisterBatchCreateWithReturnEntity
                     | V.RegisterBatchDelete, V.RegisterBatchDelete | V.RegisterBatchGet, V.RegisterBatchGet
                     | V.RegisterBatchPartialUpdate, V.RegisterBatchPartialUpdate | V.RegisterBatchUpdate, V.RegisterBatchUpdate
                     | V.RegisterCreate, V.RegisterCreate | V.RegisterCreateWithReturnEntity, V.RegisterCreateWithReturnEntity
                     | V.RegisterDelete, V.RegisterDelete | V.RegisterFinder, V.RegisterFinder
                     | V.RegisterFinderWithMetadata, V.RegisterFinderWithMetadata | V.RegisterGet, V.RegisterGet
                     | V.RegisterGetAll, V.RegisterGetAll | V.RegisterPartialUpdate, V.RegisterPartialUpdate
                     | V.RegisterPartialUpdateWithReturnEntity, V.RegisterPartialUpdateWithReturnEntity
                     | V.RegisterUpdate, V.RegisterUpdate => true
                     | _, _ => false
                     end) then n else idx q (S n)
     end) V.all_regfns 0.

(* the v2 registration functions without a root counterpart *)
Definition root_missing_regfns : list V.regfn :=
  filter (fun v => negb (existsb (fun r => Nat.eqb (v_regfn_tag (emb r)) (v_regfn_tag v)) R.all_regfns)) V.all_regfns.

Definition status_tables_same : bool :=
  forallb (fun r => optZ_eqb (R.reg_default_status r) (V.reg_default_status (emb r)) &&
                    adapter_eqb (R.reg_adapter r) (V.reg_adapter (emb r))) R.all_regfns &&
  texts_eqb R.status_text_table V.status_text_table &&
  site_eqb R.site_method_path V.site_method_path && site_eqb R.site_method_query V.site_method_query &&
  site_eqb R.site_method_failed V.site_method_failed && site_eqb R.site_nobody_body V.site_nobody_body &&
  site_eqb R.site_body_invalid V.site_body_invalid && site_eqb R.site_create_idheader V.site_create_idheader &&
  site_eqb R.site_createret_idheader V.site_createret_idheader && site_eqb R.site_finder_path V.site_finder_path &&
  site_eqb R.site_finder_query V.site_finder_query && site_eqb R.site_finder_body V.site_finder_body &&
  site_eqb R.site_finder_failed V.site_finder_failed && site_eqb R.site_action_path V.site_action_path &&
  site_eqb R.site_action_args V.site_action_args && site_eqb R.site_action_failed V.site_action_failed &&
  site_eqb R.site_receive_segment V.site_receive_segment && site_eqb R.site_receive_query V.site_receive_query &&
  zs_eqb R.all_site_statuses V.all_site_statuses &&
  guard_eqb R.serve_status_guard V.serve_status_guard && Z.eqb R.serve_guard_status V.serve_guard_status &&
  Bool.eqb R.serve_guard_sets_header V.serve_guard_sets_header && bytes_eqb R.serve_guard_fmt V.serve_guard_fmt &&
  Z.eqb R.serve_initial_status V.serve_initial_status && Z.eqb R.serve_unset_status V.serve_unset_status &&
  Bool.eqb R.serve_sets_error_header V.serve_sets_error_header && Z.eqb R.serve_plain_error_status V.serve_plain_error_status &&
  Z.eqb R.serve_marshal_fail_status V.serve_marshal_fail_status &&
  Bool.eqb R.serve_marshal_fail_sets_header V.serve_marshal_fail_sets_header &&
  bss_eqb R.serve_in_place_writes V.serve_in_place_writes &&
  Z.eqb R.recover_status V.recover_status && Bool.eqb R.recover_has_stack V.recover_has_stack &&
  bytes_eqb R.marshal_panic_prefix V.marshal_panic_prefix &&
  bytes_eqb R.st_error_response_header V.st_error_response_header && bytes_eqb R.st_id_header V.st_id_header.

Lemma root_status_tables_same : status_tables_same = true.
Proof. vm_compute. reflexivity. Qed.

Lemma root_missing_regfns_exact : root_missing_regfns = [V.RegisterPartialUpdateWithReturnEntity].
Proof. vm_compute. reflexivity. Qed.

(* ---- escaping tables of the request-URL model *)
Import GR.Gen.TablesCodec.
Definition codec_tables_same : bool :=
  bytes_eqb root_unescaped_path_chars v2_unescaped_path_chars && bytes_eqb root_unescaped_query_chars v2_unescaped_query_chars &&
  bytes_eqb root_header_escaped_chars v2_header_escaped_chars && bytes_eqb root_hex_chars v2_hex_chars &&
  bytes_eqb root_empty_string v2_empty_string && bytes_eqb root_list_prefix v2_list_prefix && bytes_eqb root_wildcard v2_wildcard.

Lemma root_codec_tables_same : codec_tables_same = true.
Proof. vm_compute. reflexivity. Qed.

(* ---- method table, method inference, tunnelling condition *)
Import GR.Gen.TablesRouter.
Definition infer_res_eqb (a b : infer_res) : bool :=
  match a, b with Cont m, Cont m' => method_eqb m m' | Ret s, Ret s' => N.eqb s s' | _, _ => false end.
Definition bools := [true; false].
Definition verbs := [VGet; VPost; VPut; VDelete; VOther].
Definition router_tables_same : bool :=
  root_method_table_same &&
  forallb (fun coll => forallb (fun v => forallb (fun hm => forallb (fun e => forallb (fun i => forallb (fun q => forallb (fun a =>
    infer_res_eqb (root_infer coll v hm e i q a) (v2_infer coll v hm e i q a)) bools) bools) bools) bools) all_methods) verbs) bools.

Lemma root_router_tables_same : router_tables_same = true.
Proof. vm_compute. reflexivity. Qed.

Lemma root_tunnel_condition_same th qlen :
  GR.Gen.TablesTunnel.tunnel_condition_root th qlen = GR.Gen.TablesTunnel.tunnel_condition th qlen.
Proof. reflexivity. Qed.

(* ---- the declarations of the HTTP runtime *)
Import GR.Gen.TablesRootHttp.

Definition b (s : string) : bytes := list_byte_of_string s.

(* Declarations that are NOT the same text in the two modules, each read when this file was written:
   - v2 added partial_update with return entity (client function and Register* function): no root counterpart - the root
     generator must not be given returnEntity on partial_update (it would emit calls to these missing functions);
   - RegisterPartialUpdate: the type parameter is named V in the root module, PV in v2 (alpha-equivalent);
   - batchCreate / BatchCreate / BatchCreateWithReturnEntity: v2 dropped the unused type parameter K of batchCreate;
   - the hand-written envelope readers of the CLIENT (action result, batch-create ids, batch entities, batch query
     parameters): unknown members are skipped with reader.Skip() in the root module and through NoSuchFieldErr in v2 (same
     behaviour since fix a36b44b), and RequiredFields is a []string literal in the root module, NewRequiredFields().Add in v2;
   - IllegalPartialUpdateError exists in the root module only (used by the root generator's partial-update bindings).
   None of them is on the server's response path (Http/Status.v), the router (Http/Router.v) or the request construction
   (Http/EndToEnd.v); the client-side readers are exercised by the Go oracles of the root run. *)
Definition expected_differences : list (bytes * decl_cmp) :=
  [ (b "server.go:RegisterPartialUpdate", Differs);
    (b "server.go:RegisterPartialUpdateWithReturnEntity", OnlyV2);
    (b "simple.go:PartialUpdateWithReturnEntity", OnlyV2);
    (b "actions.go:DoActionRequestWithResults", Differs);
    (b "actions.go:actionRequiredResponseFields", Differs);
    (b "collection_batch_methods.go:BatchCreate", Differs);
    (b "collection_batch_methods.go:BatchCreateWithReturnEntity", Differs);
    (b "collection_batch_methods.go:SliceBatchQueryParams.DecodeQueryParams", Differs);
    (b "collection_batch_methods.go:batchCreate", Differs);
    (b "collection_batch_methods.go:batchEntities.UnmarshalRestLi", Differs);
    (b "collection_batch_methods.go:entitiesRequiredResponseFields", Differs);
    (b "collection_batch_methods.go:entityIdsRequiredResponseFields", Differs);
    (b "errors.go:IllegalPartialUpdateError", OnlyRoot);
    (b "errors.go:IllegalPartialUpdateError.Error", OnlyRoot) ].

Fixpoint find_decl (k : bytes) (l : list (bytes * decl_cmp)) : option decl_cmp :=
  match l with
  | [] => None
  | (k', c) :: r => if bytes_eqb k k' then Some c else find_decl k r
  end.
Definition cmp_eqb (x y : decl_cmp) : bool :=
  match x, y with Same, Same | Differs, Differs | OnlyV2, OnlyV2 | OnlyRoot, OnlyRoot => true | _, _ => false end.

(* every declaration is the same in both modules, or differs exactly as listed; and every listed difference is still there *)
Definition http_decls_expected : bool :=
  forallb (fun p => match find_decl (fst p) expected_differences with
                    | Some c => cmp_eqb c (snd p)
                    | None => cmp_eqb Same (snd p)
                    end) root_http_decls &&
  forallb (fun p => match find_decl (fst p) root_http_decls with Some c => cmp_eqb c (snd p) | None => false end) expected_differences.

Lemma root_http_decls_expected : http_decls_expected = true.
Proof. vm_compute. reflexivity. Qed.

(* the declarations whose hand transcription the models contain are among the unchanged ones *)
Definition transcribed : list bytes :=
  [ b "handler.go:rootNode.ServeHTTP"; b "handler.go:pathNode.receive"; b "handler.go:registerMethod";
    b "handler.go:registerMethodWithBody"; b "handler.go:registerMethodWithNoBody"; b "handler.go:marshalResponseBody";
    b "handler.go:newErrorResponsef"; b "handler.go:rootNode.AddToMux"; b "handler.go:NewPrefixedServer";
    b "handler.go:pathNode.newSubNode"; b "handler.go:pathNode.subNode"; b "finders.go:registerFinder"; b "actions.go:registerAction";
    b "server.go:RegisterGet"; b "server.go:RegisterCreate"; b "server.go:RegisterCreateWithReturnEntity"; b "server.go:RegisterUpdate";
    b "server.go:RegisterDelete"; b "server.go:RegisterGetAll"; b "server.go:RegisterBatchGet"; b "server.go:RegisterBatchCreate";
    b "server.go:RegisterBatchCreateWithReturnEntity"; b "server.go:RegisterBatchUpdate"; b "server.go:RegisterBatchPartialUpdate";
    b "server.go:RegisterBatchDelete"; b "finders.go:RegisterFinder"; b "finders.go:RegisterFinderWithMetadata";
    b "actions.go:RegisterAction"; b "actions.go:RegisterActionWithResults"; b "server.go:writeIdHeaders";
    b "http.go:newRequest"; b "http.go:Client.formatQueryUrl"; b "http.go:joinContextAndResourcePath"; b "http.go:DoAndUnmarshal";
    b "http.go:DoAndIgnore"; b "http.go:Client.do"; b "errors.go:IsErrorResponse";
    b "tunnelling.go:EncodeTunnelledQuery"; b "tunnelling.go:DecodeTunnelledQuery" ].

Lemma root_transcribed_unchanged :
  forallb (fun k => match find_decl k root_http_decls with Some Same => true | _ => false end) transcribed = true.
Proof. vm_compute. reflexivity. Qed.
