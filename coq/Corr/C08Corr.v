(* C08 correspondence glue: one case = one call through the generated client to a generated server whose mock resource
   behaved as c_impl (or one malformed request), with what was observed on the wire, at the client and in the resource's
   error object afterwards.  The stack trace's text is projected to its presence ("S").  The server may have filters
   (c_filters: Status.serve_f; StatusProofs.call_f_nil: without filters this is Status.call). *)
From Coq Require Import List Bool ZArith.
From Coq.Strings Require Import Byte.
From GR Require Import Base.Bytes Gen.TablesStatus Http.Status.
Import ListNotations.
Local Open Scope Z_scope.

Inductive obody := OBNone | OBJson | OBErr (e : err_resp) | OBText | OBBad.

Record case := {
  c_meth : meth;
  c_filters : list filter;   (* the server's filters: what their hooks return ([] = a server without filters) *)
  c_heap : heap;
  c_defect : reqdefect;
  c_impl : impl;
  o_crashed : bool;
  o_invoked : bool;
  o_status : Z;
  o_errhdr : bool;
  o_idhdr : bool;
  o_body : obody;
  o_client : cres;
  o_after : heap
}.

Definition model_out (c : case) : exchange := call_f (c_heap c) (c_filters c) (c_meth c) (c_defect c) (c_impl c).

Fixpoint heap_eqb (a b : heap) : bool :=
  match a, b with
  | [], [] => true
  | x :: r, y :: s => err_eqb x y && heap_eqb r s
  | _, _ => false
  end.

(* malformed requests: the message embeds the codec's error text, which is not modelled; only its presence is compared *)
Definition norm (defect : bool) (e : err_resp) : err_resp :=
  if defect then match e_message e with Some _ => with_message e (Some []) | None => e end else e.

Definition body_matches (df : bool) (w : wbody) (o : obody) : bool :=
  match w, o with
  | WNone, OBNone => true
  | WValue, OBJson => true
  | WError e, OBErr e' => err_eqb (norm df e) (norm df e')
  | WText _, OBText => true
  | _, _ => false
  end.

Definition cres_eqb (df : bool) (a b : cres) : bool :=
  match a, b with
  | COk, COk => true
  | CCreated s, CCreated s' => Z.eqb s s'
  | CError e d, CError e' d' => err_eqb (norm df e) (norm df e') && Bool.eqb d d'
  | CUnexpected s, CUnexpected s' => Z.eqb s s'
  | CNoIdHeader, CNoIdHeader => true
  | CDecodeErr, CDecodeErr => true
  | _, _ => false
  end.

Definition is_defect (d : reqdefect) : bool := match d with RqOk => false | _ => true end.

Definition check_case (c : case) : bool :=
  let df := is_defect (c_defect c) in
  plain_name (m_name (c_meth c)) &&
  match model_out c with
  | Crashed h => o_crashed c && heap_eqb h (o_after c)
  | Exchanged r cl h inv =>
      negb (o_crashed c) && Bool.eqb inv (o_invoked c) && Z.eqb (r_status r) (o_status c) &&
      Bool.eqb (r_errhdr r) (o_errhdr c) && Bool.eqb (r_idhdr r) (o_idhdr c) && body_matches df (r_body r) (o_body c) &&
      cres_eqb df cl (o_client c) && heap_eqb h (o_after c)
  end.

Fixpoint mism (i : nat) (l : list case) : list nat :=
  match l with
  | [] => []
  | c :: r => if check_case c then mism (S i) r else i :: mism (S i) r
  end.
Definition mismatches (l : list case) : list nat := mism 0 l.
Definition select (idx : list nat) (l : list case) : list case :=
  flat_map (fun i => match nth_error l i with Some c => [c] | None => [] end) idx.
