(* Correspondence glue for the partial-update part of C11 / C07: the driver (harness/codecdrv/c11p.go) builds the generated
   X_PartialUpdate structs of the family from abstract patches, marshals them with a writer constructed WithExcludedFields,
   decodes patch documents with a reader constructed WithExcludedFields, and calls the generated CheckFields directly;
   the model (Codec/Patch.v) is evaluated on the same patches / bytes. *)
From Coq Require Import List Bool Arith ZArith NArith.
From Coq.Strings Require Import Byte.
From GR Require Import Base.Bytes Base.Res Codec.Schema Codec.Doc Codec.Render Codec.Encode Codec.Tracker Codec.Json Codec.Decode
  Codec.Patch Gen.TablesCodec Gen.FamEnv Corr.CodecCorr.
Import ListNotations.

Inductive penc_obs := PEncOk (b : bytes) | PEncFail (c : oclass).
Inductive pdec_obs := PDecOk (p : patch) | PDecFail (c : oclass).

Inductive pop :=
| PEnc (p : patch) (o : penc_obs)                                  (* MarshalRestLi, compact JSON writer with c_excl *)
| PDec (pre : list bytes) (ignore : nat) (data : bytes) (o : pdec_obs)   (* UnmarshalRestLi, JSON reader with c_excl, at scope pre *)
| PChk (keys : list bytes) (p : patch) (o : option (bool * bool)).  (* CheckFields with a KeyChecker excluding exactly keys:
                                                                        None = error, Some (HasDeletes, HasSets) *)

Record case := {
  c_rec : nat;                               (* the record (index in fam_env) *)
  c_floats : list (bool * N * bytes);
  c_parse : list (nat * bytes * option N);
  c_excl : list bytes;
  c_ops : list pop
}.

Fixpoint patch_eqb (a b : patch) {struct a} : bool :=
  let fix pl (x y : list patch) : bool :=
    match x, y with [], [] => true | p :: x', q :: y' => patch_eqb p q && pl x' y' | _, _ => false end in
  let fix opl (x y : list (option patch)) : bool :=
    match x, y with
    | [], [] => true
    | None :: x', None :: y' => opl x' y'
    | Some p :: x', Some q :: y' => patch_eqb p q && opl x' y'
    | _, _ => false
    end in
  match a, b with
  | PPatch i1 d1 s1 n1, PPatch i2 d2 s2 n2 =>
      pl i1 i2
      && (fix bl (x y : list bool) : bool :=
            match x, y with [], [] => true | p :: x', q :: y' => Bool.eqb p q && bl x' y' | _, _ => false end) d1 d2
      && (fix ol (x y : list (option value)) : bool :=
            match x, y with
            | [], [] => true
            | None :: x', None :: y' => ol x' y'
            | Some p :: x', Some q :: y' => value_eqb p q && ol x' y'
            | _, _ => false
            end) s1 s2
      && opl n1 n2
  end.

Definition model_penc (c : case) (p : patch) : res bytes :=
  do d <- enc_patch fam_env v2_wildcard (new_pathspec (c_excl c)) fuel0 (c_rec c) p;
  Ok (render_json (lookup_float (c_floats c)) false 0 d).

Definition model_pdec (c : case) (pre : list bytes) (ignore : nat) (data : bytes) : res patch :=
  decode_patch_json fam_env v2_wildcard (new_pathspec (c_excl c)) ignore (lookup_parse (c_parse c)) fuel0 pre (c_rec c) data.

Definition model_pchk (c : case) (keys : list bytes) (p : patch) : res (bool * bool) :=
  check_patch fam_env fuel0 (c_rec c) (fun k => existsb (bytes_eqb k) keys) p.

Definition pdec_agrees (m : res patch) (o : pdec_obs) : bool :=
  match m, o with
  | Ok p, PDecOk p' => patch_eqb p p'
  | Ok _, PDecFail _ => false
  | r, PDecFail cl => oclass_eqb (class_of r) cl
  | _, PDecOk _ => false
  end.

Definition penc_agrees (m : res bytes) (o : penc_obs) : bool :=
  match m, o with
  | Ok b, PEncOk b' => bytes_eqb b b'
  | Ok _, PEncFail _ => false
  | r, PEncFail cl => oclass_eqb (class_of r) cl
  | _, PEncOk _ => false
  end.

Definition pchk_agrees (m : res (bool * bool)) (o : option (bool * bool)) : bool :=
  match m, o with
  | Ok (a, b), Some (a', b') => Bool.eqb a a' && Bool.eqb b b'
  | Err EFuel, _ | Err EType, _ | Panic, _ => false
  | Err _, None => true
  | _, _ => false
  end.

Definition check_op (c : case) (o : pop) : bool :=
  match o with
  | PEnc p eo => penc_agrees (model_penc c p) eo
  | PDec pre ig data dobs => pdec_agrees (model_pdec c pre ig data) dobs
  | PChk keys p r => pchk_agrees (model_pchk c keys p) r
  end.
Definition check_case (c : case) : bool := forallb (check_op c) (c_ops c).

Inductive mres := MEnc (r : res bytes) | MDec (r : res patch) | MChk (r : res (bool * bool)).
Definition model_out (c : case) : list mres :=
  flat_map (fun o => if check_op c o then [] else
                     [match o with
                      | PEnc p _ => MEnc (model_penc c p)
                      | PDec pre ig data _ => MDec (model_pdec c pre ig data)
                      | PChk keys p _ => MChk (model_pchk c keys p)
                      end])
           (c_ops c).

Fixpoint mismatches_from (i : nat) (l : list case) : list nat :=
  match l with
  | [] => []
  | c :: r => if check_case c then mismatches_from (S i) r else i :: mismatches_from (S i) r
  end.
Definition mismatches := mismatches_from 0.
Definition select {A} (idx : list nat) (l : list A) : list A :=
  flat_map (fun i => match nth_error l i with Some x => [x] | None => [] end) idx.
