(* The constructors of the ROOT module generation (codegen/types/record.go of github.com/PapaCharlie/go-restli): the same code as v2's
   (GeneratePopulateDefaultValues / setDefaultValue / hasDefaultValue, diffed: only names and the accessor r.<Declaring>.<Field> differ)
   over the FLATTENED field list the root spec parser hands to the generator.  So the model is Codec/Ctor.v [ctor] instantiated on the
   flattened family environment [fam_env_root] of Corr/RootCorr.v with the root wildcard: a record has a constructor when ANY of its
   flattened fields declares a default, every flattened default is filled (the v2 finding D28 does not exist here) and every flattened
   required record field whose record has a constructor is constructed.  The observed instance has the schema's shape (harness/rootdrv
   root_val.go) and is flattened before it is compared.  Case format of Corr/CtorCorr.v.  No proofs here. *)
From Coq Require Import List Bool Arith ZArith NArith.
From Coq.Strings Require Import Byte.
From GR Require Import Base.Bytes Base.Res Codec.Schema Codec.Decode Codec.Ctor Gen.TablesCodec Gen.FamEnv Corr.CodecCorr Corr.RootCorr
  Corr.CtorCorr.
Import ListNotations.

Definition case := CtorCorr.case.

Definition model_ctor (c : case) : res value :=
  ctor fam_env_root root_wildcard (lookup_parse (k_parse c)) CtorCorr.fuel0 (k_rec c).

Definition check_case (c : case) : bool :=
  agrees (model_ctor c) (option_map (flatv (TRef (k_rec c))) (k_obs c)).
Definition model_out (c : case) : res value := model_ctor c.

Fixpoint mismatches_from (i : nat) (l : list case) : list nat :=
  match l with
  | [] => []
  | c :: r => if check_case c then mismatches_from (S i) r else i :: mismatches_from (S i) r
  end.
Definition mismatches := mismatches_from 0.
Definition select {A} (idx : list nat) (l : list A) : list A := CodecCorr.select idx l.

(* sanity: on the flattened environment strictly more records have a constructor than in v2 (Incl, Incl2: their defaults are inherited) *)
Example root_has_more_constructors :
  forallb (fun n => implb (has_ctor fam_env n) (has_ctor fam_env_root n)) (seq 0 (length fam_env)) = true
  /\ existsb (fun n => negb (has_ctor fam_env n) && has_ctor fam_env_root n) (seq 0 (length fam_env)) = true.
Proof. vm_compute. split; reflexivity. Qed.
