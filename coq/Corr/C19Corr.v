(* Correspondence glue for C19.  The harness drives the real handleUriUpdate / handleServiceUpdate / chooseHost
   (through the verif-tagged exports) and writes what it saw; the model is evaluated on the same inputs.

   CHist: a history of znode events fed to handleUriUpdate starting from an empty snapshot; observed: the content
          of the snapshot published after every event.  The model reads all its snapshots in the FINAL heap.
   CLoop: the event-delivery layer: bursts of znode events handed to the REAL waitForUriUpdates loop through its channel
          (a burst = the events that are already waiting in the channel when the loop runs again; the loop consumes
          the whole burst); observed: the content of the snapshot that is published once each burst is consumed.
          The model folds [run] over ALL events of all bursts, in order; snapshots are read in the FINAL heap.
   CSel : an announcement map, a prioritized scheme list, the draws handed out by the injected rand.Source (one per
          attempt) and the hosts returned by repeated calls (Go's map order differs from call to call and cannot be
          set): each must be among the results the model can produce under SOME pair of iteration orders
          (Choose.possible; complete by ChooseProofs.possible_complete).
   CSvc : a history of service events through handleServiceUpdate as waitForServiceUpdates applies them; observed:
          the service definition in force at the end.                                                        *)
From Coq Require Import List Bool Arith QArith.
From Coq.Strings Require Import Byte.
From GR Require Import Base.Bytes D2.Announce D2.Choose.
Import ListNotations.

Definition host_eqb (a b : host) : bool :=
  bytes_eqb (h_scheme a) (h_scheme b) && bytes_eqb (h_rest a) (h_rest b).

Fixpoint hlookup (h : host) (a : ann) : option Q :=
  match a with
  | [] => None
  | (h', w) :: r => if host_eqb h h' then Some w else hlookup h r
  end.

(* announcements as maps host -> weight *)
Definition ann_eqb (a b : ann) : bool :=
  Nat.eqb (length a) (length b) &&
  forallb (fun hw => match hlookup (fst hw) b with Some w => Qeq_bool (snd hw) w | None => false end) a.

(* snapshots as maps znode -> announcement *)
Definition umap_eqb (m1 m2 : umap) : bool :=
  Nat.eqb (length m1) (length m2) &&
  forallb (fun ka => match alookup (fst ka) m2 with Some b => ann_eqb (snd ka) b | None => false end) m1.

Fixpoint list_eqb {A} (eqb : A -> A -> bool) (x y : list A) : bool :=
  match x, y with
  | [], [] => true
  | a :: x', b :: y' => eqb a b && list_eqb eqb x' y'
  | _, _ => false
  end.

Definition opt_eqb {A} (eqb : A -> A -> bool) (x y : option A) : bool :=
  match x, y with
  | None, None => true
  | Some a, Some b => eqb a b
  | _, _ => false
  end.

Definition service_eqb (a b : service) : bool :=
  bytes_eqb (s_cluster a) (s_cluster b) && list_eqb bytes_eqb (s_schemes a) (s_schemes b).

Inductive case :=
| CHist (zk : bytes) (hist : list zevent) (observed : list umap)
| CLoop (zk : bytes) (bursts : list (list zevent)) (observed : list umap)
| CSel (m : umap) (schemes : list bytes) (draws : list Q) (observed : list (option host))
| CSvc (path : bytes) (hist : list stce) (observed : option service).

Inductive mout :=
| MPanic
| MHist (snapshots : list umap)
| MSel (possible : list (option host))
| MSvc (s : option service).

Definition hist_out (zk : bytes) (hist : list zevent) : mout :=
  match run_trace (map to_tce hist) 0%nat (St [Cell zk []] []) with
  | Panic => MPanic
  | Done (ws, s) =>
      MHist (map (fun w => match read w s with Some c => c_uris c | None => [] end) ws)
  end.

Definition loop_out (zk : bytes) (bursts : list (list zevent)) : mout :=
  match run_bursts bursts 0%nat (St [Cell zk []] []) with
  | Panic => MPanic
  | Done (ws, s) =>
      MHist (map (fun w => match read w s with Some c => c_uris c | None => [] end) ws)
  end.

Definition sel_out (m : umap) (schemes : list bytes) (draws : list Q) : mout :=
  MSel (map (option_map fst) (possible schemes (flat m) (fun i => nth i draws 0))).

Definition model_out (c : case) : mout :=
  match c with
  | CHist zk hist _ => hist_out zk hist
  | CLoop zk bursts _ => loop_out zk bursts
  | CSel m schemes draws _ => sel_out m schemes draws
  | CSvc path hist _ => MSvc (run_service path hist None)
  end.

Definition check_case (c : case) : bool :=
  match c, model_out c with
  | CHist _ _ obs, MHist snaps => list_eqb umap_eqb snaps obs
  | CLoop _ _ obs, MHist snaps => list_eqb umap_eqb snaps obs
  | CSel _ _ _ obs, MSel poss => forallb (fun o => existsb (opt_eqb host_eqb o) poss) obs
  | CSvc _ _ obs, MSvc s => opt_eqb service_eqb s obs
  | _, _ => false
  end.

Fixpoint mismatches_from (i : nat) (l : list case) : list nat :=
  match l with
  | [] => []
  | c :: r => if check_case c then mismatches_from (S i) r else i :: mismatches_from (S i) r
  end.
Definition mismatches := mismatches_from 0.

Definition select {A} (idx : list nat) (l : list A) : list A :=
  flat_map (fun i => match nth_error l i with Some x => [x] | None => [] end) idx.
