(* Correspondence glue for C05: the harness writes, for a real server built by the given registrations, the request it
   sent and what it observed (status class, error header, filter/method trace, which stub ran, the routing facts seen in
   the context); [mismatches] evaluates the model (run_ops, then serve on the handler obtained) and returns the indices
   that differ. *)
From Coq Require Import List Bool Arith NArith.
From Coq.Strings Require Import Byte.
From GR Require Import Base.Bytes Gen.TablesRouter Http.Router.
Import ListNotations.

Fixpoint list_eqb {A} (eqb : A -> A -> bool) (x y : list A) : bool :=
  match x, y with
  | [], [] => true
  | a :: x', b :: y' => eqb a b && list_eqb eqb x' y'
  | _, _ => false
  end.

Definition opt_eqb {A} (eqb : A -> A -> bool) (x y : option A) : bool :=
  match x, y with
  | None, None => true
  | Some a, Some b => eqb a b
  | _, _ => false
  end.

Definition seg_eqb (a b : segment) : bool := bytes_eqb (fst a) (fst b) && Bool.eqb (snd a) (snd b).

Definition target_eqb (a b : target) : bool :=
  match a, b with
  | (p1, m1, k1, n1), (p2, m2, k2, n2) =>
      list_eqb seg_eqb p1 p2 && method_eqb m1 m2 && list_eqb bytes_eqb k1 k2 && opt_eqb bytes_eqb n1 n2
  end.

Definition event_eqb (a b : event) : bool :=
  match a, b with
  | EvPre i s, EvPre j t => Nat.eqb i j && list_eqb Nat.eqb s t
  | EvStub s, EvStub t => list_eqb Nat.eqb s t
  | EvPost i s, EvPost j t => Nat.eqb i j && list_eqb Nat.eqb s t
  | _, _ => false
  end.

Definition obs_eqb (a b : obs) : bool :=
  N.eqb (o_status a) (o_status b) && Bool.eqb (o_restli a) (o_restli b) &&
  list_eqb event_eqb (o_events a) (o_events b) &&
  opt_eqb target_eqb (o_stub a) (o_stub b) && opt_eqb target_eqb (o_seen a) (o_seen b).

Record case := {
  c_prefix : bytes;          (* argument of NewPrefixedServer ("/" for NewServer) *)
  c_filters : list fkind;
  c_ops : list op;           (* registrations; OpHandler where Handler() / AddToMux was called *)
  c_which : nat;             (* which of the handlers obtained is driven *)
  c_mount : mount;
  c_stub_fails : bool;
  c_req : request;
  c_obs : obs                (* observed on the implementation *)
}.

Definition mkr (v : verb) (h p q : bytes) (b : bool) : request :=
  {| r_verb := v; r_header := h; r_path := p; r_query := q; r_body := b |}.
Definition mko (st : nat) (rl : bool) (ev : list event) (stub seen : option target) : obs :=
  {| o_status := N.of_nat st; o_restli := rl; o_events := ev; o_stub := stub; o_seen := seen |}.
Definition mkc (p : bytes) (fs : list fkind) (ops : list op) (which : nat) (mt : mount) (sf : bool) (r : request) (o : obs) : case :=
  {| c_prefix := p; c_filters := fs; c_ops := ops; c_which := which; c_mount := mt; c_stub_fails := sf; c_req := r; c_obs := o |}.

(* None: a registration panicked in the model, or no such handler *)
Definition model_out (c : case) : option obs :=
  match run_ops (c_ops c) (new_world (c_prefix c)) with
  | Some w =>
      match nth_error (w_handlers w) (c_which c) with
      | Some h => Some (serve (c_mount c) h (c_filters c) (c_stub_fails c) (c_req c))
      | None => None
      end
  | None => None
  end.

Definition check_case (c : case) : bool :=
  match model_out c with Some o => obs_eqb o (c_obs c) | None => false end.

Fixpoint mismatches_from (i : nat) (l : list case) : list nat :=
  match l with
  | [] => []
  | c :: r => if check_case c then mismatches_from (S i) r else i :: mismatches_from (S i) r
  end.
Definition mismatches := mismatches_from 0.

Definition select {A} (idx : list nat) (l : list A) : list A :=
  flat_map (fun i => match nth_error l i with Some x => [x] | None => [] end) idx.
