(* Correspondence glue for the generated constructors New<X>WithDefaultValues (C13): the driver (harness/codecdrv/c13.go) calls every
   constructor the REAL generator emitted for the family (harness/codecdrv/registry.go [constructors]), converts the instance with
   fromGo and records it; the model (Codec/Ctor.v [ctor]) is evaluated on the family environment Gen/FamEnv.v for the same record.
   A constructor takes no argument: a case is (record, observed instance); every record with a constructor is observed twice - a
   first instance, and an instance constructed after every reachable slice / map / field of the first one was overwritten.
   Its own small case format and shard files (cases/ctor/cases_<k>.v): Corr/CodecCorr.v is not touched.  No proofs here. *)
From Coq Require Import List Bool Arith ZArith NArith.
From Coq.Strings Require Import Byte.
From GR Require Import Base.Bytes Base.Res Codec.Schema Codec.Decode Codec.Ctor Gen.TablesCodec Gen.FamEnv Corr.CodecCorr.
Import ListNotations.

Record case := {
  k_rec : nat;                              (* index of the record in fam_env *)
  k_parse : list (nat * bytes * option N);  (* strconv.ParseFloat on every number of the family's default literals (CodecCorr.c_parse) *)
  k_obs : option value                      (* the constructed instance; None = the constructor panicked *)
}.

Definition fuel0 : nat := CodecCorr.fuel0.

Definition model_ctor (c : case) : res value :=
  ctor fam_env v2_wildcard (lookup_parse (k_parse c)) fuel0 (k_rec c).

Definition agrees (m : res value) (o : option value) : bool :=
  match m, o with
  | Ok v, Some v' => value_eqb v v'
  | Panic, None => true
  | _, _ => false
  end.

Definition check_case (c : case) : bool := agrees (model_ctor c) (k_obs c).
Definition model_out (c : case) : res value := model_ctor c.

Fixpoint mismatches_from (i : nat) (l : list case) : list nat :=
  match l with
  | [] => []
  | c :: r => if check_case c then mismatches_from (S i) r else i :: mismatches_from (S i) r
  end.
Definition mismatches := mismatches_from 0.
Definition select {A} (idx : list nat) (l : list A) : list A := CodecCorr.select idx l.

(* sanity of the glue (closed computations on the family): a constructor exists in the model exactly for the records that declare
   a default themselves, and for those the model returns a record value *)
Example model_has_a_value_iff_a_constructor_is_generated :
  forallb (fun n => Bool.eqb (has_ctor fam_env n)
                             (match ctor fam_env v2_wildcard (fun _ _ => Some 0%N) fuel0 n with Ok (VRec _ _) => true | _ => false end))
          (seq 0 (length fam_env)) = true.
Proof. vm_compute. reflexivity. Qed.
