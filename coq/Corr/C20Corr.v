(* Correspondence glue for C20: the harness writes the trees it built and what the real CleanTargetDir left behind;
   [mismatches] evaluates the model on the same trees (vm_compute) and returns the indices that differ. *)
From Coq Require Import List Bool Arith.
From Coq.Strings Require Import Byte.
From GR Require Import Base.Bytes Gen.TablesClean Gen2.Clean.
Import ListNotations.

Fixpoint node_eqb (a b : node) : bool :=
  match a, b with
  | File n1 c1, File n2 c2 => bytes_eqb n1 n2 && bytes_eqb c1 c2
  | Dir n1 l1, Dir n2 l2 =>
      bytes_eqb n1 n2 &&
      (fix go (x y : list node) : bool :=
         match x, y with
         | [], [] => true
         | p :: x', q :: y' => node_eqb p q && go x' y'
         | _, _ => false
         end) l1 l2
  | _, _ => false
  end.

Fixpoint nodes_eqb (x y : list node) : bool :=
  match x, y with
  | [], [] => true
  | p :: x', q :: y' => node_eqb p q && nodes_eqb x' y'
  | _, _ => false
  end.

Definition result := (option (list node) * bool)%type.

Definition result_eqb (a b : result) : bool :=
  match fst a, fst b with
  | None, None => true
  | Some x, Some y => nodes_eqb x y
  | _, _ => false
  end && Bool.eqb (snd a) (snd b).

(* v2 = true: the v2 module's constants; false: the root module's *)
Record case := { c_v2 : bool; c_target : option (bool * list node); c_observed : result }.

Definition model_out (c : case) : result :=
  if c_v2 c then clean_target v2_generated_file_suffix v2_manifest_file (c_target c)
  else clean_target root_generated_file_suffix root_manifest_file (c_target c).

Definition check_case (c : case) : bool := result_eqb (model_out c) (c_observed c).

Fixpoint mismatches_from (i : nat) (l : list case) : list nat :=
  match l with
  | [] => []
  | c :: r => if check_case c then mismatches_from (S i) r else i :: mismatches_from (S i) r
  end.
Definition mismatches := mismatches_from 0.

Definition select {A} (idx : list nat) (l : list A) : list A :=
  flat_map (fun i => match nth_error l i with Some x => [x] | None => [] end) idx.
