(* Correspondence glue for the untyped reader (restlicodec.NewInterfaceReader, model Codec/AnyReader.v decA):
   the driver (harness/codecdrv/any.go, mode cany) hands a Go value - derived from JSON through encoding/json, or a hostile native
   value - to NewInterfaceReader + the generated UnmarshalRestLi of a family type and records the outcome class, the decoded value
   and the reported missing fields; the model is evaluated on the same value, written as a [gval] by a reflect walk that shares
   no code with the reader (map entries sorted by key: with no excluded fields the observables do not depend on Go's iteration
   order - every error has the class CErr, the value has one slot per key, the reported list is sorted). *)
From Coq Require Import List Bool Arith ZArith NArith.
From Coq.Strings Require Import Byte.
From GR Require Import Base.Bytes Base.Res Codec.Schema Codec.Doc Codec.Tracker Codec.Json Codec.Decode Codec.AnyReader
  Gen.TablesCodec Gen.FamEnv.
Import ListNotations.

Inductive any_obs := AOk (v : value) | AMissing (fields : list bytes) (v : value) | AFail (c : oclass).

Record case := {
  a_ty : ty;
  a_val : gval;
  (* strconv.ParseFloat on every string of the value and every number of the schema's default literals:
     mode (0: 64 bits; 1: 32 bits; 2: float32(64 bits)), text, bits (None = an error was returned) *)
  a_parse : list (nat * bytes * option N);
  (* the hardware's answers for the numeric conversions the model computes itself (checked, not used):
     float64(int64), float32(int64), float32(float64) *)
  a_conv : list (nat * Z * N * N);      (* kind (0: int->f64, 1: int->f32, 2: f64->f32), int argument, bits argument, result *)
  a_obs : any_obs
}.

Definition fuel0 : nat := 64.

Fixpoint lookup_parse (tbl : list (nat * bytes * option N)) (mode : nat) (t : bytes) : option N :=
  match tbl with
  | [] => None
  | (m, x, b) :: r => if Nat.eqb m mode && bytes_eqb x t then b else lookup_parse r mode t
  end.

Definition model (c : case) : dres :=
  decode_any fam_env v2_wildcard ps_empty 0 (lookup_parse (a_parse c)) (fun _ _ => unspec_marker) fuel0 (a_ty c) (a_val c).

(* does the implementation-defined marker occur in the value? (then the value is not compared) *)
Fixpoint has_marker (v : value) : bool :=
  match v with
  | VInt z | VLong z => negb (in_i64 z)
  | VRec incs fs =>
      existsb has_marker incs || existsb (fun o => match o with Some x => has_marker x | None => false end) fs
  | VUnion ms => existsb (fun o => match o with Some x => has_marker x | None => false end) ms
  | VArr l => existsb has_marker l
  | VMap es => existsb (fun kx => match kx with (_, x) => has_marker x end) es
  | _ => false
  end.

Fixpoint bytes_list_eqb (a b : list bytes) : bool :=
  match a, b with [], [] => true | x :: a', y :: b' => bytes_eqb x y && bytes_list_eqb a' b' | _, _ => false end.

Definition dclass (d : dres) : oclass :=
  match d with DOk _ => COk | DMissing _ _ => CMissing | DErr x => class_of (@Err unit x) | DPanic => CPanic end.

Definition agrees (m : dres) (o : any_obs) : bool :=
  match m, o with
  | DOk v, AOk v' => has_marker v || value_eqb v v'
  | DMissing fs v, AMissing fs' v' => bytes_list_eqb fs fs' && (has_marker v || value_eqb v v')
  | m, AFail cl => oclass_eqb (dclass m) cl
  | _, _ => false
  end.

Definition conv_ok (x : nat * Z * N * N) : bool :=
  match x with
  | (0, z, _, r) => N.eqb (f64_of_Z z) r
  | (1, z, _, r) => N.eqb (f32_of_Z z) r
  | (_, _, b, r) => N.eqb (f64_to_f32 b) r
  end.

Definition check_case (c : case) : bool := agrees (model c) (a_obs c) && forallb conv_ok (a_conv c).

Definition model_out (c : case) : dres * list (nat * Z * N * N) :=
  (model c, filter (fun x => negb (conv_ok x)) (a_conv c)).

Fixpoint mismatches_from (i : nat) (l : list case) : list nat :=
  match l with
  | [] => []
  | c :: r => if check_case c then mismatches_from (S i) r else i :: mismatches_from (S i) r
  end.
Definition mismatches := mismatches_from 0.
Definition select {A} (idx : list nat) (l : list A) : list A :=
  flat_map (fun i => match nth_error l i with Some x => [x] | None => [] end) idx.
