(* Correspondence glue for the ROOT module generation of C16 (batch key correlation).  Same case format as Corr/KeySetCorr.v (the
   driver is harness/codecdrv/c16.go compiled against the root bindings, the root restli/batchkeyset and the root
   restlidata.BatchResponse.UnmarshalWithKeyLocator), read as follows:

   - restli/batchkeyset/{generic,primitive}.go are the v2 files (diffed; v2 only adds the custom-typeref default branch);
     set.go differs in how the query string is assembled (root: NewRestLiQueryParamsWriter + WriteParams, v2: BuildQueryParams), with
     the same result for the single parameter "ids"; restlidata/structs.go UnmarshalWithKeyLocator is the v2 code up to unknown members
     being skipped directly (root) instead of through NoSuchFieldErr (v2): Hash/KeySet.v applies unchanged.
   - key hash / key equality: the C10 root instantiation (Corr/RootHashCorr.v: root_params, flattened environment);
     key texts: the C01 root instantiation (root tables of Gen/TablesCodec.v, flattened codec environment printed by the driver header).
   - every value of the case is flattened once ([hflat_value], directed by the hash view of the key type); the flattened codec
     environment lists the fields of every record in the same order (complex key: $params first).
   No proofs here. *)
From Coq Require Import List Bool Arith ZArith NArith.
From Coq.Strings Require Import Byte.
From GR Require Import Base.Bytes Base.Res Codec.Schema Codec.Doc Codec.Escape Codec.Render Codec.Encode Codec.Tracker Codec.Json Codec.Decode
  Gen.TablesCodec Gen.TablesFnv Hash.Fnv Hash.Equals Hash.KeySet Corr.CodecCorr Corr.RootHashCorr.
From GR Require Export Corr.KeySetCorr.
Import ListNotations.

Definition case := KeySetCorr.case.
Definition fuel0 : nat := KeySetCorr.fuel0.

Section Model.
  Variable he : henv.          (* the hash view of the family, schema shape (for flattening values and finding key parts) *)
  Variable cks : list nat.
  Variable fhe : henv.         (* hflat_env he cks *)
  Variable fce : env.          (* the flattened codec environment *)
  Variable c : case.

  Definition fv (v : value) : value := hflat_value he cks fuel0 (c_hty c) v.

  (* the key part of a FLATTENED complex key: the slots after the (single) $params slot are the flattened key record *)
  Definition ck_key_part (v : value) : value :=
    match v with VRec _ (_ :: slots) => VRec [] slots | _ => v end.
  Definition ck_key_ty : hty :=
    match c_hty c with
    | HRef n => match hlookup he n with Some (HRecord (k :: _) _) => HRef k | _ => HRef n end
    | t => t
    end.

  (* all functions below take FLATTENED values *)
  Definition khash (v : value) : N :=
    match c_kind c with
    | 1 => hashV root_params fhe fuel0 ck_key_ty (ck_key_part v)
    | 2 => 0%N
    | _ => hashV root_params fhe fuel0 (c_hty c) v
    end.
  Definition keq (a b : value) : bool :=
    match c_kind c, c_hty c with
    | 1, _ => equalsV fhe fuel0 ck_key_ty (ck_key_part a) (ck_key_part b)
    | 2, HPrim p => prim_equal p a b
    | _, t => equalsV fhe fuel0 t a b
    end.
  Definition set0 : kset value := match c_kind c with 2 => PSet value [] | _ => GSet value [] end.

  Definition encode_key (v : value) : bytes :=
    match enc fce root_wildcard ps_empty fuel0 [] (c_ty c) v with
    | Ok d => render_ror2 (lookup_float (c_floats c)) root_hex_chars root_unescaped_path_chars root_unescaped_query_chars root_header_escaped_chars
                root_empty_string root_list_prefix FQuery d
    | _ => [x21; x21]
    end.
  Definition decode_key (raw : bytes) : option value :=
    match decode_ror2 fce root_wildcard ps_empty 0 (lookup_parse (c_parse c)) (unescape false) root_empty_string root_list_prefix false fuel0 None (c_ty c) raw with
    | DOk v => Some v
    | _ => None
    end.

  Fixpoint add_seq (s : kset value) (ks : list value) (i : nat) : kset value * option nat :=
    match ks with
    | [] => (s, None)
    | k :: r => match add _ khash keq s k with Some s' => add_seq s' r (S i) | None => (s, Some i) end
    end.
  Definition model_set := add_seq set0 (map fv (c_keys c)) 0.

  Definition model_ids (s : kset value) : bytes :=
    [x69; x64; x73; x3d] ++ root_list_prefix ++ join_bytes [x2c] (encode_ids _ encode_key s) ++ [x29].

  Fixpoint insert_tag (e : value * N) (l : list (value * N)) : list (value * N) :=
    match l with
    | [] => [e]
    | x :: r => if (snd e <=? snd x)%N then e :: l else x :: insert_tag e r
    end.
  Definition sort_tags (l : list (value * N)) : list (value * N) := fold_right insert_tag [] l.

  Definition obs3 := option (obs_map * obs_map * obs_map).
  Definition model_reply (s : kset value) (fields : list (bfield * list (bytes * option N))) : obs3 :=
    match unmarshal_with_locator _ khash keq decode_key _ s fields with
    | inl _ => None
    | inr b => Some (option_map sort_tags (b_results _ _ b), option_map sort_tags (b_statuses _ _ b), option_map sort_tags (b_errors _ _ b))
    end.

  Definition ovalue_eqb (a b : option value) : bool :=
    match a, b with Some x, Some y => value_eqb x y | None, None => true | _, _ => false end.
  Fixpoint ents_eqb (a b : list (value * N)) : bool :=
    match a, b with
    | [], [] => true
    | (k1, t1) :: a', (k2, t2) :: b' => value_eqb k1 k2 && N.eqb t1 t2 && ents_eqb a' b'
    | _, _ => false
    end.
  Definition omap_eqb (a b : obs_map) : bool :=
    match a, b with Some x, Some y => ents_eqb x y | None, None => true | _, _ => false end.
  Definition reply_eqb (a b : obs3) : bool :=
    match a, b with
    | Some (r1, s1, e1), Some (r2, s2, e2) => omap_eqb r1 r2 && omap_eqb s1 s2 && omap_eqb e1 e2
    | None, None => true
    | _, _ => false
    end.
  Definition onat_eqb (a b : option nat) : bool :=
    match a, b with Some x, Some y => Nat.eqb x y | None, None => true | _, _ => false end.

  (* observed values have the schema's shape: flatten them before comparing *)
  Definition fmap (m : obs_map) : obs_map := option_map (map (fun kt => (fv (fst kt), snd kt))) m.
  Definition fobs (o : obs3) : obs3 :=
    match o with Some (r, s, e) => Some (fmap r, fmap s, fmap e) | None => None end.

  Definition check_case : bool :=
    let (s, failed) := model_set in
    onat_eqb failed (c_add c) &&
    match c_mapadd c with None => true | Some b => Bool.eqb b (match failed with Some _ => true | None => false end) end &&
    forallb (fun eb => Bool.eqb (snd eb) (match failed with Some _ => true | None => false end)) (c_bulk c) &&
    match failed with
    | Some _ => true
    | None =>
        bytes_eqb (model_ids s) (c_ids c) &&
        forallb (fun p => ovalue_eqb (locate _ khash keq s (fv (fst p))) (option_map fv (snd p))) (c_probes c) &&
        forallb (fun r => reply_eqb (model_reply s (fst r)) (fobs (snd r))) (c_replies c)
    end.

  Definition model_out : option nat * bytes * list (option value) * list obs3 :=
    let (s, failed) := model_set in
    (failed, model_ids s, map (fun p => locate _ khash keq s (fv (fst p))) (c_probes c), map (fun r => model_reply s (fst r)) (c_replies c)).
End Model.

Fixpoint mismatches_from (he : henv) (cks : list nat) (fhe : henv) (fce : env) (i : nat) (l : list case) : list nat :=
  match l with
  | [] => []
  | c :: r => if check_case he cks fhe fce c then mismatches_from he cks fhe fce (S i) r else i :: mismatches_from he cks fhe fce (S i) r
  end.
Definition mismatches (he : henv) (cks : list nat) (fhe : henv) (fce : env) := mismatches_from he cks fhe fce 0.
Definition select {A} (idx : list nat) (l : list A) : list A := KeySetCorr.select idx l.
