(* Correspondence glue for the ROOT module generation of C10 (Equals / ComputeHash contract).  Same case format as Corr/HashCorr.v
   (the driver is harness/codecdrv/c10.go compiled against the bindings of the REAL root generator), different reading of it:

   - fnv1a/hasher.go and restli/equals/*.go of the root module are the v2 files (the translator compares the sources on every run:
     Gen/TablesFnv.v root_fnv1a_source_same_as_v2 / root_equals_source_same_as_v2); the model is instantiated on the ROOT constants
     (Hash.Fnv.root_params).
   - the root generator sees every record with the fields of its included records FLATTENED into it: generated ComputeHash folds ALL
     fields in spec order into one hash (codegen/types/record_hash.go GenerateComputeHash: no `hash.Add(included.ComputeHash())`),
     generated Equals is one conjunction over all fields (record_equals.go).  So the model runs on [hflat_env]: every record replaced by
     the record without includes that lists the inherited fields (include order, recursively) in front of its own, and values are
     flattened the same way.
   - a complex key is the record the root generator builds for it (codegen/types/complexkey.go:22-37): the optional $params field FIRST,
     then the fields of the key record (IncludedFrom = key); ComplexKeyEquals / ComputeComplexKeyHash go to the embedded key record.
     The driver lists the environment indices of complex keys ([cks]); for them the own fields come before the inherited ones.
   No proofs here. *)
From Coq Require Import List Bool Arith ZArith NArith.
From Coq.Strings Require Import Byte.
From GR Require Import Base.Bytes Codec.Schema Gen.TablesFnv Hash.Fnv Hash.Equals.
From GR Require Export Corr.HashCorr.
Import ListNotations.

Definition case := HashCorr.case.
Definition fuel0 : nat := HashCorr.fuel0.

Section HFlatten.
  Variable e : henv.
  Variable cks : list nat.          (* env indices of complex keys *)

  Definition is_ck (n : nat) : bool := existsb (Nat.eqb n) cks.

  Fixpoint hflat_fields (fuel : nat) (n : nat) : list hfield :=
    match fuel with
    | 0 => []
    | S f =>
        match hlookup e n with
        | Some (HRecord incs fs) =>
            let inh := flat_map (hflat_fields f) incs in
            if is_ck n then fs ++ inh else inh ++ fs
        | _ => []
        end
    end.

  Definition hflat_env (fuel : nat) : henv :=
    map (fun n => match hlookup e n with
                  | Some (HRecord _ _) => HRecord [] (hflat_fields fuel n)
                  | Some d => d
                  | None => HUnion []
                  end) (seq 0 (length e)).

  Fixpoint hflat_value (fuel : nat) (t : hty) (v : value) {struct fuel} : value :=
    match fuel with
    | 0 => v
    | S f =>
        match t, v with
        | HArray t', VArr l => VArr (map (hflat_value f t') l)
        | HMap t', VMap es => VMap (map (fun kv => (fst kv, hflat_value f t' (snd kv))) es)
        | HRef n, VRec ivs fvs =>
            match hlookup e n with
            | Some (HRecord incs fs) =>
                let inherited :=
                  (fix go (is : list nat) (vs : list value) : list (option value) :=
                     match is, vs with
                     | i :: is', iv :: vs' =>
                         (match hflat_value f (HRef i) iv with VRec _ slots => slots | _ => [] end) ++ go is' vs'
                     | _, _ => []
                     end) incs ivs in
                let own :=
                  (fix go (fs : list hfield) (vs : list (option value)) : list (option value) :=
                     match fs, vs with
                     | fd :: fs', ov :: vs' => option_map (hflat_value f (hf_ty fd)) ov :: go fs' vs'
                     | _, _ => []
                     end) fs fvs in
                VRec [] (if is_ck n then own ++ inherited else inherited ++ own)
            | _ => v
            end
        | HRef n, VUnion ms =>
            match hlookup e n with
            | Some (HUnion mts) =>
                VUnion ((fix go (mts : list hty) (vs : list (option value)) : list (option value) :=
                           match mts, vs with
                           | mt :: mts', ov :: vs' => option_map (hflat_value f mt) ov :: go mts' vs'
                           | _, _ => []
                           end) mts ms)
            | _ => v
            end
        | _, _ => v
        end
    end.

  (* the key part of a complex key value: the embedded key record (first include of the schema's shape) *)
  Definition ck_part (n : nat) (v : value) : option (nat * value) :=
    match hlookup e n, v with
    | Some (HRecord (k :: _) _), VRec (kv :: _) _ => Some (k, kv)
    | _, _ => None
    end.
End HFlatten.

Section Model.
  Variable e : henv.
  Variable cks : list nat.
  Variable fe : henv.               (* = hflat_env e cks fuel0, computed once per cases file by the header the driver prints *)
  Let fv (t : hty) (v : value) : value := hflat_value e cks fuel0 t v.

  Definition model_hash (c : case) (v : value) : N :=
    match c_mode c, c_ty c with
    | 1, HRef n => match ck_part e n v with
                   | Some (k, kv) => hashV root_params fe fuel0 (HRef k) (fv (HRef k) kv)
                   | None => zero_hash
                   end
    | _, t => hashV root_params fe fuel0 t (fv t v)
    end.

  Definition model_eq (c : case) (a b : value) : bool :=
    match c_mode c, c_ty c with
    | 1, HRef n => match ck_part e n a, ck_part e n b with
                   | Some (k, ka), Some (_, kb) => equalsV fe fuel0 (HRef k) (fv (HRef k) ka) (fv (HRef k) kb)
                   | _, _ => false
                   end
    | _, t => equalsV fe fuel0 t (fv t a) (fv t b)
    end.

  Definition model_hashes (c : case) : list N := map (fun vh => model_hash c (fst vh)) (c_vals c).
  Definition model_matrix (c : case) : list (list bool) :=
    map (fun a => map (fun b => model_eq c (fst a) (fst b)) (c_vals c)) (c_vals c).

  Definition check_case (c : case) : bool :=
    ns_eqb (model_hashes c) (map snd (c_vals c)) && rows_eqb (model_matrix c) (c_eq c).
  Definition model_out (c : case) : list N * list (list bool) := (model_hashes c, model_matrix c).

  Fixpoint mismatches_from (i : nat) (l : list case) : list nat :=
    match l with
    | [] => []
    | c :: r => if check_case c then mismatches_from (S i) r else i :: mismatches_from (S i) r
    end.
  Definition mismatches := mismatches_from 0.
End Model.
Definition select {A} (idx : list nat) (l : list A) : list A := HashCorr.select idx l.
