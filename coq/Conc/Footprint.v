(* Footprint: an ACCESS-LOGGING model of the operations property C17 is about.

   Memory is a set of abstract cells; each operation is interpreted as the list of accesses (cell, read / write, how it
   is synchronised) that the Go code performs, in program order.  The interpretation is derived from the existing
   models, not written independently of them:
     - serving a request  = Router.route_root / Router.receive re-run with a log ([receive_fp], same recursion; the
       result component is proved equal to Router.receive in Proofs/FootprintProofs.v), then Router.exec's EVENT TRACE
       (filters before / the resource method / filters after) mapped event by event to accesses, then the response
       tail of ServeHTTP (v2/restli/handler.go:110-165);
     - a D2 update       = Announce.handle_uri_update run on the heap model: its plain writes are exactly the entries
       it appends to Announce's write log;
     - host selection, the client call, the custom-typeref registry: transcribed from v2/d2/serviceUris.go,
       v2/restli/http.go, v2/restlicodec/custom_typerefs.go.

   What a cell is (granularity = what the Go race detector would see as one object, coarsened):
     CNode o p       a *pathNode (its segment, its methods / finders / actions maps, its subNodes map) at path p of
                     the tree owned by o: the LIVE server being registered into, or the k-th Handler() deep copy.
                     That copies and the live tree share no pathNode is RouterHeapProofs (restated as
                     FootprintProofs.handler_copies_disjoint_from_live);
     CRoot o         the rootNode: prefix, filters slice (header and backing array), root subNodes map;
     CMethodNames    restli.MethodNameMapping (package-level map, written only by package initialisation);
     CReq r part     objects allocated by request / call r or handed to it exclusively by net/http;
     CResErr e       an *ErrorResponse owned by the resource implementation (may be returned to many requests);
     CResVal x       a success value owned by the resource implementation (may be returned to many requests);
     CClient c / CHostUrl c / CTransport c   a restli.Client struct, the *url.URL its resolver hands out, its
                     http.Client (net/http documents it safe for concurrent use: modelled as one atomic cell);
     CD2Services / CD2Uris   the two LazySyncMaps of a d2.Client (sync.Map: atomic; C18 is about LazySyncMap itself);
     CSnap a         the serviceUris object at address a of Announce.v's heap;
     CRng            the state of the package-level *rand.Rand of d2 (v2/d2/serviceUris.go:11-13);
     CRegistry       restlicodec.customTyperefAdapters (one sync.Map);
     CTunnelBuf      a package-level (pooled) scratch buffer for tunnelled bodies.  The CURRENT code has none: the buffer of
                     EncodeTunnelledQuery (tunnelling.go:18) is allocated per call and is part of CReq r RCallReq; the cell
                     exists for the variant [pooled_tunnel] only.
     CReqFields      the RequiredFields objects: the package-level XxxRequiredFields the generator emits for every record, the
                     ones of the envelope records in restli / restlidata (v2/restlicodec/reader.go:195-222), all of them as ONE cell
                     (a coarsening: what holds of the one cell holds of each object).  They are complete once constructed
                     (NewRequiredFields / Add run in package initialisation); reading a record only reads them: readRecord
                     (reader.go:125-127) and QueryParamsReader.ReadRecord (query_reader.go:36-38) copy the field names into a map
                     of their own (toMap, reader.go:212-222), which is part of CReq r RReaders.  The variant
                     [lazy_required_index] completes the object on first use instead.

   Out of the model (DESIGN.md section 7): what user code (a Filter, a resource method, a custom marshaler) does with
   ITS OWN state; the Go memory model itself (happens-before through sync.Map / sync.Mutex is the meaning given to
   Atomic / Locked by [synced], not something derived).  No proofs in this file. *)
From Coq Require Import List Bool Arith NArith Lia.
From Coq.Strings Require Import Byte.
From GR Require Import Base.Bytes Gen.TablesRouter Http.Router.
From GR Require D2.Announce.
Import ListNotations.

(* ------------------------------------------------------------------------------------------------ cells, accesses *)

Definition rid := nat.        (* identity of a request / client call / goroutine *)

Inductive owner := Live | Copy (k : nat).

Inductive rpart :=
| RRequest      (* the *http.Request: URL, Method, Header, Body, context chain, and the shallow copies WithContext makes *)
| RCtx          (* the RequestContext struct (handler.go:96-100): Request, ResponseHeaders, ResponseStatus *)
| RRespHeader   (* the response header map res.Header() *)
| RRespWriter   (* the http.ResponseWriter: status line and body *)
| RSegments     (* segments, pathSegments, entitySegments slices *)
| RParams       (* the parsed query map, finder and action names *)
| RBody         (* the buffer io.ReadAll fills *)
| RReaders      (* per-request ROR2 segment readers, JSON reader, JSON writer *)
| RErrObj       (* an ErrorResponse allocated while serving: newErrorResponsef, recover(), the defaulted COPY *)
| RCallUrl      (* client: the joined URL copy of formatQueryUrl (http.go:121-129) *)
| RCallReq      (* client: body bytes, header map, the *http.Request of newRequest *)
| RCallResp.    (* client: the *http.Response, the bytes read from it, the captor header map of this call *)

Inductive cellid :=
| CNode (o : owner) (path : list bytes)
| CRoot (o : owner)
| CMethodNames
| CReq (r : rid) (p : rpart)
| CResErr (e : nat)
| CResVal (x : nat)
| CClient (c : nat)
| CHostUrl (c : nat)
| CTransport (c : nat)
| CD2Services
| CD2Uris
| CSnap (a : Announce.addr)
| CRng
| CRegistry
| CTunnelBuf
| CReqFields.

Inductive sync := Plain | Atomic | Locked (l : nat).

Definition rng_lock : nat := 0.    (* d2.rngLock, serviceUris.go:12 *)

Record access := Acc { a_cell : cellid; a_write : bool; a_sync : sync }.

Definition rd (c : cellid) : access := Acc c false Plain.
Definition wr (c : cellid) : access := Acc c true Plain.

(* both accesses go through the same synchronisation: two sync.Map operations, or two critical sections of one mutex *)
Definition synced (a b : access) : bool :=
  match a_sync a, a_sync b with
  | Atomic, Atomic => true
  | Locked l1, Locked l2 => Nat.eqb l1 l2
  | _, _ => false
  end.

(* a data race of the model: same cell, at least one write, not ordered by a common synchronisation *)
Definition conflict (a b : access) : Prop :=
  a_cell a = a_cell b /\ (a_write a = true \/ a_write b = true) /\ synced a b = false.

(* interference (stronger): same cell, at least one write - however synchronised.  Outcomes can depend on the order of
   interfering accesses even when they do not race (two draws from the locked rng). *)
Definition interfere (a b : access) : Prop :=
  a_cell a = a_cell b /\ (a_write a = true \/ a_write b = true).

(* ------------------------------------------------------------------------------------------------ code variants *)

(* The current code is [current].  The other settings describe the code as it WAS (D24, D31) or as a careless edit would
   make it; they exist so that FootprintProofs can show the model notices: each makes [no_conflict] false. *)
Record variant := {
  err_inplace : bool;      (* handler.go:127-133 as pinned: errRes.Message = ... written on the resource's object *)
  rng_unlocked : bool;     (* serviceUris.go:16-20 as pinned: rng.Float64() without rngLock *)
  shallow_handler : bool;  (* Handler() handing out the live tree / filters slice instead of a deep copy *)
  state_in_root : bool;    (* per-request state kept in a rootNode field *)
  pooled_tunnel : bool;    (* EncodeTunnelledQuery assembling the body in a recycled package-level buffer and returning
                              a slice of it: the request built from it still reads the buffer when it is sent *)
  lazy_required_index : bool  (* RequiredFields keeping a field -> position index that is built IN PLACE, unsynchronised,
                              by the first record read that needs it (instead of a per-read map): whoever reads a record
                              tests the index, the first ones fill it while others already look fields up in it *)
}.

Definition current : variant :=
  {| err_inplace := false; rng_unlocked := false; shallow_handler := false; state_in_root := false;
     pooled_tunnel := false; lazy_required_index := false |}.

Definition tree_owner (v : variant) (k : nat) : owner := if shallow_handler v then Live else Copy k.

(* ------------------------------------------------------------------------------------------------ serving a request *)

(* reading ONE record (reader.go:125-152 readRecord, query_reader.go:36-52): the RequiredFields object of its type is read
   (toMap copies the names into a map of the reader's own).  Variant: the index is tested, built in place when absent,
   then consulted for every field read *)
Definition required_fp (v : variant) : list access :=
  if lazy_required_index v then [rd CReqFields; wr CReqFields; rd CReqFields] else [rd CReqFields].

(* what the resource method does, as far as sharing is concerned: the error / success object it hands back may be one
   that other requests receive too *)
Inductive behaviour :=
| BOk (value : option nat)             (* nil error; Some x: the marshalled value is the resource's object x *)
| BErr (e : nat) (msg_nil : bool).     (* the resource's *ErrorResponse e; msg_nil: its Message is nil *)

Definition beh_fails (b : behaviour) : bool := match b with BErr _ _ => true | BOk _ => false end.

(* restlicodec writer + Content-Type/Content-Length + WriteHeader + Write (handler.go:145-160) *)
Definition marshal_tail (r : rid) : list access :=
  [wr (CReq r RReaders); wr (CReq r RRespHeader); rd (CReq r RCtx); wr (CReq r RRespWriter)].

(* http.NotFound / http.Error *)
Definition plain_reply (r : rid) : list access := [wr (CReq r RRespHeader); wr (CReq r RRespWriter)].

(* an error response this request allocated itself (newErrorResponsef; handler.go:119-136 then 138-160) *)
Definition own_error (r : rid) : list access :=
  [wr (CReq r RErrObj); wr (CReq r RRespHeader); rd (CReq r RErrObj); wr (CReq r RCtx); rd (CReq r RErrObj)]
  ++ marshal_tail r.

(* the resource returned ITS error object e (handler.go:119-136): Status and Message are read; a nil Message is
   defaulted - on a copy (current code: errResCopy := *errRes) or, in the pinned code, in place; the marshaller then
   follows the pointers, which the shallow copy shares with e *)
Definition shared_error (v : variant) (r : rid) (e : nat) (msg_nil : bool) : list access :=
  [rd (CResErr e); wr (CReq r RRespHeader); wr (CReq r RCtx); rd (CResErr e)]
  ++ (if msg_nil then
        if err_inplace v then [wr (CResErr e)]
        else [rd (CResErr e); wr (CReq r RErrObj)]
      else [])
  ++ [rd (CResErr e)] ++ marshal_tail r.

Definition success (r : rid) (value : option nat) : list access :=
  match value with
  | Some x => rd (CResVal x) :: marshal_tail r
  | None => [rd (CReq r RCtx); wr (CReq r RRespWriter)]                              (* handler.go:161-163 *)
  end.

(* handler.go:213-335 after the path walk: header, method table, query parsing, the handler maps of the node *)
Definition finish_fp (o : owner) (r : rid) (here : list bytes) (rt : route) : list access :=
  [rd (CReq r RCtx); rd (CReq r RRequest); rd CMethodNames; wr (CReq r RParams); rd (CNode o here)]
  ++ match rt with
     | Dispatch _ => [wr (CReq r RRequest); rd (CNode o here)]     (* context.WithValue chain; p.methods[..] etc. *)
     | Reject _ _ => []
     end.

(* handler.go:182-211, the recursion of Router.receive with a log.  [at_] = names from the root down to p's parent. *)
Fixpoint receive_fp (o : owner) (r : rid) (fuel : nat) (p : node) (at_ : list bytes) (ps : list segment)
         (ks : list bytes) (rem : list bytes) (req : request) : route * list access :=
  match fuel with
  | O => (Reject 0 false, [])
  | S f =>
      let here := at_ ++ [n_name p] in
      let ps := ps ++ [(n_name p, n_coll p)] in
      let log0 := [rd (CNode o here); wr (CReq r RSegments)] in                       (* :188 *)
      let descend (hasEntity : bool) (ks : list bytes) (rest : list bytes) : route * list access :=
        match rest with
        | [] => let rt := finish p ps ks hasEntity req in (rt, log0 ++ finish_fp o r here rt)
        | s :: _ =>                                                                   (* :203-210 *)
            match find_sub s (n_subs p) with
            | Some sub => let (rt, lg) := receive_fp o r f sub here ps ks rest req in
                          (rt, log0 ++ rd (CNode o here) :: lg)
            | None => (Reject 404 true, log0 ++ [rd (CNode o here)])
            end
        end in
      match rem with
      | [] => let rt := finish p ps ks false req in (rt, log0 ++ finish_fp o r here rt)
      | _ :: r1 =>
          match r1 with
          | k :: r2 =>
              if n_coll p then                                                        (* :191-199 *)
                if valid_ror2 k then descend true (ks ++ [k]) r2
                else (Reject 400 true, log0 ++ [wr (CReq r RReaders)])
              else descend false ks r1
          | [] => descend false ks r1
          end
      end
  end.

(* one event of Router.exec's trace as accesses *)
Definition event_fp (v : variant) (o : owner) (r : rid) (ev : event) : list access :=
  match ev with
  | EvPre _ _ =>      (* handler.go:342-351: p.rootNode.filters[i].PreRequest(ctx.Request); ctx.Request = WithContext *)
      [rd (CRoot o); rd (CReq r RCtx); rd (CReq r RRequest); wr (CReq r RRequest); wr (CReq r RCtx)]
  | EvStub _ =>       (* :353 h(ctx, segmentReaders(..), body) and the wrapper Register* installed (:520-541): it decodes
                         the path keys, the query parameters and the body - records read with their RequiredFields *)
      [wr (CReq r RReaders); rd (CReq r RBody); rd (CReq r RRequest)] ++ required_fp v
      ++ [wr (CReq r RCtx); wr (CReq r RRespHeader)]
  | EvPost _ _ =>     (* :110-117 r.filters[i].PostRequest(ctx.Request.Context(), res.Header()) *)
      [rd (CRoot o); rd (CReq r RCtx); rd (CReq r RRequest); wr (CReq r RRespHeader)]
  end.

(* handler.go:337-353 + 110-165 for a routed request: io.ReadAll, ctx.Request = ..WithContext(newCtx), the event
   trace of Router.exec, then the reply its observation calls for *)
Definition exec_fp (v : variant) (o : owner) (r : rid) (fs : list fkind) (beh : behaviour) (body : bool) (t : target)
  : list access :=
  let ob := exec fs (beh_fails beh) body t in
  [rd (CReq r RRequest); wr (CReq r RBody); wr (CReq r RRequest); wr (CReq r RCtx)]
  ++ flat_map (event_fp v o r) (o_events ob)
  ++ (if o_restli ob then
        match o_stub ob, beh with
        | Some _, BErr e msg_nil => shared_error v r e msg_nil       (* the resource's own error object *)
        | _, _ => own_error r                                        (* "does not take a body" etc. *)
        end
      else if N.eqb (o_status ob) 500 then plain_reply r             (* a filter failed: http.Error *)
      else match beh with BOk value => success r value | BErr _ _ => own_error r end).

Definition reply_fp (v : variant) (o : owner) (r : rid) (fs : list fkind) (beh : behaviour) (req : request) (rt : route)
  : list access :=
  match rt with
  | Dispatch t => exec_fp v o r fs beh (r_body req) t
  | Reject _ true => own_error r
  | Reject _ false => plain_reply r
  end.

(* handler.go:78-109 ServeHTTP through the k-th Handler() copy *)
Definition serve_fp (v : variant) (k : nat) (r : rid) (s : server) (fs : list fkind) (beh : behaviour) (req : request)
  : list access :=
  let o := tree_owner v k in
  [rd (CReq r RRequest); rd (CRoot o)] ++                                             (* :79-84 *)
  (if has_prefix (s_prefix s) (r_path req) then
     let segs := split_on x2f (skipn (length (s_prefix s)) (r_path req)) in
     [wr (CReq r RSegments); rd (CRoot o)] ++                                         (* :86-89 *)
     match segs with
     | [] => plain_reply r
     | s0 :: _ =>
         match find_sub s0 (s_roots s) with
         | None => plain_reply r
         | Some sub =>
             [wr (CReq r RRequest); rd (CRoot o); wr (CReq r RCtx); wr (CReq r RRespHeader)]   (* :94-107 *)
             ++ (if state_in_root v then [wr (CRoot o)] else [])
             ++ (let (rt, lg) := receive_fp o r (length segs) sub [] [] [] segs req in
                 lg ++ reply_fp v o r fs beh req rt)
         end
     end
   else plain_reply r).

(* ------------------------------------------------------------------------------------------------ registration *)

Fixpoint prefixes_from {A} (acc : list A) (l : list A) : list (list A) :=
  match l with
  | [] => []
  | x :: r => (acc ++ [x]) :: prefixes_from (acc ++ [x]) r
  end.

(* handler.go:475-490 subNode + the map store of Register*: on the LIVE tree, in place *)
Definition register_fp (segs : list segment) : list access :=
  wr (CRoot Live) :: flat_map (fun p => [rd (CNode Live p); wr (CNode Live p)]) (prefixes_from [] (map fst segs)).

(* ------------------------------------------------------------------------------------------------ d2 *)

Definition rng_access (v : variant) : access :=
  Acc CRng true (if rng_unlocked v then Plain else Locked rng_lock).

(* serviceUris.go:33-60 filterAndChooseHost: iterate the snapshot, draw, iterate again; once per scheme tried *)
Definition choose_fp (v : variant) (w : Announce.addr) (attempts : nat) : list access :=
  flat_map (fun _ => [rd (CSnap w); rng_access v; rd (CSnap w)]) (seq 0 attempts).

(* client.go:249-259 ResolveHostnameAndContextForQuery on a warm client: two LazySyncMap loads, then chooseHost on the
   published snapshot w *)
Definition resolve_fp (v : variant) (w : Announce.addr) (attempts : nat) : list access :=
  [Acc CD2Services false Atomic; Acc CD2Uris false Atomic] ++ choose_fp v w attempts.

(* client.go:163-200 one iteration of waitForUriUpdates: load the published snapshot, handleUriUpdate (its plain writes
   are what it appends to Announce's write log), publish *)
Definition update_fp (w : Announce.addr) (e : Announce.tce) (s : Announce.st) : list access :=
  Acc CD2Uris false Atomic ::
  match Announce.handle_uri_update w e s with
  | Announce.Panic => []
  | Announce.Done (_, s') =>
      rd (CSnap w)
      :: map (fun a => wr (CSnap a)) (skipn (length (Announce.wlog s)) (Announce.wlog s'))
      ++ [Acc CD2Uris true Atomic]
  end.

(* the accesses of a whole history of updates (the loop of waitForUriUpdates) *)
Fixpoint history_fp (hist : list Announce.tce) (w : Announce.addr) (s : Announce.st) : list access :=
  match hist with
  | [] => []
  | e :: rest =>
      update_fp w e s ++
      match Announce.handle_uri_update w e s with
      | Announce.Panic => []
      | Announce.Done (w', s') => history_fp rest w' s'
      end
  end.

(* ------------------------------------------------------------------------------------------------ client, registry *)

Inductive resolver := RSimple | RD2 (w : Announce.addr) (attempts : nat).

(* http.go:69-127 formatQueryUrl, :163-230 newRequest, :298-345 Do / do *)
Definition call_fp (v : variant) (c : nat) (r : rid) (res : resolver) : list access :=
  [rd (CClient c)]
  ++ match res with RSimple => [rd (CHostUrl c)] | RD2 w n => resolve_fp v w n end
  ++ [wr (CReq r RCallUrl); rd (CClient c)]
  ++ (if pooled_tunnel v then [wr CTunnelBuf] else [])          (* EncodeTunnelledQuery writing the body (tunnelling.go:18-31) *)
  ++ [wr (CReq r RCallReq); rd (CClient c)]
  ++ (if pooled_tunnel v then [rd CTunnelBuf] else [])          (* the transport reading the request body *)
  ++ [Acc (CTransport c) true Atomic; wr (CReq r RCallResp)]
  ++ required_fp v                                              (* DoAndUnmarshal decoding the response record (http.go:298-345) *)
  ++ [rd (CClient c)].

(* custom_typerefs.go:40-47 loadAdapter: sync.Map.Load; :20-38 RegisterCustomTyperef: sync.Map.LoadOrStore *)
Definition reg_lookup_fp : list access := [Acc CRegistry false Atomic].
Definition reg_register_fp : list access := [Acc CRegistry true Atomic].

(* ------------------------------------------------------------------------------------------------ operations *)

Inductive op :=
| OServe (k : nat) (s : server) (fs : list fkind) (beh : behaviour) (req : request)
| OCall (c : nat) (res : resolver)
| OResolve (w : Announce.addr) (attempts : nat)
| OUriUpdate (w : Announce.addr) (e : Announce.tce) (s : Announce.st)
| ORegLookup
| ORegRegister
| ORegisterRoute (segs : list segment).

Definition footprint (v : variant) (r : rid) (o : op) : list access :=
  match o with
  | OServe k s fs beh req => serve_fp v k r s fs beh req
  | OCall c res => call_fp v c r res
  | OResolve w n => resolve_fp v w n
  | OUriUpdate w e s => update_fp w e s
  | ORegLookup => reg_lookup_fp
  | ORegRegister => reg_register_fp
  | ORegisterRoute segs => register_fp segs
  end.

(* ------------------------------------------------------------------------------------------------ running accesses *)

(* A tiny semantics, only to STATE serial equivalence: memory maps cells to values; a thread is a list of steps, each an
   access plus - for a write - the value written as an arbitrary function of everything the thread has read so far.
   A thread's outcome is the list of values it read (everything it writes, its response included, is a function of it)
   and the final contents of its own cells. *)
Definition val := nat.
Definition mem := cellid -> val.

Definition owner_eq_dec (a b : owner) : {a = b} + {a <> b}.
Proof. decide equality. apply Nat.eq_dec. Defined.
Definition rpart_eq_dec (a b : rpart) : {a = b} + {a <> b}.
Proof. decide equality. Defined.
Definition cellid_eq_dec (a b : cellid) : {a = b} + {a <> b}.
Proof.
  decide equality; try apply Nat.eq_dec; try apply owner_eq_dec; try apply rpart_eq_dec.
  apply (list_eq_dec bytes_eq_dec).
Defined.

Definition upd (m : mem) (c : cellid) (x : val) : mem := fun c' => if cellid_eq_dec c' c then x else m c'.

Definition step := (access * (list val -> val))%type.
Definition tstate := (mem * (nat -> list val))%type.      (* memory; per thread, the values read so far *)

Definition exec1 (i : nat) (s : step) (st : tstate) : tstate :=
  let c := a_cell (fst s) in
  if a_write (fst s) then (upd (fst st) c (snd s (snd st i)), snd st)
  else (fst st, fun j => if Nat.eqb j i then snd st i ++ [fst st c] else snd st j).

(* a schedule: which thread performs which step next *)
Fixpoint run_sched (sched : list (nat * step)) (st : tstate) : tstate :=
  match sched with
  | [] => st
  | (i, s) :: rest => run_sched rest (exec1 i s st)
  end.

Definition alone (i : nat) (p : list step) (st : tstate) : tstate := run_sched (map (pair i) p) st.

Fixpoint set_nth {A} (n : nat) (x : A) (l : list A) : list A :=
  match l, n with
  | [], _ => []
  | _ :: r, O => x :: r
  | y :: r, S n' => y :: set_nth n' x r
  end.

(* [interleave ps sched]: sched is an interleaving of the step lists ps (thread i = the i-th list), each taken in its
   own order and to its end *)
Inductive interleave : list (list step) -> list (nat * step) -> Prop :=
| il_done : forall ps, Forall (fun p => p = []) ps -> interleave ps []
| il_step : forall ps i s rest sched,
    nth_error ps i = Some (s :: rest) -> interleave (set_nth i rest ps) sched -> interleave ps ((i, s) :: sched).

Definition init (m : mem) : tstate := (m, fun _ => []).
