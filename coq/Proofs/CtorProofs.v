(* C13 - the generated constructors New<X>WithDefaultValues (model Codec/Ctor.v).

   [ctor_exact] reads every slot of a constructed instance off the schema; the statements of Props/C13_ctor.v are corollaries:
     (a) every own defaulted field holds exactly the decoding of its literal ([lit_value] of Proofs/DefaultsProofs.v: the SAME
         function the decode-time theorems of Props/C13.v use), for ALL schemas;
     (b) the constructor is the decoder on the empty document / the empty nested object, with the exact side conditions, and the
         unconditional statement refuted;
     (c) a required record field whose record has a constructor holds the constructed value of that record - at any depth along a
         chain of such fields (induction on the path); without "every record on the chain has a constructor" the statement is
         false (a record without a default of its own breaks the chain): refuted;
     (e) defaults declared in INCLUDED records are not filled (D28 shows in the constructor too): full statement refuted.
   (d) Determinism is a triviality of a pure model (ctor is a function); that two Go instances share no memory is decided by the
   driver (scribble test in harness/codecdrv/c13.go), not here. *)
From Coq.Strings Require Import Byte String.
From Coq Require Import List Bool Arith ZArith NArith Lia.   (* after String: [length] is List.length *)
From GR Require Import Base.Bytes Base.Res Base.Dec Codec.Schema Codec.Doc Codec.Escape Codec.Utf8 Codec.Json Codec.Tracker
  Codec.Decode Codec.Ctor.
From GR Require Import Proofs.Ror2NoPanic Proofs.MissingProofs Proofs.DefaultsProofs.
Import ListNotations.

(* ---------------------------------------------------------------------------------------------------------------------------
   the two passes over the own slots
   --------------------------------------------------------------------------------------------------------------------------- *)
Lemma bind_ok {A B} (r : res A) (k : A -> res B) b : bind r k = Ok b -> exists a, r = Ok a /\ k a = Ok b.
Proof. destruct r as [a| |]; simpl; intros H; try discriminate. exists a. split; [reflexivity|exact H]. Qed.

Section Passes.
  Variable e : env.
  Variable wildcard : bytes.
  Variable parseF : nat -> bytes -> option N.

  Lemma nested_nth C : forall fs vs r, nested e C fs vs = Ok r -> length vs = length fs ->
    length r = length fs /\
    forall j fd ov, nth_error fs j = Some fd -> nth_error vs j = Some ov ->
      exists x, nested_slot e C fd ov = Ok x /\ nth_error r j = Some x.
  Proof.
    induction fs as [|fd fs IH]; intros [|ov vs] r H Hl; simpl in Hl; try discriminate.
    - simpl in H. injection H as <-. split; [reflexivity|]. intros [|j]; discriminate.
    - cbn [nested] in H. apply bind_ok in H as [x [Hx H]]. apply bind_ok in H as [r' [Hr H]]. injection H as <-.
      destruct (IH vs r' Hr ltac:(lia)) as [Hlen Hn]. split; [simpl; lia|].
      intros [|j] fd' ov' Hf Hv; simpl in Hf, Hv.
      + injection Hf as <-. injection Hv as <-. exists x. split; [exact Hx|reflexivity].
      + simpl. apply Hn; assumption.
  Qed.

  Lemma populate_nth f : forall fs vs r, populate e wildcard parseF f fs vs = Ok r -> length vs = length fs ->
    length r = length fs /\
    forall j fd ov, nth_error fs j = Some fd -> nth_error vs j = Some ov ->
      exists x, populate_slot e wildcard parseF f fd ov = Ok x /\ nth_error r j = Some x.
  Proof.
    induction fs as [|fd fs IH]; intros [|ov vs] r H Hl; simpl in Hl; try discriminate.
    - simpl in H. injection H as <-. split; [reflexivity|]. intros [|j]; discriminate.
    - cbn [populate] in H. apply bind_ok in H as [x [Hx H]]. apply bind_ok in H as [r' [Hr H]]. injection H as <-.
      destruct (IH vs r' Hr ltac:(lia)) as [Hlen Hn]. split; [simpl; lia|].
      intros [|j] fd' ov' Hf Hv; simpl in Hf, Hv.
      + injection Hf as <-. injection Hv as <-. exists x. split; [exact Hx|reflexivity].
      + simpl. apply Hn; assumption.
  Qed.

  (* a field that is not (required, of a record type with a constructor) is left alone by the first pass *)
  Definition needs_ctor (fd : field) : bool :=
    match f_opt fd, f_ty fd with
    | Required, TRef m => has_ctor e m
    | _, _ => false
    end.

  Lemma nested_slot_id C fd ov : needs_ctor fd = false -> nested_slot e C fd ov = Ok ov.
  Proof. unfold needs_ctor, nested_slot. destruct (f_opt fd); try reflexivity. destruct (f_ty fd); try reflexivity. intros ->. reflexivity. Qed.

  Lemma nested_id C : forall fs vs, forallb (fun fd => negb (needs_ctor fd)) fs = true -> nested e C fs vs = Ok vs.
  Proof.
    induction fs as [|fd fs IH]; intros [|ov vs] H; try reflexivity. simpl in H. apply andb_true_iff in H as [H1 H2].
    apply negb_true_iff in H1. cbn [nested]. rewrite (nested_slot_id C fd ov H1). cbn [bind]. rewrite (IH vs H2). reflexivity.
  Qed.

  (* the literal read by the constructor is the literal read by the decoder: Decode.lit_value, whatever the reader's own spec *)
  Lemma lit_read_valueS excl ignore f t lit v :
    lit_read e wildcard parseF f t lit = Ok v -> lit_valueS (djmix e wildcard excl ignore parseF f) t lit = Some v.
  Proof.
    unfold lit_read, decode_json, lit_valueS. destruct lit as [|c l]; [discriminate|].
    destruct (bytes_eqb (c :: l) lit_null); [discriminate|].
    destruct (parse_json (c :: l)) as [jd|]; [|discriminate].
    rewrite djmix_true. destruct (decJ e wildcard ps_empty 0 parseF f true t jd tracker0) as [[v' tr]|x|]; cbn [finish].
    - destruct (t_missing tr); [intros H; injection H as <-; reflexivity|].
      destruct (is_record e t); [discriminate|]. intros H; injection H as <-; reflexivity.
    - destruct x; discriminate.
    - discriminate.
  Qed.

  Lemma lit_read_lit_value ignore f t lit v :
    lit_read e wildcard parseF f t lit = Ok v -> lit_value e wildcard ignore parseF f t lit = Some v.
  Proof. intros H. rewrite <- lit_value_eq. exact (lit_read_valueS ps_empty ignore f t lit v H). Qed.

  (* the second pass IS the decoder's fill_defaults when it does not panic *)
  Lemma populate_fill excl ignore f : forall fs vs r, populate e wildcard parseF f fs vs = Ok r ->
    r = fill_defaultsS (djmix e wildcard excl ignore parseF f) fs vs.
  Proof.
    induction fs as [|fd fs IH]; intros [|ov vs] r H; cbn [populate] in H; try (injection H as <-; reflexivity).
    apply bind_ok in H as [x [Hx H]]. apply bind_ok in H as [r' [Hr H]]. injection H as <-.
    cbn [fill_defaultsS]. rewrite <- (IH vs r' Hr). f_equal.
    unfold populate_slot in Hx. destruct ov as [o|]; [injection Hx as <-; reflexivity|].
    destruct (f_opt fd) as [| |lit]; try (injection Hx as <-; reflexivity).
    apply bind_ok in Hx as [v [Hv Hx]]. injection Hx as <-. symmetry. exact (lit_read_valueS excl ignore f _ lit v Hv).
  Qed.
End Passes.

(* ---------------------------------------------------------------------------------------------------------------------------
   every slot of a constructed instance
   --------------------------------------------------------------------------------------------------------------------------- *)
Section Exact.
  Variable e : env.
  Variable wildcard : bytes.
  Variable parseF : nat -> bytes -> option N.

  Notation ctor := (ctor e wildcard parseF).
  Notation lit_read := (lit_read e wildcard parseF).
  Notation zero := (zero_value e (S (length e))).

  (* new(X): what the own slots and the embedded structs hold before the two passes *)
  Definition zero_slot (fd : field) : option value := if is_required (f_opt fd) then Some (zero (f_ty fd)) else None.

  Lemma zero_record n incs fs : lookup e n = Some (DRecord incs fs) ->
    zero_value e (S (S (length e))) (TRef n) = VRec (map (fun i => zero (TRef i)) incs) (map zero_slot fs).
  Proof. intros Hn. cbn [zero_value]. rewrite Hn. reflexivity. Qed.

  (* what slot fd of the instance constructed at fuel (S f) holds *)
  Definition ctor_slot_ok (f : nat) (fd : field) (ov : option value) : Prop :=
    match f_opt fd with
    | Default lit => exists x, lit_read f (f_ty fd) lit = Ok x /\ ov = Some x       (* the literal, read with a fresh JSON reader *)
    | Optional => ov = None                                                        (* stays nil *)
    | Required =>
        match f_ty fd with
        | TRef m => if has_ctor e m
                    then exists x, ctor f m = Ok x /\ ov = Some x                  (* *New<M>WithDefaultValues() *)
                    else ov = Some (zero (f_ty fd))                                (* the Go zero value *)
        | _ => ov = Some (zero (f_ty fd))
        end
    end.

  Theorem ctor_exact : forall f n incs fs v,
    lookup e n = Some (DRecord incs fs) -> ctor (S f) n = Ok v ->
    own_has_default fs = true /\
    exists fvs, v = VRec (map (fun i => zero (TRef i)) incs) fvs /\ length fvs = length fs /\
      forall j fd, nth_error fs j = Some fd -> exists ov, nth_error fvs j = Some ov /\ ctor_slot_ok f fd ov.
  Proof.
    intros f n incs fs v Hn H. cbn [Ctor.ctor] in H. unfold ctor_step in H. rewrite Hn in H.
    destruct (own_has_default fs) eqn:Ed; cbn [negb] in H; [|discriminate]. split; [reflexivity|].
    rewrite (zero_record n incs fs Hn) in H.
    apply bind_ok in H as [fvs1 [H1 H]]. apply bind_ok in H as [fvs2 [H2 H]]. injection H as <-.
    assert (Hl0 : length (map zero_slot fs) = length fs) by apply map_length.
    destruct (nested_nth e _ fs _ fvs1 H1 Hl0) as [Hl1 Hn1].
    destruct (populate_nth e wildcard parseF f fs fvs1 fvs2 H2 Hl1) as [Hl2 Hn2].
    exists fvs2. split; [reflexivity|]. split; [exact Hl2|].
    intros j fd Hj.
    assert (Hz : nth_error (map zero_slot fs) j = Some (zero_slot fd)) by (rewrite nth_error_map, Hj; reflexivity).
    destruct (Hn1 j fd _ Hj Hz) as [x1 [Hx1 Hj1]]. destruct (Hn2 j fd _ Hj Hj1) as [x2 [Hx2 Hj2]].
    exists x2. split; [exact Hj2|].
    unfold ctor_slot_ok, nested_slot, populate_slot, zero_slot in *.
    destruct (f_opt fd) as [| |lit]; cbn [is_required] in *.
    - (* Required *)
      destruct (f_ty fd) as [p|sy|sz|m|t'|t'];
        try (injection Hx1 as <-; injection Hx2 as <-; reflexivity).
      destruct (has_ctor e m).
      + apply bind_ok in Hx1 as [x [Hc Hx1]]. injection Hx1 as <-. injection Hx2 as <-. exists x. split; [exact Hc|reflexivity].
      + injection Hx1 as <-. injection Hx2 as <-. reflexivity.
    - (* Optional *)
      assert (x1 = None) by (destruct (f_ty fd); congruence). subst x1. injection Hx2 as <-. reflexivity.
    - (* Default *)
      assert (x1 = None) by (destruct (f_ty fd); congruence). subst x1.
      apply bind_ok in Hx2 as [x [Hr Hx2]]. injection Hx2 as <-. exists x. split; [exact Hr|reflexivity].
  Qed.

  (* a constructor exists (in the model: does not answer EType) only for a record that declares a default itself *)
  Lemma ctor_ok_has_ctor f n v : ctor (S f) n = Ok v -> has_ctor e n = true.
  Proof.
    intros H. cbn [Ctor.ctor] in H. unfold ctor_step in H. unfold has_ctor.
    destruct (lookup e n) as [[incs fs|]|]; try discriminate. destruct (own_has_default fs); [reflexivity|discriminate].
  Qed.

  (* ---- (a) own defaults ---- *)
  Theorem ctor_fills_own_defaults : forall ignore f n incs fs v,
    lookup e n = Some (DRecord incs fs) -> ctor (S f) n = Ok v ->
    exists ivs fvs, v = VRec ivs fvs /\ length fvs = length fs /\
      forall j fd lit, nth_error fs j = Some fd -> f_opt fd = Default lit ->
        nth_error fvs j = Some (lit_value e wildcard ignore parseF f (f_ty fd) lit) /\
        lit_value e wildcard ignore parseF f (f_ty fd) lit <> None.
  Proof.
    intros ignore f n incs fs v Hn H. destruct (ctor_exact f n incs fs v Hn H) as [_ [fvs [-> [Hl Hs]]]].
    eexists _, fvs. split; [reflexivity|]. split; [exact Hl|]. intros j fd lit Hj Ho.
    destruct (Hs j fd Hj) as [ov [Hov Hok]]. unfold ctor_slot_ok in Hok. rewrite Ho in Hok. destruct Hok as [x [Hr ->]].
    rewrite (lit_read_lit_value e wildcard parseF ignore f _ lit x Hr). split; [exact Hov|discriminate].
  Qed.

  (* optional fields stay unset *)
  Theorem ctor_leaves_optional_unset : forall f n incs fs v,
    lookup e n = Some (DRecord incs fs) -> ctor (S f) n = Ok v ->
    exists ivs fvs, v = VRec ivs fvs /\
      forall j fd, nth_error fs j = Some fd -> f_opt fd = Optional -> nth_error fvs j = Some None.
  Proof.
    intros f n incs fs v Hn H. destruct (ctor_exact f n incs fs v Hn H) as [_ [fvs [-> [Hl Hs]]]].
    eexists _, fvs. split; [reflexivity|]. intros j fd Hj Ho.
    destruct (Hs j fd Hj) as [ov [Hov Hok]]. unfold ctor_slot_ok in Hok. rewrite Ho in Hok. subst ov. exact Hov.
  Qed.

  (* ---- (c) one step of the recursion ---- *)
  Theorem ctor_required_record_field : forall f n incs fs v j fd m,
    lookup e n = Some (DRecord incs fs) -> ctor (S f) n = Ok v ->
    nth_error fs j = Some fd -> f_opt fd = Required -> f_ty fd = TRef m ->
    exists ivs fvs, v = VRec ivs fvs /\
      if has_ctor e m then exists x, nth_error fvs j = Some (Some x) /\ ctor f m = Ok x
      else nth_error fvs j = Some (Some (zero (TRef m))).
  Proof.
    intros f n incs fs v j fd m Hn H Hj Ho Ht. destruct (ctor_exact f n incs fs v Hn H) as [_ [fvs [-> [Hl Hs]]]].
    eexists _, fvs. split; [reflexivity|]. destruct (Hs j fd Hj) as [ov [Hov Hok]]. unfold ctor_slot_ok in Hok.
    rewrite Ho, Ht in Hok. destruct (has_ctor e m).
    - destruct Hok as [x [Hc ->]]. exists x. split; [exact Hov|exact Hc].
    - subst ov. exact Hov.
  Qed.

  (* ---- (c) at any depth: follow a path of own field indices through required record-typed fields ---- *)
  Fixpoint reach (n : nat) (v : value) (path : list nat) : option (nat * value) :=
    match path with
    | [] => Some (n, v)
    | j :: p =>
        match lookup e n, v with
        | Some (DRecord _ fs), VRec _ fvs =>
            match nth_error fs j, nth_error fvs j with
            | Some fd, Some (Some x) =>
                match f_opt fd, f_ty fd with
                | Required, TRef m => reach m x p
                | _, _ => None
                end
            | _, _ => None
            end
        | _, _ => None
        end
    end.

  (* the schema side of a path: every step is a required field of a record type that has a constructor *)
  Fixpoint chain (n : nat) (path : list nat) : bool :=
    match path with
    | [] => true
    | j :: p =>
        match lookup e n with
        | Some (DRecord _ fs) =>
            match nth_error fs j with
            | Some fd => match f_opt fd, f_ty fd with
                         | Required, TRef m => has_ctor e m && chain m p
                         | _, _ => false
                         end
            | None => false
            end
        | _ => false
        end
    end.

  Theorem ctor_at_every_depth : forall path f n v,
    ctor (length path + S f) n = Ok v -> chain n path = true ->
    exists m x, reach n v path = Some (m, x) /\ ctor (S f) m = Ok x.
  Proof.
    induction path as [|j p IH]; intros f n v H Hc.
    - exists n, v. split; [reflexivity|exact H].
    - cbn [chain] in Hc. destruct (lookup e n) as [[incs fs|]|] eqn:Hn; try discriminate.
      destruct (nth_error fs j) as [fd|] eqn:Hj; [|discriminate].
      destruct (f_opt fd) eqn:Ho; try discriminate. destruct (f_ty fd) as [| | |m| |] eqn:Ht; try discriminate.
      apply andb_true_iff in Hc as [Hm Hc]. cbn [length Nat.add] in H.
      destruct (ctor_required_record_field _ n incs fs v j fd m Hn H Hj Ho Ht) as [ivs [fvs [-> Hs]]].
      rewrite Hm in Hs. destruct Hs as [x [Hx Hcx]].
      destruct (IH f m x Hcx Hc) as [m' [x' [Hr Hc']]]. exists m', x'. split; [|exact Hc'].
      cbn [reach]. rewrite Hn, Hj, Hx, Ho, Ht. exact Hr.
  Qed.

  (* ... so the defaults are present at every depth of such a chain *)
  Corollary ctor_defaults_at_every_depth : forall ignore path f n v,
    ctor (length path + S f) n = Ok v -> chain n path = true ->
    exists m x ivs fvs, reach n v path = Some (m, x) /\ x = VRec ivs fvs /\
      forall incs fs, lookup e m = Some (DRecord incs fs) ->
        length fvs = length fs /\
        forall j fd lit, nth_error fs j = Some fd -> f_opt fd = Default lit ->
          nth_error fvs j = Some (lit_value e wildcard ignore parseF f (f_ty fd) lit) /\
          lit_value e wildcard ignore parseF f (f_ty fd) lit <> None.
  Proof.
    intros ignore path f n v H Hc. destruct (ctor_at_every_depth path f n v H Hc) as [m [x [Hr Hx]]].
    pose proof (ctor_ok_has_ctor f m x Hx) as Hm. unfold has_ctor in Hm.
    destruct (lookup e m) as [[incs fs|]|] eqn:Hl; try discriminate.
    destruct (ctor_fills_own_defaults ignore f m incs fs x Hl Hx) as [ivs [fvs [-> [Hlen Hs]]]].
    exists m, (VRec ivs fvs), ivs, fvs. split; [exact Hr|]. split; [reflexivity|].
    intros incs' fs' E. rewrite Hl in E. injection E as <- <-. split; [exact Hlen|exact Hs].
  Qed.

  (* ---- (b) the constructor and the decoder on the empty object ---- *)
  Lemma ctor_value_no_nested : forall excl ignore f n incs fs v,
    lookup e n = Some (DRecord incs fs) -> forallb (fun fd => negb (needs_ctor e fd)) fs = true ->
    ctor (S f) n = Ok v ->
    own_has_default fs = true /\
    v = VRec (map (fun i => zero (TRef i)) incs) (fill_defaultsS (djmix e wildcard excl ignore parseF f) fs (map zero_slot fs)).
  Proof.
    intros excl ignore f n incs fs v Hn Hnn H. cbn [Ctor.ctor] in H. unfold ctor_step in H. rewrite Hn in H.
    destruct (own_has_default fs) eqn:Ed; cbn [negb] in H; [|discriminate]. split; [reflexivity|].
    rewrite (zero_record n incs fs Hn) in H. rewrite (nested_id e _ fs _ Hnn) in H. cbn [bind] in H.
    apply bind_ok in H as [fvs2 [H2 H]]. injection H as <-.
    rewrite (populate_fill e wildcard parseF excl ignore f fs _ fvs2 H2). reflexivity.
  Qed.

  Lemma no_required_no_nested fs : filter (fun fd => is_required (f_opt fd)) fs = [] ->
    forallb (fun fd => negb (needs_ctor e fd)) fs = true.
  Proof.
    induction fs as [|fd fs IH]; [reflexivity|]. simpl. unfold needs_ctor at 1.
    destruct (f_opt fd); simpl; try discriminate; exact IH.
  Qed.

  Lemma parse_empty_object : parse_json [x7b; x7d] = Some (JObj []).
  Proof. vm_compute. reflexivity. Qed.

  (* nested position (the reader is not at the start of its input): `{}` decodes to the constructed value whenever no required field
     is of a record type with a constructor - missing required fields are reported, not an obstacle *)
  Theorem ctor_is_nested_decode_of_empty_object : forall excl ignore f n incs fs v tr,
    lookup e n = Some (DRecord incs fs) -> forallb (fun fd => negb (needs_ctor e fd)) fs = true ->
    ctor (S f) n = Ok v ->
    decJ e wildcard excl ignore parseF (S f) false (TRef n) (JObj []) tr
    = Ok (v, record_missing wildcard excl ignore (required_fields e (S (length e)) n) tr).
  Proof.
    intros excl ignore f n incs fs v tr Hn Hnn H.
    destruct (ctor_value_no_nested excl ignore f n incs fs v Hn Hnn H) as [Hd ->].
    rewrite decJ_unfold. cbn [stepJ]. rewrite Hn. cbn [bind goJrec andb]. rewrite Hd. cbn [negb orb].
    rewrite (zero_record n incs fs Hn). reflexivity.
  Qed.

  (* the start of the input: `{}` decodes to the constructed value when the record (includes counted) has no required field *)
  Theorem ctor_is_decode_of_empty_document : forall excl ignore f n incs fs v,
    lookup e n = Some (DRecord incs fs) -> required_fields e (S (length e)) n = [] ->
    ctor (S f) n = Ok v ->
    decode_json e wildcard excl ignore parseF (S f) (TRef n) [x7b; x7d] = DOk v.
  Proof.
    intros excl ignore f n incs fs v Hn Hreq H.
    assert (Hf : filter (fun fd => is_required (f_opt fd)) fs = []).
    { cbn [required_fields] in Hreq. rewrite Hn in Hreq. apply app_eq_nil in Hreq as [_ Hreq].
      destruct (filter _ fs); [reflexivity|discriminate]. }
    destruct (ctor_value_no_nested excl ignore f n incs fs v Hn (no_required_no_nested fs Hf) H) as [Hd ->].
    unfold decode_json. change (bytes_eqb [x7b; x7d] lit_null) with false. cbv iota. rewrite parse_empty_object.
    rewrite decJ_unfold. cbn [stepJ]. rewrite Hn. cbn [bind goJrec]. rewrite Hreq, Hd.
    unfold record_missing. cbn [filter map t_missing tracker0 app andb negb orb finish].
    rewrite (zero_record n incs fs Hn). reflexivity.
  Qed.
End Exact.

(* ---------------------------------------------------------------------------------------------------------------------------
   full statements that are false of the model of the current code, with witnesses
   --------------------------------------------------------------------------------------------------------------------------- *)
(* (b) without a side condition: the constructed value is what the decoder makes of the empty document *)
Definition ctor_is_decode_of_empty_document_full : Prop :=
  forall e wildcard parseF excl ignore f n incs fs v,
    lookup e n = Some (DRecord incs fs) ->
    ctor e wildcard parseF (S f) n = Ok v ->
    decode_json e wildcard excl ignore parseF (S f) (TRef n) [x7b; x7d] = DOk v.

(* Base { id : int; c : int = 7 } (record 0 of c13_env): the constructor fills c next to the zero id; the decoder reports id and -
   raising at the start of its input - leaves c nil (D35) *)
Lemma ctor_vs_decode_witness :
  ctor c13_env c13_star c13_pf 4 0 = Ok (VRec [] [Some (VInt 0); Some (VInt 7)])
  /\ decode_json c13_env c13_star ps_empty 0 c13_pf 4 (TRef 0) [x7b; x7d] = DMissing [c13_b "id"] (VRec [] [Some (VInt 0); None]).
Proof. vm_compute. split; reflexivity. Qed.

Theorem ctor_is_decode_of_empty_document_refuted : ~ ctor_is_decode_of_empty_document_full.
Proof.
  intros H. specialize (H c13_env c13_star c13_pf ps_empty 0 3 0 _ _ _ eq_refl (proj1 ctor_vs_decode_witness)).
  rewrite (proj2 ctor_vs_decode_witness) in H. discriminate.
Qed.

(* (c) without "every record on the path has a constructor": every record reached from a constructed instance through required
   record-typed fields carries its own defaults *)
Definition ctor_defaults_at_every_depth_full : Prop :=
  forall e wildcard parseF fuel n v path m x incs fs j fd lit,
    ctor e wildcard parseF fuel n = Ok v -> reach e n v path = Some (m, x) ->
    lookup e m = Some (DRecord incs fs) -> nth_error fs j = Some fd -> f_opt fd = Default lit ->
    exists ivs fvs y, x = VRec ivs fvs /\ nth_error fvs j = Some (Some y).

(* 0: L3 { x : int = 5 }   1: L2 { deep : L3 }   2: L1 { mid : L2; j : int = 1 }
   L2 declares no default itself, so it has no constructor and New_L1_WithDefaultValues leaves mid as new(L1) made it: mid.deep.x is nil *)
Definition gap_env : env :=
  [ DRecord [] [ c13_fld "x" (TPrim PInt) (Default (c13_b "5")) ];
    DRecord [] [ c13_fld "deep" (TRef 0) Required ];
    DRecord [] [ c13_fld "mid" (TRef 1) Required; c13_fld "j" (TPrim PInt) (Default (c13_b "1")) ] ].

Lemma ctor_gap_witness :
  ctor gap_env c13_star c13_pf 5 2 = Ok (VRec [] [Some (VRec [] [Some (VRec [] [None])]); Some (VInt 1)])
  /\ reach gap_env 2 (VRec [] [Some (VRec [] [Some (VRec [] [None])]); Some (VInt 1)]) [0; 0] = Some (0, VRec [] [None])
  /\ ctor gap_env c13_star c13_pf 5 0 = Ok (VRec [] [Some (VInt 5)])
  /\ has_ctor gap_env 1 = false.
Proof. vm_compute. repeat split; reflexivity. Qed.

Theorem ctor_defaults_at_every_depth_refuted : ~ ctor_defaults_at_every_depth_full.
Proof.
  intros H.
  destruct (H gap_env c13_star c13_pf 5 2 _ [0; 0] 0 _ [] _ 0 _ (c13_b "5")
              (proj1 ctor_gap_witness) (proj1 (proj2 ctor_gap_witness)) eq_refl eq_refl eq_refl) as [ivs [fvs [y [E Hs]]]].
  injection E as <- <-. discriminate.
Qed.

(* (e) D28 in the constructor: EVERY defaulted field of the flattened record - own or inherited through includes - holds its literal *)
Definition ctor_included_defaults_full : Prop :=
  forall e wildcard ignore parseF, wf_schema e ->
  forall f n v fd lit,
    ctor e wildcard parseF (S f) n = Ok v ->
    In fd (fields_of e n) -> f_opt fd = Default lit ->
    get_slot e (S (length e)) n (f_name fd) v = Some (lit_value e wildcard ignore parseF f (f_ty fd) lit).

(* New_Outer_WithDefaultValues (Outer includes Base {id; c = 7}, own {name?; k = 5}): k is filled, the inherited c is not - the
   embedded Base is the zero struct *)
Lemma ctor_included_defaults_witness :
  ctor c13_env c13_star c13_pf 4 1 = Ok (VRec [VRec [] [Some (VInt 0); None]] [None; Some (VInt 5)]).
Proof. vm_compute. reflexivity. Qed.

Theorem ctor_included_defaults_refuted : ~ ctor_included_defaults_full.
Proof.
  intros H.
  assert (Hin : In (c13_fld "c" (TPrim PInt) (Default (c13_b "7"))) (fields_of c13_env 1)) by (vm_compute; auto).
  specialize (H c13_env c13_star 0 c13_pf c13_wf 3 1 _ _ (c13_b "7") ctor_included_defaults_witness Hin eq_refl).
  vm_compute in H. discriminate.
Qed.

(* what holds of the included records: their embedded structs are the zero values new(X) made *)
Theorem ctor_includes_are_zero : forall e wildcard parseF f n incs fs v,
  lookup e n = Some (DRecord incs fs) -> ctor e wildcard parseF (S f) n = Ok v ->
  exists fvs, v = VRec (map (fun i => zero_value e (S (length e)) (TRef i)) incs) fvs.
Proof.
  intros e wildcard parseF f n incs fs v Hn H. destruct (ctor_exact e wildcard parseF f n incs fs v Hn H) as [_ [fvs [-> _]]].
  exists fvs. reflexivity.
Qed.

(* ---------------------------------------------------------------------------------------------------------------------------
   non-vacuity: a chain of three required record fields, each record with defaults of its own (the family's D1 -> D2 -> D3)
   --------------------------------------------------------------------------------------------------------------------------- *)
(* 0: D3 { x : int = 5; tags : array[string] = ["t"]; o : string? }   1: D2 { deep : D3; k : int = 2 }   2: D1 { rRec : D2; j : int = 1 } *)
Definition chain_env : env :=
  [ DRecord [] [ c13_fld "x" (TPrim PInt) (Default (c13_b "5")); c13_fld "tags" (TArray (TPrim PString)) (Default (c13_b "[""t""]"));
                 c13_fld "o" (TPrim PString) Optional ];
    DRecord [] [ c13_fld "deep" (TRef 0) Required; c13_fld "k" (TPrim PInt) (Default (c13_b "2")) ];
    DRecord [] [ c13_fld "rRec" (TRef 1) Required; c13_fld "j" (TPrim PInt) (Default (c13_b "1")) ] ].

Definition chain_d3 : value := VRec [] [Some (VInt 5); Some (VArr [VStr (c13_b "t")]); None].
Definition chain_d2 : value := VRec [] [Some chain_d3; Some (VInt 2)].
Definition chain_d1 : value := VRec [] [Some chain_d2; Some (VInt 1)].

Lemma ctor_chain_nonvacuous :
  ctor chain_env c13_star c13_pf 6 2 = Ok chain_d1
  /\ chain chain_env 2 [0; 0] = true
  /\ reach chain_env 2 chain_d1 [0; 0] = Some (0, chain_d3)
  /\ ctor chain_env c13_star c13_pf 4 0 = Ok chain_d3
  /\ lit_value chain_env c13_star 0 c13_pf 3 (TArray (TPrim PString)) (c13_b "[""t""]") = Some (VArr [VStr (c13_b "t")])
  /\ required_fields chain_env 4 0 = []
  /\ decode_json chain_env c13_star ps_empty 0 c13_pf 4 (TRef 0) [x7b; x7d] = DOk chain_d3.
Proof. vm_compute. repeat split; reflexivity. Qed.
