(* C10: the general lemmas of HashProofs.v instantiated on what hasher.go of the CURRENT tree says (the translator-read flags are
   discharged by reflexivity: reverting the zero normalisation or the sort in AddMap breaks these proofs), contrapositive forms,
   and the library key types (primitives through HashInt32 ... / ==, typerefs, enums, complex keys on their key part). *)
From Coq Require Import List Bool Arith ZArith NArith Lia Permutation.
From Coq.Strings Require Import Byte.
From GR Require Import Base.Bytes Codec.Schema Gen.TablesFnv Hash.Fnv Hash.Equals Hash.HashSpec Proofs.HashProofs.
Import ListNotations.

Lemma v2_flags : fp_norm32 v2_params = true /\ fp_norm64 v2_params = true /\ fp_map_sorted v2_params = true.
Proof. repeat split; reflexivity. Qed.
Lemma root_flags : fp_norm32 root_params = true /\ fp_norm64 root_params = true /\ fp_map_sorted root_params = true.
Proof. repeat split; reflexivity. Qed.

Lemma equal_implies_same_hash_v2 : forall e f t a b,
  wfV e f t a = true -> wfV e f t b = true -> equalsV e f t a b = true -> hashV v2_params e f t a = hashV v2_params e f t b.
Proof.
  intros e f t a b Ha Hb Heq. destruct v2_flags as [H1 [H2 H3]].
  exact (equal_implies_same_hash v2_params e f t a b H1 H2 H3 Ha Hb Heq).
Qed.

Lemma equal_implies_same_hash_root : forall e f t a b,
  wfV e f t a = true -> wfV e f t b = true -> equalsV e f t a b = true -> hashV root_params e f t a = hashV root_params e f t b.
Proof.
  intros e f t a b Ha Hb Heq. destruct root_flags as [H1 [H2 H3]].
  exact (equal_implies_same_hash root_params e f t a b H1 H2 H3 Ha Hb Heq).
Qed.

Lemma equals_discriminates : forall e f t a b,
  wfV e f t a = true -> wfV e f t b = true -> ~ same a b -> equalsV e f t a b = false.
Proof.
  intros e f t a b Ha Hb Hns. destruct (equalsV e f t a b) eqn:Heq; [|reflexivity].
  exfalso. apply Hns. exact (equals_same e f t a b Ha Hb Heq).
Qed.

Lemma equals_iff_same : forall e f t a b,
  wfV e f t a = true -> wfV e f t b = true -> (equalsV e f t a b = true <-> same a b).
Proof.
  intros e f t a b Ha Hb. split.
  - exact (equals_same e f t a b Ha Hb).
  - intro Hs. exact (same_equals e f t a b Hs Ha).
Qed.

Lemma hash_is_pure_v2 : forall e f t a b,
  same a b -> wfV e f t a = true -> hashV v2_params e f t a = hashV v2_params e f t b.
Proof.
  intros e f t a b Hs Ha. destruct v2_flags as [H1 [H2 H3]].
  exact (hash_same v2_params e f t a b H1 H2 H3 Hs Ha).
Qed.

(* ---- library key types.  Primitive keys: fnv1a.HashInt32 ... HashBytes and Go's == / equals.Bytes are equalsV / hashV at
   type HPrim p (one unit of fuel suffices); typerefs HTyperef p; enums HEnum n. *)
Lemma prim_key_equal : forall e p a b, equalsV e 1 (HPrim p) a b = prim_equal p a b.
Proof. reflexivity. Qed.
Lemma prim_key_hash : forall P e p v, hashV P e 1 (HPrim p) v = add_prim P p v (new_hash P).
Proof. reflexivity. Qed.
Lemma prim_key_wf : forall e p v, wfV e 1 (HPrim p) v = prim_wf p v.
Proof. reflexivity. Qed.

Lemma prim_equal_sym_wf : forall p a b, prim_wf p a = true -> prim_wf p b = true -> prim_equal p a b = prim_equal p b a.
Proof. intros p a b Ha Hb. exact (equals_sym [] 1 (HPrim p) a b Ha Hb). Qed.
Lemma prim_equal_trans_all : forall p a b c, prim_equal p a b = true -> prim_equal p b c = true -> prim_equal p a c = true.
Proof. intros p a b c H1 H2. exact (equals_trans [] 1 (HPrim p) a b c H1 H2). Qed.
Lemma prim_equal_refl_wf : forall p a, prim_wf p a = true -> prim_equal p a a = true.
Proof. intros p a Ha. exact (equals_refl [] 1 (HPrim p) a Ha). Qed.

(* complex keys on their key part *)
Lemma ck_equal_implies_same_hash_v2 : forall e f n a b,
  ck_wfV e f n a = true -> ck_wfV e f n b = true -> ck_equalsV e f n a b = true -> ck_hashV v2_params e f n a = ck_hashV v2_params e f n b.
Proof.
  intros e f n a b Ha Hb Heq. destruct v2_flags as [H1 [H2 H3]].
  exact (ck_equal_implies_same_hash v2_params e f n a b H1 H2 H3 Ha Hb Heq).
Qed.

Lemma prim_key_facts : forall e p a b,
  (equalsV e 1 (HPrim p) a b = prim_equal p a b) /\ (hashV v2_params e 1 (HPrim p) a = add_prim v2_params p a (new_hash v2_params)) /\
  (wfV e 1 (HPrim p) a = prim_wf p a).
Proof. intros e p a b. exact (conj (prim_key_equal e p a b) (conj (prim_key_hash v2_params e p a) (prim_key_wf e p a))). Qed.

Lemma ck_equivalence : forall e f n,
  (forall v, ck_wfV e f n v = true -> ck_equalsV e f n v v = true) /\
  (forall a b, ck_wfV e f n a = true -> ck_wfV e f n b = true -> ck_equalsV e f n a b = ck_equalsV e f n b a) /\
  (forall a b c, ck_equalsV e f n a b = true -> ck_equalsV e f n b c = true -> ck_equalsV e f n a c = true).
Proof. intros e f n. exact (conj (ck_equals_refl e f n) (conj (ck_equals_sym e f n) (ck_equals_trans e f n))). Qed.

(* the root module's fnv1a and restli/equals packages are the v2 ones up to the module path (translator: textual comparison) *)
Lemma modules_share_sources : root_fnv1a_source_same_as_v2 = true /\ root_equals_source_same_as_v2 = true.
Proof. split; reflexivity. Qed.
