(* C16: the abstract key-set lemmas (KeySetProofs.v) instantiated on the three kinds of key sets NewBatchKeySet builds
   (generic.go:115-160): simple keys (ComputeHash / Equals = hashV / equalsV), complex keys (ComputeComplexKeyHash / ComplexKeyEquals
   = ck_hashV / ck_equalsV: key part only), primitive keys (a Go map: ==).  The premises "equality is symmetric / transitive" and
   "equal keys hash alike" are discharged by the C10 lemmas (HashProofs.v) on the hasher of the current tree. *)
From Coq Require Import List Bool Arith ZArith NArith Lia Permutation Sorting.Sorted.
From Coq.Strings Require Import Byte.
From GR Require Import Base.Bytes Codec.Schema Codec.Tracker Gen.TablesFnv Hash.Fnv Hash.Equals Hash.HashSpec Hash.KeySet
  Proofs.HashProofs Proofs.HashInst Proofs.KeySetProofs.
Import ListNotations.

(* ------------------------------------------------------------------------------------------------ simple keys *)
Section Simple.
  Variables (e : henv) (f : nat) (t : hty).
  Definition sgood (v : value) : Prop := wfV e f t v = true.
  Definition skeq : value -> value -> bool := equalsV e f t.
  Definition shash : value -> N := hashV v2_params e f t.

  Lemma s_sym : forall a b, sgood a -> sgood b -> skeq a b = skeq b a.
  Proof. exact (equals_sym e f t). Qed.
  Lemma s_trans : forall a b c, sgood a -> sgood b -> sgood c -> skeq a b = true -> skeq b c = true -> skeq a c = true.
  Proof. intros a b c _ _ _. exact (equals_trans e f t a b c). Qed.
  Lemma s_hash : forall a b, sgood a -> sgood b -> skeq a b = true -> shash a = shash b.
  Proof. exact (equal_implies_same_hash_v2 e f t). Qed.

  Lemma simple_add_rejects_duplicates : forall ks, Forall sgood ks ->
    (add_all value shash skeq (empty_g value) ks = None <->
     exists i j a b, i < j /\ nth_error ks i = Some a /\ nth_error ks j = Some b /\ skeq a b = true).
  Proof. exact (add_rejects_duplicates_g value shash skeq sgood s_sym s_hash). Qed.

  Lemma simple_locate_returns_original : forall ks s k o, Forall sgood ks -> sgood k ->
    add_all value shash skeq (empty_g value) ks = Some s -> In o ks -> skeq o k = true -> locate value shash skeq s k = Some o.
  Proof. exact (locate_returns_original_g value shash skeq sgood s_sym s_trans s_hash). Qed.

  Lemma simple_ids_no_repetition : forall (encode_key : value -> bytes),
    (forall a b, sgood a -> sgood b -> encode_key a = encode_key b -> skeq a b = true) ->
    forall ks s, Forall sgood ks -> add_all value shash skeq (empty_g value) ks = Some s ->
    NoDup (encode_ids value encode_key s).
  Proof.
    intros enc Hinj.
    exact (ids_nodup value shash skeq sgood s_sym s_hash enc (empty_g value) (or_introl eq_refl) Hinj).
  Qed.

  (* AddAllMapKeys adds the keys of a Go map in its iteration order: rejection does not depend on the order *)
  Lemma simple_add_all_order_independent : forall ks ks', Forall sgood ks -> Permutation ks ks' ->
    (add_all value shash skeq (empty_g value) ks = None <-> add_all value shash skeq (empty_g value) ks' = None).
  Proof. exact (add_all_none_perm value shash skeq sgood s_sym s_hash (empty_g value) (or_introl eq_refl)). Qed.

  Lemma simple_response_filed_under_original : forall (decode_key : bytes -> option value) (P : Type),
    (forall raw k, decode_key raw = Some k -> sgood k) ->
    forall ks s (entries : list (bytes * option P)) m, Forall sgood ks ->
    add_all value shash skeq (empty_g value) ks = Some s ->
    reply_nodup value skeq decode_key P entries ->
    fill value shash skeq decode_key P s [] entries = inr m ->
    Forall2 (fun e kp => snd e = Some (snd kp) /\ In (fst kp) ks /\ exists k, decode_key (fst e) = Some k /\ skeq (fst kp) k = true) entries m.
  Proof. intros dk P Hg. exact (fill_filed_under_original_g value shash skeq sgood s_sym s_trans dk Hg P). Qed.
End Simple.

(* ------------------------------------------------------------------------------------------------ complex keys *)
Section Complex.
  Variables (e : henv) (f : nat) (n : nat).
  Definition cgood (v : value) : Prop := ck_wfV e f n v = true.
  Definition ckeq : value -> value -> bool := ck_equalsV e f n.
  Definition chash : value -> N := ck_hashV v2_params e f n.

  Lemma c_sym : forall a b, cgood a -> cgood b -> ckeq a b = ckeq b a.
  Proof. exact (ck_equals_sym e f n). Qed.
  Lemma c_trans : forall a b c, cgood a -> cgood b -> cgood c -> ckeq a b = true -> ckeq b c = true -> ckeq a c = true.
  Proof. intros a b c _ _ _. exact (ck_equals_trans e f n a b c). Qed.
  Lemma c_hash : forall a b, cgood a -> cgood b -> ckeq a b = true -> chash a = chash b.
  Proof. exact (ck_equal_implies_same_hash_v2 e f n). Qed.

  Lemma complex_add_rejects_duplicates : forall ks, Forall cgood ks ->
    (add_all value chash ckeq (empty_g value) ks = None <->
     exists i j a b, i < j /\ nth_error ks i = Some a /\ nth_error ks j = Some b /\ ckeq a b = true).
  Proof. exact (add_rejects_duplicates_g value chash ckeq cgood c_sym c_hash). Qed.

  Lemma complex_locate_returns_original : forall ks s k o, Forall cgood ks -> cgood k ->
    add_all value chash ckeq (empty_g value) ks = Some s -> In o ks -> ckeq o k = true -> locate value chash ckeq s k = Some o.
  Proof. exact (locate_returns_original_g value chash ckeq cgood c_sym c_trans c_hash). Qed.

  Lemma complex_add_all_order_independent : forall ks ks', Forall cgood ks -> Permutation ks ks' ->
    (add_all value chash ckeq (empty_g value) ks = None <-> add_all value chash ckeq (empty_g value) ks' = None).
  Proof. exact (add_all_none_perm value chash ckeq cgood c_sym c_hash (empty_g value) (or_introl eq_refl)). Qed.

  Lemma complex_response_filed_under_original : forall (decode_key : bytes -> option value) (P : Type),
    (forall raw k, decode_key raw = Some k -> cgood k) ->
    forall ks s (entries : list (bytes * option P)) m, Forall cgood ks ->
    add_all value chash ckeq (empty_g value) ks = Some s ->
    reply_nodup value ckeq decode_key P entries ->
    fill value chash ckeq decode_key P s [] entries = inr m ->
    Forall2 (fun e kp => snd e = Some (snd kp) /\ In (fst kp) ks /\ exists k, decode_key (fst e) = Some k /\ ckeq (fst kp) k = true) entries m.
  Proof. intros dk P Hg. exact (fill_filed_under_original_g value chash ckeq cgood c_sym c_trans dk Hg P). Qed.

  (* equality and hash of complex keys do not look at the params: two keys with the same key part are duplicates *)
  Lemma complex_params_ignored : forall k ia ib fa fb,
    ckeq (VRec (k :: ia) fa) (VRec (k :: ib) fb) = ckeq (VRec [k] []) (VRec [k] []) /\
    chash (VRec (k :: ia) fa) = chash (VRec (k :: ib) fb).
  Proof.
    intros k ia ib fa fb. split.
    - exact (ck_ignores_params e f n k k ia ib fa fb [] [] [] []).
    - exact (ck_hash_ignores_params v2_params e f n k ia fa ib fb).
  Qed.
End Complex.

(* ------------------------------------------------------------------------------------------------ primitive keys *)
Section Primitive.
  Variable p : prim.
  Definition pgood (v : value) : Prop := prim_wf p v = true.
  Definition pkeq : value -> value -> bool := prim_equal p.
  Definition phash : value -> N := fun _ => 0%N.      (* the primitive set does not hash *)

  Lemma p_sym : forall a b, pgood a -> pgood b -> pkeq a b = pkeq b a.
  Proof. exact (prim_equal_sym_wf p). Qed.
  Lemma p_hash : forall a b, pgood a -> pgood b -> pkeq a b = true -> phash a = phash b.
  Proof. reflexivity. Qed.

  Lemma primitive_add_rejects_duplicates : forall ks, Forall pgood ks ->
    (add_all value phash pkeq (empty_p value) ks = None <->
     exists i j a b, i < j /\ nth_error ks i = Some a /\ nth_error ks j = Some b /\ pkeq a b = true).
  Proof. exact (add_rejects_duplicates_p value phash pkeq pgood p_sym p_hash). Qed.

  Lemma p_trans : forall a b c, pgood a -> pgood b -> pgood c -> pkeq a b = true -> pkeq b c = true -> pkeq a c = true.
  Proof. intros a b c _ _ _. exact (prim_equal_trans_all p a b c). Qed.

  (* primitive.go:21-24 (after 2a711aa): the STORED value is returned - for floats, the caller's own sign of zero *)
  Lemma primitive_locate_returns_original : forall ks s k o, Forall pgood ks -> pgood k ->
    add_all value phash pkeq (empty_p value) ks = Some s -> In o ks -> pkeq o k = true -> locate value phash pkeq s k = Some o.
  Proof. exact (locate_returns_original_p value phash pkeq pgood p_sym p_trans). Qed.

  Lemma primitive_response_filed_under_original : forall (decode_key : bytes -> option value) (P : Type),
    (forall raw k, decode_key raw = Some k -> pgood k) ->
    forall ks s (entries : list (bytes * option P)) m, Forall pgood ks ->
    add_all value phash pkeq (empty_p value) ks = Some s ->
    reply_nodup value pkeq decode_key P entries ->
    fill value phash pkeq decode_key P s [] entries = inr m ->
    Forall2 (fun e kp => snd e = Some (snd kp) /\ In (fst kp) ks /\ exists k, decode_key (fst e) = Some k /\ pkeq (fst kp) k = true) entries m.
  Proof. intros dk P Hg. exact (fill_filed_under_original_p value phash pkeq pgood p_sym p_trans dk Hg P). Qed.
End Primitive.

(* the caller's +0 is handed back for a looked-up -0 (the case that failed before 2a711aa) *)
Example primitive_signed_zero_original :
  exists s, add_all value phash (pkeq PDouble) (empty_p value) [VDouble 0] = Some s /\
            locate value phash (pkeq PDouble) s (VDouble 9223372036854775808) = Some (VDouble 0).
Proof. eexists. split; reflexivity. Qed.

(* a stranger whose hash collides with a requested key's is not found, even when that key is alone in its bucket: witness on the
   FNV constants of the current tree (the two int64 keys hash alike) *)
Example colliding_stranger_not_found :
  let t := HTyperef PLong in
  shash [] 2 t (VLong 838517077) = shash [] 2 t (VLong 149557353) /\
  exists s, add_all value (shash [] 2 t) (skeq [] 2 t) (empty_g value) [VLong 838517077] = Some s /\
            locate value (shash [] 2 t) (skeq [] 2 t) s (VLong 149557353) = None.
Proof. vm_compute. split; [reflexivity|]. eexists. split; reflexivity. Qed.
