(* C16, schema defaults in record keys: the key a server echoes is decoded by the generated UnmarshalRestLi, which fills the schema
   defaults of unset fields in (C01: decode (encode k) = expect k, Proofs/Ror2RoundTrip.v).  A caller's key that leaves a defaulted
   field unset is therefore not key-equal to its own echo, and LocateOriginalKey does not find it.  This file has the vocabulary
   (default_complete, the echo of a key, the decoding of a raw reply key - the codec instances Corr/KeySetCorr.v uses) and the proof of
   the positive statement: default-complete keys are found again under their echo.  No model is touched. *)
From Coq Require Import List Bool Arith ZArith NArith Lia Permutation.
From Coq.Strings Require Import Byte.
From GR Require Import Base.Bytes Base.Res Base.Dec Codec.Schema Codec.Doc Codec.Escape Codec.Tracker Codec.Render Codec.Encode
  Codec.Decode Gen.TablesCodec Gen.TablesFnv Hash.Fnv Hash.Equals Hash.HashSpec Hash.KeySet
  Proofs.HashProofs Proofs.KeySetProofs Proofs.KeySetInst Proofs.Ror2RoundTrip Proofs.JsonRoundTrip.
Import ListNotations.

(* ------------------------------------------------------------------------------------------------ vocabulary *)
(* the echo of a key: BatchResponse.MarshalRestLi writes every map key with a ROR2 header writer (restlidata/.../structs.go:67,
   NewRor2HeaderWriter + key.MarshalRestLi); a key that does not encode is never sent (any text that does not decode) *)
Definition echo_key (fmtF : bool -> N -> bytes) (ce : env) (fe : nat) (t : ty) (v : value) : bytes :=
  match enc ce v2_wildcard ps_empty fe [] t v with
  | Ok d => render_ror2 fmtF v2_hex_chars v2_unescaped_path_chars v2_unescaped_query_chars v2_header_escaped_chars
              v2_empty_string v2_list_prefix FHeader d
  | _ => [x21; x21]
  end.

(* structs.go:147 + generic.go:47: NewRor2Reader(rawKey), UnmarshalRestLi[K] (= Corr/KeySetCorr.v decode_key) *)
Definition key_decode (parseF : nat -> bytes -> option N) (ce : env) (fd : nat) (t : ty) (raw : bytes) : option value :=
  match decode_ror2 ce v2_wildcard ps_empty 0 parseF (unescape false) v2_empty_string v2_list_prefix false fd None t raw with
  | DOk v => Some v
  | _ => None
  end.

(* no field that has a schema default is unset, at any depth (own fields, included records, array items, map values, union members) *)
Definition is_leaf (v : value) : Prop :=
  match v with VArr _ | VMap _ | VRec _ _ | VUnion _ => False | _ => True end.

Inductive default_complete (e : env) : ty -> value -> Prop :=
| DC_leaf t v : is_leaf v -> default_complete e t v
| DC_arr t l : Forall (default_complete e t) l -> default_complete e (TArray t) (VArr l)
| DC_map t es : Forall (fun kv => default_complete e t (snd kv)) es -> default_complete e (TMap t) (VMap es)
| DC_rec n incs fs ivs fvs : lookup e n = Some (DRecord incs fs) ->
    Forall2 (fun i iv => default_complete e (TRef i) iv) incs ivs ->
    Forall2 (fun fd ov => (forall x, ov = Some x -> default_complete e (f_ty fd) x) /\
                          (ov = None -> has_default (f_opt fd) = false)) fs fvs ->
    default_complete e (TRef n) (VRec ivs fvs)
| DC_union n nullable ms vs : lookup e n = Some (DUnion nullable ms) ->
    Forall2 (fun (m : bytes * ty) ov => forall x, ov = Some x -> default_complete e (snd m) x) ms vs ->
    default_complete e (TRef n) (VUnion vs).

(* ------------------------------------------------------------------------------------------------ 1. a value and its canonical form
   (map entries sorted by key) are "the same value" (HashSpec.same), hence key-equal *)
Lemma prim_same_canon : forall p v, prim_wf p v = true -> same v (canon v).
Proof.
  intros p v H. destruct p, v; cbn [prim_wf] in H; try discriminate H; cbn [canon]; constructor.
  - apply feq32_refl. apply negb_true_iff. exact H.
  - apply feq64_refl. apply negb_true_iff. exact H.
Qed.

Lemma esames_map_canon : forall l : list (bytes * value),
  (forall kv, In kv l -> same (snd kv) (canon (snd kv))) -> esames l (map (map_val canon) l).
Proof.
  induction l as [|[k x] l IH]; intros H; cbn [map map_val]; constructor.
  - apply (H (k, x)). left. reflexivity.
  - apply IH. intros kv Hin. apply H. right. exact Hin.
Qed.

Lemma same_canon : forall he f t v, wfV he f t v = true -> same v (canon v).
Proof.
  intros he f. induction f as [|f IH]; intros t v Hw; [discriminate|].
  rewrite wfV_S in Hw.
  destruct t as [p|p|n|n|n|t'|t'].
  - exact (prim_same_canon p v Hw).
  - exact (prim_same_canon p v Hw).
  - destruct v; simpl in Hw; try discriminate. cbn [canon]. constructor.
  - destruct v; simpl in Hw; try discriminate. cbn [canon]. constructor.
  - destruct v as [| | | | | | | | |ia fa|ms| |]; simpl in Hw; try discriminate.
    + destruct (hlookup he n) as [[incs fs|mts]|]; try discriminate.
      apply andb_true_iff in Hw as [Hi Hf]. cbn [canon]. constructor.
      * clear Hf. revert incs Hi. induction ia as [|p ia IHa]; intros [|i incs] Hi; simpl in Hi; try discriminate; cbn [map]; constructor.
        -- apply andb_true_iff in Hi as [H1 _]. exact (IH _ _ H1).
        -- apply andb_true_iff in Hi as [_ H2]. exact (IHa _ H2).
      * clear Hi. revert fs Hf. induction fa as [|p fa IHa]; intros [|fd fs] Hf; simpl in Hf; try discriminate; cbn [map]; [constructor|].
        apply andb_true_iff in Hf as [Hf1 Hf2]. apply andb_true_iff in Hf1 as [_ Hf1].
        destruct p as [x|]; cbn [option_map]; constructor; try exact (IHa _ Hf2).
        exact (IH _ _ Hf1).
    + destruct (hlookup he n) as [[incs fs|mts]|]; try discriminate.
      cbn [canon]. constructor.
      revert mts Hw. induction ms as [|p ms IHa]; intros [|mt mts] Hw; simpl in Hw; try discriminate; cbn [map]; [constructor|].
      apply andb_true_iff in Hw as [Hw1 Hw2].
      destruct p as [x|]; cbn [option_map]; constructor; try exact (IHa _ Hw2).
      exact (IH _ _ Hw1).
  - destruct v as [| | | | | | | | | | |l|]; simpl in Hw; try discriminate. cbn [canon]. constructor.
    induction l as [|x l IHl]; cbn [map]; constructor.
    + simpl in Hw. apply andb_true_iff in Hw as [H1 _]. exact (IH _ _ H1).
    + simpl in Hw. apply andb_true_iff in Hw as [_ H2]. exact (IHl H2).
  - destruct v as [| | | | | | | | | | | |es]; simpl in Hw; try discriminate.
    apply andb_true_iff in Hw as [_ Hw]. rewrite forallb_forall in Hw.
    rewrite canon_map. apply HashSpec.same_map with (es1 := sort_entries es).
    + apply Permutation_sym. apply sort_entries_perm.
    + rewrite <- sort_entries_map. apply esames_map_canon. intros kv Hin.
      apply (IH t'). apply Hw. exact (Permutation_in _ (sort_entries_perm es) Hin).
Qed.

(* ------------------------------------------------------------------------------------------------ 2. the value the decoder returns
   for the text of a default-complete value is its canonical form (C01: it is [expect], which fills the defaults of unset fields) *)
Section ExpectDC.
  Variable parseF : nat -> bytes -> option N.
  Variable e : env.
  Variable wc : bytes.
  Variable ignore : nat.
  Local Notation typed := (typed e).
  Local Notation dc := (default_complete e).
  Local Notation expect := (expect parseF e wc ignore).
  Local Notation expect_body := (expect_body parseF e wc ignore).
  Local Notation eb_flds := (eb_flds parseF e wc ignore).
  Local Notation eb_incs := (eb_incs parseF e wc ignore).
  Local Notation fill_ := (fill_ parseF e wc ignore).
  Local Notation expect_union_go := (expect_union_go parseF e wc ignore).

  Definition dc_fld (fd : field) (ov : option value) : Prop :=
    (forall x, ov = Some x -> dc (f_ty fd) x) /\ (ov = None -> has_default (f_opt fd) = false).

  Lemma fill_noop f : forall fs vf, Forall2 dc_fld fs vf ->
    fill_ f fs (map (option_map canon) vf) = map (option_map canon) vf.
  Proof.
    intros fs vf HF. induction HF as [|fd ov fs vf [_ Hn] HF IH]; [reflexivity|].
    cbn [map Ror2RoundTrip.fill_]. f_equal; [|exact IH].
    destruct ov as [x|]; [reflexivity|]. cbn [option_map].
    specialize (Hn eq_refl). destruct (f_opt fd); try reflexivity. discriminate Hn.
  Qed.

  Lemma expect_canon_dc : wf_env e -> forall m v, vsize v <= m ->
    (forall n f vi vf, v = VRec vi vf -> typed (TRef n) v -> dc (TRef n) v -> expect_body v f n = canon v) /\
    (forall t fd, typed t v -> dc t v -> expect v fd t = canon v).
  Proof.
    intros [Hwr _]. induction m as [|m IH]; intros v Hs; [pose proof (vsize_pos v); lia|].
    assert (Hflds : forall f fs vf, Forall2 (fld_typed e) fs vf -> Forall2 dc_fld fs vf ->
                    list_sum (map (osize vsize) vf) <= m -> eb_flds f fs vf = map (option_map canon) vf).
    { intros f fs vf HF. induction HF as [|fd ov fs vf Hov HF IHf]; intros HD Hsz; [reflexivity|].
      inversion HD as [|? ? ? ? Hdov HD']; subst.
      cbn [map] in Hsz. rewrite list_sum_cons in Hsz. cbn [Ror2RoundTrip.eb_flds map]. f_equal; [|apply IHf; [exact HD'|lia]].
      destruct ov as [x|]; [|reflexivity]. cbn [option_map osize] in *. f_equal.
      apply (IH x ltac:(lia)); [apply Hov; reflexivity | apply Hdov; reflexivity]. }
    assert (Hincs : forall f n incs fs vi, lookup e n = Some (DRecord incs fs) ->
                    Forall2 (fun i iv => typed (TRef i) iv) incs vi -> Forall2 (fun i iv => dc (TRef i) iv) incs vi ->
                    list_sum (map (fun x => S (vsize x)) vi) <= m -> eb_incs f incs vi = map canon vi).
    { intros f n incs fs vi Hl HF.
      assert (Hrec : forall i, In i incs -> exists incs' fs', lookup e i = Some (DRecord incs' fs')).
      { intros i Hi. destruct (Hwr _ _ _ Hl) as (Hc & _). destruct (rec_closed_inc _ _ _ _ _ i Hc Hl Hi) as (_ & _ & A). exact A. }
      clear Hl. induction HF as [|i iv incs vi Hiv HF IHi]; intros HD Hsz; [reflexivity|].
      inversion HD as [|? ? ? ? Hdiv HD']; subst.
      cbn [map] in Hsz. rewrite list_sum_cons in Hsz. cbn [Ror2RoundTrip.eb_incs map]. f_equal.
      - destruct (Hrec i (or_introl eq_refl)) as (incs' & fs' & Hli).
        destruct (typed_rec_inv _ _ _ _ _ Hiv Hli) as (vi' & vf' & E & _).
        apply (proj1 (IH iv ltac:(lia)) i f vi' vf' E Hiv Hdiv).
      - apply IHi; [intros; apply Hrec; right; assumption | exact HD' | lia]. }
    assert (Hbody : forall n f vi vf, v = VRec vi vf -> typed (TRef n) v -> dc (TRef n) v -> expect_body v f n = canon v).
    { intros n f vi vf -> Ht Hd. inversion Ht as [| | | | | | | | | | |? incs fs ? ? Hl Hti Htf|]; subst.
      inversion Hd as [? ? Hleaf| | |? incs' fs' ? ? Hl' HDi HDf|]; subst; [destruct Hleaf|].
      rewrite Hl in Hl'. injection Hl' as <- <-.
      cbn [vsize] in Hs. rewrite (expect_body_rec parseF e wc ignore f n incs fs vi vf Hl). cbn [canon]. f_equal.
      - apply (Hincs f n incs fs vi Hl Hti HDi). lia.
      - apply Hflds; [exact Htf | exact HDf | lia]. }
    split; [exact Hbody|].
    intros t fd Ht Hd. inversion Ht as [| | | | | | | | |? l Hall|? es Hnd' Hall|? incs fs vi vf Hl Hti Htf|? nullable ms vs Hl HF];
      subst; try reflexivity.
    - inversion Hd as [? ? Hleaf|? ? HDall| | |]; subst; [destruct Hleaf|].
      rewrite expect_arr'. cbn [canon]. f_equal. apply map_ext_in. intros a Ha. cbn [vsize] in Hs.
      pose proof (list_sum_in (fun x => S (vsize x)) l a Ha). cbv beta in *.
      rewrite Forall_forall in Hall, HDall.
      apply (IH a ltac:(lia)); [apply Hall, Ha | apply HDall, Ha].
    - inversion Hd as [? ? Hleaf| |? ? HDall| |]; subst; [destruct Hleaf|].
      rewrite expect_map', canon_map. do 2 f_equal. apply map_ext_in. intros [k a] Ha. cbn [map_val]. f_equal.
      cbn [vsize] in Hs. pose proof (list_sum_in (fun kv : bytes * value => let '(_, x) := kv in S (vsize x)) es (k, a) Ha) as A.
      cbv beta iota in A. rewrite Forall_forall in Hall, HDall.
      apply (IH a ltac:(lia)); [apply (Hall _ Ha) | apply (HDall _ Ha)].
    - inversion Hd as [? ? Hleaf| | |? incs' fs' ? ? Hl' HDi HDf|]; subst; [destruct Hleaf|].
      rewrite Hl in Hl'. injection Hl' as <- <-.
      rewrite (expect_rec' parseF e wc ignore fd n incs fs vi vf Hl). cbn [vsize] in Hs. cbn [canon].
      rewrite (Hincs _ n incs fs vi Hl Hti HDi) by lia.
      rewrite (Hflds _ fs vf Htf HDf) by lia.
      rewrite (fill_noop _ fs vf HDf). destruct (own_has_default fs); reflexivity.
    - inversion Hd as [? ? Hleaf| | | |? nullable' ms' ? Hl' HDu]; subst; [destruct Hleaf|].
      rewrite Hl in Hl'. injection Hl' as <- <-.
      rewrite (expect_union' parseF e wc ignore vs fd n nullable ms Hl). cbn [canon]. f_equal. cbn [vsize] in Hs.
      assert (Hsz : list_sum (map (osize vsize) vs) <= m) by lia. clear Hs Ht Hd Hl Hbody.
      induction HF as [|mm ov ms vs Hov HF IHu]; [reflexivity|].
      inversion HDu as [|? ? ? ? Hdov HDu']; subst.
      cbn [map] in Hsz. rewrite list_sum_cons in Hsz. cbn [Ror2RoundTrip.expect_union_go map]. f_equal; [|apply IHu; [exact HDu'|lia]].
      destruct ov as [x|]; [|reflexivity]. cbn [option_map osize] in *. f_equal.
      apply (IH x ltac:(lia)); [apply Hov; reflexivity | apply Hdov; reflexivity].
  Qed.

  Theorem expect_is_canon_dc t v fd : wf_env e -> typed t v -> dc t v -> expect v fd t = canon v.
  Proof. intros Hw Ht Hd. exact (proj2 (expect_canon_dc Hw (vsize v) v (le_n _)) t fd Ht Hd). Qed.
End ExpectDC.

(* ------------------------------------------------------------------------------------------------ 3. a reply that mentions requested
   keys only, each once, under texts that decode to a key the set locates as the original: every entry is filed, in order, under
   the original key (any kind of set) *)
Section FillRequested.
  Variable key : Type.
  Variable khash : key -> N.
  Variable keq : key -> key -> bool.
  Variable encode_key : key -> bytes.
  Variable decode_key : bytes -> option key.
  Variable P : Type.
  Variable s : kset key.
  Variable ks : list key.
  Hypothesis Hrt : forall k, In k ks -> exists k', decode_key (encode_key k) = Some k' /\ locate key khash keq s k' = Some k.

  Lemma fill_requested : forall rest ps acc, length ps = length rest -> incl rest ks ->
    dup_free key keq (map fst acc ++ rest) ->
    fill key khash keq decode_key P s acc (combine (map encode_key rest) (map Some ps)) = inr (acc ++ combine rest ps).
  Proof.
    induction rest as [|k rest IH]; intros ps acc Hlen Hincl Hdf.
    - destruct ps; [|discriminate]. simpl. rewrite app_nil_r. reflexivity.
    - destruct ps as [|p ps]; [discriminate|]. injection Hlen as Hlen.
      cbn [map combine fill]. unfold locate_raw.
      destruct (Hrt k (Hincl k (or_introl eq_refl))) as (k' & -> & ->).
      rewrite put_fresh.
      + rewrite IH.
        * rewrite <- app_assoc. reflexivity.
        * exact Hlen.
        * intros x Hx. apply Hincl. right. exact Hx.
        * rewrite map_app, <- app_assoc. exact Hdf.
      + apply Forall_forall. intros [k0 p0] Hin. cbn [fst].
        apply (FOP_app_mid _ _ _ _ _ Hdf). apply in_map_iff. exists (k0, p0). split; [reflexivity|exact Hin].
  Qed.
End FillRequested.

(* ------------------------------------------------------------------------------------------------ 4. simple (record, typeref, ...) keys *)
(* the premises on a caller's key that do NOT exclude the defect: it is a value of the key type for the codec (C01 [typed]) and for
   Equals / ComputeHash (C10 [sgood], with its fuel), it encodes, and the reader's fuel suffices *)
Definition key_ok (ce : env) (t : ty) (he : henv) (ht : hty) (f fe fd : nat) (k : value) : Prop :=
  typed ce t k /\ sgood he f ht k /\ vsize k <= fd /\ exists d, enc ce v2_wildcard ps_empty fe [] t k = Ok d.

Lemma echo_decodes_canon : forall fmtF parseF ce t fe fd k,
  float_oracle_ok fmtF parseF -> wf_env ce -> wf_ty t -> typed ce t k -> vsize k <= fd ->
  (exists d, enc ce v2_wildcard ps_empty fe [] t k = Ok d) -> default_complete ce t k ->
  key_decode parseF ce fd t (echo_key fmtF ce fe t k) = Some (canon k).
Proof.
  intros fmtF parseF ce t fe fd k Hor Hwe Hwt Ht Hs [d Hd] Hdc. unfold key_decode, echo_key. rewrite Hd.
  pose proof (L4_toplevel fmtF parseF ce v2_wildcard 0 FHeader false fe [] t k d fd None Hor Hwe Hwt Ht Hd Hs) as H.
  cbn [plus_of] in H. rewrite H. rewrite (expect_is_canon_dc parseF ce v2_wildcard 0 t k fd Hwe Ht Hdc). reflexivity.
Qed.

Theorem simple_reply_of_requested_keys_accepted :
  forall (fmtF : bool -> N -> bytes) (parseF : nat -> bytes -> option N) (ce : env) (t : ty) (he : henv) (ht : hty)
         (f fe fd : nat) (P : Type) (ks ks' : list value) (s : kset value) (ps : list P),
  float_oracle_ok fmtF parseF -> wf_env ce -> wf_ty t ->
  Forall (key_ok ce t he ht f fe fd) ks ->
  Forall (default_complete ce t) ks ->
  add_all value (shash he f ht) (skeq he f ht) (empty_g value) ks = Some s ->
  Permutation ks ks' -> length ps = length ks' ->
  fill value (shash he f ht) (skeq he f ht) (key_decode parseF ce fd t) P s []
       (combine (map (echo_key fmtF ce fe t) ks') (map Some ps)) = inr (combine ks' ps).
Proof.
  intros fmtF parseF ce t he ht f fe fd P ks ks' s ps Hor Hwe Hwt Hok Hdc Hadd Hperm Hlen.
  assert (Hgood : Forall (sgood he f ht) ks).
  { apply Forall_forall. intros k Hk. rewrite Forall_forall in Hok. apply (Hok k Hk). }
  change (combine ks' ps) with ([] ++ combine ks' ps).
  apply (fill_requested value (shash he f ht) (skeq he f ht) (echo_key fmtF ce fe t) (key_decode parseF ce fd t) P s ks).
  - intros k Hk. rewrite Forall_forall in Hok, Hdc. destruct (Hok k Hk) as (Ht & Hg & Hs & Hd).
    exists (canon k). split.
    + apply echo_decodes_canon; auto.
    + pose proof (same_canon he f ht k Hg) as Hsame.
      apply (simple_locate_returns_original he f ht ks s (canon k) k Hgood); [|exact Hadd|exact Hk|].
      * exact (same_wf he f ht k (canon k) Hsame Hg).
      * exact (same_equals he f ht k (canon k) Hsame Hg).
  - exact Hlen.
  - intros k Hk. exact (Permutation_in _ (Permutation_sym Hperm) Hk).
  - cbn [map app]. apply (dup_free_perm value (skeq he f ht) (sgood he f ht) (s_sym he f ht) ks ks' Hgood Hperm).
    apply (add_all_ok_iff_g value (shash he f ht) (skeq he f ht) (sgood he f ht) (s_sym he f ht) (s_hash he f ht) ks Hgood).
    exists s. exact Hadd.
Qed.

Lemma canon_key_equal : forall he f ht k, sgood he f ht k ->
  sgood he f ht (canon k) /\ equalsV he f ht k (canon k) = true.
Proof.
  intros he f ht k Hg. pose proof (same_canon he f ht k Hg) as Hs. split.
  - exact (same_wf he f ht k (canon k) Hs Hg).
  - exact (same_equals he f ht k (canon k) Hs Hg).
Qed.

(* ------------------------------------------------------------------------------------------------ 5. the witness: key type
   record { d : int = 42, r : int }  and the key {r: 1} (d left unset) *)
Definition w_fd := {| f_name := [x64]; f_ty := TPrim PInt; f_opt := Default [x34; x32] |}.
Definition w_fr := {| f_name := [x72]; f_ty := TPrim PInt; f_opt := Required |}.
Definition w_ce : env := [DRecord [] [w_fd; w_fr]].
Definition w_he : henv := [HRecord [] [{| hf_ty := HPrim PInt; hf_ptr := true |}; {| hf_ty := HPrim PInt; hf_ptr := false |}]].
Definition w_key : value := VRec [] [None; Some (VInt 1)].
Definition w_set : kset value := GSet value [(shash w_he 8 (HRef 0) w_key, [w_key])].

Lemma w_wf : wf_env w_ce.
Proof.
  split.
  - intros n incs fs H. destruct n as [|n]; cbn in H; [|destruct n; discriminate]. injection H as <- <-.
    split; [cbn; constructor|]. split; [cbn; repeat constructor; simpl; intuition discriminate|]. repeat constructor.
  - intros n nullable ms H. destruct n as [|n]; cbn in H; [discriminate|destruct n; discriminate].
Qed.

Lemma w_typed_rec : forall od z, in_i32 z = true -> (forall x, od = Some x -> exists y, x = VInt y /\ in_i32 y = true) ->
  typed w_ce (TRef 0) (VRec [] [od; Some (VInt z)]).
Proof.
  intros od z Hz Hod. eapply T_rec; [reflexivity|constructor|].
  constructor; [|constructor; [|constructor]].
  - split; [|reflexivity]. intros x ->. destruct (Hod x eq_refl) as (y & -> & Hy). constructor. exact Hy.
  - split; [|discriminate]. intros x E. injection E as <-. constructor. exact Hz.
Qed.

Lemma w_key_ok : forall od z, in_i32 z = true -> (forall x, od = Some x -> exists y, x = VInt y /\ in_i32 y = true) ->
  key_ok w_ce (TRef 0) w_he (HRef 0) 8 8 8 (VRec [] [od; Some (VInt z)]).
Proof.
  intros od z Hz Hod. split; [exact (w_typed_rec od z Hz Hod)|].
  destruct od as [x|]; [destruct (Hod x eq_refl) as (y & -> & _)|].
  - split; [reflexivity|]. split; [cbn; lia|]. eexists. reflexivity.
  - split; [reflexivity|]. split; [cbn; lia|]. eexists. reflexivity.
Qed.

Lemma witness_unknown_key :
  wf_env w_ce /\ key_ok w_ce (TRef 0) w_he (HRef 0) 8 8 8 w_key /\
  add_all value (shash w_he 8 (HRef 0)) (skeq w_he 8 (HRef 0)) (empty_g value) [w_key] = Some w_set /\
  echo_key toy_fmt w_ce 8 (TRef 0) w_key = [x28; x72; x3a; x31; x29] /\
  key_decode toy_parse w_ce 8 (TRef 0) [x28; x72; x3a; x31; x29] = Some (VRec [] [Some (VInt 42); Some (VInt 1)]) /\
  skeq w_he 8 (HRef 0) w_key (VRec [] [Some (VInt 42); Some (VInt 1)]) = false /\
  fill value (shash w_he 8 (HRef 0)) (skeq w_he 8 (HRef 0)) (key_decode toy_parse w_ce 8 (TRef 0)) unit w_set []
       (combine (map (echo_key toy_fmt w_ce 8 (TRef 0)) [w_key]) (map Some [tt])) = inl UnknownKey.
Proof.
  split; [exact w_wf|]. split; [apply (w_key_ok None 1 eq_refl); discriminate|].
  repeat split; vm_compute; reflexivity.
Qed.

Lemma w_dc : forall x z, default_complete w_ce (TRef 0) (VRec [] [Some (VInt x); Some (VInt z)]).
Proof.
  intros x z. eapply DC_rec; [reflexivity|constructor|].
  constructor; [|constructor; [|constructor]]; (split; [|discriminate]); intros y E; injection E as <-; apply DC_leaf; exact I.
Qed.

Lemma partial_nonvacuous :
  let k1 := VRec [] [Some (VInt 42); Some (VInt 1)] in let k2 := VRec [] [Some (VInt 7); Some (VInt 1)] in
  Forall (key_ok w_ce (TRef 0) w_he (HRef 0) 8 8 8) [k1; k2] /\ Forall (default_complete w_ce (TRef 0)) [k1; k2] /\
  exists s, add_all value (shash w_he 8 (HRef 0)) (skeq w_he 8 (HRef 0)) (empty_g value) [k1; k2] = Some s /\
    fill value (shash w_he 8 (HRef 0)) (skeq w_he 8 (HRef 0)) (key_decode toy_parse w_ce 8 (TRef 0)) nat s []
      (combine (map (echo_key toy_fmt w_ce 8 (TRef 0)) [k2; k1]) (map Some [20; 10])) = inr [(k2, 20); (k1, 10)].
Proof.
  intros k1 k2.
  assert (Hk : forall x, in_i32 x = true -> forall v, Some (VInt x) = Some v -> exists y, v = VInt y /\ in_i32 y = true).
  { intros x Hx v E. injection E as <-. exists x. split; [reflexivity|exact Hx]. }
  split; [constructor; [|constructor; [|constructor]]; apply w_key_ok; try reflexivity; apply Hk; reflexivity|].
  split; [constructor; [|constructor; [|constructor]]; apply w_dc|].
  eexists. split; vm_compute; reflexivity.
Qed.
