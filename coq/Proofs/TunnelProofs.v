(* Proofs for C14 (query tunnelling).  Model: Http/Tunnel.v. *)
From Coq Require Import List Bool Arith NArith ZArith Lia.
From Coq.Strings Require Import Byte.
From GR Require Import Base.Bytes Gen.TablesTunnel Http.UrlModel Http.Tunnel.
Import ListNotations.

(* ------------------------------------------------------------------------------------------------ the threshold *)

Lemma threshold_exact th q : tunnelled th q = true <-> (0 < th /\ th < Z.of_nat (length q))%Z.
Proof.
  unfold tunnelled, tunnel_condition. rewrite andb_true_iff, !Z.gtb_lt. tauto.
Qed.

Lemma threshold_exact_root th qlen : tunnel_condition_root th qlen = tunnel_condition th qlen.
Proof. reflexivity. Qed.

Definition untunnelled_wire (verb path q : bytes) (body : option bytes) (other : list header) : wire :=
  {| w_method := verb; w_path := path; w_rawquery := q;
     w_ct := match body with Some _ => Some application_json_content_type | None => None end;
     w_override := None; w_other := other; w_body := match body with Some x => x | None => [] end |}.

Lemma below_threshold_untouched b th verb path q body other :
  tunnelled th q = false -> client_request b th verb path q body other = untunnelled_wire verb path q body other.
Proof. intros H. unfold client_request. rewrite H. reflexivity. Qed.

Lemma decode_untunnelled verb path q body other :
  decode_tunnelled_query (untunnelled_wire verb path q body other) = DOk (server_view (untunnelled_wire verb path q body other)).
Proof. reflexivity. Qed.

(* ------------------------------------------------------------------------------------------------ bytes *)

Lemma byte_eqb_sym a b : Byte.eqb a b = Byte.eqb b a.
Proof.
  destruct (Byte.eqb a b) eqn:E.
  - apply byte_eqb_eq in E. subst. symmetry. apply byte_eqb_refl.
  - symmetry. apply byte_eqb_neq. apply byte_eqb_neq in E. congruence.
Qed.

Definition lhex_facts (c : byte) : bool :=
  implb (is_lhex c) (negb (Byte.eqb c c_cr) && negb (Byte.eqb c c_lf) && negb (Byte.eqb c c_dash) && negb (Byte.eqb c c_sp)
                     && negb (Byte.eqb c c_tab) && negb (Byte.eqb c c_dq) && negb (Byte.eqb c c_semi) && negb (is_upper c)).
Lemma lhex_facts_all : forall c, lhex_facts c = true.
Proof. apply forall_bytes. vm_compute. reflexivity. Qed.

Lemma lhex_fact c : is_lhex c = true ->
  Byte.eqb c c_cr = false /\ Byte.eqb c c_lf = false /\ Byte.eqb c c_dash = false /\ Byte.eqb c c_sp = false
  /\ Byte.eqb c c_tab = false /\ Byte.eqb c c_dq = false /\ Byte.eqb c c_semi = false /\ is_upper c = false.
Proof.
  intros H. pose proof (lhex_facts_all c) as F. unfold lhex_facts in F. rewrite H in F. simpl in F.
  repeat (apply andb_true_iff in F as [F ?]). repeat split; apply negb_true_iff; assumption.
Qed.

Lemma mem_byte_app c a b : mem_byte c (a ++ b) = mem_byte c a || mem_byte c b.
Proof. induction a as [|x a IH]; simpl; [reflexivity|]. rewrite IH. apply orb_assoc. Qed.

Lemma forallb_not_mem (P : byte -> bool) x s :
  (forall c, P c = true -> Byte.eqb c x = false) -> forallb P s = true -> mem_byte x s = false.
Proof.
  intros H. induction s as [|c s IH]; simpl; [reflexivity|]. intros E. apply andb_true_iff in E as [E1 E2].
  rewrite (H _ E1), (IH E2). reflexivity.
Qed.

Lemma boundary_no (x : byte) b :
  boundary_ok b = true -> (forall c, is_lhex c = true -> Byte.eqb c x = false) -> mem_byte x b = false.
Proof. unfold boundary_ok. intros H F. apply andb_true_iff in H as [_ H]. eapply forallb_not_mem; eassumption. Qed.

Lemma cut_byte_app c p r : mem_byte c p = false -> cut_byte c (p ++ c :: r) = (p, Some r).
Proof.
  induction p as [|x p IH]; simpl.
  - intros _. rewrite byte_eqb_refl. reflexivity.
  - intros E. apply orb_false_iff in E as [E1 E2]. rewrite E1, (IH E2). reflexivity.
Qed.

Lemma firstn_app_exact {A} (a b : list A) : firstn (length a) (a ++ b) = a.
Proof. rewrite firstn_app, firstn_all, Nat.sub_diag. simpl. apply app_nil_r. Qed.

Lemma skipn_app_exact {A} (a b : list A) : skipn (length a) (a ++ b) = b.
Proof. rewrite skipn_app, skipn_all, Nat.sub_diag. reflexivity. Qed.

Lemma has_prefix_app (p r : bytes) : has_prefix p (p ++ r) = true.
Proof. apply has_prefix_spec. exists r. reflexivity. Qed.

Lemma trim_suffix_snoc c y : trim_suffix [c] (y ++ [c]) = y.
Proof.
  unfold trim_suffix. assert (H : has_suffix [c] (y ++ [c]) = true) by (apply has_suffix_spec; exists y; reflexivity).
  rewrite H, app_length. simpl length. replace (length y + 1 - 1)%nat with (length y) by lia. apply firstn_app_exact.
Qed.

(* ------------------------------------------------------------------------------------------------ lines *)

Lemma read_line_app l r : mem_byte c_lf l = false -> read_line (l ++ c_lf :: r) = (l ++ [c_lf], r, true).
Proof.
  induction l as [|x l IH].
  - intros _. reflexivity.
  - intros H. cbn [mem_byte] in H. apply orb_false_iff in H as [H1 H2]. cbn [app read_line]. rewrite H1, (IH H2). reflexivity.
Qed.

Definition nospace (c : byte) : bool :=
  negb (Byte.eqb c c_sp) && negb (Byte.eqb c c_tab) && negb (Byte.eqb c c_cr) && negb (Byte.eqb c c_lf).
Definition ct_ok (ct : bytes) : bool := forallb nospace ct.

Lemma trim_left_nospace s : forallb nospace s = true -> trim_left s = s.
Proof.
  destruct s as [|c s]; [reflexivity|]. cbn [forallb trim_left]. intros H. apply andb_true_iff in H as [H _]. unfold nospace in H.
  apply andb_true_iff in H as [H _]. apply andb_true_iff in H as [H _]. apply andb_true_iff in H as [Hs Ht].
  apply negb_true_iff in Hs. apply negb_true_iff in Ht. rewrite Hs, Ht. reflexivity.
Qed.

Lemma trim_space_nospace s : forallb nospace s = true -> trim_space s = s.
Proof.
  intros H. unfold trim_space. rewrite (trim_left_nospace _ H).
  rewrite trim_left_nospace by (rewrite forallb_forall in *; intros x Hx; apply H, in_rev, Hx). apply rev_involutive.
Qed.

Lemma ct_no_lf ct : ct_ok ct = true -> mem_byte c_lf ct = false.
Proof.
  apply forallb_not_mem. intros c H. unfold nospace in H. apply andb_true_iff in H as [_ H]. apply negb_true_iff in H. exact H.
Qed.

(* ------------------------------------------------------------------------------------------------ occurrences *)

Fixpoint occurs (sub s : bytes) : bool :=
  has_prefix sub s || match s with [] => false | _ :: t => occurs sub t end.

(* the premise on the multipart boundary: it does not occur in the data *)
Definition fresh (b s : bytes) : bool := negb (occurs b s).

Lemma occurs_tail sub c s : occurs sub (c :: s) = false -> occurs sub s = false.
Proof. cbn [occurs]. intros H. apply orb_false_iff in H as [_ H]. exact H. Qed.

Lemma occurs_skip sub a s : occurs sub s = true -> occurs sub (a ++ s) = true.
Proof. intros H. induction a as [|x a IH]; [exact H|]. simpl app. cbn [occurs]. rewrite IH. apply orb_true_r. Qed.

Lemma occurs_here sub r : occurs sub (sub ++ r) = true.
Proof. destruct (sub ++ r) eqn:E; cbn [occurs]; rewrite <- E, has_prefix_app; reflexivity. Qed.

Lemma has_prefix_occurs pre sub x : has_prefix (pre ++ sub) x = true -> occurs sub x = true.
Proof.
  intros H. apply has_prefix_spec in H as [r ->]. rewrite <- app_assoc. apply occurs_skip. apply occurs_here.
Qed.

Lemma prefix_overlap (P x y : bytes) :
  has_prefix P (x ++ y) = true ->
  has_prefix P x = true \/ exists c y', y = c :: y' /\ nth_error P (length x) = Some c.
Proof.
  revert P. induction x as [|a x IH]; intros P H.
  - destruct P as [|p P']; [left; reflexivity|]. simpl app in H. destruct y as [|c y']; [discriminate|].
    cbn [has_prefix] in H. apply andb_true_iff in H as [H _]. apply byte_eqb_eq in H. subst. right. exists c, y'. split; reflexivity.
  - destruct P as [|p P']; [left; reflexivity|]. simpl app in H. cbn [has_prefix] in H. apply andb_true_iff in H as [H1 H2].
    destruct (IH _ H2) as [L|(c & y' & -> & N)].
    + left. cbn [has_prefix]. rewrite H1, L. reflexivity.
    + right. exists c, y'. split; [reflexivity|exact N].
Qed.

Lemma nth_error_tl_In (l : bytes) i c : (1 <= i)%nat -> nth_error l i = Some c -> In c (tl l).
Proof. intros Hi H. destruct i; [lia|]. destruct l; [discriminate|]. simpl in *. eapply nth_error_In. exact H. Qed.

Lemma dash_boundary_no_cr b : boundary_ok b = true -> mem_byte c_cr (dash_boundary b) = false.
Proof.
  intros H. unfold dash_boundary. rewrite mem_byte_app. rewrite (boundary_no c_cr b H) by (intros c Hc; apply (lhex_fact c Hc)). reflexivity.
Qed.

Lemma nlb_cons b : nl_dash_boundary b = c_cr :: c_lf :: dash_boundary b.
Proof. reflexivity. Qed.

(* no delimiter can start inside data that does not hold the boundary, not even one overlapping the real delimiter *)
Lemma no_early_nlb b s T :
  boundary_ok b = true -> s <> [] -> occurs b s = false -> has_prefix (nl_dash_boundary b) (s ++ nl_dash_boundary b ++ T) = false.
Proof.
  intros Hb Hs Ho. destruct (has_prefix (nl_dash_boundary b) (s ++ nl_dash_boundary b ++ T)) eqn:E; [|reflexivity]. exfalso.
  destruct (prefix_overlap _ _ _ E) as [L|(c & y' & Hy & N)].
  - change (nl_dash_boundary b) with ([c_cr; c_lf; c_dash; c_dash] ++ b) in L. apply has_prefix_occurs in L. congruence.
  - rewrite nlb_cons in Hy. simpl app in Hy. injection Hy as <- _.
    assert (Hi : (1 <= length s)%nat) by (destruct s; [congruence|simpl; lia]).
    pose proof (nth_error_tl_In _ _ _ Hi N) as Hin. rewrite nlb_cons in Hin. cbn [tl] in Hin.
    destruct Hin as [Hin|Hin]; [discriminate|]. apply mem_byte_In in Hin. rewrite (dash_boundary_no_cr _ Hb) in Hin. discriminate.
Qed.

Lemma no_early_dash b s T :
  boundary_ok b = true -> occurs b s = false -> has_prefix (dash_boundary b) (s ++ nl_dash_boundary b ++ T) = false.
Proof.
  intros Hb Ho. destruct (has_prefix (dash_boundary b) (s ++ nl_dash_boundary b ++ T)) eqn:E; [|reflexivity]. exfalso.
  destruct (prefix_overlap _ _ _ E) as [L|(c & y' & Hy & N)].
  - unfold dash_boundary in L. apply has_prefix_occurs in L. congruence.
  - rewrite nlb_cons in Hy. simpl app in Hy. injection Hy as <- _.
    apply nth_error_In, mem_byte_In in N. rewrite (dash_boundary_no_cr _ Hb) in N. discriminate.
Qed.

Lemma scan_nl_cons nlb c t :
  scan_nl nlb (c :: t) =
  if has_prefix nlb (c :: t) && match_after (skipn (length nlb) (c :: t)) then Some ([], c :: t)
  else match scan_nl nlb t with Some (body, rest) => Some (c :: body, rest) | None => None end.
Proof. reflexivity. Qed.

Lemma scan_nl_fresh b body T :
  boundary_ok b = true -> occurs b body = false -> match_after T = true ->
  scan_nl (nl_dash_boundary b) (body ++ nl_dash_boundary b ++ T) = Some (body, nl_dash_boundary b ++ T).
Proof.
  intros Hb Ho HT. induction body as [|c body IH].
  - change ([] ++ nl_dash_boundary b ++ T) with (c_cr :: (c_lf :: c_dash :: c_dash :: b ++ T)).
    rewrite scan_nl_cons.
    change (c_cr :: c_lf :: c_dash :: c_dash :: b ++ T) with (nl_dash_boundary b ++ T).
    rewrite has_prefix_app, skipn_app_exact, HT. reflexivity.
  - change ((c :: body) ++ nl_dash_boundary b ++ T) with (c :: (body ++ nl_dash_boundary b ++ T)).
    rewrite scan_nl_cons.
    change (c :: body ++ nl_dash_boundary b ++ T) with ((c :: body) ++ nl_dash_boundary b ++ T).
    rewrite (no_early_nlb b (c :: body) T Hb) by (discriminate || exact Ho). cbn [andb].
    rewrite (IH (occurs_tail _ _ _ Ho)). reflexivity.
Qed.

Lemma scan_body_fresh b body T :
  boundary_ok b = true -> occurs b body = false -> match_after T = true ->
  scan_body b (body ++ nl_dash_boundary b ++ T) = Some (body, nl_dash_boundary b ++ T).
Proof.
  intros Hb Ho HT. unfold scan_body. rewrite (no_early_dash b body T Hb Ho). cbn [andb]. apply scan_nl_fresh; assumption.
Qed.

(* ------------------------------------------------------------------------------------------------ delimiter lines, part headers *)

Lemma dash_boundary_no_lf b : boundary_ok b = true -> mem_byte c_lf (dash_boundary b) = false.
Proof.
  intros H. unfold dash_boundary. rewrite mem_byte_app. rewrite (boundary_no c_lf b H) by (intros c Hc; apply (lhex_fact c Hc)). reflexivity.
Qed.

Lemma read_line_delim b X :
  boundary_ok b = true -> read_line (dash_boundary b ++ crlf ++ X) = (dash_boundary b ++ crlf, X, true).
Proof.
  intros Hb. replace (dash_boundary b ++ crlf ++ X) with ((dash_boundary b ++ [c_cr]) ++ c_lf :: X) by (rewrite <- app_assoc; reflexivity).
  rewrite read_line_app by (rewrite mem_byte_app, (dash_boundary_no_lf _ Hb); reflexivity).
  rewrite <- app_assoc. reflexivity.
Qed.

Lemma is_delim_line_ok b : is_delim_line b (dash_boundary b ++ crlf) = true.
Proof. unfold is_delim_line. rewrite has_prefix_app, skipn_app_exact. reflexivity. Qed.

Lemma next_boundary_part fuel b pr ex X :
  boundary_ok b = true -> next_boundary (S fuel) b pr ex (dash_boundary b ++ crlf ++ X) = NbPart X.
Proof. intros Hb. cbn [next_boundary]. rewrite (read_line_delim _ _ Hb). cbn [negb]. rewrite is_delim_line_ok. reflexivity. Qed.

Lemma next_boundary_end fuel b pr ex :
  boundary_ok b = true -> next_boundary (S fuel) b pr ex (closing_bytes b) = NbEnd.
Proof.
  intros Hb. cbn [next_boundary].
  assert (HL : read_line (closing_bytes b) = (closing_bytes b, [], true)).
  { unfold closing_bytes. replace ([c_dash; c_dash] ++ b ++ [c_dash; c_dash] ++ crlf) with ((dash_boundary b ++ [c_dash; c_dash; c_cr]) ++ c_lf :: [])
      by (unfold dash_boundary; rewrite <- !app_assoc; reflexivity).
    rewrite read_line_app by (rewrite mem_byte_app, (dash_boundary_no_lf _ Hb); reflexivity). reflexivity. }
  rewrite HL. cbn [negb].
  assert (HC : closing_bytes b = dash_boundary b ++ [c_dash; c_dash; c_cr; c_lf]) by (unfold closing_bytes, dash_boundary; rewrite <- !app_assoc; reflexivity).
  assert (H1 : is_delim_line b (closing_bytes b) = false).
  { unfold is_delim_line. rewrite HC, has_prefix_app, skipn_app_exact. reflexivity. }
  assert (H2 : is_final_line b (closing_bytes b) = true).
  { unfold is_final_line. rewrite HC.
    replace (dash_boundary b ++ [c_dash; c_dash; c_cr; c_lf]) with ((dash_boundary b ++ [c_dash; c_dash]) ++ crlf) by (rewrite <- app_assoc; reflexivity).
    rewrite has_prefix_app. replace (length (dash_boundary b) + 2)%nat with (length (dash_boundary b ++ [c_dash; c_dash])) by (rewrite app_length; reflexivity).
    rewrite skipn_app_exact. reflexivity. }
  rewrite H1, H2. reflexivity.
Qed.

Lemma next_boundary_crlf fuel b X :
  next_boundary (S fuel) b true false (crlf ++ X) = next_boundary fuel b true true X.
Proof. reflexivity. Qed.

Lemma trim_space_sp_ct ct : ct_ok ct = true -> trim_space (c_sp :: ct) = ct.
Proof.
  intros H. unfold trim_space. change (trim_left (c_sp :: ct)) with (trim_left ct). fold (trim_space ct). apply trim_space_nospace. exact H.
Qed.

Lemma strip_eol_crlf h : strip_eol (h ++ [c_cr] ++ [c_lf]) = h.
Proof. unfold strip_eol. rewrite app_assoc, trim_suffix_snoc, trim_suffix_snoc. reflexivity. Qed.

Lemma read_headers_ct fuel ct X :
  ct_ok ct = true ->
  read_headers (S (S fuel)) (content_type_header ++ [c_colon; c_sp] ++ ct ++ crlf ++ crlf ++ X)
  = Some ([(to_lower content_type_header, ct)], X).
Proof.
  intros Hct. set (h := content_type_header ++ [c_colon; c_sp] ++ ct).
  assert (HL : read_line (content_type_header ++ [c_colon; c_sp] ++ ct ++ crlf ++ crlf ++ X) = (h ++ [c_cr] ++ [c_lf], crlf ++ X, true)).
  { replace (content_type_header ++ [c_colon; c_sp] ++ ct ++ crlf ++ crlf ++ X) with ((h ++ [c_cr]) ++ c_lf :: (crlf ++ X))
      by (unfold h; rewrite <- !app_assoc; reflexivity).
    rewrite read_line_app; [rewrite <- app_assoc; reflexivity|].
    unfold h. rewrite !mem_byte_app, (ct_no_lf _ Hct). reflexivity. }
  cbn [read_headers]. rewrite HL. cbn [negb]. rewrite strip_eol_crlf.
  assert (Hn : null h = false) by reflexivity. rewrite Hn.
  assert (HC : cut_byte c_colon h = (content_type_header, Some (c_sp :: ct))).
  { unfold h. apply cut_byte_app. reflexivity. }
  rewrite HC.
  assert (Hk : null content_type_header || negb (forallb token_byte content_type_header) = false) by reflexivity.
  rewrite Hk.
  change (read_line (crlf ++ X)) with ([c_cr; c_lf], X, true). cbn [negb].
  change (null (strip_eol [c_cr; c_lf])) with true. cbv iota.
  rewrite (trim_space_sp_ct _ Hct). reflexivity.
Qed.

(* ------------------------------------------------------------------------------------------------ the multipart reader reads back what the writer wrote *)

Definition parts_ok (b : bytes) (ps : list (bytes * bytes)) : bool :=
  forallb (fun p => ct_ok (fst p) && fresh b (snd p)) ps.

Lemma render_cons b ct body ps :
  render_parts b ((ct, body) :: ps) =
  dash_boundary b ++ crlf ++ (content_type_header ++ [c_colon; c_sp] ++ ct ++ crlf ++ crlf ++ (body ++ crlf ++ render_parts b ps)).
Proof.
  unfold render_parts. cbn [map concat fst snd]. unfold part_bytes, dash_boundary. rewrite <- !app_assoc. reflexivity.
Qed.

Lemma render_head b ps : exists T, render_parts b ps = dash_boundary b ++ T /\ match_after T = true.
Proof.
  destruct ps as [|[ct body] ps].
  - exists [c_dash; c_dash; c_cr; c_lf]. split; [|reflexivity]. unfold render_parts, closing_bytes, dash_boundary. simpl concat.
    rewrite <- !app_assoc. reflexivity.
  - rewrite render_cons. eexists. split; [reflexivity|reflexivity].
Qed.

Lemma read_headers_ct' fuel ct X :
  (2 <= fuel)%nat -> ct_ok ct = true ->
  read_headers fuel (content_type_header ++ [c_colon; c_sp] ++ ct ++ crlf ++ crlf ++ X)
  = Some ([(to_lower content_type_header, ct)], X).
Proof. intros Hf. destruct fuel as [|[|f]]; try lia. apply read_headers_ct. Qed.

Lemma header_get_ct ct : header_get content_type_header [(to_lower content_type_header, ct)] = ct.
Proof. unfold header_get. cbn [find fst snd]. rewrite bytes_eqb_refl. reflexivity. Qed.

Lemma read_parts_render b : boundary_ok b = true -> forall ps fuel,
  (length ps < fuel)%nat -> parts_ok b ps = true ->
  read_parts fuel b true (crlf ++ render_parts b ps) = Some ps /\ read_parts fuel b false (render_parts b ps) = Some ps.
Proof.
  intros Hb. induction ps as [|[ct body] ps IH]; intros fuel Hf Hok.
  - destruct fuel as [|f]; [simpl in Hf; lia|]. change (render_parts b []) with (closing_bytes b). split.
    + cbn [read_parts]. rewrite app_length. change (length crlf) with 2%nat. cbn [plus].
      rewrite next_boundary_crlf, (next_boundary_end _ _ _ _ Hb). reflexivity.
    + cbn [read_parts]. rewrite (next_boundary_end _ _ _ _ Hb). reflexivity.
  - destruct fuel as [|f]; [simpl in Hf; lia|]. simpl length in Hf.
    cbn [parts_ok forallb fst snd] in Hok. apply andb_true_iff in Hok as [Hp Hok]. apply andb_true_iff in Hp as [Hct Hfresh].
    unfold fresh in Hfresh. apply negb_true_iff in Hfresh.
    destruct (IH f ltac:(lia) Hok) as [IH1 _].
    destruct (render_head b ps) as (T & HT & HmT).
    assert (Hbody : body ++ crlf ++ render_parts b ps = body ++ nl_dash_boundary b ++ T).
    { rewrite HT. unfold nl_dash_boundary. rewrite <- !app_assoc. reflexivity. }
    assert (Hrest : nl_dash_boundary b ++ T = crlf ++ render_parts b ps).
    { rewrite HT. unfold nl_dash_boundary. rewrite <- !app_assoc. reflexivity. }
    assert (Hcommon : forall R0,
      R0 = content_type_header ++ [c_colon; c_sp] ++ ct ++ crlf ++ crlf ++ (body ++ crlf ++ render_parts b ps) ->
      match read_headers (S (length R0)) R0 with
      | None => None
      | Some (hs, rest1) =>
          match scan_body b rest1 with
          | None => None
          | Some (body0, rest2) =>
              match read_parts f b true rest2 with
              | Some ps0 => Some ((header_get content_type_header hs, body0) :: ps0)
              | None => None
              end
          end
      end = Some ((ct, body) :: ps)).
    { intros R0 ->. rewrite read_headers_ct'; [| rewrite !app_length; change (length content_type_header) with 12%nat; lia | exact Hct].
      rewrite Hbody, (scan_body_fresh b body T Hb Hfresh HmT), Hrest, IH1, header_get_ct. reflexivity. }
    rewrite render_cons. split.
    + cbn [read_parts]. rewrite app_length. change (length crlf) with 2%nat. cbn [plus].
      rewrite next_boundary_crlf.
      destruct (length (dash_boundary b ++ crlf ++ content_type_header ++ [c_colon; c_sp] ++ ct ++ crlf ++ crlf ++ body ++ crlf ++ render_parts b ps)) eqn:EL.
      { rewrite app_length in EL. unfold dash_boundary in EL. simpl in EL. lia. }
      rewrite (next_boundary_part _ _ _ _ _ Hb). apply Hcommon. reflexivity.
    + cbn [read_parts]. rewrite (next_boundary_part _ _ _ _ _ Hb). apply Hcommon. reflexivity.
Qed.

Lemma part_bytes_nonempty b ct body : (1 <= length (part_bytes b ct body))%nat.
Proof. unfold part_bytes. rewrite app_length. simpl. lia. Qed.

Lemma length_render_ge b ps : (length ps <= length (render_parts b ps))%nat.
Proof.
  unfold render_parts. rewrite app_length.
  assert (H : (length ps <= length (concat (map (fun p => part_bytes b (fst p) (snd p)) ps)))%nat).
  { induction ps as [|p ps IH]; [simpl; lia|]. cbn [map concat]. rewrite app_length.
    pose proof (part_bytes_nonempty b (fst p) (snd p)). simpl length at 1. lia. }
  lia.
Qed.

Theorem parse_render b ps :
  boundary_ok b = true -> parts_ok b ps = true -> parse_multipart b (render_parts b ps) = Some ps.
Proof.
  intros Hb Hok. unfold parse_multipart.
  assert (Hn : null b = false) by (unfold boundary_ok in Hb; apply andb_true_iff in Hb as [Hb _]; apply negb_true_iff in Hb; exact Hb).
  rewrite Hn. apply (read_parts_render b Hb ps); [|exact Hok]. pose proof (length_render_ge b ps). lia.
Qed.

(* ------------------------------------------------------------------------------------------------ media types *)

Lemma boundary_nospace b : boundary_ok b = true -> forallb nospace b = true.
Proof.
  unfold boundary_ok. intros H. apply andb_true_iff in H as [_ H]. rewrite forallb_forall in *. intros c Hc.
  destruct (lhex_fact c (H c Hc)) as (H1 & H2 & _ & H4 & H5 & _). unfold nospace. rewrite H1, H2, H4, H5. reflexivity.
Qed.

Lemma unquote_boundary b : boundary_ok b = true -> unquote b = b.
Proof.
  unfold boundary_ok. intros H. apply andb_true_iff in H as [_ H]. destruct b as [|c t]; [reflexivity|].
  cbn [forallb] in H. apply andb_true_iff in H as [H _]. destruct (lhex_fact c H) as (_ & _ & _ & _ & _ & Hq & _).
  cbn [unquote]. rewrite Hq. reflexivity.
Qed.

Lemma parse_format_multipart b :
  boundary_ok b = true -> parse_media_type (format_multipart_ct b) = (multipart_mixed_content_type, Some b).
Proof.
  intros Hb. unfold parse_media_type, format_multipart_ct.
  change (multipart_mixed_content_type ++ [c_semi; c_sp] ++ boundary_param ++ b)
    with (multipart_mixed_content_type ++ c_semi :: (c_sp :: boundary_param ++ b)).
  rewrite cut_byte_app by reflexivity.
  change (to_lower (trim_space multipart_mixed_content_type)) with multipart_mixed_content_type.
  change (trim_left (c_sp :: boundary_param ++ b)) with (boundary_param ++ b).
  rewrite firstn_app_exact, skipn_app_exact.
  change (has_prefix boundary_param (to_lower boundary_param)) with true. cbv iota.
  rewrite (trim_space_nospace _ (boundary_nospace _ Hb)), (unquote_boundary _ Hb). reflexivity.
Qed.

(* ------------------------------------------------------------------------------------------------ round trip *)

Definition body_ok (b : bytes) (body : option bytes) : Prop :=
  match body with Some x => x <> [] /\ fresh b x = true | None => True end.

Lemma tunnelled_nonempty th q : tunnelled th q = true -> null q = false.
Proof. intros H. apply threshold_exact in H. destruct q; [simpl in H; lia|reflexivity]. Qed.

Lemma tunnel_roundtrip b th verb path q body other :
  boundary_ok b = true -> tunnelled th q = true -> verb <> [] -> fresh b q = true -> body_ok b body ->
  decode_tunnelled_query (client_request b th verb path q body other)
  = DOk (server_view (untunnelled_wire verb path q body other)).
Proof.
  intros Hb Ht Hv Hq Hbody. pose proof (tunnelled_nonempty _ _ Ht) as Hqn.
  unfold client_request. rewrite Ht. destruct verb as [|v0 verb]; [congruence|].
  destruct body as [[|c r]|].
  - destruct Hbody as [H _]. congruence.
  - destruct Hbody as [_ Hfb].
    cbn [encode_tunnelled_query]. unfold decode_tunnelled_query.
    cbn [w_method w_path w_rawquery w_ct w_override w_other w_body].
    change (opt_nonempty (Some (v0 :: verb))) with (Some (v0 :: verb)). cbv iota.
    change (bytes_eqb http_post http_post) with true. cbn [negb null].
    assert (Hct : opt_nonempty (Some (format_multipart_ct b)) = Some (format_multipart_ct b)) by reflexivity.
    rewrite Hct, (parse_format_multipart _ Hb).
    change (bytes_eqb multipart_mixed_content_type form_urlencoded_content_type) with false.
    change (bytes_eqb multipart_mixed_content_type multipart_mixed_content_type) with true. cbv iota.
    rewrite (parse_render b _ Hb).
    2:{ cbn [parts_ok forallb fst snd]. rewrite Hq, Hfb. reflexivity. }
    cbn [decode_parts]. change (bytes_eqb form_urlencoded_content_type form_urlencoded_content_type) with true. cbv iota.
    change (bytes_eqb application_json_content_type form_urlencoded_content_type) with false.
    change (bytes_eqb application_json_content_type application_json_content_type) with true. cbv iota.
    rewrite Hqn. reflexivity.
  - cbn [encode_tunnelled_query]. unfold decode_tunnelled_query.
    cbn [w_method w_path w_rawquery w_ct w_override w_other w_body].
    change (opt_nonempty (Some (v0 :: verb))) with (Some (v0 :: verb)). cbv iota.
    change (bytes_eqb http_post http_post) with true. cbn [negb null].
    change (opt_nonempty (Some form_urlencoded_content_type)) with (Some form_urlencoded_content_type). cbv iota.
    change (parse_media_type form_urlencoded_content_type) with (form_urlencoded_content_type, @None bytes).
    change (bytes_eqb form_urlencoded_content_type form_urlencoded_content_type) with true. cbv iota.
    reflexivity.
Qed.

(* ------------------------------------------------------------------------------------------------ malformed tunnelled requests *)

Lemma override_with_url_query_rejected r tm :
  opt_nonempty (w_override r) = Some tm -> w_method r = http_post -> w_rawquery r <> [] -> decode_tunnelled_query r = DErr.
Proof.
  intros Ho Hm Hq. unfold decode_tunnelled_query. rewrite Ho, Hm. change (bytes_eqb http_post http_post) with true. cbn [negb].
  destruct (w_rawquery r); [congruence|reflexivity].
Qed.

Definition is_form (p : bytes * bytes) : bool := bytes_eqb (fst p) form_urlencoded_content_type.
Definition is_json (p : bytes * bytes) : bool := bytes_eqb (fst p) application_json_content_type.

Lemma decode_parts_unknown ps q0 b0 :
  existsb (fun p => negb (is_form p) && negb (is_json p)) ps = true -> decode_parts ps q0 b0 = None.
Proof.
  revert q0 b0. induction ps as [|[ct data] ps IH]; intros q0 b0 H; [discriminate|].
  cbn [existsb] in H. cbn [decode_parts]. unfold is_form, is_json in H. cbn [fst] in H.
  destruct (bytes_eqb ct form_urlencoded_content_type) eqn:E1.
  - cbn [negb andb orb] in H. apply IH. exact H.
  - destruct (bytes_eqb ct application_json_content_type) eqn:E2.
    + cbn [negb andb orb] in H. apply IH. exact H.
    + reflexivity.
Qed.

Lemma decode_parts_no_form ps q0 b0 q b :
  existsb is_form ps = false -> decode_parts ps q0 b0 = Some (q, b) -> q = q0.
Proof.
  revert q0 b0. induction ps as [|[ct data] ps IH]; intros q0 b0 H D.
  - cbn in D. congruence.
  - cbn [existsb] in H. apply orb_false_iff in H as [H1 H2]. unfold is_form in H1. cbn [fst] in H1.
    cbn [decode_parts] in D. rewrite H1 in D. destruct (bytes_eqb ct application_json_content_type); [|discriminate].
    eapply IH; eassumption.
Qed.

Lemma decode_parts_no_json ps q0 b0 q b :
  existsb is_json ps = false -> decode_parts ps q0 b0 = Some (q, b) -> b = b0.
Proof.
  revert q0 b0. induction ps as [|[ct data] ps IH]; intros q0 b0 H D.
  - cbn in D. congruence.
  - cbn [existsb] in H. apply orb_false_iff in H as [H1 H2]. unfold is_json in H1. cbn [fst] in H1.
    cbn [decode_parts] in D. destruct (bytes_eqb ct form_urlencoded_content_type).
    + eapply IH; eassumption.
    + rewrite H1 in D. discriminate.
Qed.

(* a tunnelled multipart request as the writer frames it, with ANY list of parts *)
Definition multipart_wire (b verb path : bytes) (other : list header) (ps : list (bytes * bytes)) : wire :=
  {| w_method := http_post; w_path := path; w_rawquery := []; w_ct := Some (format_multipart_ct b); w_override := Some verb;
     w_other := other; w_body := render_parts b ps |}.

Lemma decode_multipart_wire b verb path other ps :
  boundary_ok b = true -> verb <> [] -> parts_ok b ps = true ->
  decode_tunnelled_query (multipart_wire b verb path other ps) =
  match decode_parts ps [] None with
  | None => DErr
  | Some (q, body) =>
      if null q then DErr
      else match body with
           | None => DErr
           | Some data => DOk {| d_method := verb; d_path := path; d_rawquery := q; d_uri := uri_of path q;
                                 d_ct := Some application_json_content_type; d_override := None; d_other := other;
                                 d_body := Some data |}
           end
  end.
Proof.
  intros Hb Hv Hok. destruct verb as [|v0 verb]; [congruence|]. unfold decode_tunnelled_query, multipart_wire.
  cbn [w_method w_path w_rawquery w_ct w_override w_other w_body].
  change (opt_nonempty (Some (v0 :: verb))) with (Some (v0 :: verb)). cbv iota.
  change (bytes_eqb http_post http_post) with true. cbn [negb null].
  assert (Hct : opt_nonempty (Some (format_multipart_ct b)) = Some (format_multipart_ct b)) by reflexivity.
  rewrite Hct, (parse_format_multipart _ Hb).
  change (bytes_eqb multipart_mixed_content_type form_urlencoded_content_type) with false.
  change (bytes_eqb multipart_mixed_content_type multipart_mixed_content_type) with true. cbv iota.
  rewrite (parse_render b _ Hb Hok). reflexivity.
Qed.

Lemma malformed_multipart_rejected b verb path other ps :
  boundary_ok b = true -> verb <> [] -> parts_ok b ps = true ->
  existsb is_form ps = false \/ existsb is_json ps = false \/ existsb (fun p => negb (is_form p) && negb (is_json p)) ps = true ->
  serve (multipart_wire b verb path other ps) = Rejected400.
Proof.
  intros Hb Hv Hok H. unfold serve. rewrite (decode_multipart_wire _ _ _ _ _ Hb Hv Hok).
  destruct (decode_parts ps [] None) as [[q body]|] eqn:D; [|reflexivity].
  destruct H as [H|[H|H]].
  - rewrite (decode_parts_no_form _ _ _ _ _ H D). reflexivity.
  - rewrite (decode_parts_no_json _ _ _ _ _ H D). destruct (null q); reflexivity.
  - rewrite (decode_parts_unknown _ _ _ H) in D. discriminate.
Qed.

Lemma bad_framing_rejected r tm b :
  opt_nonempty (w_override r) = Some tm -> w_method r = http_post -> w_rawquery r = [] ->
  parse_media_type (match opt_nonempty (w_ct r) with Some v => v | None => [] end) = (multipart_mixed_content_type, b) ->
  parse_multipart (match b with Some x => x | None => [] end) (w_body r) = None ->
  serve r = Rejected400.
Proof.
  intros Ho Hm Hq Hp Hn. unfold serve, decode_tunnelled_query. rewrite Ho, Hm, Hq, Hp.
  change (bytes_eqb http_post http_post) with true. cbn [negb null].
  change (bytes_eqb multipart_mixed_content_type form_urlencoded_content_type) with false.
  change (bytes_eqb multipart_mixed_content_type multipart_mixed_content_type) with true. cbv iota.
  rewrite Hn. reflexivity.
Qed.

(* ------------------------------------------------------------------------------------------------ end to end *)

Lemma tunnel_transparent_end_to_end b th verb path q body other :
  boundary_ok b = true -> verb <> [] -> fresh b q = true -> body_ok b body ->
  serve (client_request b th verb path q body other) = Routed (server_view (untunnelled_wire verb path q body other))
  /\ serve (client_request b th verb path q body other) = serve (client_request b 0 verb path q body other).
Proof.
  intros Hb Hv Hq Hbody.
  assert (H0 : serve (client_request b 0 verb path q body other) = Routed (server_view (untunnelled_wire verb path q body other))).
  { rewrite below_threshold_untouched by reflexivity. reflexivity. }
  assert (H1 : serve (client_request b th verb path q body other) = Routed (server_view (untunnelled_wire verb path q body other))).
  { destruct (tunnelled th q) eqn:Ht.
    - unfold serve. rewrite (tunnel_roundtrip _ _ _ _ _ _ _ Hb Ht Hv Hq Hbody). reflexivity.
    - rewrite (below_threshold_untouched _ _ _ _ _ _ _ Ht). reflexivity. }
  split; [exact H1|]. rewrite H0. exact H1.
Qed.

(* the excluded case: an empty, non-nil body.  EncodeTunnelledQuery cannot tell it from "no body" (len(body) == 0), the
   caller's Content-Type: application/json is replaced by the form content type and never comes back *)
Lemma empty_body_content_type_lost :
  exists b th verb path q other,
    boundary_ok b = true /\ tunnelled th q = true /\ verb <> [] /\ fresh b q = true /\
    decode_tunnelled_query (client_request b th verb path q (Some []) other)
    <> DOk (server_view (untunnelled_wire verb path q (Some []) other)).
Proof.
  exists [x30], 1%Z, [x50;x55;x54], [x2f;x63], [x61;x3d;x31], [].
  repeat split; try reflexivity; try discriminate; try (vm_compute; intros H; discriminate H).
Qed.

(* a POST carrying the override header and a Content-Type that is neither the form nor the multipart one (or none at
   all) is rejected (tunnelling.go:116-118) *)
Lemma override_with_other_content_type_rejected r tm mt b :
  opt_nonempty (w_override r) = Some tm -> w_method r = http_post -> w_rawquery r = [] ->
  parse_media_type (match opt_nonempty (w_ct r) with Some v => v | None => [] end) = (mt, b) ->
  mt <> form_urlencoded_content_type -> mt <> multipart_mixed_content_type ->
  serve r = Rejected400.
Proof.
  intros Ho Hm Hq Hp H1 H2. unfold serve, decode_tunnelled_query. rewrite Ho, Hm, Hq, Hp.
  change (bytes_eqb http_post http_post) with true. cbn [negb null].
  apply bytes_eqb_neq in H1. apply bytes_eqb_neq in H2. rewrite H1, H2. reflexivity.
Qed.

(* ------------------------------------------------------------------------------------------------ statements as used in Props/C14.v *)

Lemma below_threshold_untouched_full b th verb path q body other :
  tunnelled th q = false ->
  client_request b th verb path q body other = untunnelled_wire verb path q body other /\
  decode_tunnelled_query (untunnelled_wire verb path q body other) = DOk (server_view (untunnelled_wire verb path q body other)).
Proof. intros. split; [apply below_threshold_untouched; assumption | apply decode_untunnelled]. Qed.

Lemma threshold_exact_full th q :
  (tunnelled th q = true <-> (0 < th /\ th < Z.of_nat (length q))%Z) /\
  tunnel_condition_root th (Z.of_nat (length q)) = tunnel_condition th (Z.of_nat (length q)).
Proof. split; [apply threshold_exact | apply threshold_exact_root]. Qed.

Lemma malformed_tunnel_rejected :
  (forall b verb path other ps,
     boundary_ok b = true -> verb <> [] -> parts_ok b ps = true ->
     existsb is_form ps = false \/ existsb is_json ps = false \/
     existsb (fun p => negb (is_form p) && negb (is_json p)) ps = true ->
     serve (multipart_wire b verb path other ps) = Rejected400) /\
  (forall r tm,
     opt_nonempty (w_override r) = Some tm -> w_method r = http_post -> w_rawquery r <> [] -> serve r = Rejected400) /\
  (forall r tm b,
     opt_nonempty (w_override r) = Some tm -> w_method r = http_post -> w_rawquery r = [] ->
     parse_media_type (match opt_nonempty (w_ct r) with Some v => v | None => [] end) = (multipart_mixed_content_type, b) ->
     parse_multipart (match b with Some x => x | None => [] end) (w_body r) = None ->
     serve r = Rejected400) /\
  (forall r tm mt b,
     opt_nonempty (w_override r) = Some tm -> w_method r = http_post -> w_rawquery r = [] ->
     parse_media_type (match opt_nonempty (w_ct r) with Some v => v | None => [] end) = (mt, b) ->
     mt <> form_urlencoded_content_type -> mt <> multipart_mixed_content_type ->
     serve r = Rejected400).
Proof.
  split; [exact malformed_multipart_rejected|]. split; [|split].
  - intros r tm H1 H2 H3. unfold serve. rewrite (override_with_url_query_rejected r tm H1 H2 H3). reflexivity.
  - exact bad_framing_rejected.
  - exact override_with_other_content_type_rejected.
Qed.
