(* Proofs about the LazyMap model (D2/LazyMap.v): invariants over the step function for UNBOUNDED programs (any
   number of goroutines, operations, keys; any schedule), and linearizability by forward simulation with explicit
   linearization points (ghost state: the decorated history and the value each placeholder's owner will publish). *)
From Coq Require Import List Bool Arith Lia.
From Hammer Require Import Tactics.
From GR Require Import D2.LazyMap.
Import ListNotations.

(* ------------------------------------------------------------------------------------------------ basics *)

Lemma upd_same : forall A (f : nat -> A) i x, upd f i x i = x.
Proof. intros. unfold upd. now rewrite Nat.eqb_refl. Qed.
Lemma upd_other : forall A (f : nat -> A) i x j, j <> i -> upd f i x j = f j.
Proof. intros. unfold upd. destruct (Nat.eqb_spec j i); congruence. Qed.

Ltac upd_simp :=
  repeat match goal with
  | H : context [upd _ ?i _ ?i] |- _ => rewrite upd_same in H
  | |- context [upd _ ?i _ ?i] => rewrite upd_same
  | H : ?j <> ?i |- context [upd _ ?i _ ?j] => rewrite (upd_other _ _ i _ j H)
  | H : ?j <> ?i, H' : context [upd _ ?i _ ?j] |- _ => rewrite (upd_other _ _ i _ j H) in H'
  | H : ?i <> ?j |- context [upd _ ?i _ ?j] => rewrite (upd_other _ _ i _ j (not_eq_sym H))
  | H : ?i <> ?j, H' : context [upd _ ?i _ ?j] |- _ => rewrite (upd_other _ _ i _ j (not_eq_sym H)) in H'
  end.

Ltac upd_cases :=
  repeat (upd_simp;
    match goal with
    | |- context [upd _ ?i _ ?j] => destruct (Nat.eq_dec j i); [subst|]
    | H : context [upd _ ?i _ ?j] |- _ => destruct (Nat.eq_dec j i); [subst|]
    end); upd_simp.

Lemma ret_eqb_refl : forall r, ret_eqb r r = true.
Proof. destruct r; simpl; auto using Nat.eqb_refl. Qed.
Lemma op_eqb_refl : forall o, op_eqb o o = true.
Proof. destruct o; simpl; rewrite ?Nat.eqb_refl; auto. Qed.

Lemma wf_run_app : forall a b ts, wf_run ts (a ++ b) = match wf_run ts a with Some ts' => wf_run ts' b | None => None end.
Proof. induction a; simpl; intros; auto. destruct (wf_event ts a); auto. Qed.
Lemma spec_run_app : forall a b m, spec_run m (a ++ b) = match spec_run m a with Some m' => spec_run m' b | None => None end.
Proof. induction a as [|[o r] a IH]; simpl; intros; auto. destruct (spec_apply m o). destruct (ret_eqb r r0); auto. Qed.
Lemma lins_app : forall a b, lins (a ++ b) = lins a ++ lins b.
Proof. intros. unfold lins. apply flat_map_app. Qed.
Lemma erase_app : forall a b, erase (a ++ b) = erase a ++ erase b.
Proof. intros. unfold erase. apply flat_map_app. Qed.

(* ------------------------------------------------------------------------------------------------ ghost state *)

(* the linearization events a step adds, and the value its new placeholder (if any) will publish *)
Definition gev (s : state) (pend : pid -> val) (t : tid) : list levent :=
  let th := threads s t in
  match tops th with
  | [] => []
  | o :: _ =>
    let k := op_key o in
    match tpc th, o with
    | PStart, OLoad _ =>
        match smap s k with
        | None => [LInv t o; LLin t o RAbsent; LRes t o RAbsent]
        | Some (Placeholder q) => [LInv t o; LLin t o (RVal (pend q))]
        | Some (Val v') => [LInv t o; LLin t o (RVal v'); LRes t o (RVal v')]
        end
    | PStart, OLos _ v =>
        match smap s k with
        | None => [LInv t o; LLin t o (RVal v)]
        | Some (Placeholder q) => [LInv t o; LLin t o (RVal (pend q))]
        | Some (Val v') => [LInv t o; LLin t o (RVal v'); LRes t o (RVal v')]
        end
    | PStart, OStore _ v =>
        match smap s k with
        | None => [LInv t o; LLin t o RUnit]
        | Some _ => [LInv t o]
        end
    | PWait q, OStore _ _ => []
    | PWait q, _ => [LRes t o (cell_ret (cells s q))]
    | PDone p v, _ => [LRes t o (win_ret o v)]
    | PRaw, OStore _ v => [LLin t o RUnit; LRes t o RUnit]
    | _, _ => []
    end
  end.

Definition gpend (s : state) (pend : pid -> val) (t : tid) : pid -> val :=
  let th := threads s t in
  match tops th with
  | [] => pend
  | o :: _ =>
    match tpc th, o, smap s (op_key o) with
    | PStart, OLos _ v, None => upd pend (ncells s) v
    | PStart, OStore _ v, None => upd pend (ncells s) v
    | _, _, _ => pend
    end
  end.

(* the abstraction to the plain map: a key whose placeholder is in flight already has the value its owner computes *)
Definition abs (s : state) (pend : pid -> val) (k : key) : option val :=
  match smap s k with None => None | Some (Placeholder p) => Some (pend p) | Some (Val v) => Some v end.

Definition owns (th : thread) (p : pid) : Prop :=
  match tpc th with PCall p' | PWrite p' _ | PInner p' _ | PDone p' _ => p' = p | _ => False end.

Definition owner_facts (s : state) (pend : pid -> val) (o : op) (p : pid) : Prop :=
  p < ncells s /\ cdone (cells s p) = false /\ pend p = op_val o /\
  (forall k', smap s k' = Some (Placeholder p) -> k' = op_key o) /\
  smap s (op_key o) = Some (Placeholder p).

Definition ret_ok (o : op) (r : ret) : Prop :=
  match o with
  | OLos _ _ => exists v, r = RVal v
  | OLoad _ => r = RAbsent \/ exists v, r = RVal v
  | OStore _ _ => r = RUnit
  end.

(* per goroutine: what its program counter implies about the shared state and about its linearization status *)
Definition thr_ok (s : state) (pend : pid -> val) (ts : tid -> tstate) (t : tid) : Prop :=
  let th := threads s t in
  match tpc th, tops th with
  | PStart, _ => ts t = TIdle
  | _, [] => False
  | PWait q, o :: _ =>
      q < ncells s /\
      (smap s (op_key o) = Some (Placeholder q) \/ exists v, smap s (op_key o) = Some (Val v)) /\
      ts t = match o with OStore _ _ => TInv o | _ => TLin o (RVal (pend q)) end
  | PCall p, o :: _ =>
      owner_facts s pend o p /\ computes s (op_key o) = 0 /\
      (match o with OLoad _ => False | _ => True end) /\ ts t = TLin o (win_ret o (op_val o))
  | PWrite p v, o :: _ =>
      owner_facts s pend o p /\ v = op_val o /\ ts t = TLin o (win_ret o v)
  | PInner p v, o :: _ =>
      owner_facts s pend o p /\ v = op_val o /\ cv (cells s p) = Some v /\ ts t = TLin o (win_ret o v)
  | PDone p v, o :: _ =>
      p < ncells s /\ cdone (cells s p) = false /\ pend p = v /\ (forall k', smap s k' <> Some (Placeholder p)) /\
      cv (cells s p) = Some v /\ ts t = TLin o (win_ret o v)
  | PRaw, o :: _ =>
      (match o with OStore _ _ => True | _ => False end) /\ (exists v', smap s (op_key o) = Some (Val v')) /\ ts t = TInv o
  end.

Record Inv (s : state) (hl : list levent) (pend : pid -> val) : Prop := {
  inv_map : forall k p, smap s k = Some (Placeholder p) -> p < ncells s /\ cdone (cells s p) = false;
  inv_done : forall p, p < ncells s -> cdone (cells s p) = true -> cv (cells s p) = Some (pend p);
  inv_owner : forall p, p < ncells s -> cdone (cells s p) = false -> exists t, owns (threads s t) p;
  inv_uniq : forall t1 t2 p, owns (threads s t1) p -> owns (threads s t2) p -> t1 = t2;
  inv_comp : forall k, computes s k <= 1 /\ (smap s k = None -> computes s k = 0);
  inv_spec : exists m, spec_run (fun _ => None) (lins hl) = Some m /\ forall k, m k = abs s pend k;
  inv_thr : exists ts, wf_run (fun _ => TIdle) hl = Some ts /\ forall t, thr_ok s pend ts t;
  inv_hist : erase hl = hist s;
  inv_rets : forall t o r, In (ERes t o r) (hist s) -> ret_ok o r
}.

Lemma inv_init : forall prog, Inv (init prog) [] (fun _ => 0).
Proof.
  intros. constructor; simpl; try discriminate; try lia; auto.
  - intros t1 t2 p H. inversion H.
  - eexists; split; eauto.
  - exists (fun _ => TIdle). split; auto. intro t. unfold thr_ok. simpl. reflexivity.
Qed.

(* case split over [step]: leaves one goal per branch with the equations in the context *)
Ltac step_cases H :=
  unfold step in H;
  match type of H with context [tops (threads ?s ?t)] =>
    let o := fresh "o" in let rest := fresh "rest" in
    destruct (tops (threads s t)) as [|o rest] eqn:Hops; [discriminate|];
    destruct (tpc (threads s t)) as [|wq|p|p pv|p pv|p pv|] eqn:Hpc;
    destruct o as [k ov|k|k ov]; simpl in H;
    try match type of H with context [smap s ?k] => destruct (smap s k) as [[mq|mv]|] eqn:Hm end;
    try match type of H with context [cdone ?c] => destruct (cdone c) eqn:Hd end;
    try discriminate; inversion H; subst; clear H
  end.

Ltac prelude I H :=
  destruct I as [Imap Idone Iowner Iuniq Icomp [m [Hm1 Hm2]] [ts [Hts1 Hts2]] Ihist Irets];
  match type of H with step ?s ?t = _ => pose proof (Hts2 t) as Hme; unfold thr_ok in Hme end;
  step_cases H; simpl.

Lemma step_inv_map : forall s hl pend t s', Inv s hl pend -> step s t = Some s' ->
  forall k p, smap s' k = Some (Placeholder p) -> p < ncells s' /\ cdone (cells s' p) = false.
Proof.
  intros s hl pend t s' I H. prelude I H.
  all: intros k0 p0 Hk; upd_cases; try discriminate; try (injection Hk as <-).
  all: try (destruct (Imap _ _ Hk) as [Hlt Hnd]).
  all: upd_cases.
  all: try solve [auto | lia | simpl; auto | sfirstorder].
Qed.

Ltac ghost_simp := unfold gev, gpend;
  repeat match goal with
  | H : tops _ = _ |- _ => rewrite H
  | H : tpc _ = _ |- _ => rewrite H
  end; simpl;
  repeat match goal with
  | H : smap _ _ = _ |- _ => rewrite H
  | H : cdone _ = _ |- _ => rewrite H
  end; simpl.

Lemma step_inv_done : forall s hl pend t s', Inv s hl pend -> step s t = Some s' ->
  forall p, p < ncells s' -> cdone (cells s' p) = true -> cv (cells s' p) = Some (gpend s pend t p).
Proof.
  intros s hl pend t s' I H. prelude I H.
  all: ghost_simp; intros p0 Hlt Hdn; upd_cases; simpl in *; try discriminate.
  all: try solve [auto | apply Idone; auto; lia | sfirstorder | hauto lq: on].
Qed.

Lemma step_inv_comp : forall s hl pend t s', Inv s hl pend -> step s t = Some s' ->
  forall k, computes s' k <= 1 /\ (smap s' k = None -> computes s' k = 0).
Proof.
  intros s hl pend t s' I H. prelude I H.
  all: intros k0; upd_cases; simpl in *; try solve [auto | split; [lia | discriminate] | sfirstorder | hauto lq: on].
Qed.

Lemma step_inv_owner : forall s hl pend t s', Inv s hl pend -> step s t = Some s' ->
  forall p, p < ncells s' -> cdone (cells s' p) = false -> exists t0, owns (threads s' t0) p.
Proof.
  intros s hl pend t s' I H. prelude I H.
  all: intros p0 Hlt Hnd; upd_cases; simpl in *; try discriminate.
  all: try solve [exists t; unfold owns; upd_simp; simpl; auto].
  all: try (destruct (Iowner p0) as [t0 Ht0]; [lia | auto | ];
            destruct (Nat.eq_dec t0 t); [subst t0; exists t | exists t0]; unfold owns in *; upd_simp; simpl;
            try rewrite Hpc in Ht0; simpl in *; auto; try contradiction; try congruence).
Qed.

Lemma owns_lt : forall s pend ts t p, thr_ok s pend ts t -> owns (threads s t) p -> p < ncells s.
Proof.
  intros s pend ts t p Hok Hown. unfold thr_ok, owns, owner_facts in *.
  destruct (tpc (threads s t)); try contradiction; subst; destruct (tops (threads s t)); try contradiction; tauto.
Qed.

Lemma step_inv_uniq : forall s hl pend t s', Inv s hl pend -> step s t = Some s' ->
  forall t1 t2 p, owns (threads s' t1) p -> owns (threads s' t2) p -> t1 = t2.
Proof.
  intros s hl pend t s' I H. prelude I H.
  all: intros t1 t2 p0 H1 H2; destruct (Nat.eq_dec t1 t) as [E1|E1]; destruct (Nat.eq_dec t2 t) as [E2|E2];
       try congruence; try subst t1; try subst t2; upd_simp; eauto.
  all: try (match goal with Ht : owns (threads ?s0 ?t') ?p |- _ => pose proof (owns_lt _ _ _ _ _ (Hts2 t') Ht) end).
  all: unfold owns in H1, H2; simpl in H1, H2; try contradiction; try lia.
  all: try solve [subst p0; first [apply (Iuniq t t2 p) | apply (Iuniq t1 t p)]; unfold owns; try rewrite Hpc; auto].
Qed.

Lemma step_inv_hist : forall s hl pend t s', Inv s hl pend -> step s t = Some s' ->
  erase (hl ++ gev s pend t) = hist s'.
Proof.
  intros s hl pend t s' I H. prelude I H.
  all: ghost_simp; rewrite erase_app, Ihist; simpl; rewrite ?app_nil_r; auto.
Qed.

Lemma step_inv_rets : forall s hl pend t s', Inv s hl pend -> step s t = Some s' ->
  forall t0 o r, In (ERes t0 o r) (hist s') -> ret_ok o r.
Proof.
  intros s hl pend t s' I H. prelude I H.
  all: intros t0 o r Hin; apply in_app_or in Hin; destruct Hin as [Hin|Hin]; [eauto|]; simpl in Hin.
  all: repeat (destruct Hin as [Hin|Hin]; try discriminate; try contradiction).
  all: inversion Hin; subst; simpl; eauto.
  all: try (unfold cell_ret; rewrite (Idone wq) by tauto; eauto).
Qed.

Lemma step_inv_spec : forall s hl pend t s', Inv s hl pend -> step s t = Some s' ->
  exists m, spec_run (fun _ => None) (lins (hl ++ gev s pend t)) = Some m /\ forall k, m k = abs s' (gpend s pend t) k.
Proof.
  intros s hl pend t s' I H. prelude I H.
  all: ghost_simp; rewrite lins_app, spec_run_app, Hm1; simpl.
  all: try (rewrite (Hm2 k); unfold abs at 1; rewrite Hm).
  all: rewrite ?Nat.eqb_refl.
  all: eexists; split; [reflexivity|].
  all: intros k0; unfold abs; simpl; upd_cases; simpl; rewrite ?Hm2; unfold abs; simpl; auto.
  all: try (destruct (smap s k0) as [[p'|]|] eqn:E; auto; destruct (Imap _ _ E); rewrite upd_other by lia; auto).
  all: unfold owner_facts in Hme; simpl in Hme; destruct Hme as [[_ [_ [Hp [_ Hs]]]] [Hv _]]; rewrite Hs; congruence.
Qed.

Ltac split_ands := repeat match goal with H : _ /\ _ |- _ => destruct H end.

Lemma step_inv_thr : forall s hl pend t s', Inv s hl pend -> step s t = Some s' ->
  exists ts, wf_run (fun _ => TIdle) (hl ++ gev s pend t) = Some ts /\ forall t0, thr_ok s' (gpend s pend t) ts t0.
Proof.
  intros s hl pend t s' I H. prelude I H.
  all: ghost_simp; rewrite wf_run_app, Hts1.
  all: unfold owner_facts in Hme; simpl in Hme; split_ands.
  all: try (unfold cell_ret; rewrite (Idone wq) by tauto).
  all: simpl; repeat (match goal with Hx : ?ts0 ?t0 = _ |- context [match ?ts0 ?t0 with _ => _ end] => rewrite Hx end; simpl);
       repeat (rewrite ?upd_same, ?Nat.eqb_refl, ?ret_eqb_refl; simpl).
  all: eexists; (split; [reflexivity|]).
  all: intro t0; destruct (Nat.eq_dec t0 t) as [E|E]; [subst t0|].
  all: try (destruct (Imap _ _ Hm) as [Hmlt Hmnd]).
  (* the goroutine that moved *)
  all: try solve [unfold thr_ok, owner_facts; simpl; upd_simp; simpl; upd_simp; auto;
                  repeat split; auto; try lia; upd_simp; eauto; try congruence;
                  try (intros k' Hk'; upd_cases; try congruence; auto;
                       try (destruct (Imap _ _ Hk'); lia))].
  all: try solve [unfold thr_ok, owner_facts; simpl; upd_simp; simpl; upd_simp;
                  repeat split; auto; try lia; try (apply Icomp; auto);
                  intros k' Hk'; upd_cases; auto; destruct (Imap _ _ Hk'); lia].
  all: try solve [unfold thr_ok; simpl; upd_simp; simpl; repeat split; auto;
                  match goal with Hx : _ \/ _ |- _ => destruct Hx as [Hx|Hx]; [destruct (Imap _ _ Hx); congruence | auto] end].
  (* the others *)
  all: pose proof (Hts2 t0) as Ho; unfold thr_ok, owner_facts in Ho |- *; simpl; upd_simp; simpl.
  all: destruct (tpc (threads s t0)) as [|wq0|p0|p0 pv0|p0 pv0|p0 pv0|] eqn:Hpc0; auto;
       destruct (tops (threads s t0)) as [|o0 rest0] eqn:Hops0; auto; simpl in Ho |- *; split_ands.
  all: try assert (wq0 <> ncells s) by lia; try assert (p0 <> ncells s) by lia.
  all: try solve [repeat split; auto; try lia; upd_cases; eauto; try congruence; try lia].
  all: try (assert (p0 <> p) by (intro; subst p0; apply E; apply (Iuniq t0 t p); unfold owns; rewrite ?Hpc0, ?Hpc; simpl; auto)).
  all: repeat match goal with Hx : _ \/ _ |- _ => destruct Hx as [Hx|Hx] | Hx : exists _, _ |- _ => destruct Hx as [? Hx] end.
  all: try solve [repeat split; auto; try lia; try (intros k' Hk'); upd_cases; eauto; try congruence; try lia;
                  try (exfalso; eauto; congruence);
                  first [left; upd_cases; eauto; congruence | right; upd_cases; eauto; congruence]].
Qed.


Theorem step_inv : forall s hl pend t s',
  Inv s hl pend -> step s t = Some s' -> Inv s' (hl ++ gev s pend t) (gpend s pend t).
Proof.
  intros s hl pend t s' I H. constructor.
  - eapply step_inv_map; eauto.
  - eapply step_inv_done; eauto.
  - eapply step_inv_owner; eauto.
  - eapply step_inv_uniq; eauto.
  - eapply step_inv_comp; eauto.
  - eapply step_inv_spec; eauto.
  - eapply step_inv_thr; eauto.
  - eapply step_inv_hist; eauto.
  - eapply step_inv_rets; eauto.
Qed.

Lemma run_inv : forall sched s hl pend, Inv s hl pend -> exists hl' pend', Inv (run s sched) hl' pend'.
Proof.
  induction sched as [|t r IH]; intros s hl pend I; simpl.
  - eauto.
  - unfold sstep. destruct (step s t) as [s'|] eqn:E.
    + eapply IH. eapply step_inv; eauto.
    + eapply IH; eauto.
Qed.

Lemma reachable_inv : forall prog s, reachable prog s -> exists hl pend, Inv s hl pend.
Proof. intros prog s [sched <-]. eapply run_inv. apply inv_init. Qed.

(* ------------------------------------------------------------------------------------------------ the theorems *)

(* f() runs at most once per key over the whole execution: only the goroutine whose placeholder went into the map calls
   it, a placeholder is inserted only into an absent key, and a key is never deleted. *)
Theorem compute_at_most_once : forall prog s, reachable prog s -> forall k, computes s k <= 1.
Proof. intros prog s R k. destruct (reachable_inv _ _ R) as [hl [pend I]]. apply (inv_comp _ _ _ I). Qed.

(* No completed call returned a placeholder's unwritten content (nor, by construction of [ret], a placeholder):
   LoadOrStore returns a value, Load a value or absent. *)
Theorem no_placeholder_escapes : forall prog s, reachable prog s ->
  forall t o r, In (ERes t o r) (hist s) -> ret_ok o r.
Proof. intros prog s R. destruct (reachable_inv _ _ R) as [hl [pend I]]. apply (inv_rets _ _ _ I). Qed.

(* A goroutine parked before Wait on placeholder q can only be disabled while q's owner is still inside its call:
   once no goroutine owns q any more (the owner ran Done and returned) every waiter is enabled. *)
Theorem load_does_not_block_after_return : forall prog s t q, reachable prog s ->
  tpc (threads s t) = PWait q -> (forall t', ~ owns (threads s t') q) -> enabled s t.
Proof.
  intros prog s t q R Hpc Hno. destruct (reachable_inv _ _ R) as [hl [pend I]].
  destruct (inv_thr _ _ _ I) as [ts [_ Hts]]. pose proof (Hts t) as Ht. unfold thr_ok in Ht. rewrite Hpc in Ht.
  destruct (tops (threads s t)) as [|o rest] eqn:Hops; [contradiction|]. destruct Ht as [Hlt _].
  destruct (cdone (cells s q)) eqn:Hd.
  - unfold enabled, step. rewrite Hops, Hpc. destruct o; rewrite Hd; discriminate.
  - destruct (inv_owner _ _ _ I q Hlt Hd) as [t' Hown]. exfalso. eapply Hno; eauto.
Qed.

Lemma owner_enabled : forall s hl pend t p, Inv s hl pend -> owns (threads s t) p -> enabled s t.
Proof.
  intros s hl pend t p I Hown. destruct (inv_thr _ _ _ I) as [ts [_ Hts]]. pose proof (Hts t) as Ht.
  unfold thr_ok, owns, enabled, step in *.
  destruct (tpc (threads s t)) eqn:Hpc; try contradiction; destruct (tops (threads s t)) as [|o rest]; try contradiction;
    destruct o; try discriminate; tauto.
Qed.

(* Every state with an unfinished goroutine has an enabled goroutine. *)
Theorem no_deadlock : forall prog s, reachable prog s ->
  (exists t, tops (threads s t) <> []) -> exists t, enabled s t.
Proof.
  intros prog s R [t Hne]. destruct (reachable_inv _ _ R) as [hl [pend I]].
  destruct (inv_thr _ _ _ I) as [ts [_ Hts]]. pose proof (Hts t) as Ht. unfold thr_ok in Ht.
  destruct (tops (threads s t)) as [|o rest] eqn:Hops; [congruence|].
  destruct (tpc (threads s t)) as [|q|p|p v|p v|p v|] eqn:Hpc.
  - exists t. unfold enabled, step. rewrite Hops, Hpc. destruct o; destruct (smap s _) as [[?|?]|]; discriminate.
  - destruct Ht as [Hlt _]. destruct (cdone (cells s q)) eqn:Hd.
    + exists t. unfold enabled, step. rewrite Hops, Hpc. destruct o; rewrite Hd; discriminate.
    + destruct (inv_owner _ _ _ I q Hlt Hd) as [t' Hown]. exists t'. eapply owner_enabled; eauto.
  - exists t. eapply owner_enabled; eauto. unfold owns. rewrite Hpc. reflexivity.
  - exists t. eapply owner_enabled; eauto. unfold owns. rewrite Hpc. reflexivity.
  - exists t. eapply owner_enabled; eauto. unfold owns. rewrite Hpc. reflexivity.
  - exists t. eapply owner_enabled; eauto. unfold owns. rewrite Hpc. reflexivity.
  - exists t. unfold enabled, step. rewrite Hops, Hpc. destruct o; try tauto; discriminate.
Qed.

(* Linearizability for unbounded programs and all schedules; at quiescence the real map IS the specification's map. *)
Theorem linearizable_all : forall prog sched,
  let s := run (init prog) sched in
  exists hl m, linearization (hist s) hl m /\
               (final s -> forall k, smap s k = match m k with Some v => Some (Val v) | None => None end).
Proof.
  intros prog sched s. assert (R : reachable prog s) by (exists sched; reflexivity).
  destruct (reachable_inv _ _ R) as [hl [pend I]].
  destruct (inv_spec _ _ _ I) as [m [Hm1 Hm2]]. destruct (inv_thr _ _ _ I) as [ts [Hts1 Hts2]].
  exists hl, m. split.
  - split; [apply (inv_hist _ _ _ I)|]. split; [congruence | exact Hm1].
  - intros Hfin k. rewrite Hm2. unfold abs. destruct (smap s k) as [[p|v]|] eqn:Hk; auto.
    exfalso. destruct (inv_map _ _ _ I _ _ Hk) as [Hlt Hd]. destruct (inv_owner _ _ _ I p Hlt Hd) as [t Hown].
    pose proof (Hts2 t) as Ht. unfold thr_ok, owns in *. rewrite (Hfin t) in Ht.
    destruct (tpc (threads s t)); contradiction.
Qed.

Theorem linearizable_history : forall prog sched, linearizable (hist (run (init prog) sched)).
Proof. intros. destruct (linearizable_all prog sched) as [hl [m [H _]]]. exists hl, m. exact H. Qed.

