(* Proofs about Conc/Footprint.v (property C17).

   1. receive_fp is Router.receive with a log (the instrumented interpretation computes the same route).
   2. serve_shape: every access of serving a request through the k-th Handler() copy is a plain access either to a cell
      of that request or a READ of the copy's tree / the method table / an object of the resource implementation.
   3. discipline: every operation of the current code obeys [disc]; two accesses obeying it from different requests
      never conflict.  => no_conflict, rng_locked, registry_atomic.
   4. serial equivalence: for threads whose accesses do not interfere, every interleaving gives every thread the
      values (and the final contents of the cells it touches) of its isolated run; instance for N requests.
   5. D2 copy-on-write in footprint terms (from AnnounceProofs.handle_extends).
   6. Regressions: with the pinned code's in-place defaulting / unlocked rng / a shared tree / per-request state in the
      root node, two operations DO conflict. *)
From Coq Require Import List Bool Arith NArith Lia.
From Coq.Strings Require Import Byte.
From GR Require Import Base.Bytes Gen.TablesRouter Http.Router Http.RouterHeap Conc.Footprint.
From GR Require D2.Announce Proofs.AnnounceProofs Proofs.RouterHeapProofs.
Import ListNotations.

(* ------------------------------------------------------------------------------------------------ 1. same route *)

Lemma receive_fp_route o r : forall fuel p at_ ps ks rem req,
  fst (receive_fp o r fuel p at_ ps ks rem req) = receive fuel p ps ks rem req.
Proof.
  induction fuel as [|f IH]; intros p at_ ps ks rem req; [reflexivity|].
  cbn [receive_fp receive].
  assert (D : forall hasEntity ks' rest,
    fst (match rest with
         | [] => let rt := finish p (ps ++ [(n_name p, n_coll p)]) ks' hasEntity req in
                 (rt, [rd (CNode o (at_ ++ [n_name p])); wr (CReq r RSegments)] ++ finish_fp o r (at_ ++ [n_name p]) rt)
         | s :: _ =>
             match find_sub s (n_subs p) with
             | Some sub => let (rt, lg) := receive_fp o r f sub (at_ ++ [n_name p]) (ps ++ [(n_name p, n_coll p)]) ks' rest req in
                           (rt, [rd (CNode o (at_ ++ [n_name p])); wr (CReq r RSegments)] ++ rd (CNode o (at_ ++ [n_name p])) :: lg)
             | None => (Reject 404 true, [rd (CNode o (at_ ++ [n_name p])); wr (CReq r RSegments)] ++ [rd (CNode o (at_ ++ [n_name p]))])
             end
         end) =
    match rest with
    | [] => finish p (ps ++ [(n_name p, n_coll p)]) ks' hasEntity req
    | s :: _ => match find_sub s (n_subs p) with
                | Some sub => receive f sub (ps ++ [(n_name p, n_coll p)]) ks' rest req
                | None => Reject 404 true
                end
    end).
  { intros hasEntity ks' rest. destruct rest as [|s rest']; [reflexivity|].
    destruct (find_sub s (n_subs p)) as [sub|]; [|reflexivity].
    rewrite <- (IH sub (at_ ++ [n_name p]) (ps ++ [(n_name p, n_coll p)]) ks' (s :: rest') req).
    destruct (receive_fp o r f sub (at_ ++ [n_name p]) (ps ++ [(n_name p, n_coll p)]) ks' (s :: rest') req). reflexivity. }
  destruct rem as [|x r1]; [reflexivity|].
  destruct r1 as [|k r2]; [exact (D false ks [])|].
  destruct (n_coll p); [|exact (D false ks (k :: r2))].
  destruct (valid_ror2 k); [exact (D true (ks ++ [k]) r2)|reflexivity].
Qed.

(* ------------------------------------------------------------------------------------------------ 2. shape of serve *)

Definition serve_ro (o : owner) (c : cellid) : Prop :=
  match c with
  | CNode o' _ => o' = o
  | CRoot o' => o' = o
  | CMethodNames => True
  | CResErr _ => True
  | CResVal _ => True
  | CReqFields => True
  | _ => False
  end.

Definition serve_acc (o : owner) (r : rid) (a : access) : Prop :=
  a_sync a = Plain /\ ((exists p, a_cell a = CReq r p) \/ (a_write a = false /\ serve_ro o (a_cell a))).

Lemma sa_priv o r p w : serve_acc o r (Acc (CReq r p) w Plain).
Proof. split; [reflexivity|]. left. exists p. reflexivity. Qed.

Lemma sa_ro o r c : serve_ro o c -> serve_acc o r (rd c).
Proof. intros H. split; [reflexivity|]. right. split; [reflexivity|exact H]. Qed.

Ltac sa_one :=
  first [ apply sa_priv | apply sa_ro; cbn; auto ].
Ltac sa_list :=
  repeat first [ apply Forall_nil | apply Forall_cons; [sa_one|] | apply Forall_app; split ].

Lemma sa_marshal_tail o r : Forall (serve_acc o r) (marshal_tail r).
Proof. unfold marshal_tail, rd, wr. sa_list. Qed.

Lemma sa_plain_reply o r : Forall (serve_acc o r) (plain_reply r).
Proof. unfold plain_reply, rd, wr. sa_list. Qed.

Lemma sa_own_error o r : Forall (serve_acc o r) (own_error r).
Proof. unfold own_error. apply Forall_app. split; [unfold rd, wr; sa_list|apply sa_marshal_tail]. Qed.

Lemma sa_shared_error o r e m : Forall (serve_acc o r) (shared_error current r e m).
Proof.
  unfold shared_error. cbn [err_inplace current].
  apply Forall_app. split; [unfold rd, wr at 1 2; repeat (apply Forall_cons; [first [apply sa_priv | apply sa_ro; exact I]|]); apply Forall_nil|].
  apply Forall_app. split.
  - destruct m; [|apply Forall_nil].
    apply Forall_cons; [apply sa_ro; exact I|]. apply Forall_cons; [apply sa_priv|apply Forall_nil].
  - apply Forall_app. split; [apply Forall_cons; [apply sa_ro; exact I|apply Forall_nil]|apply sa_marshal_tail].
Qed.

Lemma sa_success o r x : Forall (serve_acc o r) (success r x).
Proof.
  destruct x as [x|]; cbn [success].
  - apply Forall_cons; [apply sa_ro; exact I|apply sa_marshal_tail].
  - unfold rd, wr. sa_list.
Qed.

Lemma sa_finish o r here rt : Forall (serve_acc o r) (finish_fp o r here rt).
Proof.
  unfold finish_fp. apply Forall_app. split.
  - repeat (apply Forall_cons; [first [apply sa_priv | apply sa_ro; cbn; auto]|]). apply Forall_nil.
  - destruct rt; [|apply Forall_nil].
    repeat (apply Forall_cons; [first [apply sa_priv | apply sa_ro; cbn; auto]|]). apply Forall_nil.
Qed.

Lemma sa_event o r ev : Forall (serve_acc o r) (event_fp current o r ev).
Proof.
  destruct ev; cbn [event_fp required_fp lazy_required_index current app];
    repeat (apply Forall_cons; [first [apply sa_priv | apply sa_ro; cbn; auto]|]); apply Forall_nil.
Qed.

Lemma Forall_flat_map {A B} (P : B -> Prop) (f : A -> list B) l :
  (forall x, In x l -> Forall P (f x)) -> Forall P (flat_map f l).
Proof.
  induction l as [|x l IH]; intros H; cbn [flat_map]; [apply Forall_nil|].
  apply Forall_app. split; [apply H; left; reflexivity|]. apply IH. intros y Hy. apply H. right. exact Hy.
Qed.

Lemma sa_receive o r : forall fuel p at_ ps ks rem req,
  Forall (serve_acc o r) (snd (receive_fp o r fuel p at_ ps ks rem req)).
Proof.
  induction fuel as [|f IH]; intros p at_ ps ks rem req; [apply Forall_nil|].
  cbn [receive_fp].
  set (here := at_ ++ [n_name p]). set (ps' := ps ++ [(n_name p, n_coll p)]).
  assert (L0 : Forall (serve_acc o r) [rd (CNode o here); wr (CReq r RSegments)]).
  { apply Forall_cons; [apply sa_ro; reflexivity|]. apply Forall_cons; [apply sa_priv|apply Forall_nil]. }
  assert (D : forall hasEntity ks' rest,
    Forall (serve_acc o r) (snd (match rest with
         | [] => let rt := finish p ps' ks' hasEntity req in
                 (rt, [rd (CNode o here); wr (CReq r RSegments)] ++ finish_fp o r here rt)
         | s :: _ =>
             match find_sub s (n_subs p) with
             | Some sub => let (rt, lg) := receive_fp o r f sub here ps' ks' rest req in
                           (rt, [rd (CNode o here); wr (CReq r RSegments)] ++ rd (CNode o here) :: lg)
             | None => (Reject 404 true, [rd (CNode o here); wr (CReq r RSegments)] ++ [rd (CNode o here)])
             end
         end))).
  { intros hasEntity ks' rest. destruct rest as [|s rest'].
    - cbn [snd]. apply Forall_app. split; [exact L0|apply sa_finish].
    - destruct (find_sub s (n_subs p)) as [sub|].
      + pose proof (IH sub here ps' ks' (s :: rest') req) as H.
        destruct (receive_fp o r f sub here ps' ks' (s :: rest') req) as [rt lg]. cbn [snd] in *.
        apply Forall_app. split; [exact L0|]. apply Forall_cons; [apply sa_ro; reflexivity|exact H].
      + cbn [snd]. apply Forall_app. split; [exact L0|].
        apply Forall_cons; [apply sa_ro; reflexivity|apply Forall_nil]. }
  destruct rem as [|x r1].
  - cbn [snd]. apply Forall_app. split; [exact L0|apply sa_finish].
  - destruct r1 as [|k r2]; [exact (D false ks [])|].
    destruct (n_coll p); [|exact (D false ks (k :: r2))].
    destruct (valid_ror2 k); [exact (D true (ks ++ [k]) r2)|].
    cbn [snd]. apply Forall_app. split; [exact L0|]. apply Forall_cons; [apply sa_priv|apply Forall_nil].
Qed.

Lemma sa_exec o r fs beh body t : Forall (serve_acc o r) (exec_fp current o r fs beh body t).
Proof.
  unfold exec_fp.
  apply Forall_app. split.
  { repeat (apply Forall_cons; [apply sa_priv|]). apply Forall_nil. }
  apply Forall_app. split.
  { apply Forall_flat_map. intros ev _. apply sa_event. }
  destruct (o_restli (exec fs (beh_fails beh) body t)).
  - destruct (o_stub (exec fs (beh_fails beh) body t)); [|apply sa_own_error].
    destruct beh; [apply sa_own_error|apply sa_shared_error].
  - destruct (N.eqb (o_status (exec fs (beh_fails beh) body t)) 500); [apply sa_plain_reply|].
    destruct beh; [apply sa_success|apply sa_own_error].
Qed.

Lemma sa_reply o r fs beh req rt : Forall (serve_acc o r) (reply_fp current o r fs beh req rt).
Proof.
  destruct rt as [t|st [|]]; cbn [reply_fp]; [apply sa_exec|apply sa_own_error|apply sa_plain_reply].
Qed.

(* every access of serving a request: plain, and either private to the request or a read of the copy's tree, of the
   method-name table or of an object of the resource implementation *)
Theorem serve_shape : forall k r s fs beh req,
  Forall (serve_acc (Copy k) r) (serve_fp current k r s fs beh req).
Proof.
  intros k r s fs beh req. unfold serve_fp. cbn [tree_owner shallow_handler state_in_root current].
  apply Forall_app. split.
  { apply Forall_cons; [apply sa_priv|]. apply Forall_cons; [apply sa_ro; reflexivity|apply Forall_nil]. }
  destruct (has_prefix (s_prefix s) (r_path req)); [|apply sa_plain_reply].
  apply Forall_app. split.
  { apply Forall_cons; [apply sa_priv|]. apply Forall_cons; [apply sa_ro; reflexivity|apply Forall_nil]. }
  destruct (split_on x2f (skipn (length (s_prefix s)) (r_path req))) as [|s0 segs'] eqn:Es; [apply sa_plain_reply|].
  destruct (find_sub s0 (s_roots s)) as [sub|]; [|apply sa_plain_reply].
  apply Forall_app. split.
  { apply Forall_cons; [apply sa_priv|]. apply Forall_cons; [apply sa_ro; reflexivity|].
    apply Forall_cons; [apply sa_priv|]. apply Forall_cons; [apply sa_priv|apply Forall_nil]. }
  cbn [app].
  pose proof (sa_receive (Copy k) r (length (s0 :: segs')) sub [] [] [] (s0 :: segs') req) as H.
  destruct (receive_fp (Copy k) r (length (s0 :: segs')) sub [] [] [] (s0 :: segs') req) as [rt lg]. cbn [snd] in H.
  apply Forall_app. split; [exact H|apply sa_reply].
Qed.

(* handler_steps_request_local: every write of serving a request is a plain write to a cell allocated by (or handed
   exclusively to) that request.  (Stronger than "or a cell owned by the resource implementation": the library itself
   never writes the resource's objects; what the resource method does with its own state is user code.) *)
Theorem handler_steps_request_local : forall k r s fs beh req a,
  In a (serve_fp current k r s fs beh req) -> a_write a = true -> exists p, a_cell a = CReq r p.
Proof.
  intros k r s fs beh req a Hin Hw.
  pose proof (serve_shape k r s fs beh req) as H. rewrite Forall_forall in H.
  destruct (H a Hin) as [_ [Hp | [Hr _]]]; [exact Hp|congruence].
Qed.

(* ... and everything else it touches is only read: the tree of ITS handler copy, the method table, the resource's objects *)
Theorem handler_shared_reads_only : forall k r s fs beh req a,
  In a (serve_fp current k r s fs beh req) -> (forall p, a_cell a <> CReq r p) ->
  a_write a = false /\ a_sync a = Plain /\ serve_ro (Copy k) (a_cell a).
Proof.
  intros k r s fs beh req a Hin Hn.
  pose proof (serve_shape k r s fs beh req) as H. rewrite Forall_forall in H.
  destruct (H a Hin) as [Hs [[p Hp] | [Hr Hro]]]; [destruct (Hn p Hp)|].
  split; [exact Hr|]. split; [exact Hs|exact Hro].
Qed.

(* ------------------------------------------------------------------------------------------------ 3. discipline *)

Definition shared_ro (c : cellid) : Prop :=
  match c with
  | CNode (Copy _) _ | CRoot (Copy _) | CMethodNames | CResErr _ | CResVal _ | CClient _ | CHostUrl _ | CReqFields => True
  | _ => False
  end.

Definition atomic_cell (c : cellid) : Prop :=
  match c with CTransport _ | CD2Services | CD2Uris | CRegistry => True | _ => False end.

(* [n]: the size of Announce's heap when the concurrent update (if any) starts; snapshots below n are published ones,
   cells from n on are what the update allocates.  [u]: the operation is the (single) updater. *)
Inductive disc (r : rid) (n : nat) (u : bool) : access -> Prop :=
| d_private : forall p w, disc r n u (Acc (CReq r p) w Plain)
| d_ro : forall c, shared_ro c -> disc r n u (Acc c false Plain)
| d_atomic : forall c w, atomic_cell c -> disc r n u (Acc c w Atomic)
| d_rng : disc r n u (Acc CRng true (Locked rng_lock))
| d_snap_rd : forall a, a < n -> disc r n u (Acc (CSnap a) false Plain)
| d_snap_wr : forall a, u = true -> n <= a -> disc r n u (Acc (CSnap a) true Plain).

Lemma ro_not_atomic c : shared_ro c -> atomic_cell c -> False.
Proof. destruct c; cbn; auto. Qed.

Lemma disc_no_conflict r1 r2 n u1 u2 a b :
  r1 <> r2 -> ~ (u1 = true /\ u2 = true) -> disc r1 n u1 a -> disc r2 n u2 b -> ~ conflict a b.
Proof.
  intros Hr Hu Ha Hb [Hc [Hw Hs]].
  destruct Ha; destruct Hb; cbn [a_cell a_write a_sync] in *;
    try discriminate Hc; try (destruct Hw; discriminate);
    try (subst; match goal with H : shared_ro _, H' : atomic_cell _ |- _ => exact (ro_not_atomic _ H H') end);
    try (match goal with H : shared_ro _ |- _ => rewrite <- Hc in H || rewrite Hc in H; exact H end);
    try (match goal with H : atomic_cell _ |- _ => rewrite <- Hc in H || rewrite Hc in H; exact H end).
  - injection Hc as E _. apply Hr. exact E.
  - injection Hc as E. lia.
  - injection Hc as E. lia.
  - apply Hu. split; assumption.
Qed.

Lemma serve_acc_disc k r n u a : serve_acc (Copy k) r a -> disc r n u a.
Proof.
  destruct a as [c w sy]. intros [Hs [[p Hp] | [Hw Hro]]]; cbn [a_cell a_write a_sync] in *; subst.
  - apply d_private.
  - apply d_ro. destruct c; cbn in *; try contradiction; try exact I; subst; exact I.
Qed.

(* the side condition under which an operation is considered: resolutions read a snapshot published before the
   concurrent update started; route registration is not an operation of the property (see
   registration_vs_handler below) *)
Definition op_ok (n : nat) (o : op) : Prop :=
  match o with
  | OResolve w _ => w < n
  | OCall _ (RD2 w _) => w < n
  | OUriUpdate _ _ s => n = length (Announce.heap s)
  | ORegisterRoute _ => False
  | _ => True
  end.

Lemma disc_choose r n u w k : w < n -> Forall (disc r n u) (choose_fp current w k).
Proof.
  intros Hw. unfold choose_fp. apply Forall_flat_map. intros _ _.
  apply Forall_cons; [apply d_snap_rd; exact Hw|].
  apply Forall_cons; [apply d_rng|].
  apply Forall_cons; [apply d_snap_rd; exact Hw|apply Forall_nil].
Qed.

Lemma disc_resolve r n u w k : w < n -> Forall (disc r n u) (resolve_fp current w k).
Proof.
  intros Hw. unfold resolve_fp. apply Forall_app. split; [|apply disc_choose; exact Hw].
  apply Forall_cons; [apply d_atomic; exact I|]. apply Forall_cons; [apply d_atomic; exact I|apply Forall_nil].
Qed.

Lemma Forall_skipn {A} (P : A -> Prop) l1 l2 : Forall P l2 -> Forall P (skipn (length l1) (l1 ++ l2)).
Proof.
  intros H. induction l1 as [|x l1 IH]; cbn [length skipn app]; [destruct l2; exact H|exact IH].
Qed.

Lemma disc_update r w e s : Forall (disc r (length (Announce.heap s)) true) (update_fp w e s).
Proof.
  unfold update_fp. apply Forall_cons; [apply d_atomic; exact I|].
  destruct (Announce.handle_uri_update w e s) as [[w' s']|] eqn:Hh; [|apply Forall_nil].
  assert (Hw : w < length (Announce.heap s)).
  { unfold Announce.handle_uri_update in Hh. destruct (Announce.read w s) as [c|] eqn:Hr; [|discriminate].
    exact (AnnounceProofs.read_valid _ _ _ Hr). }
  destruct (AnnounceProofs.handle_extends _ _ _ _ _ Hh Hw) as [(_ & _ & l & Wl & Fl) _].
  apply Forall_cons; [apply d_snap_rd; exact Hw|].
  apply Forall_app. split; [|apply Forall_cons; [apply d_atomic; exact I|apply Forall_nil]].
  rewrite Wl. apply Forall_map. apply Forall_skipn.
  eapply Forall_impl; [|exact Fl]. cbn. intros a Ha. apply d_snap_wr; [reflexivity|exact Ha].
Qed.

Definition is_update (o : op) : bool := match o with OUriUpdate _ _ _ => true | _ => false end.

Theorem footprint_disciplined : forall r n o, op_ok n o -> Forall (disc r n (is_update o)) (footprint current r o).
Proof.
  intros r n o Hok. destruct o as [k s fs beh req | c res | w k | w e s | | | segs]; cbn [footprint].
  - eapply Forall_impl; [|apply serve_shape]. intros a. apply serve_acc_disc.
  - unfold call_fp. apply Forall_cons; [apply d_ro; exact I|].
    apply Forall_app. split.
    + destruct res as [|w k]; [apply Forall_cons; [apply d_ro; exact I|apply Forall_nil]|].
      apply disc_resolve. exact Hok.
    + cbn [pooled_tunnel required_fp lazy_required_index current app].
      repeat (apply Forall_cons; [first [apply d_private | apply d_ro; exact I | apply d_atomic; exact I]|]).
      apply Forall_nil.
  - apply disc_resolve. exact Hok.
  - cbn [op_ok] in Hok. subst n. apply disc_update.
  - apply Forall_cons; [apply d_atomic; exact I|apply Forall_nil].
  - apply Forall_cons; [apply d_atomic; exact I|apply Forall_nil].
  - destruct Hok.
Qed.

(* data-race freedom of the model: two operations of different requests / goroutines never conflict.  Covers request vs
   request (same or different Handler() copies), request vs client call, and either of them vs a concurrent host
   selection, URI update or registry access.  Two concurrent updates of one cluster are excluded: go-restli runs one
   waitForUriUpdates goroutine per cluster (client.go:117-119). *)
Theorem no_conflict : forall n r1 r2 o1 o2 a b,
  r1 <> r2 -> op_ok n o1 -> op_ok n o2 -> ~ (is_update o1 = true /\ is_update o2 = true) ->
  In a (footprint current r1 o1) -> In b (footprint current r2 o2) -> ~ conflict a b.
Proof.
  intros n r1 r2 o1 o2 a b Hr H1 H2 Hu Ha Hb.
  pose proof (footprint_disciplined r1 n o1 H1) as D1. pose proof (footprint_disciplined r2 n o2 H2) as D2.
  rewrite Forall_forall in D1, D2.
  exact (disc_no_conflict r1 r2 n _ _ a b Hr Hu (D1 a Ha) (D2 b Hb)).
Qed.

(* the instance the property's title is about: any two requests, any trees / filters / behaviours / handler copies *)
Corollary requests_no_conflict : forall r1 r2 k1 k2 s1 s2 fs1 fs2 beh1 beh2 req1 req2 a b,
  r1 <> r2 ->
  In a (serve_fp current k1 r1 s1 fs1 beh1 req1) -> In b (serve_fp current k2 r2 s2 fs2 beh2 req2) -> ~ conflict a b.
Proof.
  intros r1 r2 k1 k2 s1 s2 fs1 fs2 beh1 beh2 req1 req2 a b Hr Ha Hb.
  refine (no_conflict 0 r1 r2 (OServe k1 s1 fs1 beh1 req1) (OServe k2 s2 fs2 beh2 req2) a b Hr I I _ Ha Hb).
  intros [H _]. discriminate H.
Qed.

(* for every operation there is a bound under which it is considered, except route registration *)
Lemma op_ok_exists o : (forall segs, o <> ORegisterRoute segs) -> exists n, op_ok n o.
Proof.
  intros Hn. destruct o as [k s fs beh req | c [|w k] | w k | w e s | | | segs]; cbn [op_ok];
    try (exists 0; exact I).
  - exists (S w). lia.
  - exists (S w). lia.
  - exists (length (Announce.heap s)). reflexivity.
  - destruct (Hn segs eq_refl).
Qed.

Lemma in_register_fp segs a : In a (register_fp segs) ->
  a_sync a = Plain /\ (a_cell a = CRoot Live \/ exists p, a_cell a = CNode Live p).
Proof.
  unfold register_fp. intros [<- | H]; [split; [reflexivity|left; reflexivity]|].
  apply in_flat_map in H. destruct H as [p [_ [<- | [<- | []]]]]; (split; [reflexivity|right; exists p; reflexivity]).
Qed.

Lemma footprint_disc_ex r o a : In a (footprint current r o) ->
  (exists n u, disc r n u a) \/ (a_sync a = Plain /\ (a_cell a = CRoot Live \/ exists p, a_cell a = CNode Live p)).
Proof.
  intros Hin.
  assert (G : (forall segs, o <> ORegisterRoute segs) -> exists n u, disc r n u a).
  { intros Hn. destruct (op_ok_exists o Hn) as [n Hok].
    pose proof (footprint_disciplined r n o Hok) as D. rewrite Forall_forall in D.
    exists n, (is_update o). exact (D a Hin). }
  destruct o as [k s fs beh req | c res | w k | w e s | | | segs];
    try (left; apply G; intros segs0; discriminate).
  right. exact (in_register_fp _ _ Hin).
Qed.

(* every access to the rand state, in every operation, is made holding rngLock *)
Theorem rng_locked : forall r o a, In a (footprint current r o) -> a_cell a = CRng -> a_sync a = Locked rng_lock.
Proof.
  intros r o a Hin Hc.
  destruct (footprint_disc_ex r o a Hin) as [[n [u D]] | [_ [H | [p H]]]]; [|congruence|congruence].
  destruct D; cbn [a_cell a_sync] in *; try discriminate Hc; try reflexivity.
  - rewrite Hc in H. destruct H.
  - rewrite Hc in H. destruct H.
Qed.

(* every access to the custom-typeref registry, in every operation, is one sync.Map step *)
Theorem registry_atomic : forall r o a, In a (footprint current r o) -> a_cell a = CRegistry -> a_sync a = Atomic.
Proof.
  intros r o a Hin Hc.
  destruct (footprint_disc_ex r o a Hin) as [[n [u D]] | [_ [H | [p H]]]]; [|congruence|congruence].
  destruct D; cbn [a_cell a_sync] in *; try discriminate Hc; try reflexivity.
  rewrite Hc in H. destruct H.
Qed.

(* registration and lookup are single steps *)
Theorem registry_single_step : length reg_lookup_fp = 1 /\ length reg_register_fp = 1 /\
  Forall (fun a => a_cell a = CRegistry /\ a_sync a = Atomic) (reg_lookup_fp ++ reg_register_fp).
Proof. split; [reflexivity|]. split; [reflexivity|]. repeat constructor. Qed.

(* a request served through a Handler() copy never conflicts with a registration made on the live server meanwhile *)
Theorem registration_vs_handler : forall k r s fs beh req segs a b,
  In a (serve_fp current k r s fs beh req) -> In b (register_fp segs) -> ~ conflict a b.
Proof.
  intros k r s fs beh req segs a b Ha Hb [Hc _].
  pose proof (serve_shape k r s fs beh req) as H. rewrite Forall_forall in H.
  destruct (in_register_fp _ _ Hb) as [_ Hcell].
  destruct (H a Ha) as [_ [[p Hp] | [_ Hro]]].
  - destruct Hcell as [E | [q E]]; congruence.
  - rewrite Hc in Hro. destruct Hcell as [E | [q E]]; rewrite E in Hro; cbn in Hro; discriminate.
Qed.

(* why distinct owners are distinct cells: in every reachable heap-level world (RouterHeap.v) the nodes of every
   Handler() copy are disjoint from the nodes of the live tree *)
Lemma hrun_inv : forall ops hw hw',
  RouterHeapProofs.inv hw -> (forall segs w, In (OpRegister segs w) ops -> segs <> []) ->
  hrun ops hw = Some hw' -> RouterHeapProofs.inv hw'.
Proof.
  induction ops as [|o rest IH]; intros hw hw' Hinv Hne H; cbn [hrun] in H.
  - injection H as <-. exact Hinv.
  - pose proof (RouterHeapProofs.hstep_refines hw o Hinv) as HS.
    assert (Ho : forall segs w, o = OpRegister segs w -> segs <> []).
    { intros segs w ->. apply (Hne segs w). left. reflexivity. }
    specialize (HS Ho).
    destruct (hstep hw o) as [hw1|]; [|discriminate].
    destruct (Router.step (abs hw) o) as [w1|]; [|contradiction].
    destruct HS as [_ Hinv1]. apply (IH hw1 hw' Hinv1); [|exact H].
    intros segs w Hin. apply (Hne segs w). right. exact Hin.
Qed.

Theorem handler_copies_disjoint_from_live : forall ops prefix hw,
  (forall segs w, In (OpRegister segs w) ops -> segs <> []) ->
  hrun ops (new_hworld prefix) = Some hw ->
  exists t F, RouterHeapProofs.rep (hw_heap hw) (hw_root hw) t F /\
    Forall (fun l => exists t' F', RouterHeapProofs.rep (hw_heap hw) l t' F' /\ RouterHeapProofs.disjoint F' F)
           (hw_handlers hw).
Proof.
  intros ops prefix hw Hne H.
  exact (hrun_inv ops _ hw (RouterHeapProofs.inv_new prefix) Hne H).
Qed.

(* ------------------------------------------------------------------------------------------------ 4. serial equivalence *)

Definition proj (i : nat) (sched : list (nat * step)) : list (nat * step) :=
  filter (fun x => Nat.eqb (fst x) i) sched.

Lemma upd_same m c x : upd m c x c = x.
Proof. unfold upd. destruct (cellid_eq_dec c c); [reflexivity|congruence]. Qed.

Lemma upd_other m c x c' : c' <> c -> upd m c x c' = m c'.
Proof. intros H. unfold upd. destruct (cellid_eq_dec c' c); [contradiction|reflexivity]. Qed.

(* the core: fix thread i and a set P of cells containing everything i touches and nothing another thread writes; then
   the global run and the run of i's steps alone agree on P and on i's trace, step by step *)
Lemma isolation (i : nat) (P : cellid -> Prop) : forall sched st sti,
  (forall s, In (i, s) sched -> P (a_cell (fst s))) ->
  (forall j s, In (j, s) sched -> j <> i -> a_write (fst s) = true -> ~ P (a_cell (fst s))) ->
  (forall c, P c -> fst st c = fst sti c) -> snd st i = snd sti i ->
  (forall c, P c -> fst (run_sched sched st) c = fst (run_sched (proj i sched) sti) c) /\
  snd (run_sched sched st) i = snd (run_sched (proj i sched) sti) i.
Proof.
  induction sched as [|[j s] rest IH]; intros st sti Hmine Hothers Hm Ht.
  - cbn. split; assumption.
  - cbn [run_sched proj filter fst].
    assert (Hmine' : forall s0, In (i, s0) rest -> P (a_cell (fst s0))) by (intros s0 H; apply Hmine; right; exact H).
    assert (Hothers' : forall j0 s0, In (j0, s0) rest -> j0 <> i -> a_write (fst s0) = true -> ~ P (a_cell (fst s0)))
      by (intros j0 s0 H; apply Hothers; right; exact H).
    destruct (Nat.eqb j i) eqn:Eji.
    + apply Nat.eqb_eq in Eji. subst j. cbn [run_sched].
      apply (IH (exec1 i s st) (exec1 i s sti) Hmine' Hothers').
      * intros c Hc. unfold exec1. destruct (a_write (fst s)); cbn [fst].
        -- destruct (cellid_eq_dec c (a_cell (fst s))) as [->|Hne].
           ++ rewrite !upd_same. f_equal. exact Ht.
           ++ rewrite !upd_other by exact Hne. apply Hm. exact Hc.
        -- apply Hm. exact Hc.
      * unfold exec1. destruct (a_write (fst s)); cbn [snd]; [exact Ht|].
        rewrite Nat.eqb_refl. f_equal; [exact Ht|]. f_equal. apply Hm. apply Hmine. left. reflexivity.
    + apply Nat.eqb_neq in Eji.
      apply (IH (exec1 j s st) sti Hmine' Hothers').
      * intros c Hc. unfold exec1. destruct (a_write (fst s)) eqn:Ew; cbn [fst]; [|apply Hm; exact Hc].
        rewrite upd_other; [apply Hm; exact Hc|].
        intros ->. exact (Hothers j s (or_introl eq_refl) Eji Ew Hc).
      * unfold exec1. destruct (a_write (fst s)); cbn [snd]; [exact Ht|].
        destruct (Nat.eqb i j) eqn:Eij; [apply Nat.eqb_eq in Eij; congruence|exact Ht].
Qed.

Lemma nth_error_set_nth_same {A} (l : list A) : forall i x y, nth_error l i = Some y -> nth_error (set_nth i x l) i = Some x.
Proof. induction l as [|a l IH]; intros [|i] x y H; cbn in *; try discriminate; [reflexivity|eapply IH; exact H]. Qed.

Lemma nth_error_set_nth_other {A} (l : list A) : forall i j x, i <> j -> nth_error (set_nth i x l) j = nth_error l j.
Proof.
  induction l as [|a l IH]; intros [|i] [|j] x H; cbn; try reflexivity; try congruence.
  apply IH. congruence.
Qed.

(* an interleaving projects onto each thread's own list *)
Lemma interleave_proj : forall ps sched, interleave ps sched ->
  forall i, proj i sched = map (pair i) (nth i ps []).
Proof.
  intros ps sched H. induction H as [ps Hall | ps j s rest sched Hn Hil IH]; intros i.
  - cbn. rewrite Forall_forall in Hall.
    destruct (nth_error ps i) as [p|] eqn:E.
    + rewrite (nth_error_nth _ _ _ E). rewrite (Hall p (nth_error_In _ _ E)). reflexivity.
    + rewrite nth_overflow; [reflexivity|]. apply nth_error_None. exact E.
  - cbn [proj filter fst]. destruct (Nat.eqb j i) eqn:Eji.
    + apply Nat.eqb_eq in Eji. subst j. rewrite (nth_error_nth _ _ _ Hn). cbn [map]. f_equal.
      fold (proj i sched). rewrite IH. rewrite (nth_error_nth _ _ _ (nth_error_set_nth_same ps i rest _ Hn)). reflexivity.
    + apply Nat.eqb_neq in Eji. fold (proj i sched). rewrite IH.
      destruct (nth_error ps i) as [p|] eqn:E.
      * rewrite (nth_error_nth _ _ _ E).
        assert (E' : nth_error (set_nth j rest ps) i = Some p) by (rewrite nth_error_set_nth_other; assumption).
        rewrite (nth_error_nth _ _ _ E'). reflexivity.
      * assert (E' : nth_error (set_nth j rest ps) i = None) by (rewrite nth_error_set_nth_other; assumption).
        rewrite !nth_overflow; [reflexivity| apply nth_error_None; exact E | apply nth_error_None; exact E'].
Qed.

Lemma in_proj i s sched : In (i, s) sched -> In (i, s) (proj i sched).
Proof. intros H. unfold proj. apply filter_In. split; [exact H|]. cbn. apply Nat.eqb_refl. Qed.

Lemma interleave_in ps sched i s : interleave ps sched -> In (i, s) sched -> In s (nth i ps []).
Proof.
  intros Hil Hin. pose proof (in_proj _ _ _ Hin) as H. rewrite (interleave_proj _ _ Hil) in H.
  apply in_map_iff in H. destruct H as [s' [E H]]. injection E as <-. exact H.
Qed.

(* threads whose accesses never interfere: every interleaving gives thread i the trace of its isolated run, and leaves
   in every cell i touches what the isolated run leaves there *)
Theorem noninterference_serial : forall ps sched,
  interleave ps sched ->
  (forall i j a b, i <> j -> In a (map fst (nth i ps [])) -> In b (map fst (nth j ps [])) -> ~ interfere a b) ->
  forall m0 i,
    snd (run_sched sched (init m0)) i = snd (alone i (nth i ps []) (init m0)) i /\
    forall a, In a (map fst (nth i ps [])) ->
      fst (run_sched sched (init m0)) (a_cell a) = fst (alone i (nth i ps []) (init m0)) (a_cell a).
Proof.
  intros ps sched Hil Hni m0 i.
  set (P := fun c => exists a, In a (map fst (nth i ps [])) /\ a_cell a = c).
  destruct (isolation i P sched (init m0) (init m0)) as [Hm Ht].
  - intros s Hin. exists (fst s). split; [|reflexivity]. apply in_map. exact (interleave_in _ _ _ _ Hil Hin).
  - intros j s Hin Hji Hw [a [Ha Hc]].
    apply (Hni i j a (fst s)); [congruence|exact Ha|apply in_map; exact (interleave_in _ _ _ _ Hil Hin)|].
    split; [exact Hc|right; exact Hw].
  - reflexivity.
  - reflexivity.
  - unfold alone. rewrite <- (interleave_proj _ _ Hil i). split; [exact Ht|].
    intros a Ha. apply Hm. exists a. split; [exact Ha|reflexivity].
Qed.

(* two different requests do not even interfere: the only cells both touch are read by both *)
Lemma requests_no_interference : forall r1 r2 k1 k2 s1 s2 fs1 fs2 beh1 beh2 req1 req2 a b,
  r1 <> r2 ->
  In a (serve_fp current k1 r1 s1 fs1 beh1 req1) -> In b (serve_fp current k2 r2 s2 fs2 beh2 req2) -> ~ interfere a b.
Proof.
  intros r1 r2 k1 k2 s1 s2 fs1 fs2 beh1 beh2 req1 req2 a b Hr Ha Hb [Hc Hw].
  pose proof (serve_shape k1 r1 s1 fs1 beh1 req1) as H1. pose proof (serve_shape k2 r2 s2 fs2 beh2 req2) as H2.
  rewrite Forall_forall in H1, H2.
  destruct (H1 a Ha) as [_ [[p Hp] | [Hwa Hroa]]]; destruct (H2 b Hb) as [_ [[q Hq] | [Hwb Hrob]]].
  - rewrite Hp, Hq in Hc. injection Hc as E _. exact (Hr E).
  - rewrite Hp in Hc. rewrite <- Hc in Hrob. exact Hrob.
  - rewrite Hq in Hc. rewrite Hc in Hroa. exact Hroa.
  - destruct Hw; congruence.
Qed.

(* one request of the concurrent batch: which Handler() copy, tree, filters, what the resource does, the request *)
Record job := { j_copy : nat; j_server : server; j_filters : list fkind; j_beh : behaviour; j_req : request }.

Definition job_fp (r : rid) (j : job) : list access :=
  serve_fp current (j_copy j) r (j_server j) (j_filters j) (j_beh j) (j_req j).

(* serial_equivalence: N requests (request i = thread i), ANY programs whose accesses are the footprints of serving
   them (the values written are arbitrary functions of what the request has read), ANY interleaving: every request
   reads the values of its isolated run, and its own cells (response status, headers, body, ...) - indeed every cell it
   touches - end up as in the isolated run *)
Theorem serial_equivalence : forall (jobs : list job) (ps : list (list step)) sched,
  length ps = length jobs ->
  (forall i j, nth_error jobs i = Some j -> map fst (nth i ps []) = job_fp i j) ->
  interleave ps sched ->
  forall m0 i,
    snd (run_sched sched (init m0)) i = snd (alone i (nth i ps []) (init m0)) i /\
    forall a, In a (map fst (nth i ps [])) ->
      fst (run_sched sched (init m0)) (a_cell a) = fst (alone i (nth i ps []) (init m0)) (a_cell a).
Proof.
  intros jobs ps sched Hlen Hfp Hil. apply noninterference_serial; [exact Hil|].
  intros i j a b Hij Ha Hb.
  destruct (nth_error jobs i) as [ji|] eqn:Ei.
  2: { apply nth_error_None in Ei. rewrite nth_overflow in Ha by lia. destruct Ha. }
  destruct (nth_error jobs j) as [jj|] eqn:Ej.
  2: { apply nth_error_None in Ej. rewrite nth_overflow in Hb by lia. destruct Hb. }
  rewrite (Hfp i ji Ei) in Ha. rewrite (Hfp j jj Ej) in Hb.
  exact (requests_no_interference i j _ _ _ _ _ _ _ _ _ _ a b Hij Ha Hb).
Qed.

(* ------------------------------------------------------------------------------------------------ 5. D2 copy-on-write *)

Lemma skipn_length_app {A} (l1 l2 : list A) : skipn (length l1) (l1 ++ l2) = l2.
Proof. induction l1 as [|x l1 IH]; cbn [length skipn app]; [destruct l2; reflexivity|exact IH]. Qed.

(* the accesses of one update, exactly *)
Lemma in_update_fp w e s a : In a (update_fp w e s) ->
  a = Acc CD2Uris false Atomic \/ a = Acc CD2Uris true Atomic \/
  (a = rd (CSnap w) /\ w < length (Announce.heap s)) \/
  (exists x, a = wr (CSnap x) /\ length (Announce.heap s) <= x).
Proof.
  unfold update_fp. intros [<- | Hin]; [left; reflexivity|].
  destruct (Announce.handle_uri_update w e s) as [[w' s']|] eqn:Hh; [|destruct Hin].
  assert (Hw : w < length (Announce.heap s)).
  { unfold Announce.handle_uri_update in Hh. destruct (Announce.read w s) as [c|] eqn:Hr; [|discriminate].
    exact (AnnounceProofs.read_valid _ _ _ Hr). }
  destruct (AnnounceProofs.handle_extends _ _ _ _ _ Hh Hw) as [(_ & _ & l & Wl & Fl) _].
  destruct Hin as [<- | Hin]; [right; right; left; split; [reflexivity|exact Hw]|].
  apply in_app_or in Hin. destruct Hin as [Hin | [<- | []]]; [|right; left; reflexivity].
  apply in_map_iff in Hin. destruct Hin as [x [<- Hx]]. right. right. right. exists x. split; [reflexivity|].
  rewrite Wl, skipn_length_app in Hx. rewrite Forall_forall in Fl. exact (Fl x Hx).
Qed.

(* the accesses of a history of updates: sync.Map operations on the uris table, reads of snapshots, writes of cells
   that did not exist when the history started *)
Lemma in_history_fp : forall hist w s a,
  w < length (Announce.heap s) -> In a (history_fp hist w s) ->
  a = Acc CD2Uris false Atomic \/ a = Acc CD2Uris true Atomic \/
  (exists x, a = rd (CSnap x)) \/
  (exists x, a = wr (CSnap x) /\ length (Announce.heap s) <= x).
Proof.
  induction hist as [|e rest IH]; intros w s a Hw Hin; cbn [history_fp] in Hin; [destruct Hin|].
  apply in_app_or in Hin. destruct Hin as [Hin | Hin].
  - destruct (in_update_fp _ _ _ _ Hin) as [H | [H | [[H _] | H]]]; auto.
    right. right. left. exists w. exact H.
  - destruct (Announce.handle_uri_update w e s) as [[w' s']|] eqn:Hh; [|destruct Hin].
    destruct (AnnounceProofs.handle_extends _ _ _ _ _ Hh Hw) as [(L & _ & _) Hw'].
    destruct (IH w' s' a Hw' Hin) as [H | [H | [H | [x [H Hx]]]]]; auto.
    right. right. right. exists x. split; [exact H|lia].
Qed.

(* d2_snapshots_cow: cut any history anywhere; every plain write the rest of the history performs targets a snapshot
   cell that did not exist at the cut - never one that had been published (AnnounceProofs.snapshots_immutable says the
   same about CONTENTS; this is about ACCESSES) *)
Theorem d2_snapshots_cow : forall h1 h2 w0 s0 w1 s1,
  w0 < length (Announce.heap s0) ->
  Announce.run h1 w0 s0 = Announce.Done (w1, s1) ->
  forall a, In a (history_fp h2 w1 s1) -> a_write a = true -> a_sync a = Plain ->
    exists x, a_cell a = CSnap x /\ length (Announce.heap s1) <= x.
Proof.
  intros h1 h2 w0 s0 w1 s1 Hw0 Hrun a Hin Hwr Hs.
  destruct (AnnounceProofs.run_extends _ _ _ _ _ Hrun Hw0) as [_ Hw1].
  destruct (in_history_fp h2 w1 s1 a Hw1 Hin) as [H | [H | [[x H] | [x [H Hx]]]]]; subst a; try discriminate.
  exists x. split; [reflexivity|exact Hx].
Qed.

Lemma in_choose_fp v w k a : In a (choose_fp v w k) -> a = rd (CSnap w) \/ a = rng_access v.
Proof.
  unfold choose_fp. intros H. apply in_flat_map in H. destruct H as [_ [_ [<- | [<- | [<- | []]]]]]; auto.
Qed.

(* ... hence a host selection on ANY snapshot that existed at the cut never conflicts with anything the updates do later *)
Theorem old_snapshot_readers_never_conflict : forall h1 h2 w0 s0 w1 s1 w k a b,
  w0 < length (Announce.heap s0) ->
  Announce.run h1 w0 s0 = Announce.Done (w1, s1) ->
  w < length (Announce.heap s1) ->
  In a (resolve_fp current w k) -> In b (history_fp h2 w1 s1) -> ~ conflict a b.
Proof.
  intros h1 h2 w0 s0 w1 s1 w k a b Hw0 Hrun Hw Ha Hb [Hc [Hwr Hs]].
  destruct (AnnounceProofs.run_extends _ _ _ _ _ Hrun Hw0) as [_ Hw1].
  assert (Ha' : a = Acc CD2Services false Atomic \/ a = Acc CD2Uris false Atomic \/ a = rd (CSnap w) \/
                a = Acc CRng true (Locked rng_lock)).
  { unfold resolve_fp in Ha. apply in_app_or in Ha. destruct Ha as [[<- | [<- | []]] | Ha]; auto.
    destruct (in_choose_fp _ _ _ _ Ha) as [-> | ->]; auto. }
  destruct (in_history_fp h2 w1 s1 b Hw1 Hb) as [H | [H | [[x H] | [x [H Hx]]]]]; subst b;
    destruct Ha' as [-> | [-> | [-> | ->]]]; cbn [a_cell a_write a_sync rd wr] in *;
    try discriminate Hc; try discriminate Hs; try (destruct Hwr; discriminate).
  injection Hc as <-. lia.
Qed.

(* ------------------------------------------------------------------------------------------------ 6. regressions *)

Definition one_root : server := {| s_prefix := [x2f]; s_roots := [Node [x61] true [Method_get] [] [] []] |}.
Definition get_a1 : request :=
  {| r_verb := VGet; r_header := []; r_path := [x2f; x61; x2f; x31]; r_query := []; r_body := false |}.

Definition inplace : variant :=
  {| err_inplace := true; rng_unlocked := false; shallow_handler := false; state_in_root := false; pooled_tunnel := false;
     lazy_required_index := false |}.
Definition unlocked : variant :=
  {| err_inplace := false; rng_unlocked := true; shallow_handler := false; state_in_root := false; pooled_tunnel := false;
     lazy_required_index := false |}.
Definition shallow : variant :=
  {| err_inplace := false; rng_unlocked := false; shallow_handler := true; state_in_root := false; pooled_tunnel := false;
     lazy_required_index := false |}.
Definition rootstate : variant :=
  {| err_inplace := false; rng_unlocked := false; shallow_handler := false; state_in_root := true; pooled_tunnel := false;
     lazy_required_index := false |}.

(* D24 as pinned: two requests whose resource method returns the same error object with a nil Message *)
Theorem shared_error_inplace_would_conflict :
  exists a b,
    In a (serve_fp inplace 0 1 one_root [] (BErr 7 true) get_a1) /\
    In b (serve_fp inplace 0 2 one_root [] (BErr 7 true) get_a1) /\ conflict a b.
Proof.
  exists (wr (CResErr 7)), (wr (CResErr 7)).
  split; [vm_compute; tauto|]. split; [vm_compute; tauto|].
  split; [reflexivity|]. split; [left; reflexivity|reflexivity].
Qed.

(* the same two requests on the current code: no conflict (instance of requests_no_conflict), although both touch e *)
Theorem shared_error_copy_is_safe :
  (exists a, In a (serve_fp current 0 1 one_root [] (BErr 7 true) get_a1) /\ a_cell a = CResErr 7) /\
  forall a b, In a (serve_fp current 0 1 one_root [] (BErr 7 true) get_a1) ->
              In b (serve_fp current 0 2 one_root [] (BErr 7 true) get_a1) -> ~ conflict a b.
Proof.
  split.
  - exists (rd (CResErr 7)). split; [vm_compute; tauto|reflexivity].
  - intros a b. apply requests_no_conflict. discriminate.
Qed.

(* D31 as pinned: two host selections *)
Theorem unlocked_rng_would_conflict : forall w k1 k2, 0 < k1 -> 0 < k2 ->
  exists a b, In a (resolve_fp unlocked w k1) /\ In b (resolve_fp unlocked w k2) /\ conflict a b.
Proof.
  intros w k1 k2 H1 H2. exists (rng_access unlocked), (rng_access unlocked).
  assert (Hin : forall k, 0 < k -> In (rng_access unlocked) (resolve_fp unlocked w k)).
  { intros k Hk. unfold resolve_fp. apply in_or_app. right. unfold choose_fp. apply in_flat_map.
    exists 0. split; [apply in_seq; lia|]. right. left. reflexivity. }
  split; [apply Hin; exact H1|]. split; [apply Hin; exact H2|].
  split; [reflexivity|]. split; [left; reflexivity|reflexivity].
Qed.

(* a Handler() that shared its tree with the live server: a request conflicts with a later registration *)
Theorem shared_tree_would_conflict :
  exists a b,
    In a (serve_fp shallow 0 1 one_root [] (BOk None) get_a1) /\
    In b (register_fp [([x61], true)]) /\ conflict a b.
Proof.
  exists (rd (CNode Live [[x61]])), (wr (CNode Live [[x61]])).
  split; [vm_compute; tauto|]. split; [vm_compute; tauto|].
  split; [reflexivity|]. split; [right; reflexivity|reflexivity].
Qed.

(* per-request state kept in the rootNode: two requests conflict *)
Theorem root_state_would_conflict :
  exists a b,
    In a (serve_fp rootstate 0 1 one_root [] (BOk None) get_a1) /\
    In b (serve_fp rootstate 0 2 one_root [] (BOk None) get_a1) /\ conflict a b.
Proof.
  exists (wr (CRoot (Copy 0))), (wr (CRoot (Copy 0))).
  split; [vm_compute; tauto|]. split; [vm_compute; tauto|].
  split; [reflexivity|]. split; [left; reflexivity|reflexivity].
Qed.

Definition pooled : variant :=
  {| err_inplace := false; rng_unlocked := false; shallow_handler := false; state_in_root := false; pooled_tunnel := true;
     lazy_required_index := false |}.

(* EncodeTunnelledQuery assembling request bodies in a recycled package-level buffer (sync.Pool: Get / Put are atomic, the
   BYTES are plain): any two client calls conflict - one is still reading its body while the other writes its own *)
Theorem pooled_tunnel_buffer_would_conflict : forall c1 c2 r1 r2 res1 res2,
  exists a b, In a (call_fp pooled c1 r1 res1) /\ In b (call_fp pooled c2 r2 res2) /\ conflict a b.
Proof.
  intros c1 c2 r1 r2 res1 res2. exists (rd CTunnelBuf), (wr CTunnelBuf).
  assert (Hin : forall c r res x, x = rd CTunnelBuf \/ x = wr CTunnelBuf -> In x (call_fp pooled c r res)).
  { intros c r res x Hx. unfold call_fp. cbn [pooled_tunnel lazy_required_index required_fp pooled].
    apply in_or_app. right. apply in_or_app. right. cbn [app In]. destruct Hx as [-> | ->]; tauto. }
  split; [apply Hin; left; reflexivity|]. split; [apply Hin; right; reflexivity|].
  split; [reflexivity|]. split; [right; reflexivity|reflexivity].
Qed.

(* ... while on the current code the body buffer is the call's own: no call ever touches CTunnelBuf *)
Theorem tunnel_buffer_is_private : forall r o a, In a (footprint current r o) -> a_cell a <> CTunnelBuf.
Proof.
  intros r o a Hin Hc.
  destruct (footprint_disc_ex r o a Hin) as [[n [u D]] | [_ [H | [p H]]]]; [|congruence|congruence].
  destruct D; cbn [a_cell] in *; try discriminate Hc.
  - rewrite Hc in H. destruct H.
  - rewrite Hc in H. destruct H.
Qed.

Definition lazyidx : variant :=
  {| err_inplace := false; rng_unlocked := false; shallow_handler := false; state_in_root := false; pooled_tunnel := false;
     lazy_required_index := true |}.

(* A RequiredFields object that builds its field index in place when a record is first read with it: any two client calls
   conflict (each decodes a response record: one fills the index while the other tests or consults it) ... *)
Theorem lazy_required_index_would_conflict : forall c1 c2 r1 r2 res1 res2,
  exists a b, In a (call_fp lazyidx c1 r1 res1) /\ In b (call_fp lazyidx c2 r2 res2) /\ conflict a b.
Proof.
  intros c1 c2 r1 r2 res1 res2. exists (rd CReqFields), (wr CReqFields).
  assert (Hin : forall c r res x, x = rd CReqFields \/ x = wr CReqFields -> In x (call_fp lazyidx c r res)).
  { intros c r res x Hx. unfold call_fp. cbn [pooled_tunnel lazy_required_index required_fp lazyidx].
    apply in_or_app. right. apply in_or_app. right. cbn [app In]. destruct Hx as [-> | ->]; tauto. }
  split; [apply Hin; left; reflexivity|]. split; [apply Hin; right; reflexivity|].
  split; [reflexivity|]. split; [right; reflexivity|reflexivity].
Qed.

(* ... and so do any two requests whose resource method is reached (the stub decodes the request's records) *)
Theorem lazy_required_index_requests_would_conflict :
  exists a b,
    In a (serve_fp lazyidx 0 1 one_root [] (BOk None) get_a1) /\
    In b (serve_fp lazyidx 0 2 one_root [] (BOk None) get_a1) /\ conflict a b.
Proof.
  exists (wr CReqFields), (wr CReqFields).
  split; [vm_compute; tauto|]. split; [vm_compute; tauto|].
  split; [reflexivity|]. split; [left; reflexivity|reflexivity].
Qed.

(* On the current code every operation only READS RequiredFields objects (plain reads of an object that is complete since
   package initialisation) - and requests and calls really do read them (non-vacuity) *)
Theorem required_fields_read_only : forall r o a,
  In a (footprint current r o) -> a_cell a = CReqFields -> a_write a = false /\ a_sync a = Plain.
Proof.
  intros r o a Hin Hc.
  destruct (footprint_disc_ex r o a Hin) as [[n [u D]] | [_ [H | [p H]]]]; [|congruence|congruence].
  destruct D; cbn [a_cell a_write a_sync] in *; try discriminate Hc; try (split; reflexivity).
  rewrite Hc in H. destruct H.
Qed.

Theorem required_fields_are_read :
  In (rd CReqFields) (serve_fp current 0 1 one_root [] (BOk None) get_a1) /\
  forall c r res, In (rd CReqFields) (call_fp current c r res).
Proof.
  split; [vm_compute; tauto|].
  intros c r res. unfold call_fp. cbn [pooled_tunnel lazy_required_index required_fp current].
  apply in_or_app. right. apply in_or_app. right. cbn [app In]. tauto.
Qed.

(* the premise "the real accesses are among the modelled ones" is what the race-detector runs test; under it the
   model's race freedom transfers *)
Definition adequate (observed : rid -> op -> list access) : Prop :=
  forall r o a, In a (observed r o) -> In a (footprint current r o).

Theorem race_free_given_adequacy : forall observed, adequate observed ->
  forall n r1 r2 o1 o2 a b,
    r1 <> r2 -> op_ok n o1 -> op_ok n o2 -> ~ (is_update o1 = true /\ is_update o2 = true) ->
    In a (observed r1 o1) -> In b (observed r2 o2) -> ~ conflict a b.
Proof.
  intros observed Had n r1 r2 o1 o2 a b Hr H1 H2 Hu Ha Hb.
  exact (no_conflict n r1 r2 o1 o2 a b Hr H1 H2 Hu (Had _ _ _ Ha) (Had _ _ _ Hb)).
Qed.

(* non-vacuity: a genuinely interleaved schedule of two threads *)
Example interleave_example : forall s1 s2 t1 t2 : step,
  interleave [[s1; s2]; [t1; t2]] [(0, s1); (1, t1); (1, t2); (0, s2)].
Proof.
  intros. eapply il_step; [reflexivity|]. eapply il_step; [reflexivity|]. eapply il_step; [reflexivity|].
  eapply il_step; [reflexivity|]. apply il_done. repeat constructor.
Qed.
