(* EndToEndProofs: proofs about the composition client -> wire -> router of Http/EndToEnd.v (C02).
   The float text oracle fmtF is universally quantified everywhere and needs no premise: the ROR2 writer escapes it. *)
From Coq Require Import List Bool Arith NArith ZArith Lia.
From Coq.Strings Require Import Byte.
From GR Require Import Base.Bytes Base.Dec Codec.Doc Codec.Escape Codec.Render Gen.TablesCodec Gen.TablesRouter
                       Http.Router Http.RouterSpec Http.EndToEnd Proofs.EscapeProofs Proofs.RouterProofs.
Import ListNotations.

(* ------------------------------------------------------------------------------------------------ generalities *)

Lemma doc_ind' (P : doc -> Prop) :
  (forall l, P (DLeaf l)) ->
  (forall items, Forall P items -> P (DArr items)) ->
  (forall ents, Forall (fun kd => P (snd kd)) ents -> P (DObj ents)) ->
  forall d, P d.
Proof.
  intros H1 H2 H3. fix F 1. intros [l|items|ents].
  - apply H1.
  - apply H2. induction items as [|x r IH]; constructor; [apply F | exact IH].
  - apply H3. induction ents as [|[k x] r IH]; constructor; [apply F | exact IH].
Qed.

Lemma mem_byte_app c a b : mem_byte c (a ++ b) = mem_byte c a || mem_byte c b.
Proof. induction a as [|x a IH]; simpl; [reflexivity|]. rewrite IH. apply orb_assoc. Qed.

Lemma Forall_avoids (P : byte -> bool) s d : Forall (fun c => P c = true) s -> P d = false -> mem_byte d s = false.
Proof.
  intros HF Hd. destruct (mem_byte d s) eqn:E; [|reflexivity].
  apply mem_byte_In in E. rewrite Forall_forall in HF. rewrite (HF _ E) in Hd. discriminate.
Qed.

Lemma Forall_mem_sub (s consts : bytes) (P : byte -> bool) :
  (forall c, mem_byte c consts = true -> P c = true) ->
  Forall (fun c => mem_byte c consts = true) s -> Forall (fun c => P c = true) s.
Proof. intros H HF. eapply Forall_impl; [|exact HF]. exact H. Qed.

Lemma Forall_join (P : byte -> Prop) sep l :
  Forall P sep -> Forall (fun b => Forall P b) l -> Forall P (join_bytes sep l).
Proof.
  intros Hs HF. induction HF as [|a r Ha Hr IH]; [constructor|].
  destruct r as [|b r']; [exact Ha|].
  change (join_bytes sep (a :: b :: r')) with (a ++ sep ++ join_bytes sep (b :: r')).
  apply Forall_app. split; [exact Ha|]. apply Forall_app. split; [exact Hs | exact IH].
Qed.

(* ------------------------------------------------------------------------------------------------ the ROR2 rendering, unfolded *)

Section Rend.
  Variable fmtF : bool -> N -> bytes.

  Definition esc_safe (fl : flavour) : byte -> bool :=
    safe_of v2_unescaped_path_chars v2_unescaped_query_chars v2_header_escaped_chars fl.

  Definition ror2_str (fl : flavour) (k : bytes) : bytes := ror2 fmtF fl (DLeaf (LStr k)).

  Lemma ror2_str_eq fl k :
    ror2_str fl k = match k with [] => v2_empty_string | _ => escape_with v2_hex_chars (esc_safe fl) k end.
  Proof. reflexivity. Qed.

  Lemma ror2_arr fl items :
    ror2 fmtF fl (DArr items) = v2_list_prefix ++ join_bytes [x2c] (map (ror2 fmtF fl) items) ++ [x29].
  Proof.
    unfold ror2. cbn [render_ror2]. reflexivity.
  Qed.

  Lemma ror2_obj fl ents :
    ror2 fmtF fl (DObj ents) =
    [x28] ++ join_bytes [x2c] (map (fun kd => ror2_str fl (fst kd) ++ [x3a] ++ ror2 fmtF fl (snd kd)) ents) ++ [x29].
  Proof.
    unfold ror2_str, ror2. cbn [render_ror2]. f_equal. f_equal. f_equal.
    induction ents as [|[k x] r IH]; [reflexivity|]. cbn [map fst snd]. f_equal. exact IH.
  Qed.

  (* ---- the output alphabet of a leaf, per flavour: escaper output, integer text, the literal words, the '' marker *)
  Definition leaf_consts : bytes := s_nan ++ s_inf ++ s_ninf ++ s_true ++ s_false ++ v2_empty_string.
  Definition leaf_alpha (fl : flavour) (c : byte) : bool :=
    out_byte v2_hex_chars (esc_safe fl) c || dec_byte c || mem_byte c leaf_consts.

  Lemma hex_len : length v2_hex_chars = 16.
  Proof. reflexivity. Qed.

  Lemma escape_leaf_alpha fl s : Forall (fun c => leaf_alpha fl c = true) (escape_with v2_hex_chars (esc_safe fl) s).
  Proof.
    eapply Forall_impl; [|apply (escape_alphabet v2_hex_chars (esc_safe fl) s hex_len)].
    intros c Hc. unfold leaf_alpha. cbv beta in Hc. rewrite Hc. reflexivity.
  Qed.

  Lemma const_leaf_alpha fl s :
    Forall (fun c => mem_byte c leaf_consts = true) s -> Forall (fun c => leaf_alpha fl c = true) s.
  Proof.
    apply Forall_mem_sub. intros c Hc. unfold leaf_alpha. rewrite Hc. apply orb_true_r.
  Qed.

  Lemma ror2_str_alpha fl k : Forall (fun c => leaf_alpha fl c = true) (ror2_str fl k).
  Proof.
    rewrite ror2_str_eq. destruct k as [|c k].
    - apply const_leaf_alpha. repeat constructor.
    - apply escape_leaf_alpha.
  Qed.

  Lemma leaf_alphabet fl l : Forall (fun c => leaf_alpha fl c = true) (ror2 fmtF fl (DLeaf l)).
  Proof.
    destruct l as [z|is32 bits|b|s|s].
    - change (ror2 fmtF fl (DLeaf (LInt z))) with (print_dec z).
      eapply Forall_impl; [|apply print_dec_alphabet].
      intros c Hc. unfold leaf_alpha. cbv beta in Hc. rewrite Hc. rewrite orb_true_r. reflexivity.
    - change (ror2 fmtF fl (DLeaf (LFloat is32 bits))) with
        (match classify_float is32 bits with
         | FNaN => s_nan | FPosInf => s_inf | FNegInf => s_ninf
         | FFinite => escape_with v2_hex_chars (esc_safe fl) (fmtF is32 bits)
         end).
      destruct (classify_float is32 bits).
      + apply const_leaf_alpha. repeat constructor.
      + apply const_leaf_alpha. repeat constructor.
      + apply const_leaf_alpha. repeat constructor.
      + apply escape_leaf_alpha.
    - change (ror2 fmtF fl (DLeaf (LBool b))) with (if b then s_true else s_false).
      destruct b; apply const_leaf_alpha; repeat constructor.
    - apply (ror2_str_alpha fl s).
    - apply (ror2_str_alpha fl s).
  Qed.

  (* ---- the output alphabet of a whole document *)
  Definition struct_consts : bytes := [x28; x29; x2c; x3a] ++ v2_list_prefix.
  Definition key_alpha (fl : flavour) (c : byte) : bool := leaf_alpha fl c || mem_byte c struct_consts.

  Lemma leaf_key_alpha fl s : Forall (fun c => leaf_alpha fl c = true) s -> Forall (fun c => key_alpha fl c = true) s.
  Proof. apply Forall_impl. intros c Hc. unfold key_alpha. rewrite Hc. reflexivity. Qed.

  Lemma const_key_alpha fl s :
    Forall (fun c => mem_byte c struct_consts = true) s -> Forall (fun c => key_alpha fl c = true) s.
  Proof. apply Forall_mem_sub. intros c Hc. unfold key_alpha. rewrite Hc. apply orb_true_r. Qed.

  Lemma doc_alphabet fl d : Forall (fun c => key_alpha fl c = true) (ror2 fmtF fl d).
  Proof.
    induction d as [l|items IH|ents IH] using doc_ind'.
    - apply leaf_key_alpha, leaf_alphabet.
    - rewrite ror2_arr. apply Forall_app. split; [apply const_key_alpha; repeat constructor|].
      apply Forall_app. split; [|apply const_key_alpha; repeat constructor].
      apply Forall_join; [apply const_key_alpha; repeat constructor|].
      apply Forall_map. exact IH.
    - rewrite ror2_obj. apply Forall_app. split; [apply const_key_alpha; repeat constructor|].
      apply Forall_app. split; [|apply const_key_alpha; repeat constructor].
      apply Forall_join; [apply const_key_alpha; repeat constructor|].
      apply Forall_map. eapply Forall_impl; [|exact IH].
      intros [k x] Hx. cbn [fst snd] in *.
      apply Forall_app. split; [apply leaf_key_alpha, ror2_str_alpha|].
      apply Forall_app. split; [apply const_key_alpha; repeat constructor | exact Hx].
  Qed.

  (* ================================================================================================ A *)
  Lemma slash_not_key_alpha : key_alpha FPath x2f = false.
  Proof. vm_compute. reflexivity. Qed.

  Theorem no_slash_in_encoded_key d : mem_byte x2f (ror2 fmtF FPath d) = false.
  Proof. apply (Forall_avoids (key_alpha FPath)); [apply doc_alphabet | apply slash_not_key_alpha]. Qed.

  Lemma path_segs_no_slash segs : forall keys,
    Forall (fun s => mem_byte x2f (sg_name s) = false) segs ->
    Forall (fun g => mem_byte x2f g = false) (path_segs fmtF segs keys).
  Proof.
    induction segs as [|s r IH]; intros keys HF; [constructor|].
    inversion HF as [|? ? Hs Hr]; subst. cbn [path_segs].
    destruct (sg_coll s).
    - destruct keys as [|k ks].
      + constructor; [exact Hs | apply IH; exact Hr].
      + constructor; [exact Hs|]. constructor; [apply no_slash_in_encoded_key | apply IH; exact Hr].
    - constructor; [exact Hs | apply IH; exact Hr].
  Qed.

  Lemma path_segs_nonempty segs keys : segs <> [] -> path_segs fmtF segs keys <> [].
  Proof.
    destruct segs as [|s r]; [congruence|]. intros _. cbn [path_segs].
    destruct (sg_coll s); [destruct keys|]; discriminate.
  Qed.

  Theorem path_segments_recovered c :
    cl_segs c <> [] -> Forall (fun s => mem_byte x2f (sg_name s) = false) (cl_segs c) ->
    split_on x2f (join_with [x2f] (path_segs fmtF (cl_segs c) (cl_keys c))) = path_segs fmtF (cl_segs c) (cl_keys c) /\
    exists rest, resource_path fmtF c = x2f :: rest /\ split_on x2f rest = path_segs fmtF (cl_segs c) (cl_keys c).
  Proof.
    intros Hne HF.
    assert (E : split_on x2f (join_with [x2f] (path_segs fmtF (cl_segs c) (cl_keys c)))
                = path_segs fmtF (cl_segs c) (cl_keys c)).
    { apply split_join_no_sep; [apply path_segs_nonempty; exact Hne | apply path_segs_no_slash; exact HF]. }
    split; [exact E|]. eexists. split; [reflexivity | exact E].
  Qed.

  (* ================================================================================================ B *)
  Lemma quote_not_path_out : out_byte v2_hex_chars (esc_safe FPath) x27 = false.
  Proof. vm_compute. reflexivity. Qed.
  Lemma path_hex_ok : hex_ok v2_hex_chars = true.
  Proof. vm_compute. reflexivity. Qed.
  Lemma path_safe_ok : safe_ok false (esc_safe FPath) = true.
  Proof. vm_compute. reflexivity. Qed.

  Theorem key_roundtrip_through_path s : read_string_segment (ror2 fmtF FPath (DLeaf (LStr s))) = Some s.
  Proof.
    unfold read_string_segment. change (ror2 fmtF FPath (DLeaf (LStr s))) with (ror2_str FPath s).
    rewrite ror2_str_eq. destruct s as [|c s]; [reflexivity|].
    assert (Hq : mem_byte x27 (escape_with v2_hex_chars (esc_safe FPath) (c :: s)) = false)
      by (apply escape_avoids; [reflexivity | exact quote_not_path_out]).
    destruct (bytes_eqb (escape_with v2_hex_chars (esc_safe FPath) (c :: s)) v2_empty_string) eqn:E.
    - apply bytes_eqb_eq in E. rewrite E in Hq. discriminate Hq.
    - apply unescape_escape; [exact path_hex_ok | exact path_safe_ok].
  Qed.

  (* ================================================================================================ B2 *)
  Lemma parens_not_leaf_alpha fl : leaf_alpha fl x28 = false /\ leaf_alpha fl x29 = false.
  Proof. destruct fl; split; vm_compute; reflexivity. Qed.

  Lemma valid_skip s : mem_byte x28 s = false -> mem_byte x29 s = false ->
    forall n rest, valid_ror2_from n (s ++ rest) = valid_ror2_from n rest.
  Proof.
    induction s as [|c s IH]; intros H1 H2 n rest; [reflexivity|].
    cbn [mem_byte] in H1, H2. apply orb_false_iff in H1 as [A1 B1]. apply orb_false_iff in H2 as [A2 B2].
    cbn [app valid_ror2_from]. rewrite A1, A2. apply IH; assumption.
  Qed.

  Definition balanced (b : bytes) : Prop := forall n rest, valid_ror2_from n (b ++ rest) = valid_ror2_from n rest.

  Lemma leaf_alpha_balanced fl s : Forall (fun c => leaf_alpha fl c = true) s -> balanced s.
  Proof.
    intros HF n rest. destruct (parens_not_leaf_alpha fl) as [A B].
    apply valid_skip; apply (Forall_avoids (leaf_alpha fl)); assumption.
  Qed.

  Lemma balanced_app a b : balanced a -> balanced b -> balanced (a ++ b).
  Proof. intros Ha Hb n rest. rewrite <- app_assoc. rewrite Ha. apply Hb. Qed.

  Lemma balanced_sep c : Byte.eqb c x28 = false -> Byte.eqb c x29 = false -> balanced [c].
  Proof. intros A B n rest. cbn [app valid_ror2_from]. rewrite A, B. reflexivity. Qed.

  Lemma balanced_join l : Forall balanced l -> balanced (join_bytes [x2c] l).
  Proof.
    intros HF. induction HF as [|a r Ha Hr IH]; [intros n rest; reflexivity|].
    destruct r as [|b r']; [exact Ha|].
    change (join_bytes [x2c] (a :: b :: r')) with (a ++ [x2c] ++ join_bytes [x2c] (b :: r')).
    apply balanced_app; [exact Ha|]. apply balanced_app; [apply balanced_sep; reflexivity | exact IH].
  Qed.

  Lemma balanced_wrap pre b : mem_byte x28 pre = false -> mem_byte x29 pre = false ->
    balanced b -> balanced (pre ++ [x28] ++ b ++ [x29]).
  Proof.
    intros H1 H2 Hb n rest. rewrite <- app_assoc. rewrite (valid_skip pre H1 H2).
    cbn [app]. change (valid_ror2_from n (x28 :: (b ++ [x29]) ++ rest)) with (valid_ror2_from (S n) ((b ++ [x29]) ++ rest)).
    rewrite <- app_assoc. rewrite Hb. reflexivity.
  Qed.

  Lemma doc_balanced fl d : balanced (ror2 fmtF fl d).
  Proof.
    induction d as [l|items IH|ents IH] using doc_ind'.
    - eapply leaf_alpha_balanced. apply leaf_alphabet.
    - rewrite ror2_arr.
      change v2_list_prefix with ([x4c; x69; x73; x74] ++ [x28]). rewrite <- app_assoc.
      apply balanced_wrap; [reflexivity | reflexivity|].
      apply balanced_join. apply Forall_map. exact IH.
    - rewrite ror2_obj. apply (balanced_wrap []); [reflexivity | reflexivity|].
      apply balanced_join. apply Forall_map. eapply Forall_impl; [|exact IH].
      intros [k x] Hx. cbn [fst snd] in *.
      apply balanced_app; [eapply leaf_alpha_balanced; apply ror2_str_alpha|].
      apply balanced_app; [apply balanced_sep; reflexivity | exact Hx].
  Qed.

  (* every flavour, every document *)
  Theorem encoded_doc_valid_ror2 fl d : valid_ror2 (ror2 fmtF fl d) = true.
  Proof.
    unfold valid_ror2. rewrite <- (app_nil_r (ror2 fmtF fl d)). rewrite (doc_balanced fl d 0 []). reflexivity.
  Qed.

  Theorem encoded_key_valid_ror2 d : valid_ror2 (ror2 fmtF FPath d) = true.
  Proof. apply encoded_doc_valid_ror2. Qed.

  (* ================================================================================================ C *)
  Lemma header_method_name m : m <> Method_Unknown -> header_method (method_name m) = m.
  Proof. intros _. destruct m; vm_compute; reflexivity. Qed.

  Theorem method_header_always_sent ctx c : cl_method c <> Method_Unknown ->
    header_method (r_header (as_served fmtF ctx c)) = cl_method c /\
    forall th, w_method_header (on_wire fmtF ctx th c) = method_name (cl_method c).
  Proof.
    intros H. split; [apply header_method_name; exact H|].
    intros th. unfold on_wire. cbv zeta. destruct (tunnels th (client_query fmtF c)); reflexivity.
  Qed.

  Theorem verb_specified coll m : m <> Method_Unknown -> specified coll (header_method (method_name m)) (verb_of m).
  Proof.
    intros H. rewrite (header_method_name m H). unfold specified. destruct coll.
    - right. destruct m; try reflexivity. contradiction H; reflexivity.
    - destruct m; cbn; intros E; try discriminate E. reflexivity.
  Qed.
End Rend.

(* ================================================================================================ D *)
(* the resource tree contains the chain of nodes the call's resource path names, with matching collection flags;
   p is the node of the resource itself *)
Fixpoint chain (sibs : list node) (segs : list rseg) (p : node) : Prop :=
  match segs with
  | [] => False
  | s :: r =>
      match r with
      | [] => In p sibs /\ n_name p = sg_name s /\ n_coll p = sg_coll s
      | _ :: _ => exists n, In n sibs /\ n_name n = sg_name s /\ n_coll n = sg_coll s /\ chain (n_subs n) r p
      end
  end.

(* the call carries one key per collection above the resource, and the resource's own key exactly when the method is
   entity-level (hasEntity) *)
Fixpoint keys_fit (segs : list rseg) (keys : list doc) (hasEntity : bool) : Prop :=
  match segs with
  | [] => False
  | s :: r =>
      match r with
      | [] => if sg_coll s then (if hasEntity then exists k, keys = [k] else keys = [])
              else keys = [] /\ hasEntity = false
      | _ :: _ => if sg_coll s then exists k ks, keys = k :: ks /\ keys_fit r ks hasEntity
                  else keys_fit r keys hasEntity
      end
  end.

(* the method is one the protocol defines for that kind of URI: on a collection the entity key is present exactly for
   get / update / partial_update / delete (actions: either); on a simple resource there is no key and the method is the
   one its verb stands for (POST: action when the action parameter is set, partial_update otherwise) *)
Definition method_fits (coll : bool) (m : method) (hasEntity actionSet : bool) : Prop :=
  if coll then entity_matches m hasEntity = true
  else hasEntity = false /\ spec_simple (verb_of m) actionSet = Some m.

Definition target_name (c : call) : option bytes :=
  match cl_method c with Method_finder | Method_action => cl_name c | _ => None end.

Lemma spec_method_client coll m e q i a : m <> Method_Unknown -> method_fits coll m e a ->
  spec_method coll m (verb_of m) e q i a = Some m.
Proof.
  intros Hm Hf. unfold spec_method, method_fits in *. destruct coll.
  - unfold spec_collection. destruct m; try (contradiction Hm; reflexivity); cbn in *; try rewrite Hf; reflexivity.
  - destruct Hf as [-> Hf]. exact Hf.
Qed.

Section Reach.
  Variable fmtF : bool -> N -> bytes.

  Lemma path_segs_head s r keys : exists rest, path_segs fmtF (s :: r) keys = sg_name s :: rest.
  Proof. cbn [path_segs]. destruct (sg_coll s); [destruct keys|]; eexists; reflexivity. Qed.

  Lemma walk_of_chain segs : forall sibs keys p e,
    chain sibs segs p -> keys_fit segs keys e ->
    walk sibs (path_segs fmtF segs keys) (map (seg_of) segs) (map (ror2 fmtF FPath) keys) p e.
  Proof.
    induction segs as [|s r IH]; intros sibs keys p e Hc Hk; [contradiction Hc|].
    destruct r as [|s' r'].
    - cbn [chain] in Hc. destruct Hc as [Hin [Hn Hcl]]. cbn [keys_fit] in Hk.
      cbn [path_segs map]. unfold seg_of at 1. rewrite <- Hn.
      destruct (sg_coll s) eqn:Ecl.
      + destruct e.
        * destruct Hk as [k ->]. cbn [map path_segs]. apply W_key; try assumption; try reflexivity.
          apply encoded_key_valid_ror2.
        * subst keys. cbn [map path_segs].
          pose proof (W_end sibs p _ Hin eq_refl) as W. rewrite Hcl in W. exact W.
      + destruct Hk as [-> ->]. cbn [map].
        pose proof (W_end sibs p _ Hin eq_refl) as W. rewrite Hcl in W. exact W.
    - change (chain sibs (s :: s' :: r') p) with
        (exists n, In n sibs /\ n_name n = sg_name s /\ n_coll n = sg_coll s /\ chain (n_subs n) (s' :: r') p) in Hc.
      destruct Hc as [n [Hin [Hn [Hcl Hc]]]].
      change (keys_fit (s :: s' :: r') keys e) with
        (if sg_coll s then exists k ks, keys = k :: ks /\ keys_fit (s' :: r') ks e else keys_fit (s' :: r') keys e) in Hk.
      change (map seg_of (s :: s' :: r')) with ((sg_name s, sg_coll s) :: map seg_of (s' :: r')).
      change (path_segs fmtF (s :: s' :: r') keys) with
        (if sg_coll s then match keys with
                           | k :: ks => sg_name s :: ror2 fmtF FPath k :: path_segs fmtF (s' :: r') ks
                           | [] => sg_name s :: path_segs fmtF (s' :: r') []
                           end
         else sg_name s :: path_segs fmtF (s' :: r') keys).
      rewrite <- Hn.
      destruct (sg_coll s) eqn:Ecl.
      + destruct Hk as [k [ks [-> Hk]]]. cbn [map].
        pose proof (IH (n_subs n) ks p e Hc Hk) as W.
        destruct (path_segs_head s' r' ks) as [rest Er]. rewrite Er in *.
        apply (W_sub_coll sibs n); try assumption; try reflexivity. apply encoded_key_valid_ror2.
      + pose proof (IH (n_subs n) keys p e Hc Hk) as W.
        destruct (path_segs_head s' r' keys) as [rest Er]. rewrite Er in *.
        apply (W_sub_simple sibs n); try assumption; reflexivity.
  Qed.

  Lemma chain_nonempty sibs segs p : chain sibs segs p -> segs <> [].
  Proof. destruct segs; [intros []|discriminate]. Qed.

  (* the path / header / inference part, relative to what ParseQueryParams yields for the query the client built *)
  Theorem call_reaches_method_relative s ctx c p hasEntity params :
    wf_server s -> s_prefix s = ctx ++ [x2f] ->
    Forall (fun g => mem_byte x2f (sg_name g) = false) (cl_segs c) ->
    chain (s_roots s) (cl_segs c) p -> keys_fit (cl_segs c) (cl_keys c) hasEntity ->
    cl_method c <> Method_Unknown ->
    parse_query (client_query fmtF c) = Some params ->
    method_fits (n_coll p) (cl_method c) hasEntity (negb (bytes_eqb (param_or_empty param_action params) [])) ->
    registered p (cl_method c) (target_name c) params ->
    route_root s (as_served fmtF ctx c) = Dispatch (call_target fmtF c).
  Proof.
    intros Hwf Hpre Hnames Hch Hkeys Hm Hq Hfit Hreg.
    apply route_iff_spec; [exact Hwf | |].
    - intros segs ps ks q e _ _. cbn [as_served r_header r_verb]. apply verb_specified. exact Hm.
    - exists (path_segs fmtF (cl_segs c) (cl_keys c)), (map seg_of (cl_segs c)), (map (ror2 fmtF FPath) (cl_keys c)),
             p, hasEntity, params, (cl_method c), (target_name c).
      split; [|split; [|split; [|split; [|split]]]].
      + unfold path_of. cbn [as_served r_path]. split; [|split].
        * rewrite Hpre. unfold resource_path, c_slash. rewrite <- app_assoc. reflexivity.
        * apply path_segs_nonempty. eapply chain_nonempty. exact Hch.
        * apply path_segs_no_slash. exact Hnames.
      + apply walk_of_chain; assumption.
      + exact Hq.
      + cbn [as_served r_header r_verb]. rewrite (header_method_name (cl_method c) Hm).
        apply spec_method_client; assumption.
      + exact Hreg.
      + reflexivity.
  Qed.
End Reach.

(* ================================================================================================ D, the query side *)
(* a name made of characters the query escaper leaves alone (no '&', '=', '(', ')', ...) *)
Definition plain (n : bytes) : Prop := Forall (fun c => esc_safe FQuery c = true) n.

Lemma join_with_bytes sep l : join_with sep l = join_bytes sep l.
Proof. induction l as [|a r IH]; [reflexivity|]. destruct r as [|b r']; [reflexivity|]. cbn [join_with join_bytes] in *. rewrite IH. reflexivity. Qed.

Lemma index_byte_app c k v : mem_byte c k = false -> index_byte c (k ++ c :: v) = Some (length k).
Proof.
  induction k as [|x k IH]; intros H; cbn [app index_byte length]; [rewrite byte_eqb_refl; reflexivity|].
  cbn [mem_byte] in H. apply orb_false_iff in H as [A B]. rewrite A, (IH B). reflexivity.
Qed.

Lemma cut_app c k v : mem_byte c k = false -> cut c (k ++ c :: v) = (k, v).
Proof.
  intros H. unfold cut. rewrite (index_byte_app c k v H). f_equal.
  - induction k as [|x k IH]; [reflexivity|]. cbn [mem_byte] in H. apply orb_false_iff in H as [_ B].
    cbn [app length firstn]. rewrite (IH B). reflexivity.
  - clear H. induction k as [|x k IH]; [reflexivity|]. exact IH.
Qed.

Definition entry_ok (kv : bytes * bytes) : Prop :=
  mem_byte x3d (fst kv) = false /\ mem_byte x26 (fst kv) = false /\ mem_byte x26 (snd kv) = false /\ valid_ror2 (snd kv) = true.

Lemma parse_params_ok L : forall acc, Forall entry_ok L ->
  parse_params (map (fun kv => fst kv ++ [c_eq] ++ snd kv) L) acc = Some (rev L ++ acc).
Proof.
  induction L as [|[k v] L IH]; intros acc HF; [reflexivity|].
  inversion HF as [|? ? Ha Hr]; subst. destruct Ha as [A [_ [_ D]]]. cbn [fst snd] in *.
  cbn [map parse_params fst snd].
  assert (E : bytes_eqb (k ++ [c_eq] ++ v) [] = false) by (destruct k; reflexivity).
  rewrite E. unfold c_eq. cbn [app]. rewrite (cut_app x3d k v A). rewrite D.
  rewrite (IH _ Hr). cbn [rev]. rewrite <- app_assoc. reflexivity.
Qed.

Lemma parse_query_render L : Forall entry_ok L -> parse_query (render_entries L) = Some (rev L).
Proof.
  intros HF. destruct L as [|a L]; [reflexivity|].
  unfold parse_query, render_entries, c_amp. rewrite split_join_no_sep.
  - rewrite parse_params_ok by exact HF. rewrite app_nil_r. reflexivity.
  - discriminate.
  - apply Forall_map. eapply Forall_impl; [|exact HF]. intros [k v] [_ [B [C _]]]. cbn [fst snd] in *.
    rewrite !mem_byte_app, B, C. reflexivity.
Qed.

Lemma insert_entry_In {A} (x : bytes * A) k v l : In x (insert_entry k v l) <-> x = (k, v) \/ In x l.
Proof.
  induction l as [|[k' v'] r IH]; cbn [insert_entry].
  - simpl. intuition.
  - destruct (bytes_ltb k k'); simpl in *; [intuition|]. rewrite IH. intuition.
Qed.

Lemma sort_entries_In {A} (x : bytes * A) l : In x (sort_entries l) <-> In x l.
Proof.
  induction l as [|[k v] r IH]; cbn [sort_entries]; [tauto|]. rewrite insert_entry_In, IH. simpl. intuition.
Qed.

Lemma insert_sorted_In x y l : In x (insert_sorted y l) <-> x = y \/ In x l.
Proof.
  induction l as [|z r IH]; cbn [insert_sorted].
  - simpl. intuition.
  - destruct (bytes_ltb y z); simpl in *; [intuition|]. rewrite IH. intuition.
Qed.

Lemma sort_bytes_In x l : In x (sort_bytes l) <-> In x l.
Proof.
  unfold sort_bytes. induction l as [|y r IH]; cbn [fold_right]; [tauto|]. rewrite insert_sorted_In, IH. simpl. intuition.
Qed.

Lemma Forall_sort_bytes (P : bytes -> Prop) l : Forall P l -> Forall P (sort_bytes l).
Proof. rewrite !Forall_forall. intros H x Hx. apply H. apply sort_bytes_In. exact Hx. Qed.

Lemma assoc_unique k v l : In (k, v) l -> (forall v', In (k, v') l -> v' = v) -> assoc k l = Some v.
Proof.
  induction l as [|[k' v'] r IH]; intros Hin Hu; [contradiction Hin|]. cbn [assoc].
  destruct (bytes_eqb k' k) eqn:E.
  - apply bytes_eqb_eq in E. subst k'. rewrite (Hu v' (or_introl eq_refl)). reflexivity.
  - destruct Hin as [Hin | Hin].
    + injection Hin as -> _. rewrite bytes_eqb_refl in E. discriminate.
    + apply IH; [exact Hin|]. intros v'' H. apply Hu. right. exact H.
Qed.

Lemma assoc_none k l : (forall v, ~ In (k, v) l) -> assoc k l = None.
Proof.
  induction l as [|[k' v'] r IH]; intros H; [reflexivity|]. cbn [assoc].
  destruct (bytes_eqb k' k) eqn:E.
  - apply bytes_eqb_eq in E. subst k'. exfalso. apply (H v'). left. reflexivity.
  - apply IH. intros v Hv. apply (H v). right. exact Hv.
Qed.

Section Query.
  Variable fmtF : bool -> N -> bytes.

  Lemma amp_eq_not_key_alpha : key_alpha FQuery x26 = false /\ key_alpha FQuery x3d = false.
  Proof. split; vm_compute; reflexivity. Qed.

  Lemma plain_leaf_alpha n : plain n -> Forall (fun c => leaf_alpha FQuery c = true) n.
  Proof. apply Forall_impl. intros c Hc. unfold leaf_alpha, out_byte. rewrite Hc. reflexivity. Qed.

  Lemma plain_no_amp_eq n : plain n -> mem_byte x26 n = false /\ mem_byte x3d n = false.
  Proof.
    intros H. apply plain_leaf_alpha, (leaf_key_alpha FQuery) in H. destruct amp_eq_not_key_alpha as [A B].
    split; apply (Forall_avoids (key_alpha FQuery)); assumption.
  Qed.

  Lemma plain_valid n : plain n -> valid_ror2 n = true.
  Proof.
    intros H. apply plain_leaf_alpha, (leaf_alpha_balanced FQuery) in H.
    unfold valid_ror2. rewrite <- (app_nil_r n). rewrite (H 0 []). reflexivity.
  Qed.

  Lemma escape_plain n : plain n -> escape_with v2_hex_chars (esc_safe FQuery) n = n.
  Proof.
    induction 1 as [|c n Hc Hn IH]; [reflexivity|].
    unfold escape_with in *. cbn [flat_map]. rewrite Hc, IH. reflexivity.
  Qed.

  Lemma ror2_str_plain n : n <> [] -> plain n -> ror2_str fmtF FQuery n = n.
  Proof. intros Hne Hp. rewrite ror2_str_eq. destruct n; [congruence|]. apply escape_plain. exact Hp. Qed.

  Lemma doc_value_ok d : mem_byte x26 (ror2 fmtF FQuery d) = false /\ valid_ror2 (ror2 fmtF FQuery d) = true.
  Proof.
    split; [|apply encoded_doc_valid_ror2].
    apply (Forall_avoids (key_alpha FQuery)); [apply doc_alphabet | apply amp_eq_not_key_alpha].
  Qed.

  Lemma ids_value_ok ks : mem_byte x26 (ids_value fmtF ks) = false /\ valid_ror2 (ids_value fmtF ks) = true.
  Proof.
    unfold ids_value. rewrite join_with_bytes. split.
    - apply (Forall_avoids (key_alpha FQuery)); [|apply amp_eq_not_key_alpha].
      apply Forall_app. split; [apply const_key_alpha; repeat constructor|].
      apply Forall_app. split; [|apply const_key_alpha; repeat constructor].
      apply Forall_join; [apply const_key_alpha; repeat constructor|].
      apply Forall_sort_bytes. apply Forall_map. apply Forall_forall. intros d _. apply doc_alphabet.
    - assert (B : balanced (v2_list_prefix ++ join_bytes [x2c] (sort_bytes (map (ror2 fmtF FQuery) ks)) ++ [x29])).
      { change v2_list_prefix with ([x4c; x69; x73; x74] ++ [x28]). rewrite <- app_assoc.
        apply balanced_wrap; [reflexivity | reflexivity|].
        apply balanced_join. apply Forall_sort_bytes. apply Forall_map. apply Forall_forall. intros d _. apply doc_balanced. }
      unfold valid_ror2. rewrite <- (app_nil_r (_ ++ _)). rewrite (B 0 []). reflexivity.
  Qed.

  (* the query-side conditions on a call: declared parameter names are plain and are not the reserved q / action / ids;
     the finder / action name is plain and not empty *)
  Definition wf_query (c : call) : Prop :=
    Forall (fun kd => plain (fst kd) /\ fst kd <> param_finder /\ fst kd <> param_action /\ fst kd <> entity_ids_field)
           (cl_params c) /\
    match cl_method c with
    | Method_finder | Method_action => exists n, cl_name c = Some n /\ n <> [] /\ plain n
    | _ => True
    end.

  Definition raw_entries (c : call) : list (bytes * bytes) :=
    (match cl_method c, cl_name c with
     | Method_finder, Some n => [(param_finder, ror2 fmtF FQuery (DLeaf (LStr n)))]
     | _, _ => []
     end) ++
    (match cl_ids c with Some ks => [(entity_ids_field, ids_value fmtF ks)] | None => [] end) ++
    map (fun kd => (fst kd, ror2 fmtF FQuery (snd kd))) (cl_params c).

  Lemma query_entries_eq c : query_entries fmtF c = sort_entries (raw_entries c).
  Proof. reflexivity. Qed.

  (* where an entry comes from *)
  Lemma raw_entries_In c k v : In (k, v) (raw_entries c) ->
    (k = param_finder /\ cl_method c = Method_finder /\ exists n, cl_name c = Some n /\ v = ror2_str fmtF FQuery n) \/
    (k = entity_ids_field /\ exists ks, v = ids_value fmtF ks) \/
    (exists d, In (k, d) (cl_params c) /\ v = ror2 fmtF FQuery d).
  Proof.
    unfold raw_entries. intros H. apply in_app_or in H as [H | H]; [|apply in_app_or in H as [H | H]].
    - left. destruct (cl_method c); try contradiction H. destruct (cl_name c) as [n|]; [|contradiction H].
      destruct H as [H | []]. injection H as <- <-. split; [reflexivity|]. split; [reflexivity|]. exists n. split; reflexivity.
    - right. left. destruct (cl_ids c) as [ks|]; [|contradiction H]. destruct H as [H | []]. injection H as <- <-.
      split; [reflexivity|]. exists ks. reflexivity.
    - right. right. apply in_map_iff in H as [[k' d] [E Hin]]. cbn [fst snd] in E. injection E as -> <-.
      exists d. split; [exact Hin | reflexivity].
  Qed.

  Lemma raw_entries_ok c : wf_query c -> Forall entry_ok (raw_entries c).
  Proof.
    intros [Hp _]. apply Forall_forall. intros [k v] Hin. unfold entry_ok. cbn [fst snd].
    apply raw_entries_In in Hin as [[-> [_ [n [_ ->]]]] | [[-> [ks ->]] | [d [Hin ->]]]].
    - split; [reflexivity|]. split; [reflexivity|]. apply (doc_value_ok (DLeaf (LStr n))).
    - split; [reflexivity|]. split; [reflexivity|]. apply ids_value_ok.
    - rewrite Forall_forall in Hp. destruct (Hp _ Hin) as [Hpl _]. cbn [fst] in Hpl.
      destruct (plain_no_amp_eq k Hpl) as [A B]. split; [exact B|]. split; [exact A|]. apply doc_value_ok.
  Qed.

  (* what ParseQueryParams yields for the query the client built, as far as routing looks at it *)
  Lemma client_query_parsed c : wf_query c ->
    exists params,
      parse_query (client_query fmtF c) = Some params /\
      param_or_empty param_action params =
        (match cl_method c, cl_name c with Method_action, Some n => n | _, _ => [] end) /\
      (cl_method c = Method_finder -> forall n, cl_name c = Some n -> param_or_empty param_finder params = n).
  Proof.
    intros Hwf. destruct (method_eqb (cl_method c) Method_action) eqn:Ea.
    - apply method_eqb_eq in Ea. destruct Hwf as [_ Hn]. rewrite Ea in Hn. destruct Hn as [n [En [Hne Hpl]]].
      exists [(param_action, n)]. unfold client_query. rewrite Ea, En. split; [|split].
      + change (param_action ++ [c_eq] ++ n) with (render_entries [(param_action, n)]).
        apply (parse_query_render [(param_action, n)]). constructor; [|constructor].
        unfold entry_ok. cbn [fst snd]. split; [reflexivity|]. split; [reflexivity|].
        split; [apply plain_no_amp_eq; exact Hpl | apply plain_valid; exact Hpl].
      + unfold param_or_empty. cbn [assoc]. rewrite bytes_eqb_refl. reflexivity.
      + intros E. discriminate E.
    - apply method_eqb_neq in Ea.
      assert (Eq : client_query fmtF c = render_entries (query_entries fmtF c)).
      { unfold client_query. destruct (cl_method c); try reflexivity. contradiction Ea; reflexivity. }
      exists (rev (sort_entries (raw_entries c))). rewrite Eq, query_entries_eq. split; [|split].
      + apply parse_query_render. apply Forall_forall. intros x Hx. rewrite sort_entries_In in Hx.
        pose proof (raw_entries_ok c Hwf) as HF. rewrite Forall_forall in HF. apply HF. exact Hx.
      + assert (En : assoc param_action (rev (sort_entries (raw_entries c))) = None).
        { apply assoc_none. intros v Hv. rewrite <- in_rev, sort_entries_In in Hv.
          apply raw_entries_In in Hv as [[E _] | [[E _] | [d [Hin _]]]]; try discriminate E.
          destruct Hwf as [Hp _]. rewrite Forall_forall in Hp. destruct (Hp _ Hin) as [_ [_ [N _]]]. apply N. reflexivity. }
        unfold param_or_empty. rewrite En.
        destruct (cl_method c); try reflexivity. contradiction Ea; reflexivity.
      + intros Ef n En. destruct Hwf as [Hp Hn]. rewrite Ef in Hn. destruct Hn as [n' [En' [Hne Hpl]]].
        rewrite En in En'. injection En' as <-.
        unfold param_or_empty. rewrite (assoc_unique param_finder n).
        * reflexivity.
        * rewrite <- in_rev, sort_entries_In. unfold raw_entries. apply in_or_app. left.
          rewrite Ef, En. left. f_equal. apply (ror2_str_plain n Hne Hpl).
        * intros v' Hv. rewrite <- in_rev, sort_entries_In in Hv.
          apply raw_entries_In in Hv as [[_ [_ [m [Em ->]]]] | [[E _] | [d [Hin _]]]].
          -- rewrite En in Em. injection Em as <-. apply (ror2_str_plain n Hne Hpl).
          -- discriminate E.
          -- rewrite Forall_forall in Hp. destruct (Hp _ Hin) as [_ [N _]]. exfalso. apply N. reflexivity.
  Qed.

  (* "its Rest.li method is registered on that resource", in terms of the call *)
  Definition registered_call (p : node) (c : call) : Prop :=
    match cl_method c with
    | Method_finder => exists n, cl_name c = Some n /\ In n (n_finders p)
    | Method_action => exists n, cl_name c = Some n /\ In n (n_actions p)
    | m => In m (n_methods p)
    end.

  Theorem call_reaches_method_partial s ctx c p hasEntity :
    wf_server s -> s_prefix s = ctx ++ [x2f] ->
    Forall (fun g => mem_byte x2f (sg_name g) = false) (cl_segs c) ->
    chain (s_roots s) (cl_segs c) p -> keys_fit (cl_segs c) (cl_keys c) hasEntity ->
    cl_method c <> Method_Unknown -> wf_query c ->
    method_fits (n_coll p) (cl_method c) hasEntity (method_eqb (cl_method c) Method_action) ->
    registered_call p c ->
    route_root s (as_served fmtF ctx c) = Dispatch (call_target fmtF c).
  Proof.
    intros Hwf Hpre Hnames Hch Hkeys Hm Hq Hfit Hreg.
    destruct (client_query_parsed c Hq) as [params [Hparse [Hact Hfind]]].
    apply (call_reaches_method_relative fmtF s ctx c p hasEntity params); try assumption.
    - rewrite Hact. destruct Hq as [_ Hn].
      destruct (cl_method c) eqn:Em; try exact Hfit.
      destruct Hn as [n [-> [Hne _]]]. destruct n; [congruence | exact Hfit].
    - unfold registered, registered_call, target_name in *.
      destruct (cl_method c) eqn:Em; try (split; [reflexivity | exact Hreg]).
      + destruct Hreg as [n [En Hin]]. rewrite En in Hact. rewrite Hact. split; [exact En | exact Hin].
      + destruct Hreg as [n [En Hin]]. rewrite (Hfind eq_refl n En). split; [exact En | exact Hin].
  Qed.
End Query.

(* Without the query-side conditions the statement is false of the model: an action whose name holds an unmatched ')'
   (not a name the generator can emit: names are identifiers) is answered 400 by ParseQueryParams. *)
Definition bad_action_server : server := {| s_prefix := [x2f]; s_roots := [Node [x61] true [] [] [[x29]] []] |}.
Definition bad_action_call : call :=
  {| cl_segs := [{| sg_name := [x61]; sg_coll := true |}]; cl_keys := []; cl_method := Method_action; cl_name := Some [x29];
     cl_params := []; cl_ids := None; cl_has_query := true |}.

Lemma call_reaches_method_refuted :
  exists (fmtF : bool -> N -> bytes) (s : server) (ctx : bytes) (c : call) (p : node) (hasEntity : bool),
    wf_server s /\ s_prefix s = ctx ++ [x2f] /\
    Forall (fun g => mem_byte x2f (sg_name g) = false) (cl_segs c) /\
    chain (s_roots s) (cl_segs c) p /\ keys_fit (cl_segs c) (cl_keys c) hasEntity /\
    cl_method c <> Method_Unknown /\
    method_fits (n_coll p) (cl_method c) hasEntity (method_eqb (cl_method c) Method_action) /\
    registered_call p c /\
    route_root s (as_served fmtF ctx c) <> Dispatch (call_target fmtF c).
Proof.
  exists (fun _ _ => []), bad_action_server, [], bad_action_call, (Node [x61] true [] [] [[x29]] []), false.
  split; [|split; [|split; [|split; [|split; [|split; [|split; [|split]]]]]]].
  - unfold wf_server, wf_nodes. cbn. split.
    + constructor; [intros []|constructor].
    + constructor; [|constructor]. split; [intros []|]. split; [constructor | exact I].
  - reflexivity.
  - constructor; [reflexivity | constructor].
  - cbn. split; [left; reflexivity|]. split; reflexivity.
  - reflexivity.
  - discriminate.
  - reflexivity.
  - cbn. exists [x29]. split; [reflexivity | left; reflexivity].
  - vm_compute. discriminate.
Qed.
