(* RouterHeapProofs: the heap-level model of the routing tree (Http/RouterHeap.v: nodes at locations, registration
   mutating in place, clone() allocating copies) refines the persistent-value model of Http/Router.v.

   Invariant (separation-logic style): [rep h l t F] - location l denotes tree t and owns exactly the locations F
   (no location is reached twice).  The live root owns F0, every handler obtained so far owns a footprint disjoint from
   F0.  Registration only writes inside the live footprint and allocates at the end of the heap; clone() only allocates.
   Hence a tree disjoint from the live footprint denotes the same value afterwards (frame rule). *)
From Coq Require Import List Bool Arith NArith Lia.
From Coq.Strings Require Import Byte.
From GR Require Import Base.Bytes Gen.TablesRouter Http.Router Http.RouterHeap Proofs.RouterProofs.
Import ListNotations.

(* ------------------------------------------------------------------------------------------------ the heap *)

Lemma hset_cons_S a h l n : hset (a :: h) (S l) n = a :: hset h l n.
Proof. reflexivity. Qed.

Lemma hset_length : forall h l n, l < length h -> length (hset h l n) = length h.
Proof.
  induction h as [|a h IH]; intros l n Hl; simpl in Hl; [lia|].
  destruct l as [|l]; [reflexivity|].
  rewrite hset_cons_S. simpl length. rewrite IH by lia. reflexivity.
Qed.

Lemma hget_hset : forall h l n x, l < length h -> hget (hset h l n) x = if Nat.eqb x l then n else hget h x.
Proof.
  induction h as [|a h IH]; intros l n x Hl; simpl in Hl; [lia|].
  destruct l as [|l].
  - destruct x as [|x]; reflexivity.
  - rewrite hset_cons_S. destruct x as [|x]; [reflexivity|].
    specialize (IH l n x ltac:(lia)). unfold hget in *. cbn [nth Nat.eqb]. exact IH.
Qed.

Lemma hget_hset_same h l n : l < length h -> hget (hset h l n) l = n.
Proof. intros H. rewrite hget_hset by exact H. rewrite Nat.eqb_refl. reflexivity. Qed.

Lemma hget_hset_other h l n x : l < length h -> x <> l -> hget (hset h l n) x = hget h x.
Proof.
  intros H Hx. rewrite hget_hset by exact H. destruct (Nat.eqb x l) eqn:E; [|reflexivity].
  apply Nat.eqb_eq in E. contradiction.
Qed.

Lemma hget_app_old h e x : x < length h -> hget (h ++ e) x = hget h x.
Proof. intros H. unfold hget. apply app_nth1. exact H. Qed.

Lemma hget_app_new h n : hget (h ++ [n]) (length h) = n.
Proof. unfold hget. rewrite app_nth2 by apply le_n. rewrite Nat.sub_diag. reflexivity. Qed.

(* ------------------------------------------------------------------------------------------------ representation *)

Definition node_of (n : hnode) (ts : list node) : node :=
  Node (h_name n) (h_coll n) (h_methods n) (h_finders n) (h_actions n) ts.

Definition disjoint (A B : list loc) : Prop := forall x, In x A -> In x B -> False.

(* [rep h l t F]: location l denotes the tree t; F = the locations of its nodes, each reached exactly once.
   [reps h ss ts F]: the subNodes map ss denotes the trees ts (in order), every key being the name of its node. *)
Inductive rep (h : heap) : loc -> node -> list loc -> Prop :=
| rep_intro : forall l ts F, l < length h -> reps h (h_subs (hget h l)) ts F -> ~ In l F ->
    rep h l (node_of (hget h l) ts) (l :: F)
with reps (h : heap) : list (bytes * loc) -> list node -> list loc -> Prop :=
| reps_nil : reps h [] [] []
| reps_cons : forall k l t F ss ts F', rep h l t F -> k = n_name t -> reps h ss ts F' -> disjoint F F' ->
    reps h ((k, l) :: ss) (t :: ts) (F ++ F').

Scheme rep_mut := Minimality for rep Sort Prop
  with reps_mut := Minimality for reps Sort Prop.
Combined Scheme rep_reps_ind from rep_mut, reps_mut.

Lemma rep_mk h l n ts F : l < length h -> hget h l = n -> reps h (h_subs n) ts F -> ~ In l F ->
  rep h l (node_of n ts) (l :: F).
Proof. intros Hl <- Hs Hn. constructor; assumption. Qed.

Lemma reps_cons' h k l t F ss ts F' F0 : rep h l t F -> k = n_name t -> reps h ss ts F' -> disjoint F F' ->
  F0 = F ++ F' -> reps h ((k, l) :: ss) (t :: ts) F0.
Proof. intros H1 H2 H3 H4 ->. constructor; assumption. Qed.

Lemma rep_bound h :
  (forall l t F, rep h l t F -> forall x, In x F -> x < length h) /\
  (forall ss ts F, reps h ss ts F -> forall x, In x F -> x < length h).
Proof.
  apply rep_reps_ind.
  - intros l ts F Hl _ IH _ x [<- | Hx]; [exact Hl | apply IH; exact Hx].
  - intros x [].
  - intros k l t F ss ts F' _ IH1 _ _ IH2 _ x Hx.
    apply in_app_or in Hx as [Hx | Hx]; [apply IH1 | apply IH2]; exact Hx.
Qed.

Lemma NoDup_app_intro (A B : list loc) : NoDup A -> NoDup B -> disjoint A B -> NoDup (A ++ B).
Proof.
  induction A as [|a A IH]; intros HA HB HD; simpl; [exact HB|].
  inversion HA as [|? ? Hni HA']; subst. constructor.
  - intros Hin. apply in_app_or in Hin as [Hin | Hin]; [exact (Hni Hin)|]. apply (HD a); [left; reflexivity | exact Hin].
  - apply IH; [exact HA' | exact HB|]. intros x Hx. apply HD. right. exact Hx.
Qed.

Lemma rep_nodup h :
  (forall l t F, rep h l t F -> NoDup F) /\ (forall ss ts F, reps h ss ts F -> NoDup F).
Proof.
  apply rep_reps_ind.
  - intros l ts F _ _ IH Hn. constructor; assumption.
  - constructor.
  - intros k l t F ss ts F' _ IH1 _ _ IH2 Hd. apply NoDup_app_intro; assumption.
Qed.

(* a footprint fits in the heap *)
Lemma rep_length h l t F : rep h l t F -> length F <= length h.
Proof.
  intros H. rewrite <- (seq_length (length h) 0). apply NoDup_incl_length.
  - exact (proj1 (rep_nodup h) _ _ _ H).
  - intros x Hx. apply in_seq. pose proof (proj1 (rep_bound h) _ _ _ H x Hx). lia.
Qed.

(* frame rule: a heap that agrees on the footprint represents the same tree there *)
Lemma rep_frame h h' :
  (forall l t F, rep h l t F -> (forall x, In x F -> x < length h' /\ hget h' x = hget h x) -> rep h' l t F) /\
  (forall ss ts F, reps h ss ts F -> (forall x, In x F -> x < length h' /\ hget h' x = hget h x) -> reps h' ss ts F).
Proof.
  apply rep_reps_ind.
  - intros l ts F Hl _ IH Hn Hag.
    destruct (Hag l (or_introl eq_refl)) as [Hl' He].
    apply rep_mk; [exact Hl' | exact He | | exact Hn].
    apply IH. intros x Hx. apply Hag. right. exact Hx.
  - intros _. constructor.
  - intros k l t F ss ts F' _ IH1 Hk _ IH2 Hd Hag. constructor.
    + apply IH1. intros x Hx. apply Hag. apply in_or_app. left. exact Hx.
    + exact Hk.
    + apply IH2. intros x Hx. apply Hag. apply in_or_app. right. exact Hx.
    + exact Hd.
Qed.

(* the usual instance: h' extends h and agrees with it outside a set W of (old) locations the footprint avoids *)
Definition agree_outside (h h' : heap) (W : list loc) : Prop :=
  length h <= length h' /\ forall x, x < length h -> ~ In x W -> hget h' x = hget h x.

Lemma rep_frame_out h h' W l t F : rep h l t F -> agree_outside h h' W -> disjoint F W -> rep h' l t F.
Proof.
  intros H [Hlen Hag] Hd. apply (proj1 (rep_frame h h') _ _ _ H).
  intros x Hx. pose proof (proj1 (rep_bound h) _ _ _ H x Hx) as Hb.
  split; [lia|]. apply Hag; [exact Hb|]. intros Hw. exact (Hd x Hx Hw).
Qed.

Lemma reps_frame_out h h' W ss ts F : reps h ss ts F -> agree_outside h h' W -> disjoint F W -> reps h' ss ts F.
Proof.
  intros H [Hlen Hag] Hd. apply (proj2 (rep_frame h h') _ _ _ H).
  intros x Hx. pose proof (proj2 (rep_bound h) _ _ _ H x Hx) as Hb.
  split; [lia|]. apply Hag; [exact Hb|]. intros Hw. exact (Hd x Hx Hw).
Qed.

Lemma agree_app h e : agree_outside h (h ++ e) [].
Proof. split; [rewrite app_length; lia|]. intros x Hx _. apply hget_app_old. exact Hx. Qed.

Lemma agree_trans h1 h2 h3 W : agree_outside h1 h2 W -> agree_outside h2 h3 W -> agree_outside h1 h3 W.
Proof.
  intros [L1 A1] [L2 A2]. split; [lia|]. intros x Hx Hw. rewrite A2 by (try lia; exact Hw). apply A1; assumption.
Qed.

(* reify computes the denoted tree as soon as the fuel covers the footprint *)
Lemma rep_reify h :
  (forall l t F, rep h l t F -> forall f, length F <= f -> reify f h l = t) /\
  (forall ss ts F, reps h ss ts F -> forall f, length F <= f -> map (fun e => reify f h (snd e)) ss = ts).
Proof.
  apply rep_reps_ind.
  - intros l ts F _ _ IH _ f Hf. destruct f as [|f]; [simpl in Hf; lia|]. simpl in Hf.
    cbn [reify]. unfold node_of. f_equal. apply IH. lia.
  - intros f _. reflexivity.
  - intros k l t F ss ts F' _ IH1 _ _ IH2 _ f Hf. rewrite app_length in Hf. cbn [map snd]. f_equal.
    + apply IH1. lia.
    + apply IH2. lia.
Qed.

Lemma rep_roots_at h l t F : rep h l t F -> roots_at h l = n_subs t.
Proof.
  intros H. unfold roots_at. rewrite (proj1 (rep_reify h) _ _ _ H); [reflexivity|].
  pose proof (rep_length _ _ _ _ H). lia.
Qed.

Lemma agree_weaken h h' W W' : agree_outside h h' W -> incl W W' -> agree_outside h h' W'.
Proof. intros [L A] Hi. split; [exact L|]. intros x Hx Hw. apply A; [exact Hx|]. intros Hin. apply Hw, Hi, Hin. Qed.

(* ------------------------------------------------------------------------------------------------ registration *)

(* the tree-level counterpart of "subNode(segments) from this node, then register": [reg_in] is its action on the
   sub list of the root pathNode *)
Fixpoint reg_node (t : node) (segs : list segment) (w : reg_what) : option node :=
  match segs with
  | [] => add_what t w
  | (nm, c) :: rest =>
      let cur := match find_sub nm (n_subs t) with Some n => n | None => Node nm c [] [] [] [] end in
      if Bool.eqb (n_coll cur) c then
        match reg_node cur rest w with
        | Some cur' => Some (with_subs t (put_sub cur' (n_subs t)))
        | None => None
        end
      else None
  end.

Lemma reg_node_cons t nm c rest w :
  reg_node t ((nm, c) :: rest) w =
  let cur := match find_sub nm (n_subs t) with Some n => n | None => Node nm c [] [] [] [] end in
  if Bool.eqb (n_coll cur) c then
    match reg_node cur rest w with
    | Some cur' => Some (with_subs t (put_sub cur' (n_subs t)))
    | None => None
    end
  else None.
Proof. reflexivity. Qed.

Lemma reg_node_reg_in w : forall segs t, segs <> [] ->
  reg_node t segs w = match reg_in (n_subs t) segs w with Some ss => Some (with_subs t ss) | None => None end.
Proof.
  induction segs as [|[nm c] rest IH]; intros t Hne; [contradiction|].
  rewrite reg_node_cons, reg_in_cons. cbv zeta.
  set (cur := match find_sub nm (n_subs t) with Some n => n | None => Node nm c [] [] [] [] end).
  destruct (Bool.eqb (n_coll cur) c); [|reflexivity].
  destruct rest as [|sg rest'].
  - cbn [reg_node]. destruct (add_what cur w); reflexivity.
  - rewrite IH by discriminate. destruct (reg_in (n_subs cur) (sg :: rest') w); reflexivity.
Qed.

Lemma add_what_name t w t' : add_what t w = Some t' -> n_name t' = n_name t.
Proof.
  destruct t as [a c ms fs acs ss]. destruct w as [m | f | f]; simpl.
  - destruct (mem_method m ms); [discriminate|]. intros H. injection H as <-. reflexivity.
  - destruct (mem_bytes f fs); [discriminate|]. intros H. injection H as <-. reflexivity.
  - destruct (mem_bytes f acs); [discriminate|]. intros H. injection H as <-. reflexivity.
Qed.

Lemma with_subs_name t ss : n_name (with_subs t ss) = n_name t.
Proof. destruct t; reflexivity. Qed.

Lemma reg_node_name t segs w t' : reg_node t segs w = Some t' -> n_name t' = n_name t.
Proof.
  destruct segs as [|[nm c] rest].
  - apply add_what_name.
  - rewrite reg_node_cons. cbv zeta.
    destruct (Bool.eqb _ c); [|discriminate].
    destruct (reg_node _ rest w); [|discriminate].
    intros H. injection H as <-. apply with_subs_name.
Qed.

Lemma put_sub_fresh n' l : find_sub (n_name n') l = None -> put_sub n' l = l ++ [n'].
Proof.
  induction l as [|a l IH]; simpl; [reflexivity|].
  destruct (bytes_eqb (n_name a) (n_name n')); [discriminate|]. intros H. rewrite IH by exact H. reflexivity.
Qed.

Lemma h_add_what_spec n w ts :
  match h_add_what n w with
  | Some n' => add_what (node_of n ts) w = Some (node_of n' ts) /\ h_subs n' = h_subs n
  | None => add_what (node_of n ts) w = None
  end.
Proof.
  destruct w as [m | f | f]; unfold h_add_what, node_of, add_what.
  - destruct (mem_method m (h_methods n)); [reflexivity | split; reflexivity].
  - destruct (mem_bytes f (h_finders n)); [reflexivity | split; reflexivity].
  - destruct (mem_bytes f (h_actions n)); [reflexivity | split; reflexivity].
Qed.

Lemma h_register_nil h l w :
  h_register h l [] w = match h_add_what (hget h l) w with Some n' => Some (hset h l n') | None => None end.
Proof. reflexivity. Qed.

Lemma h_register_cons h l nm c rest w :
  h_register h l ((nm, c) :: rest) w =
  match assoc_loc nm (h_subs (hget h l)) with
  | Some l' => if Bool.eqb (h_coll (hget h l')) c then h_register h l' rest w else None
  | None =>
      h_register (hset h l (h_with_subs (hget h l) (h_subs (hget h l) ++ [(nm, length h)])) ++ [h_new nm c])
                 (length h) rest w
  end.
Proof.
  unfold h_register. cbn [h_subnode].
  destruct (assoc_loc nm (h_subs (hget h l))) as [l'|]; [|reflexivity].
  destruct (Bool.eqb (h_coll (hget h l')) c); reflexivity.
Qed.

Lemma reps_snoc h k l t F : rep h l t F -> k = n_name t ->
  forall ss ts F0, reps h ss ts F0 -> disjoint F0 F -> reps h (ss ++ [(k, l)]) (ts ++ [t]) (F0 ++ F).
Proof.
  intros Hr Hk ss ts F0 H. induction H as [|k0 l0 t0 Fa ss ts Fb Hr0 Hk0 Hss IH Hd]; intros Hdis.
  - simpl. eapply reps_cons'; [exact Hr | exact Hk | constructor | intros x _ [] | symmetry; apply app_nil_r].
  - simpl. rewrite <- app_assoc. constructor; [exact Hr0 | exact Hk0 | |].
    + apply IH. intros x Hx. apply Hdis. apply in_or_app. right. exact Hx.
    + intros x Hx Hx'. apply in_app_or in Hx' as [Hx' | Hx']; [exact (Hd x Hx Hx')|].
      apply (Hdis x); [apply in_or_app; left; exact Hx | exact Hx'].
Qed.

(* the map lookup on the heap is find_sub on the tree; replacing what the found location denotes is put_sub *)
Lemma reps_lookup h nm : forall ss ts F0, reps h ss ts F0 ->
  match assoc_loc nm ss with
  | None => find_sub nm ts = None
  | Some l' => exists t' F1, find_sub nm ts = Some t' /\ rep h l' t' F1 /\ incl F1 F0 /\
      forall h' cur' F1', rep h' l' cur' F1' -> n_name cur' = nm -> agree_outside h h' F1 ->
        (forall x, In x F1' -> In x F1 \/ length h <= x) ->
        exists F0', reps h' ss (put_sub cur' ts) F0' /\ (forall x, In x F0' -> In x F0 \/ length h <= x)
  end.
Proof.
  intros ss ts F0 H. induction H as [|k l0 t0 Fa ss ts Fb Hr0 Hk Hss IH Hd].
  - reflexivity.
  - cbn [assoc_loc find_sub]. rewrite <- Hk. destruct (bytes_eqb k nm) eqn:E.
    + exists t0, Fa. split; [reflexivity|]. split; [exact Hr0|]. split; [apply incl_appl, incl_refl|].
      intros h' cur' F1' Hc Hn Hag Hnew. exists (F1' ++ Fb). split.
      * cbn [put_sub]. rewrite <- Hk, Hn, E. constructor.
        -- exact Hc.
        -- rewrite Hn. apply bytes_eqb_eq. exact E.
        -- apply (reps_frame_out h h' Fa _ _ _ Hss Hag). intros x Hb Ha. exact (Hd x Ha Hb).
        -- intros x Hx Hb. destruct (Hnew x Hx) as [Ha | Hge]; [exact (Hd x Ha Hb)|].
           pose proof (proj2 (rep_bound h) _ _ _ Hss x Hb). lia.
      * intros x Hx. apply in_app_or in Hx as [Hx | Hx].
        -- destruct (Hnew x Hx) as [Ha | Hge]; [left; apply in_or_app; left; exact Ha | right; exact Hge].
        -- left. apply in_or_app. right. exact Hx.
    + destruct (assoc_loc nm ss) as [l'|]; [|exact IH].
      destruct IH as [t' [F1 [Hf [Hr [Hinc Hup]]]]]. exists t', F1.
      split; [exact Hf|]. split; [exact Hr|]. split; [apply incl_appr; exact Hinc|].
      intros h' cur' F1' Hc Hn Hag Hnew.
      destruct (Hup h' cur' F1' Hc Hn Hag Hnew) as [F0' [Hreps' Hsub]].
      exists (Fa ++ F0'). split.
      * cbn [put_sub]. rewrite <- Hk, Hn, E. constructor.
        -- apply (rep_frame_out h h' F1 _ _ _ Hr0 Hag). intros x Ha H1. exact (Hd x Ha (Hinc x H1)).
        -- exact Hk.
        -- exact Hreps'.
        -- intros x Ha Hx. destruct (Hsub x Hx) as [Hb | Hge]; [exact (Hd x Ha Hb)|].
           pose proof (proj1 (rep_bound h) _ _ _ Hr0 x Ha). lia.
      * intros x Hx. apply in_app_or in Hx as [Hx | Hx].
        -- left. apply in_or_app. left. exact Hx.
        -- destruct (Hsub x Hx) as [Hb | Hge]; [left; apply in_or_app; right; exact Hb | right; exact Hge].
Qed.

Lemma rep_coll h l t F : rep h l t F -> h_coll (hget h l) = n_coll t /\ h_name (hget h l) = n_name t.
Proof. intros H. inversion H; subst. split; reflexivity. Qed.

(* subNode + register from location l: writes only inside the footprint of l, allocates at the end, and computes
   reg_node on the denoted tree; both fail in the same cases *)
Lemma h_register_rep w : forall segs h l t F, rep h l t F ->
  match reg_node t segs w with
  | None => h_register h l segs w = None
  | Some t' => exists h' F', h_register h l segs w = Some h' /\ rep h' l t' F' /\
      agree_outside h h' F /\ (forall x, In x F' -> In x F \/ length h <= x)
  end.
Proof.
  induction segs as [|[nm c] rest IH]; intros h l t F Hrep.
  - inversion Hrep as [l0 ts F0 Hl Hss Hni]; subst l0 t F.
    rewrite h_register_nil. cbn [reg_node].
    pose proof (h_add_what_spec (hget h l) w ts) as Ha.
    destruct (h_add_what (hget h l) w) as [n'|]; [|rewrite Ha; reflexivity].
    destruct Ha as [Ha Hs]. rewrite Ha. exists (hset h l n'), (l :: F0). split; [reflexivity|].
    assert (Hag : agree_outside h (hset h l n') [l]).
    { split; [rewrite hset_length by exact Hl; lia|]. intros x Hx Hw.
      apply hget_hset_other; [exact Hl|]. intros ->. apply Hw. left. reflexivity. }
    split; [|split].
    + apply rep_mk; [rewrite hset_length by exact Hl; exact Hl | apply hget_hset_same; exact Hl | | exact Hni].
      rewrite Hs. apply (reps_frame_out h _ [l] _ _ _ Hss Hag).
      intros x Hx [<- | []]. exact (Hni Hx).
    + apply (agree_weaken _ _ _ _ Hag). intros x [<- | []]. left. reflexivity.
    + intros x Hx. left. exact Hx.
  - inversion Hrep as [l0 ts F0 Hl Hss Hni]; subst l0 t F.
    rewrite h_register_cons, reg_node_cons. cbv zeta.
    change (n_subs (node_of (hget h l) ts)) with ts.
    pose proof (reps_lookup h nm _ _ _ Hss) as Hlk.
    destruct (assoc_loc nm (h_subs (hget h l))) as [l'|].
    + destruct Hlk as [t' [F1 [Hf [Hr' [Hinc Hup]]]]]. rewrite Hf.
      rewrite (proj1 (rep_coll _ _ _ _ Hr')).
      destruct (Bool.eqb (n_coll t') c); [|reflexivity].
      specialize (IH h l' t' F1 Hr').
      destruct (reg_node t' rest w) as [cur'|] eqn:Hrn; [|exact IH].
      destruct IH as [h' [F1' [Hreg [Hrep' [Hag Hnew]]]]].
      assert (Hname : n_name cur' = nm).
      { rewrite (reg_node_name _ _ _ _ Hrn). apply find_sub_some in Hf. apply Hf. }
      destruct (Hup h' cur' F1' Hrep' Hname Hag Hnew) as [F0' [Hreps' Hsub]].
      assert (Hl1 : ~ In l F1) by (intros Hin; exact (Hni (Hinc l Hin))).
      exists h', (l :: F0'). split; [exact Hreg|]. split; [|split].
      * change (with_subs (node_of (hget h l) ts) (put_sub cur' ts)) with (node_of (hget h l) (put_sub cur' ts)).
        destruct Hag as [Hlen Hag].
        apply rep_mk; [lia | apply Hag; assumption | exact Hreps' |].
        intros Hin. destruct (Hsub l Hin) as [Hin' | Hge]; [exact (Hni Hin') | lia].
      * apply (agree_weaken _ _ _ _ Hag). intros x Hx. right. apply Hinc. exact Hx.
      * intros x [<- | Hx]; [left; left; reflexivity|].
        destruct (Hsub x Hx) as [Hin' | Hge]; [left; right; exact Hin' | right; exact Hge].
    + rewrite Hlk. cbn [n_coll]. rewrite Bool.eqb_reflx.
      set (n := hget h l) in *.
      set (n1 := h_with_subs n (h_subs n ++ [(nm, length h)])).
      set (h1 := hset h l n1 ++ [h_new nm c]).
      assert (Hlen1 : length h1 = S (length h)).
      { unfold h1. rewrite app_length, hset_length by exact Hl. simpl. lia. }
      assert (Hnew1 : hget h1 (length h) = h_new nm c).
      { unfold h1. rewrite <- (hset_length h l n1 Hl). apply hget_app_new. }
      assert (Hl1 : hget h1 l = n1).
      { unfold h1. rewrite hget_app_old by (rewrite hset_length by exact Hl; exact Hl). apply hget_hset_same. exact Hl. }
      assert (Hag1 : agree_outside h h1 [l]).
      { split; [lia|]. intros x Hx Hw. unfold h1.
        rewrite hget_app_old by (rewrite hset_length by exact Hl; exact Hx).
        apply hget_hset_other; [exact Hl|]. intros ->. apply Hw. left. reflexivity. }
      assert (Hr1 : rep h1 (length h) (Node nm c [] [] [] []) [length h]).
      { change (Node nm c [] [] [] []) with (node_of (h_new nm c) []).
        apply rep_mk; [lia | exact Hnew1 | constructor | intros []]. }
      specialize (IH h1 (length h) _ _ Hr1).
      destruct (reg_node (Node nm c [] [] [] []) rest w) as [cur'|] eqn:Hrn; [|exact IH].
      destruct IH as [h' [F1' [Hreg [Hrep' [Hag Hnew]]]]].
      assert (Hname : n_name cur' = nm) by (rewrite (reg_node_name _ _ _ _ Hrn); reflexivity).
      assert (Hge : forall x, In x F1' -> length h <= x).
      { intros x Hx. destruct (Hnew x Hx) as [[<- | []] | H]; lia. }
      assert (Hb0 : forall x, In x F0 -> x < length h) by (exact (proj2 (rep_bound h) _ _ _ Hss)).
      assert (Hss' : reps h' (h_subs n) ts F0).
      { apply (reps_frame_out h1 h' [length h]); [|exact Hag|].
        - apply (reps_frame_out h h1 [l] _ _ _ Hss Hag1). intros x Hx [<- | []]. exact (Hni Hx).
        - intros x Hx [<- | []]. specialize (Hb0 _ Hx). lia. }
      exists h', (l :: F0 ++ F1'). split; [exact Hreg|]. split; [|split].
      * rewrite put_sub_fresh by (rewrite Hname; exact Hlk).
        change (with_subs (node_of n ts) (ts ++ [cur'])) with (node_of n1 (ts ++ [cur'])).
        destruct Hag as [Hlen Hag].
        apply rep_mk.
        -- lia.
        -- rewrite Hag; [exact Hl1 | lia | intros [E | []]; lia].
        -- unfold n1. cbn [h_subs h_with_subs].
           apply reps_snoc; [exact Hrep' | symmetry; exact Hname | exact Hss'|].
           intros x Hx Hx'. specialize (Hb0 _ Hx). specialize (Hge _ Hx'). lia.
        -- intros Hin. apply in_app_or in Hin as [Hin | Hin]; [exact (Hni Hin)|]. specialize (Hge _ Hin). lia.
      * destruct Hag as [Hlen Hag]. destruct Hag1 as [_ Hag1]. split; [lia|].
        intros x Hx Hw. rewrite Hag; [| lia | intros [E | []]; lia].
        apply Hag1; [exact Hx|]. intros [<- | []]. apply Hw. left. reflexivity.
      * intros x [<- | Hx]; [left; left; reflexivity|].
        apply in_app_or in Hx as [Hx | Hx]; [left; right; exact Hx | right; apply Hge; exact Hx].
Qed.

(* ------------------------------------------------------------------------------------------------ clone() *)

Definition clone_step (f : nat) (acc : heap * list (bytes * loc)) (e : bytes * loc) : heap * list (bytes * loc) :=
  let '(hc, done) := acc in
  let '(h2, l2) := h_clone f hc (snd e) in
  (h2, done ++ [(fst e, l2)]).

Lemma h_clone_S f h l :
  h_clone (S f) h l =
  let '(h1, ss) := fold_left (clone_step f) (h_subs (hget h l)) (h, []) in
  (h1 ++ [h_with_subs (hget h l) ss], length h1).
Proof. reflexivity. Qed.

Lemma h_clone_S' f h l h1 ss : fold_left (clone_step f) (h_subs (hget h l)) (h, []) = (h1, ss) ->
  h_clone (S f) h l = (h1 ++ [h_with_subs (hget h l) ss], length h1).
Proof. intros H. rewrite h_clone_S, H. reflexivity. Qed.

Lemma clone_step_eq f hc done k l0 h2 l2 : h_clone f hc l0 = (h2, l2) ->
  clone_step f (hc, done) (k, l0) = (h2, done ++ [(k, l2)]).
Proof. intros H. unfold clone_step. cbn [snd fst]. rewrite H. reflexivity. Qed.

(* clone() allocates a copy whose footprint is entirely fresh, denoting the same tree, and writes nothing else *)
Lemma h_clone_rep : forall f h l t F, rep h l t F -> length F <= f ->
  exists h' l' F', h_clone f h l = (h', l') /\ rep h' l' t F' /\ (exists e, h' = h ++ e) /\
                   (forall x, In x F' -> length h <= x).
Proof.
  induction f as [|f IH]; intros h l t F Hrep Hf.
  - inversion Hrep; subst; simpl in Hf; lia.
  - inversion Hrep as [l0 ts F0 Hl Hss Hni]; subst l0 t F. simpl in Hf.
    assert (Hfold : forall ss ts0 Fs, reps h ss ts0 Fs -> length Fs <= f ->
       forall (hc : heap) (done : list (bytes * loc)) dts dF,
       (exists e, hc = h ++ e) -> reps hc done dts dF -> (forall x, In x dF -> length h <= x) ->
       exists h1 ss' F', fold_left (clone_step f) ss (hc, done) = (h1, ss') /\ reps h1 ss' (dts ++ ts0) F' /\
                         (exists e, h1 = h ++ e) /\ (forall x, In x F' -> length h <= x)).
    { intros ss ts0 Fs H.
      induction H as [|k l0 t0 Fa ss ts0 Fb Hr0 Hk Hss0 IHs Hd]; intros HFs hc done dts dF Hext Hdone HdF.
      - exists hc, done, dF. simpl. rewrite app_nil_r. repeat split; assumption.
      - rewrite app_length in HFs. destruct Hext as [e He].
        assert (Hr0c : rep hc l0 t0 Fa).
        { subst hc. apply (rep_frame_out h _ [] _ _ _ Hr0 (agree_app h e)). intros x _ []. }
        destruct (IH hc l0 t0 Fa Hr0c ltac:(lia)) as [h2 [l2 [F2 [Hcl [Hr2 [[e2 He2] HF2]]]]]].
        cbn [fold_left]. rewrite (clone_step_eq _ _ _ _ _ _ _ Hcl).
        destruct (IHs ltac:(lia) h2 (done ++ [(k, l2)]) (dts ++ [t0]) (dF ++ F2)) as [h1 [ss' [F' [Hfo [Hre [Hex HF']]]]]].
        + exists (e ++ e2). subst. rewrite app_assoc. reflexivity.
        + apply reps_snoc; [exact Hr2 | exact Hk | |].
          * subst h2. apply (reps_frame_out hc _ [] _ _ _ Hdone (agree_app hc e2)). intros x _ [].
          * intros x Hx Hx2. pose proof (proj2 (rep_bound hc) _ _ _ Hdone x Hx). specialize (HF2 _ Hx2). lia.
        + intros x Hx. apply in_app_or in Hx as [Hx | Hx]; [apply HdF; exact Hx|].
          specialize (HF2 _ Hx). subst hc. rewrite app_length in HF2. lia.
        + exists h1, ss', F'. rewrite <- app_assoc in Hre. split; [exact Hfo|]. split; [exact Hre|]. split; assumption. }
    destruct (Hfold _ _ _ Hss ltac:(lia) h [] [] []) as [h1 [ss' [F' [Hfo [Hre [[e He] HF']]]]]].
    { exists []. rewrite app_nil_r. reflexivity. }
    { constructor. }
    { intros x []. }
    rewrite (h_clone_S' _ _ _ _ _ Hfo). simpl in Hre.
    exists (h1 ++ [h_with_subs (hget h l) ss']), (length h1), (length h1 :: F'). split; [reflexivity|]. split; [|split].
    + change (node_of (hget h l) ts) with (node_of (h_with_subs (hget h l) ss') ts).
      apply rep_mk.
      * rewrite app_length. simpl. lia.
      * apply hget_app_new.
      * cbn [h_subs h_with_subs]. apply (reps_frame_out h1 _ [] _ _ _ Hre (agree_app h1 _)). intros x _ [].
      * intros Hin. pose proof (proj2 (rep_bound h1) _ _ _ Hre _ Hin). lia.
    + exists (e ++ [h_with_subs (hget h l) ss']). subst h1. rewrite app_assoc. reflexivity.
    + intros x [<- | Hx]; [subst h1; rewrite app_length; lia | apply HF'; exact Hx].
Qed.

(* ------------------------------------------------------------------------------------------------ worlds *)

(* the live root denotes a tree with footprint F; every handler denotes a tree whose footprint is disjoint from F *)
Definition inv (hw : hworld) : Prop :=
  exists t F, rep (hw_heap hw) (hw_root hw) t F /\
    Forall (fun l => exists t' F', rep (hw_heap hw) l t' F' /\ disjoint F' F) (hw_handlers hw).

Lemma roots_frame h h' W l t F : rep h l t F -> agree_outside h h' W -> disjoint F W -> roots_at h' l = roots_at h l.
Proof.
  intros H Hag Hd. rewrite (rep_roots_at _ _ _ _ H), (rep_roots_at _ _ _ _ (rep_frame_out _ _ _ _ _ _ H Hag Hd)).
  reflexivity.
Qed.

Lemma n_subs_with_subs t ss : n_subs (with_subs t ss) = ss.
Proof. destruct t; reflexivity. Qed.

Lemma hstep_refines hw o : inv hw -> (forall segs w, o = OpRegister segs w -> segs <> []) ->
  match hstep hw o, step (abs hw) o with
  | Some hw', Some w' => abs hw' = w' /\ inv hw'
  | None, None => True
  | _, _ => False
  end.
Proof.
  intros [t [F [Hroot Hh]]] Hne. destruct hw as [h p r hs]. cbn [hw_heap hw_root hw_handlers] in *.
  destruct o as [segs w|].
  - specialize (Hne segs w eq_refl).
    unfold hstep, step, abs. cbn [hw_heap hw_root hw_handlers hw_prefix w_server w_handlers s_roots s_prefix].
    rewrite (rep_roots_at _ _ _ _ Hroot).
    pose proof (h_register_rep w segs h r t F Hroot) as HR. rewrite (reg_node_reg_in w segs t Hne) in HR.
    destruct (reg_in (n_subs t) segs w) as [rs|].
    + destruct HR as [h' [F' [Hreg [Hrep' [Hag Hnew]]]]]. rewrite Hreg. split.
      * cbn [hw_heap hw_root hw_handlers hw_prefix]. f_equal.
        -- f_equal. rewrite (rep_roots_at _ _ _ _ Hrep'). apply n_subs_with_subs.
        -- apply map_ext_in. intros l Hl. rewrite Forall_forall in Hh.
           destruct (Hh l Hl) as [t' [Fl [Hrl Hdl]]]. f_equal.
           exact (roots_frame _ _ _ _ _ _ Hrl Hag Hdl).
      * exists (with_subs t rs), F'. cbn [hw_heap hw_root hw_handlers]. split; [exact Hrep'|].
        rewrite Forall_forall in *. intros l Hl. destruct (Hh l Hl) as [t' [Fl [Hrl Hdl]]].
        exists t', Fl. split; [exact (rep_frame_out _ _ _ _ _ _ Hrl Hag Hdl)|].
        intros x Hx Hx'. destruct (Hnew x Hx') as [HinF | Hge]; [exact (Hdl x Hx HinF)|].
        pose proof (proj1 (rep_bound h) _ _ _ Hrl x Hx). lia.
    + rewrite HR. exact I.
  - unfold hstep, step, abs. cbn [hw_heap hw_root hw_handlers hw_prefix w_server w_handlers s_roots s_prefix].
    destruct (h_clone_rep (length h) h r t F Hroot (rep_length _ _ _ _ Hroot)) as [h' [l' [F' [Hcl [Hr' [[e He] HF']]]]]].
    rewrite Hcl. rewrite handler_of_id.
    assert (Hag : agree_outside h h' []) by (subst h'; apply agree_app).
    assert (Hd0 : forall G, disjoint G []) by (intros G x _ []).
    split.
    + cbn [hw_heap hw_root hw_handlers hw_prefix]. f_equal.
      * f_equal. exact (roots_frame _ _ _ _ _ _ Hroot Hag (Hd0 F)).
      * rewrite map_app. f_equal.
        -- apply map_ext_in. intros l Hl. rewrite Forall_forall in Hh.
           destruct (Hh l Hl) as [t' [Fl [Hrl Hdl]]]. f_equal.
           exact (roots_frame _ _ _ _ _ _ Hrl Hag (Hd0 Fl)).
        -- cbn [map]. f_equal. f_equal.
           rewrite (rep_roots_at _ _ _ _ Hr'), (rep_roots_at _ _ _ _ Hroot). reflexivity.
    + exists t, F. cbn [hw_heap hw_root hw_handlers]. split; [exact (rep_frame_out _ _ _ _ _ _ Hroot Hag (Hd0 F))|].
      apply Forall_app. split.
      * rewrite Forall_forall in *. intros l Hl. destruct (Hh l Hl) as [t' [Fl [Hrl Hdl]]].
        exists t', Fl. split; [exact (rep_frame_out _ _ _ _ _ _ Hrl Hag (Hd0 Fl)) | exact Hdl].
      * constructor; [|constructor]. exists t, F'. split; [exact Hr'|].
        intros x Hx Hx'. specialize (HF' _ Hx). pose proof (proj1 (rep_bound h) _ _ _ Hroot x Hx'). lia.
Qed.

Lemma hrun_refines : forall ops hw, inv hw ->
  (forall segs w, In (OpRegister segs w) ops -> segs <> []) ->
  match hrun ops hw, run_ops ops (abs hw) with
  | Some hw', Some w' => abs hw' = w'
  | None, None => True
  | _, _ => False
  end.
Proof.
  induction ops as [|o r IH]; intros hw Hinv Hne.
  - reflexivity.
  - cbn [hrun run_ops].
    pose proof (hstep_refines hw o Hinv) as HS.
    assert (Ho : forall segs w, o = OpRegister segs w -> segs <> []).
    { intros segs w ->. apply (Hne segs w). left. reflexivity. }
    specialize (HS Ho).
    destruct (hstep hw o) as [hw1|], (step (abs hw) o) as [w1|]; try contradiction; [|exact I].
    destruct HS as [<- Hinv1]. apply IH; [exact Hinv1|].
    intros segs w Hin. apply (Hne segs w). right. exact Hin.
Qed.

Lemma inv_new prefix : inv (new_hworld prefix).
Proof.
  exists (node_of (h_new [] false) []), [0]. split; [|constructor].
  unfold new_hworld. cbn [hw_heap hw_root].
  apply rep_mk; [simpl; lia | reflexivity | constructor | intros []].
Qed.

Lemma abs_new prefix : abs (new_hworld prefix) = new_world prefix.
Proof. reflexivity. Qed.

(* the heap-level runs and the persistent-value runs agree: same failures, same denoted servers and handlers *)
Theorem heap_refines : forall ops prefix,
  (forall segs w, In (OpRegister segs w) ops -> segs <> []) ->
  match hrun ops (new_hworld prefix), run_ops ops (new_world prefix) with
  | Some hw, Some w => abs hw = w
  | None, None => True
  | _, _ => False
  end.
Proof.
  intros ops prefix Hne. rewrite <- abs_new. apply hrun_refines; [apply inv_new | exact Hne].
Qed.

Lemma hrun_app ops1 ops2 : forall hw,
  hrun (ops1 ++ ops2) hw = match hrun ops1 hw with Some hw1 => hrun ops2 hw1 | None => None end.
Proof.
  induction ops1 as [|o r IH]; intros hw; [reflexivity|].
  cbn [app hrun]. destruct (hstep hw o); [apply IH | reflexivity].
Qed.

Lemma run_ops_app ops1 ops2 : forall w,
  run_ops (ops1 ++ ops2) w = match run_ops ops1 w with Some w1 => run_ops ops2 w1 | None => None end.
Proof.
  induction ops1 as [|o r IH]; intros w; [reflexivity|].
  cbn [app run_ops]. destruct (step w o); [apply IH | reflexivity].
Qed.

(* a handler obtained at hw1 denotes, in any later heap hw2, the tree that was live at hw1: registrations made after
   Handler() (which mutate the live nodes in place) do not show through *)
Theorem late_registration_invisible : forall ops1 ops2 prefix hw1 hw2,
  (forall segs w, In (OpRegister segs w) (ops1 ++ OpHandler :: ops2) -> segs <> []) ->
  hrun ops1 (new_hworld prefix) = Some hw1 ->
  hrun (OpHandler :: ops2) hw1 = Some hw2 ->
  nth_error (w_handlers (abs hw2)) (length (hw_handlers hw1)) = Some (w_server (abs hw1)).
Proof.
  intros ops1 ops2 prefix hw1 hw2 Hne H1 H2.
  assert (Hne1 : forall segs w, In (OpRegister segs w) ops1 -> segs <> []).
  { intros segs w Hin. apply (Hne segs w). apply in_or_app. left. exact Hin. }
  pose proof (heap_refines ops1 prefix Hne1) as R1. rewrite H1 in R1.
  destruct (run_ops ops1 (new_world prefix)) as [w1|] eqn:E1; [|contradiction].
  assert (H12 : hrun (ops1 ++ OpHandler :: ops2) (new_hworld prefix) = Some hw2) by (rewrite hrun_app, H1; exact H2).
  assert (E12 : run_ops (ops1 ++ OpHandler :: ops2) (new_world prefix) = run_ops (OpHandler :: ops2) w1)
    by (rewrite run_ops_app, E1; reflexivity).
  pose proof (heap_refines (ops1 ++ OpHandler :: ops2) prefix Hne) as R2. rewrite H12, E12 in R2.
  destruct (run_ops (OpHandler :: ops2) w1) as [w2|] eqn:E2; [|contradiction].
  pose proof (handler_is_snapshot ops1 ops2 _ w1 w2 E1 E2) as S.
  assert (L : length (w_handlers (abs hw1)) = length (hw_handlers hw1)) by (unfold abs; cbn [w_handlers]; apply map_length).
  rewrite R2, <- L, R1. exact S.
Qed.

(* ------------------------------------------------------------------------------------------------ non-vacuity *)

(* register a/b GET, Handler(), then register a/b DELETE and a new root c: the handler still denotes the first tree,
   the live tree has changed (so the statement is not about an immutable heap) *)
Example late_registration_example :
  let a := [x61] in let b := [x62] in let c := [x63] in
  let ops1 := [OpRegister [(a, true); (b, false)] (RMethod Method_get)] in
  let ops2 := [OpRegister [(a, true); (b, false)] (RMethod Method_delete); OpRegister [(c, false)] (RFinder a)] in
  match hrun ops1 (new_hworld []), hrun (ops1 ++ OpHandler :: ops2) (new_hworld []) with
  | Some hw1, Some hw2 =>
      nth_error (w_handlers (abs hw2)) 0 = Some (w_server (abs hw1)) /\
      w_server (abs hw2) <> w_server (abs hw1) /\
      hw_handlers hw1 = [] /\ length (hw_heap hw1) = 3 /\ length (hw_heap hw2) = 7
  | _, _ => False
  end.
Proof.
  vm_compute. split; [reflexivity|]. split; [discriminate|]. repeat split; reflexivity.
Qed.

(* both models fail together: duplicate registration, inconsistent isCollection *)
Example both_fail_example :
  let a := [x61] in
  hrun [OpRegister [(a, true)] (RMethod Method_get); OpRegister [(a, true)] (RMethod Method_get)] (new_hworld []) = None /\
  run_ops [OpRegister [(a, true)] (RMethod Method_get); OpRegister [(a, true)] (RMethod Method_get)] (new_world []) = None /\
  hrun [OpRegister [(a, true)] (RMethod Method_get); OpRegister [(a, false)] (RFinder a)] (new_hworld []) = None /\
  run_ops [OpRegister [(a, true)] (RMethod Method_get); OpRegister [(a, false)] (RFinder a)] (new_world []) = None.
Proof. vm_compute. repeat split; reflexivity. Qed.

(* the premise segs <> [] is needed: on the heap a registration with no segments lands in the root pathNode's own maps
   (a second one panics), the persistent-value model ignores it *)
Example empty_segments_differ :
  hrun [OpRegister [] (RMethod Method_get); OpRegister [] (RMethod Method_get)] (new_hworld []) = None /\
  run_ops [OpRegister [] (RMethod Method_get); OpRegister [] (RMethod Method_get)] (new_world []) <> None.
Proof. vm_compute. split; [reflexivity | discriminate]. Qed.

Print Assumptions heap_refines.
Print Assumptions late_registration_invisible.
