(* The decorated-history definition of linearizability places every linearization point INSIDE its call's interval:
   in a well-formed decorated history, the point of a call lies after that call's invocation and before its response,
   with no other event of the same goroutine in between.  Hence the order of the points preserves real-time precedence
   (response of a before invocation of b  =>  point of a before point of b): the textbook condition. *)
From Coq Require Import List Bool Arith Lia.
From GR Require Import D2.LazyMap Proofs.LazyMapProofs.
Import ListNotations.

Definition ev_tid (e : levent) : tid := match e with LInv t _ | LLin t _ _ | LRes t _ _ => t end.
Definition quiet (t : tid) (l : list levent) : Prop := forall e, In e l -> ev_tid e <> t.

Lemma op_eqb_true : forall a b, op_eqb a b = true -> a = b.
Proof.
  destruct a, b; simpl; intros H; try discriminate;
    try (apply andb_prop in H; destruct H as [H1 H2]); try apply Nat.eqb_eq in H; try apply Nat.eqb_eq in H1;
    try apply Nat.eqb_eq in H2; subst; auto.
Qed.
Lemma ret_eqb_true : forall a b, ret_eqb a b = true -> a = b.
Proof. destruct a, b; simpl; intros H; try discriminate; auto. apply Nat.eqb_eq in H. subst. auto. Qed.

Lemma wf_event_other : forall ts e ts' t, wf_event ts e = Some ts' -> ev_tid e <> t -> ts' t = ts t.
Proof.
  intros ts e ts' t H Hne. destruct e as [t0 o|t0 o r|t0 o r]; simpl in *; destruct (ts t0); try discriminate;
    try (destruct (op_eqb _ _); try discriminate); try (destruct (ret_eqb _ _); simpl in H; try discriminate);
    inversion H; subst; rewrite upd_other; auto.
Qed.

Lemma wf_run_snoc : forall l e ts ts', wf_run ts (l ++ [e]) = Some ts' ->
  exists ts1, wf_run ts l = Some ts1 /\ wf_event ts1 e = Some ts'.
Proof.
  intros l e ts ts' H. rewrite wf_run_app in H. destruct (wf_run ts l) as [ts1|]; [|discriminate].
  exists ts1. split; auto. simpl in H. destruct (wf_event ts1 e); [|discriminate]. auto.
Qed.

(* where a goroutine's current status came from *)
Lemma status_origin : forall l ts0 ts t,
  wf_run ts0 l = Some ts ->
  (ts t = ts0 t /\ quiet t l) \/
  match ts t with
  | TIdle => exists la lb o r, l = la ++ LRes t o r :: lb /\ quiet t lb
  | TInv o => exists la lb, l = la ++ LInv t o :: lb /\ quiet t lb
  | TLin o r => exists la lb, l = la ++ LLin t o r :: lb /\ quiet t lb
  end.
Proof.
  induction l as [|e l IH] using rev_ind; intros ts0 ts t H.
  - simpl in H. inversion H; subst. left. split; auto. intros e [].
  - apply wf_run_snoc in H. destruct H as [ts1 [H1 H2]].
    destruct (Nat.eq_dec (ev_tid e) t) as [E|E].
    + right. destruct e as [t0 o|t0 o r|t0 o r]; simpl in E; subst t0; simpl in H2; destruct (ts1 t) eqn:Et; try discriminate.
      * inversion H2; subst. rewrite upd_same. exists l, []. split; auto. intros e [].
      * destruct (op_eqb o o0) eqn:Eo; [|discriminate]. inversion H2; subst. rewrite upd_same.
        exists l, []. split; auto. intros e [].
      * destruct (op_eqb o o0 && ret_eqb r r0) eqn:Eo; [|discriminate]. inversion H2; subst. rewrite upd_same.
        exists l, [], o, r. split; auto. intros e [].
    + pose proof (wf_event_other _ _ _ t H2 E) as Hsame. rewrite Hsame.
      destruct (IH ts0 ts1 t H1) as [[Ha Hb]|Hc].
      * left. split; auto. intros e' Hin. apply in_app_or in Hin. destruct Hin as [Hin|[<-|[]]]; auto.
      * right. destruct (ts1 t).
        -- destruct Hc as [la [lb [o [r [Hl Hq]]]]]. exists la, (lb ++ [e]), o, r. split.
           ++ rewrite Hl. rewrite <- app_assoc. reflexivity.
           ++ intros e' Hin. apply in_app_or in Hin. destruct Hin as [Hin|[<-|[]]]; auto.
        -- destruct Hc as [la [lb [Hl Hq]]]. exists la, (lb ++ [e]). split.
           ++ rewrite Hl. rewrite <- app_assoc. reflexivity.
           ++ intros e' Hin. apply in_app_or in Hin. destruct Hin as [Hin|[<-|[]]]; auto.
        -- destruct Hc as [la [lb [Hl Hq]]]. exists la, (lb ++ [e]). split.
           ++ rewrite Hl. rewrite <- app_assoc. reflexivity.
           ++ intros e' Hin. apply in_app_or in Hin. destruct Hin as [Hin|[<-|[]]]; auto.
Qed.

Lemma wf_run_prefix : forall a b ts ts', wf_run ts (a ++ b) = Some ts' -> exists ts1, wf_run ts a = Some ts1 /\ wf_run ts1 b = Some ts'.
Proof. intros a b ts ts' H. rewrite wf_run_app in H. destruct (wf_run ts a) as [ts1|]; [|discriminate]. eauto. Qed.

(* every response is preceded by the linearization point of the same call (same goroutine, operation and value,
   nothing of that goroutine in between), which is preceded by that call's invocation *)
Theorem lin_point_inside_interval : forall hl l1 t o r l2,
  wf_run (fun _ => TIdle) hl <> None -> hl = l1 ++ LRes t o r :: l2 ->
  exists la lb lc, l1 = la ++ LInv t o :: lb ++ LLin t o r :: lc /\ quiet t lb /\ quiet t lc.
Proof.
  intros hl l1 t o r l2 Hwf Hl. destruct (wf_run (fun _ => TIdle) hl) as [tsf|] eqn:Hrun; [|congruence]. clear Hwf.
  subst hl. apply wf_run_prefix in Hrun. destruct Hrun as [ts1 [H1 H2]].
  simpl in H2. destruct (ts1 t) as [|o'|o' r'] eqn:Et; try discriminate.
  destruct (op_eqb o o' && ret_eqb r r') eqn:Eo; [|discriminate]. apply andb_prop in Eo. destruct Eo as [Eo Er].
  apply op_eqb_true in Eo. apply ret_eqb_true in Er. subst o' r'.
  destruct (status_origin _ _ _ t H1) as [[Ha _]|Hc]; [rewrite Et in Ha; discriminate|].
  rewrite Et in Hc. destruct Hc as [la [lc [Hl Hq]]]. subst l1.
  apply wf_run_prefix in H1. destruct H1 as [ts2 [H3 H4]].
  simpl in H4. destruct (ts2 t) as [|o'|] eqn:Et2; try discriminate.
  destruct (op_eqb o o') eqn:Eo; [|discriminate]. apply op_eqb_true in Eo. subst o'.
  destruct (status_origin _ _ _ t H3) as [[Ha _]|Hc]; [rewrite Et2 in Ha; discriminate|].
  rewrite Et2 in Hc. destruct Hc as [la' [lb [Hl Hq']]]. subst la.
  exists la', lb, lc. rewrite <- app_assoc. simpl. auto.
Qed.
