(* RootPatchProofs (C11 / C07, partial updates of the ROOT module generation): the X_PartialUpdate code the root generator emits
   (Codec/RootPatch.v) against an independent reading of "a partial update does not set-and-delete or set-and-patch the same field,
   delete a required field, or touch an excluded field".  The environment is the FLATTENED one (every record [DRecord [] fs]).

   Vocabulary (the root twin of Proofs/PatchProofs.v; nothing of that file is used)
     rtpatch e n p          p has the shape of the Go struct X_PartialUpdate of record n: one slot per field, no delete flag raised on a
                            required field (the Go struct has no such flag), nested patches only on record-typed fields, set values typed
     rlegal e ex path n p   the property: at every depth of nested patches, every field is touched at most once (delete / set / nested
                            patch) and no touched field is excluded; [ex] = exclusion of the path of field names from the record
     client side            ex path = ps_matches wildcard excl path: the writer is the KeyChecker and SetScope() made the directives
                            relative to the record
     server side            the reader is the KeyChecker *)
From Coq Require Import List Bool Arith ZArith NArith Lia.
From Coq.Strings Require Import Byte.
From GR Require Import Base.Bytes Base.Res Codec.Schema Codec.Doc Codec.Tracker Codec.Encode Codec.Json Codec.Decode Codec.RootPatch
  Proofs.PathSpecProofs Proofs.ValidityProofs.
Import ListNotations.

(* ==================================================================================================================== *)
(* 0. Specification                                                                                                       *)
(* ==================================================================================================================== *)
Section Spec.
  Variable e : env.

  Inductive rtpatch : nat -> rpatch -> Prop :=
  | rtp_rec n fs ds ss ns :
      lookup e n = Some (DRecord [] fs) -> rtfields fs ds ss ns -> rtpatch n (RPatch ds ss ns)
  with rtfields : list field -> list bool -> list (option value) -> list (option rpatch) -> Prop :=
  | rtf_nil : rtfields [] [] [] []
  | rtf_cons fd fs d ds s ss np ns :
      (deletable fd = false -> d = false) ->
      (forall v, s = Some v -> typed e (f_ty fd) v) ->
      (np <> None -> root_rec_of e (f_ty fd) <> None) ->
      (forall q m, np = Some q -> root_rec_of e (f_ty fd) = Some m -> rtpatch m q) ->
      rtfields fs ds ss ns ->
      rtfields (fd :: fs) (d :: ds) (s :: ss) (np :: ns).

  Variable ex : list bytes -> bool.

  (* at most one of delete / set / nested patch *)
  Definition at_most_one (d s p : bool) : Prop := ~ (d = true /\ s = true) /\ ~ (s = true /\ p = true) /\ ~ (d = true /\ p = true).
  Definition touched (d s p : bool) : Prop := d = true \/ s = true \/ p = true.

  Inductive rlegal : list bytes -> nat -> rpatch -> Prop :=
  | rlg_rec path n fs ds ss ns :
      lookup e n = Some (DRecord [] fs) -> rlfields path fs ds ss ns -> rlegal path n (RPatch ds ss ns)
  with rlfields : list bytes -> list field -> list bool -> list (option value) -> list (option rpatch) -> Prop :=
  | rlf_nil path : rlfields path [] [] [] []
  | rlf_cons path fd fs d ds s ss np ns :
      at_most_one d (rsome s) (rsome np) ->
      (touched d (rsome s) (rsome np) -> ex (path ++ [f_name fd]) = false) ->
      (forall q m, np = Some q -> root_rec_of e (f_ty fd) = Some m -> rlegal (path ++ [f_name fd]) m q) ->
      rlfields path fs ds ss ns ->
      rlfields path (fd :: fs) (d :: ds) (s :: ss) (np :: ns).

  (* some touched field, at some depth, is excluded *)
  Inductive rtouches_excluded : list bytes -> nat -> rpatch -> Prop :=
  | rte_here path n fs ds ss ns i fd d s np :
      lookup e n = Some (DRecord [] fs) ->
      nth_error fs i = Some fd -> nth_error ds i = Some d -> nth_error ss i = Some s -> nth_error ns i = Some np ->
      touched d (rsome s) (rsome np) -> ex (path ++ [f_name fd]) = true ->
      rtouches_excluded path n (RPatch ds ss ns)
  | rte_below path n fs ds ss ns i fd q m :
      lookup e n = Some (DRecord [] fs) ->
      nth_error fs i = Some fd -> nth_error ns i = Some (Some q) -> root_rec_of e (f_ty fd) = Some m ->
      rtouches_excluded (path ++ [f_name fd]) m q ->
      rtouches_excluded path n (RPatch ds ss ns).

  (* every set value satisfies the schema constraints (unions, enums: ValidityProofs.valid) *)
  Inductive rsets_valid : nat -> rpatch -> Prop :=
  | rsv_rec n fs ds ss ns :
      lookup e n = Some (DRecord [] fs) -> rsvfields fs ss ns -> rsets_valid n (RPatch ds ss ns)
  with rsvfields : list field -> list (option value) -> list (option rpatch) -> Prop :=
  | rsvf_nil : rsvfields [] [] []
  | rsvf_cons fd fs s ss np ns :
      (forall v, s = Some v -> valid e (f_ty fd) v) ->
      (forall q m, np = Some q -> root_rec_of e (f_ty fd) = Some m -> rsets_valid m q) ->
      rsvfields fs ss ns -> rsvfields (fd :: fs) (s :: ss) (np :: ns).
End Spec.

(* depth of nested patches, and the largest depth of a set value: the recursion budget of the model *)
Fixpoint rpdepth (p : rpatch) : nat :=
  match p with
  | RPatch _ _ ns => S (list_max (map (fun o : option rpatch => match o with Some q => rpdepth q | None => 0 end) ns))
  end.
Fixpoint rpvdepth (p : rpatch) : nat :=
  match p with
  | RPatch _ ss ns =>
      Nat.max (list_max (map (fun o : option value => match o with Some v => vdepth v | None => 0 end) ss))
              (list_max (map (fun o : option rpatch => match o with Some q => rpvdepth q | None => 0 end) ns))
  end.
Definition rfuel_ok (fuel : nat) (p : rpatch) : Prop := rpdepth p + rpvdepth p + 2 <= fuel.

(* ==================================================================================================================== *)
(* 1. CheckField / checkAllFields at one level                                                                            *)
(* ==================================================================================================================== *)
Lemma root_check_field_ok exc name d s p acc acc' :
  root_check_field exc name d s p acc = Ok acc' ->
  (touched d s p -> exc name = false) /\ at_most_one d s p /\ acc' = (fst acc || d, snd acc || s).
Proof.
  unfold root_check_field, touched, at_most_one. intros H.
  destruct (negb (d || s || p)) eqn:E0.
  - inversion H; subst. apply negb_true_iff in E0. destruct d, s, p; try discriminate.
    split; [intros [X|[X|X]]; discriminate|]. split; [intuition discriminate|].
    destruct acc'; simpl; rewrite !orb_false_r; reflexivity.
  - destruct (exc name) eqn:Ex; [discriminate|]. destruct (d && s || d && p || s && p) eqn:E1; [discriminate|].
    inversion H; subst. split; [reflexivity|]. split; [|reflexivity].
    destruct d, s, p; simpl in E1; try discriminate; intuition discriminate.
Qed.

Lemma root_check_field_legal exc name d s p acc :
  (touched d s p -> exc name = false) -> at_most_one d s p ->
  root_check_field exc name d s p acc = Ok (fst acc || d, snd acc || s).
Proof.
  unfold root_check_field, touched, at_most_one. intros Hx [H1 [H2 H3]].
  destruct d, s, p; simpl; try (exfalso; tauto); try (rewrite Hx by tauto; simpl);
    destruct acc as [a b]; simpl; rewrite ?orb_false_r; reflexivity.
Qed.

Lemma root_check_field_err exc name d s p acc x : root_check_field exc name d s p acc = Err x -> x = EPatch.
Proof.
  unfold root_check_field. destruct (negb (d || s || p)); [discriminate|]. destruct (exc name); [congruence|].
  destruct (d && s || d && p || s && p); [congruence | discriminate].
Qed.

Lemma root_check_field_no_panic exc name d s p acc : root_check_field exc name d s p acc <> Panic.
Proof.
  unfold root_check_field. destruct (negb (d || s || p)); [discriminate|]. destruct (exc name); [discriminate|].
  destruct (d && s || d && p || s && p); discriminate.
Qed.

Lemma root_check_field_excluded exc name d s p acc :
  touched d s p -> exc name = true -> root_check_field exc name d s p acc = Err EPatch.
Proof.
  unfold root_check_field, touched. intros Ht Hx. rewrite Hx.
  destruct d, s, p; simpl; try reflexivity. exfalso. destruct Ht as [H|[H|H]]; discriminate.
Qed.

(* two operations on one field are refused whatever the exclusion predicate says *)
Lemma root_check_field_two exc name d s p acc :
  ~ at_most_one d s p -> root_check_field exc name d s p acc = Err EPatch.
Proof.
  unfold root_check_field, at_most_one. intros H.
  destruct d, s, p; simpl; try (destruct (exc name); reflexivity); exfalso; apply H; intuition discriminate.
Qed.

Lemma bind_ok' {A B} (r : res A) (k : A -> res B) b : bind r k = Ok b -> exists a, r = Ok a /\ k a = Ok b.
Proof. destruct r; simpl; intros H; try discriminate. eexists; split; [reflexivity|exact H]. Qed.

Section Level.
  Variable e : env.

  (* the flags the generator hands to CheckField, for a struct of the right shape, are the slots themselves *)
  Lemma rflags_typed fd d (np : option rpatch) :
    (deletable fd = false -> d = false) -> (np <> None -> root_rec_of e (f_ty fd) <> None) ->
    (if deletable fd then d else false) = d /\
    (match root_rec_of e (f_ty fd) with Some _ => rsome np | None => false end) = rsome np.
  Proof.
    intros Hd Hn. split.
    - destruct (deletable fd); [reflexivity | symmetry; apply Hd; reflexivity].
    - destruct (root_rec_of e (f_ty fd)) eqn:E; [reflexivity|]. destruct np; [|reflexivity]. exfalso. apply Hn; [discriminate|reflexivity].
  Qed.

  Lemma root_check_own_err exc : forall fs ds ss ns acc x, root_check_own e exc fs ds ss ns acc = Err x -> x = EPatch \/ x = EType.
  Proof.
    induction fs as [|fd fs IH]; intros ds ss ns acc x H.
    - destruct ds, ss, ns; simpl in H; try discriminate; inversion H; right; reflexivity.
    - destruct ds as [|d ds], ss as [|s ss], ns as [|np ns]; simpl in H; try (inversion H; right; reflexivity).
      destruct (root_check_field exc (f_name fd) _ _ _ acc) as [a|y|] eqn:E; simpl in H; try discriminate.
      + eapply IH; exact H.
      + inversion H; subst. left. eapply root_check_field_err; exact E.
  Qed.

  (* one level of the property, for the exclusion predicate [exc] on field NAMES *)
  Inductive rlevel_legal (exc : bytes -> bool) : list field -> list bool -> list (option value) -> list (option rpatch) -> Prop :=
  | rll_nil : rlevel_legal exc [] [] [] []
  | rll_cons fd fs d ds s ss np ns :
      at_most_one d (rsome s) (rsome np) ->
      (touched d (rsome s) (rsome np) -> exc (f_name fd) = false) ->
      rlevel_legal exc fs ds ss ns -> rlevel_legal exc (fd :: fs) (d :: ds) (s :: ss) (np :: ns).

  Lemma root_check_own_ok exc : forall fs ds ss ns acc acc',
    rtfields e fs ds ss ns -> root_check_own e exc fs ds ss ns acc = Ok acc' ->
    rlevel_legal exc fs ds ss ns /\
    acc' = (fst acc || existsb (fun b => b) ds, snd acc || existsb rsome ss).
  Proof.
    induction fs as [|fd fs IH]; intros ds ss ns acc acc' Ht H; inversion Ht; subst.
    - simpl in H. inversion H; subst. split; [constructor|]. destruct acc'; simpl. rewrite !orb_false_r. reflexivity.
    - simpl in H.
      destruct (rflags_typed fd d np) as [F1 F2]; [assumption|assumption|]. rewrite F1, F2 in H.
      destruct (root_check_field exc (f_name fd) d (rsome s) (rsome np) acc) as [a|y|] eqn:E; simpl in H; try discriminate.
      apply root_check_field_ok in E as [Hx [Hone ->]].
      destruct (IH _ _ _ _ _ ltac:(eassumption) H) as [Hl ->]. split; [constructor; assumption|].
      simpl. rewrite !orb_assoc. reflexivity.
  Qed.

  Lemma root_check_own_legal exc : forall fs ds ss ns acc,
    rtfields e fs ds ss ns -> rlevel_legal exc fs ds ss ns ->
    root_check_own e exc fs ds ss ns acc = Ok (fst acc || existsb (fun b => b) ds, snd acc || existsb rsome ss).
  Proof.
    induction fs as [|fd fs IH]; intros ds ss ns acc Ht Hl; inversion Ht; subst; inversion Hl; subst.
    - simpl. destruct acc; simpl. rewrite !orb_false_r. reflexivity.
    - simpl. destruct (rflags_typed fd d np) as [F1 F2]; [assumption|assumption|]. rewrite F1, F2.
      rewrite root_check_field_legal by assumption. simpl. rewrite IH by assumption. simpl. rewrite !orb_assoc. reflexivity.
  Qed.

  Lemma root_check_own_excluded exc : forall fs ds ss ns acc i fd d s np,
    rtfields e fs ds ss ns ->
    nth_error fs i = Some fd -> nth_error ds i = Some d -> nth_error ss i = Some s -> nth_error ns i = Some np ->
    touched d (rsome s) (rsome np) -> exc (f_name fd) = true ->
    root_check_own e exc fs ds ss ns acc = Err EPatch.
  Proof.
    induction fs as [|fd0 fs IH]; intros ds ss ns acc i fd d s np Ht Hf Hd Hs Hn Htc Hx; inversion Ht; subst.
    - destruct i; discriminate.
    - simpl. destruct (rflags_typed fd0 d0 np0) as [F1 F2]; [assumption|assumption|]. rewrite F1, F2.
      destruct i as [|i]; simpl in Hf, Hd, Hs, Hn.
      + inversion Hf; inversion Hd; inversion Hs; inversion Hn; subst. rewrite root_check_field_excluded by assumption. reflexivity.
      + destruct (root_check_field exc (f_name fd0) d0 (rsome s0) (rsome np0) acc) as [a|y|] eqn:E; simpl.
        * eapply IH; eassumption.
        * apply root_check_field_err in E. subst. reflexivity.
        * exfalso. eapply root_check_field_no_panic; exact E.
  Qed.

  Lemma root_check_fields_eq n exc fs ds ss ns :
    lookup e n = Some (DRecord [] fs) ->
    root_check_fields e n exc (RPatch ds ss ns) = root_check_own e exc fs ds ss ns (false, false).
  Proof. intros H. unfold root_check_fields. rewrite H. reflexivity. Qed.
End Level.

(* checkAllFields = the property at one level (typed patches) *)
Theorem root_check_fields_legal_iff e n exc fs ds ss ns :
  lookup e n = Some (DRecord [] fs) -> rtfields e fs ds ss ns ->
  ((exists hs, root_check_fields e n exc (RPatch ds ss ns) = Ok hs) <-> rlevel_legal exc fs ds ss ns).
Proof.
  intros Hl Ht. rewrite (root_check_fields_eq e n exc fs ds ss ns Hl). split.
  - intros [hs H]. eapply root_check_own_ok in H; [exact (proj1 H) | exact Ht].
  - intros H. eexists. apply root_check_own_legal; assumption.
Qed.

Theorem root_check_fields_flags e n exc fs ds ss ns hd hs :
  lookup e n = Some (DRecord [] fs) -> rtfields e fs ds ss ns ->
  root_check_fields e n exc (RPatch ds ss ns) = Ok (hd, hs) ->
  hd = existsb (fun b => b) ds /\ hs = existsb rsome ss.
Proof.
  intros Hl Ht H. rewrite (root_check_fields_eq e n exc fs ds ss ns Hl) in H.
  eapply root_check_own_ok in H; [|exact Ht]. destruct H as [_ H]. simpl in H. inversion H. split; reflexivity.
Qed.

(* the rejection is an IllegalPartialUpdateError, never a panic *)
Theorem root_check_fields_error_class e n exc fs ds ss ns x :
  lookup e n = Some (DRecord [] fs) -> rtfields e fs ds ss ns ->
  root_check_fields e n exc (RPatch ds ss ns) = Err x -> x = EPatch.
Proof.
  intros Hl Ht H. rewrite (root_check_fields_eq e n exc fs ds ss ns Hl) in H.
  clear Hl. revert H. generalize (false, false). induction Ht as [|fd fs d ds s ss np ns H1 H2 H3 H4 Ht IH]; intros acc H.
  - discriminate.
  - simpl in H. destruct (root_check_field exc (f_name fd) _ _ _ acc) as [a|y|] eqn:E; simpl in H; try discriminate.
    + eapply IH; exact H.
    + inversion H; subst. eapply root_check_field_err; exact E.
Qed.

(* ==================================================================================================================== *)
(* 2. Encoding: MarshalRestLiPatch succeeds exactly on the legal partial updates                                          *)
(* ==================================================================================================================== *)
Section Enc.
  Variables (e : env) (w : bytes) (x : pathspec).
  Variable scope0 : list bytes.      (* the scope of the writer handed to the outermost MarshalRestLiPatch: [] after SetScope() *)
  Definition rex0 (path : list bytes) : bool := excluded w x (scope0 ++ path).

  Lemma root_enc_patch_at_S f scope n fd fs ds ss ns :
    lookup e n = Some (DRecord [] (fd :: fs)) ->
    root_enc_patch_at e w x (S f) scope n (RPatch ds ss ns) =
    (do hs <- root_check_own e (fun k => excluded w x (scope ++ [k])) (fd :: fs) ds ss ns (false, false);
     do del <- (if fst hs then
                  if excluded w x (scope ++ [op_delete]) then Ok []
                  else Ok [(op_delete, root_enc_deletes (fd :: fs) ds)]
                else Ok []);
     do set <- (if snd hs then
                  if excluded w x (scope ++ [op_set]) then Ok []
                  else do d <- root_enc_sets e w x f (scope ++ [op_set]) (fd :: fs) ss; Ok [(op_set, d)]
                else Ok []);
     do nst <- root_nested_entries e w x (root_enc_patch_at e w x f) scope (fd :: fs) ns;
     Ok (DObj (del ++ set ++ sort_entries nst))).
  Proof. intros H. cbn [root_enc_patch_at]. rewrite H. reflexivity. Qed.

  Lemma root_enc_patch_at_empty f scope n ds ss ns :
    lookup e n = Some (DRecord [] []) -> root_enc_patch_at e w x (S f) scope n (RPatch ds ss ns) = Ok (DObj []).
  Proof. intros H. cbn [root_enc_patch_at]. rewrite H. reflexivity. Qed.

  Lemma rlevel_shift path fs ds ss ns :
    rlevel_legal (fun k => excluded w x ((scope0 ++ path) ++ [k])) fs ds ss ns <->
    rlevel_legal (fun k => rex0 (path ++ [k])) fs ds ss ns.
  Proof.
    assert (E : forall k, excluded w x ((scope0 ++ path) ++ [k]) = rex0 (path ++ [k])).
    { intros k. unfold rex0. rewrite app_assoc. reflexivity. }
    split; intros H; induction H; constructor; try assumption; intros Ht; [rewrite <- E | rewrite E]; auto.
  Qed.

  (* ---- accepted => legal ---- *)
  Lemma rnested_ok_lfields (rec : list bytes -> nat -> rpatch -> res doc) path :
    (forall m q d, rtpatch e m q -> forall name, rec ((scope0 ++ path) ++ [name]) m q = Ok d -> rlegal e rex0 (path ++ [name]) m q) ->
    forall fs ds ss ns nst, rtfields e fs ds ss ns ->
      rlevel_legal (fun k => rex0 (path ++ [k])) fs ds ss ns ->
      root_nested_entries e w x rec (scope0 ++ path) fs ns = Ok nst ->
      rlfields e rex0 path fs ds ss ns.
  Proof.
    intros Hrec. induction fs as [|fd fs IH]; intros ds ss ns nst Ht Hl H; inversion Ht; subst; inversion Hl; subst.
    - constructor.
    - cbn [root_nested_entries] in H. apply bind_ok' in H as [here [Hh H]]. apply bind_ok' in H as [rest [Hr _]].
      constructor; [assumption|assumption| |eapply IH; eassumption].
      intros q m -> Hm. rewrite Hm in Hh.
      assert (Hx : rex0 (path ++ [f_name fd]) = false).
      { match goal with Hc : touched _ _ _ -> _ = false |- _ => apply Hc end. right. right. reflexivity. }
      unfold rex0 in Hx. rewrite app_assoc in Hx. rewrite Hx in Hh.
      apply bind_ok' in Hh as [d0 [Hd _]].
      eapply Hrec; [|exact Hd].
      match goal with Hq : forall q m, Some _ = Some q -> _ |- _ => eapply Hq; [reflexivity|exact Hm] end.
  Qed.

  Theorem root_enc_ok_legal : forall fuel path n p d,
    rtpatch e n p -> root_enc_patch_at e w x fuel (scope0 ++ path) n p = Ok d -> rlegal e rex0 path n p.
  Proof.
    induction fuel as [|f IH]; intros path n p d Ht H; [discriminate|].
    inversion Ht as [n0 fs ds ss ns Hl Hf]; subst.
    destruct fs as [|fd fs].
    - inversion Hf; subst. apply (rlg_rec e rex0 path n [] [] [] [] Hl). constructor.
    - rewrite (root_enc_patch_at_S f _ n fd fs ds ss ns Hl) in H.
      apply bind_ok' in H as [hs [Hc H]]. apply bind_ok' in H as [del [_ H]]. apply bind_ok' in H as [set [_ H]].
      apply bind_ok' in H as [nst [Hn _]].
      eapply root_check_own_ok in Hc; [|exact Hf]. destruct Hc as [Hlev _]. apply rlevel_shift in Hlev.
      apply (rlg_rec e rex0 path n (fd :: fs) ds ss ns Hl).
      eapply rnested_ok_lfields; [|exact Hf|exact Hlev|exact Hn].
      intros m q d0 Hq name Hd. rewrite <- app_assoc in Hd. eapply IH; eassumption.
  Qed.

  (* ---- legal (and valid set values, enough budget) => accepted ---- *)
  Lemma root_set_entries_ok F scope : forall fs ss,
    Forall2 (fun fd s => forall v, s = Some v -> typed e (f_ty fd) v /\ valid e (f_ty fd) v /\ vdepth v < F) fs ss ->
    exists ents, root_set_entries e w x F scope fs ss = Ok ents.
  Proof.
    intros fs ss H. induction H as [|fd s fs ss Hv _ IH]; [eexists; reflexivity|].
    cbn [root_set_entries]. destruct IH as [rest ->].
    destruct s as [v|]; [|eexists; reflexivity].
    destruct (Hv v eq_refl) as [Ht [Hva Hd]]. unfold root_enc_key.
    destruct (excluded w x (scope ++ [f_name fd])).
    - rewrite (enc_noop_valid e _ _ Hva). eexists; reflexivity.
    - destruct (valid_emitted e w x F (scope ++ [f_name fd]) _ _ Ht Hva Hd) as [d ->]. eexists; reflexivity.
  Qed.

  Lemma root_nested_entries_ok (rec : list bytes -> nat -> rpatch -> res doc) (Q : nat -> rpatch -> Prop) path :
    (forall name q m, rtpatch e m q -> rlegal e rex0 (path ++ [name]) m q -> Q m q ->
                      exists d, rec ((scope0 ++ path) ++ [name]) m q = Ok d) ->
    forall fs ds ss ns, rtfields e fs ds ss ns -> rlfields e rex0 path fs ds ss ns ->
      Forall2 (fun fd np => forall q m, np = Some q -> root_rec_of e (f_ty fd) = Some m -> Q m q) fs ns ->
      exists nst, root_nested_entries e w x rec (scope0 ++ path) fs ns = Ok nst.
  Proof.
    intros Hrec. induction fs as [|fd fs IH]; intros ds ss ns Ht Hl HQ; inversion Ht; subst; inversion Hl; subst; inversion HQ; subst.
    - eexists; reflexivity.
    - cbn [root_nested_entries].
      destruct (IH _ _ _ ltac:(eassumption) ltac:(eassumption) ltac:(eassumption)) as [rest ->].
      destruct (root_rec_of e (f_ty fd)) as [m|] eqn:Em; [|eexists; reflexivity].
      destruct np as [q|]; [|eexists; reflexivity].
      destruct (excluded w x ((scope0 ++ path) ++ [f_name fd])); [eexists; reflexivity|].
      destruct (Hrec (f_name fd) q m) as [d9 ->]; [| | |eexists; reflexivity].
      + match goal with Hq : forall q0 m0, Some q = Some q0 -> Some m = Some m0 -> rtpatch e m0 q0 |- _ => exact (Hq q m eq_refl eq_refl) end.
      + match goal with Hq : forall q0 m0, Some q = Some q0 -> Some m = Some m0 -> rlegal _ _ _ m0 q0 |- _ => exact (Hq q m eq_refl eq_refl) end.
      + match goal with Hq : forall q0 m0, Some q = Some q0 -> Some m = Some m0 -> Q m0 q0 |- _ => exact (Hq q m eq_refl eq_refl) end.
  Qed.

  (* depth bookkeeping *)
  Lemma rsets_F2 F : forall fs ds ss ns, rtfields e fs ds ss ns -> rsvfields e fs ss ns ->
    (forall v, In (Some v) ss -> vdepth v < F) ->
    Forall2 (fun fd s => forall v, s = Some v -> typed e (f_ty fd) v /\ valid e (f_ty fd) v /\ vdepth v < F) fs ss.
  Proof.
    induction fs as [|fd fs IH]; intros ds ss ns Ht Hs Hb; inversion Ht; subst; inversion Hs; subst; constructor.
    - intros v ->. repeat split; [auto|auto|apply Hb; left; reflexivity].
    - eapply IH; try eassumption. intros v Hv. apply Hb. right. exact Hv.
  Qed.

  Lemma rnested_F2 (B : rpatch -> Prop) : forall fs ss ns, rsvfields e fs ss ns ->
    (forall q, In (Some q) ns -> B q) ->
    Forall2 (fun fd np => forall q m, np = Some q -> root_rec_of e (f_ty fd) = Some m -> rsets_valid e m q /\ B q) fs ns.
  Proof.
    induction fs as [|fd fs IH]; intros ss ns Hs Hb; inversion Hs; subst; constructor.
    - intros q m -> Hm. split; [eauto|apply Hb; left; reflexivity].
    - eapply IH; try eassumption. intros q Hq. apply Hb. right. exact Hq.
  Qed.

  Lemma rlist_max_opt {A} (g : A -> nat) (l : list (option A)) a :
    In (Some a) l -> g a <= list_max (map (fun o : option A => match o with Some y => g y | None => 0 end) l).
  Proof. intros H. apply (list_max_In (g a)). apply in_map_iff. exists (Some a). split; [reflexivity|exact H]. Qed.

  Theorem root_legal_enc_ok : forall fuel path n p,
    rtpatch e n p -> rsets_valid e n p -> rlegal e rex0 path n p -> rfuel_ok fuel p ->
    exists d, root_enc_patch_at e w x fuel (scope0 ++ path) n p = Ok d.
  Proof.
    induction fuel as [|f IH]; intros path n p Ht Hs Hl Hfu; [unfold rfuel_ok in Hfu; lia|].
    inversion Ht as [n0 fs ds ss ns Hlk Hf]; subst.
    inversion Hs as [n1 fs1 ds1 ss1 ns1 Hlk1 Hsv]; subst. rewrite Hlk in Hlk1. inversion Hlk1; subst fs1. clear Hlk1.
    inversion Hl as [path2 n2 fs2 ds2 ss2 ns2 Hlk2 Hlf]; subst. rewrite Hlk in Hlk2. inversion Hlk2; subst fs2. clear Hlk2.
    destruct fs as [|fd1 fs1].
    { rewrite (root_enc_patch_at_empty f _ n ds ss ns Hlk). eexists; reflexivity. }
    unfold rfuel_ok in Hfu. cbn [rpdepth rpvdepth map list_max] in Hfu.
    set (PD := list_max (map (fun o : option rpatch => match o with Some q => rpdepth q | None => 0 end) ns)) in *.
    set (PV := list_max (map (fun o : option rpatch => match o with Some q => rpvdepth q | None => 0 end) ns)) in *.
    set (VD := list_max (map (fun o : option value => match o with Some v => vdepth v | None => 0 end) ss)) in *.
    assert (HPD : forall q, In (Some q) ns -> rpdepth q <= PD) by (intros q Hq; exact (rlist_max_opt rpdepth ns q Hq)).
    assert (HPV : forall q, In (Some q) ns -> rpvdepth q <= PV) by (intros q Hq; exact (rlist_max_opt rpvdepth ns q Hq)).
    assert (HVD : forall v, In (Some v) ss -> vdepth v <= VD) by (intros v Hv; exact (rlist_max_opt vdepth ss v Hv)).
    destruct f as [|f2]; [lia|].
    rewrite (root_enc_patch_at_S (S f2) _ n fd1 fs1 ds ss ns Hlk).
    remember (fd1 :: fs1) as fs eqn:Efs.
    (* the level check *)
    assert (Hlev : rlevel_legal (fun k => rex0 (path ++ [k])) fs ds ss ns).
    { clear -Hlf. induction Hlf; constructor; assumption. }
    apply rlevel_shift in Hlev.
    rewrite (root_check_own_legal e _ fs ds ss ns (false, false) Hf Hlev). cbn [bind fst snd orb].
    (* $delete *)
    assert (Hdel : exists del, (if existsb (fun b => b) ds then
                                  if excluded w x ((scope0 ++ path) ++ [op_delete]) then Ok []
                                  else Ok [(op_delete, root_enc_deletes fs ds)]
                                else Ok []) = Ok del :> res (list (bytes * doc))).
    { destruct (existsb _ ds); [destruct (excluded _ _ _)|]; eexists; reflexivity. }
    destruct Hdel as [del ->]. cbn [bind].
    (* $set *)
    assert (Hset : exists set, (if existsb rsome ss then
                                  if excluded w x ((scope0 ++ path) ++ [op_set]) then Ok []
                                  else do d <- root_enc_sets e w x (S f2) ((scope0 ++ path) ++ [op_set]) fs ss; Ok [(op_set, d)]
                                else Ok []) = Ok set).
    { destruct (existsb rsome ss); [|eexists; reflexivity]. destruct (excluded _ _ _); [eexists; reflexivity|].
      unfold root_enc_sets.
      destruct (root_set_entries_ok (S f2) ((scope0 ++ path) ++ [op_set]) fs ss) as [ents ->]; [|eexists; reflexivity].
      eapply rsets_F2; try eassumption. intros v Hv. specialize (HVD v Hv). lia. }
    destruct Hset as [set ->]. cbn [bind].
    (* nested *)
    destruct (root_nested_entries_ok (root_enc_patch_at e w x (S f2)) (fun m q => rsets_valid e m q /\ rfuel_ok (S f2) q) path)
      with (fs := fs) (ds := ds) (ss := ss) (ns := ns) as [nst ->]; [| exact Hf | exact Hlf | | eexists; reflexivity].
    - intros name q m Hq Hlq [Hsq Hfq]. rewrite <- app_assoc. apply IH; assumption.
    - apply (rnested_F2 (rfuel_ok (S f2)) fs ss ns Hsv). intros q Hq. specialize (HPD q Hq). specialize (HPV q Hq). unfold rfuel_ok. lia.
  Qed.
End Enc.

(* ==================================================================================================================== *)
(* 3. The client: MarshalRestLi = {"patch": MarshalRestLiPatch(writer with an empty scope)}                              *)
(* ==================================================================================================================== *)
Definition rclient_ex (w : bytes) (x : pathspec) (path : list bytes) : bool := ps_matches w x path.

Theorem root_patch_legal_iff : forall e w x fuel n p,
  excluded w x [root_patch_key] = false -> rtpatch e n p -> rsets_valid e n p -> rfuel_ok fuel p ->
  ((exists d, root_enc_patch e w x fuel n p = Ok d) <-> rlegal e (rclient_ex w x) [] n p).
Proof.
  intros e w x fuel n p Hp Ht Hs Hf. unfold root_enc_patch. rewrite Hp. split.
  - intros [d H]. apply bind_ok' in H as [d0 [H _]].
    exact (root_enc_ok_legal e w x [] fuel [] n p d0 Ht H).
  - intros Hl. destruct (root_legal_enc_ok e w x [] fuel [] n p Ht Hs Hl Hf) as [d H].
    simpl app in H. rewrite H. eexists; reflexivity.
Qed.

(* the emitted document has the protocol's shape: a single member "patch" *)
Theorem root_enc_patch_shape : forall e w x fuel n p d,
  excluded w x [root_patch_key] = false -> root_enc_patch e w x fuel n p = Ok d -> exists body, d = DObj [(root_patch_key, body)].
Proof.
  intros e w x fuel n p d Hp H. unfold root_enc_patch in H. rewrite Hp in H. apply bind_ok' in H as [d0 [_ H]].
  inversion H. eexists; reflexivity.
Qed.

Lemma rlfields_nth e ex path : forall fs ds ss ns i fd d s np,
  rlfields e ex path fs ds ss ns ->
  nth_error fs i = Some fd -> nth_error ds i = Some d -> nth_error ss i = Some s -> nth_error ns i = Some np ->
  at_most_one d (rsome s) (rsome np) /\
  (touched d (rsome s) (rsome np) -> ex (path ++ [f_name fd]) = false) /\
  (forall q m, np = Some q -> root_rec_of e (f_ty fd) = Some m -> rlegal e ex (path ++ [f_name fd]) m q).
Proof.
  induction fs as [|fd0 fs IH]; intros ds ss ns i fd d s np Hl Hf Hd Hs Hn; [destruct i; discriminate|].
  inversion Hl; subst. destruct i as [|i]; simpl in Hf, Hd, Hs, Hn.
  - inversion Hf; inversion Hd; inversion Hs; inversion Hn; subst. split; [assumption|split; assumption].
  - eapply IH; eassumption.
Qed.

Lemma rlegal_not_touches e ex : forall path n p, rtouches_excluded e ex path n p -> rlegal e ex path n p -> False.
Proof.
  intros path n p Ht. induction Ht as [path n fs ds ss ns i fd d s np Hlk Hf Hd Hs Hn Htc Hx
                                       | path n fs ds ss ns i fd q m Hlk Hf Hn Hm Hq IH]; intros Hl;
    inversion Hl as [path2 n2 fs2 ds2 ss2 ns2 Hlk2 Hlf]; subst; rewrite Hlk in Hlk2; inversion Hlk2; subst fs2.
  - destruct (rlfields_nth e ex path fs ds ss ns i fd d s np Hlf Hf Hd Hs Hn) as [_ [H _]]. rewrite (H Htc) in Hx. discriminate.
  - assert (Hlen : exists d s, nth_error ds i = Some d /\ nth_error ss i = Some s).
    { clear -Hlf Hf. revert i Hf. induction Hlf; intros i Hf; [destruct i; discriminate|].
      destruct i; [do 2 eexists; split; reflexivity | simpl in Hf |- *; eauto]. }
    destruct Hlen as [d [s [Hd Hs]]].
    destruct (rlfields_nth e ex path fs ds ss ns i fd d s (Some q) Hlf Hf Hd Hs Hn) as [_ [_ H]].
    apply IH. eapply H; [reflexivity|exact Hm].
Qed.

(* C07, client side: a partial update that touches an excluded field - by $delete, by $set or through a nested partial update,
   at any depth - is never written: MarshalRestLi returns an error *)
Theorem root_excluded_patch_fails_before_send : forall e w x fuel n p,
  excluded w x [root_patch_key] = false -> rtpatch e n p -> rtouches_excluded e (rclient_ex w x) [] n p ->
  is_ok (root_enc_patch e w x fuel n p) = false.
Proof.
  intros e w x fuel n p Hp Ht Hte. destruct (root_enc_patch e w x fuel n p) as [d|y|] eqn:E; [|reflexivity|reflexivity].
  exfalso. unfold root_enc_patch in E. rewrite Hp in E. apply bind_ok' in E as [d0 [H _]].
  eapply rlegal_not_touches; [exact Hte|]. exact (root_enc_ok_legal e w x [] fuel [] n p d0 Ht H).
Qed.

(* ... and when the field is touched at the outermost level the error is the IllegalPartialUpdateError raised by CheckField, before
   any member of the patch is handed to the writer *)
Theorem root_excluded_touch_is_illegal_partial_update : forall e w x f n fs ds ss ns i fd d s np,
  excluded w x [root_patch_key] = false -> lookup e n = Some (DRecord [] fs) -> rtfields e fs ds ss ns ->
  nth_error fs i = Some fd -> nth_error ds i = Some d -> nth_error ss i = Some s -> nth_error ns i = Some np ->
  touched d (rsome s) (rsome np) -> rclient_ex w x [f_name fd] = true ->
  root_enc_patch e w x (S f) n (RPatch ds ss ns) = Err EPatch.
Proof.
  intros e w x f n fs ds ss ns i fd d s np Hp Hlk Ht Hf Hd Hs Hn Htc Hx. unfold root_enc_patch. rewrite Hp.
  destruct fs as [|fd0 fs0]; [destruct i; discriminate|].
  rewrite (root_enc_patch_at_S e w x f [] n fd0 fs0 ds ss ns Hlk).
  rewrite (root_check_own_excluded e _ (fd0 :: fs0) ds ss ns (false, false) i fd d s np Ht Hf Hd Hs Hn Htc); [reflexivity|exact Hx].
Qed.

(* two operations on one field at the outermost level: refused with the same error, whatever is excluded *)
Lemma root_check_own_two e exc : forall fs ds ss ns acc i fd d s np,
  rtfields e fs ds ss ns ->
  nth_error fs i = Some fd -> nth_error ds i = Some d -> nth_error ss i = Some s -> nth_error ns i = Some np ->
  ~ at_most_one d (rsome s) (rsome np) ->
  root_check_own e exc fs ds ss ns acc = Err EPatch.
Proof.
  induction fs as [|fd0 fs IH]; intros ds ss ns acc i fd d s np Ht Hf Hd Hs Hn Htwo; inversion Ht; subst.
  - destruct i; discriminate.
  - simpl. destruct (rflags_typed e fd0 d0 np0) as [F1 F2]; [assumption|assumption|]. rewrite F1, F2.
    destruct i as [|i]; simpl in Hf, Hd, Hs, Hn.
    + inversion Hf; inversion Hd; inversion Hs; inversion Hn; subst. rewrite root_check_field_two by assumption. reflexivity.
    + destruct (root_check_field exc (f_name fd0) d0 (rsome s0) (rsome np0) acc) as [a|y|] eqn:E; simpl.
      * eapply IH; eassumption.
      * apply root_check_field_err in E. subst. reflexivity.
      * exfalso. eapply root_check_field_no_panic; exact E.
Qed.

Theorem root_double_touch_is_illegal_partial_update : forall e w x f n fs ds ss ns i fd d s np,
  excluded w x [root_patch_key] = false -> lookup e n = Some (DRecord [] fs) -> rtfields e fs ds ss ns ->
  nth_error fs i = Some fd -> nth_error ds i = Some d -> nth_error ss i = Some s -> nth_error ns i = Some np ->
  ~ at_most_one d (rsome s) (rsome np) ->
  root_enc_patch e w x (S f) n (RPatch ds ss ns) = Err EPatch.
Proof.
  intros e w x f n fs ds ss ns i fd d s np Hp Hlk Ht Hf Hd Hs Hn Htwo. unfold root_enc_patch. rewrite Hp.
  destruct fs as [|fd0 fs0]; [destruct i; discriminate|].
  rewrite (root_enc_patch_at_S e w x f [] n fd0 fs0 ds ss ns Hlk).
  rewrite (root_check_own_two e _ (fd0 :: fs0) ds ss ns (false, false) i fd d s np Ht Hf Hd Hs Hn Htwo). reflexivity.
Qed.

(* ==================================================================================================================== *)
(* 4. The $delete list: X_PartialUpdate_Delete_Fields.UnmarshalRestLi                                                     *)
(* ==================================================================================================================== *)
Theorem root_delete_list_decoding : forall fs ds name,
  root_unmarshal_delete fs ds name =
  match index_of name (map f_name fs) 0 with
  | None => Ok ds                                                     (* the switch has no default: an unknown name is ignored *)
  | Some j =>
      match nth_error fs j with
      | Some fd => if is_required (f_opt fd) then Err EPatch           (* "Cannot delete required" *)
                   else Ok (set_nth j true ds)
      | None => Ok ds
      end
  end.
Proof.
  intros fs ds name. unfold root_unmarshal_delete, deletable.
  destruct (index_of name (map f_name fs) 0) as [j|]; [|reflexivity].
  destruct (nth_error fs j) as [fd|]; [|reflexivity]. destruct (is_required (f_opt fd)); reflexivity.
Qed.

Lemma rindex_of_nodup (fs : list field) j fd :
  NoDup (map f_name fs) -> nth_error fs j = Some fd -> index_of (f_name fd) (map f_name fs) 0 = Some j.
Proof.
  intros Hnd Hj. pose proof (index_of_spec (f_name fd) (map f_name fs) 0) as H.
  assert (Hm : nth_error (map f_name fs) j = Some (f_name fd)) by (rewrite nth_error_map, Hj; reflexivity).
  destruct (index_of (f_name fd) (map f_name fs) 0) as [i|].
  - destruct H as [i0 [-> [Hn _]]]. simpl. f_equal.
    apply (proj1 (NoDup_nth_error (map f_name fs)) Hnd); [apply nth_error_Some; congruence | congruence].
  - exfalso. apply H. eapply nth_error_In; exact Hm.
Qed.

Theorem root_delete_required_rejected : forall fs ds j fd,
  NoDup (map f_name fs) -> nth_error fs j = Some fd -> is_required (f_opt fd) = true ->
  root_unmarshal_delete fs ds (f_name fd) = Err EPatch.
Proof.
  intros fs ds j fd Hnd Hj Hr. rewrite root_delete_list_decoding, (rindex_of_nodup fs j fd Hnd Hj), Hj, Hr. reflexivity.
Qed.

Theorem root_delete_unknown_ignored : forall fs ds name,
  ~ In name (map f_name fs) -> root_unmarshal_delete fs ds name = Ok ds.
Proof.
  intros fs ds name Hni. rewrite root_delete_list_decoding.
  pose proof (index_of_spec name (map f_name fs) 0) as H. destruct (index_of name (map f_name fs) 0) as [i|]; [|reflexivity].
  exfalso. destruct H as [i0 [_ [Hn _]]]. apply Hni. eapply nth_error_In; exact Hn.
Qed.

Theorem root_delete_optional_sets_flag : forall fs ds j fd,
  NoDup (map f_name fs) -> nth_error fs j = Some fd -> is_required (f_opt fd) = false ->
  root_unmarshal_delete fs ds (f_name fd) = Ok (set_nth j true ds).
Proof.
  intros fs ds j fd Hnd Hj Hr. rewrite root_delete_list_decoding, (rindex_of_nodup fs j fd Hnd Hj), Hj, Hr. reflexivity.
Qed.

(* a $delete array that names a required field anywhere is rejected as a whole *)
Theorem root_delete_array_with_required_rejected : forall fs items j fd,
  NoDup (map f_name fs) -> nth_error fs j = Some fd -> is_required (f_opt fd) = true ->
  In (JStr (f_name fd)) items -> forall ds tr, is_ok (root_dec_deletes fs (JArr items) ds tr) = false.
Proof.
  intros fs items j fd Hnd Hj Hr. unfold root_dec_deletes.
  induction items as [|it items IH]; intros Hin ds tr; [contradiction|].
  destruct (jstring it) as [s|y|] eqn:Es; cbn [bind]; [|reflexivity|reflexivity].
  destruct Hin as [->|Hin].
  - simpl in Es. inversion Es; subst s. rewrite (root_delete_required_rejected fs ds j fd Hnd Hj Hr). reflexivity.
  - destruct (root_unmarshal_delete fs ds s) as [ds'|y|]; cbn [bind]; [|reflexivity|reflexivity]. apply IH. exact Hin.
Qed.

(* a $delete array of unknown names only changes nothing *)
Theorem root_delete_array_unknown_ignored : forall fs names ds tr,
  (forall s, In s names -> ~ In s (map f_name fs)) ->
  root_dec_deletes fs (JArr (map JStr names)) ds tr = Ok (ds, tr).
Proof.
  intros fs names ds tr. unfold root_dec_deletes. induction names as [|s names IH]; intros H; [reflexivity|].
  cbn [map jstring bind]. rewrite (root_delete_unknown_ignored fs ds s) by (apply H; left; reflexivity). cbn [bind].
  apply IH. intros s' Hs'. apply H. right. exact Hs'.
Qed.

(* and through the whole of UnmarshalRestLiPatch: a document whose "$delete" names a required field is rejected *)
Theorem root_patch_delete_required_rejected : forall e w x ig pF f n fd0 fs items j fd p tr before after,
  lookup e n = Some (DRecord [] (fd0 :: fs)) -> NoDup (map f_name (fd0 :: fs)) ->
  nth_error (fd0 :: fs) j = Some fd -> is_required (f_opt fd) = true -> In (JStr (f_name fd)) items ->
  is_ok (root_dec_patch_at e w x ig pF (S f) n (JObj (before ++ (op_delete, JArr items) :: after)) p tr) = false.
Proof.
  intros e w x ig pF f n fd0 fs items j fd p tr before after Hlk Hnd Hj Hr Hin.
  cbn [root_dec_patch_at]. rewrite Hlk. cbn [bind].
  match goal with |- is_ok (bind ?loop _) = false => assert (Hloop : is_ok loop = false) end.
  { revert p tr. induction before as [|[k y] before IH]; intros p tr.
    - cbn [app]. destruct (enter_map w x ig op_delete tr) as [tr1|y|] eqn:Em; cbn [bind]; [|reflexivity|reflexivity].
      destruct p as [ds ss ns]. rewrite bytes_eqb_refl.
      pose proof (root_delete_array_with_required_rejected (fd0 :: fs) items j fd Hnd Hj Hr Hin ds tr1) as Hd.
      destruct (root_dec_deletes (fd0 :: fs) (JArr items) ds tr1) as [a|y|]; [discriminate|reflexivity|reflexivity].
    - cbn [app]. destruct y; try apply IH;
        (destruct (enter_map w x ig k tr) as [tr1|y0|]; cbn [bind]; [|reflexivity|reflexivity];
         match goal with |- is_ok (bind ?u _) = false => destruct u as [[p' tr2]|y1|]; cbn [bind]; [apply IH|reflexivity|reflexivity] end). }
  destruct (_ : res (rpatch * tracker)) as [[p1 tr1]|y|]; [discriminate Hloop|reflexivity|reflexivity].
Qed.

(* ==================================================================================================================== *)
(* 5. The server: the reader is the KeyChecker                                                                            *)
(* ==================================================================================================================== *)
(* the reader of a partial_update body (pre = [], leadingScopeToIgnore = 1) or of one entity of a batch_partial_update body
   (pre = ["entities"; key], leadingScopeToIgnore = 3), positioned at [rest] below "patch": what IsKeyExcluded / enterMapScope
   test is the path RELATIVE to the record, exactly as on the client *)
Lemma root_reader_relative_path w x pre rest k ms :
  is_key_excluded w x (S (length pre)) k {| t_scope := map SKey (pre ++ root_patch_key :: rest); t_missing := ms |}
  = ps_matches w x (rest ++ [k]).
Proof.
  unfold is_key_excluded, enter_map, push. cbn [t_scope t_missing].
  assert (Hlen : Nat.leb (length (map SKey (pre ++ root_patch_key :: rest) ++ [SKey k])) (S (length pre)) = false).
  { apply Nat.leb_gt. rewrite app_length, map_length, app_length. simpl. lia. }
  rewrite Hlen.
  assert (Hskip : map (seg_name w) (skipn (S (length pre)) (map SKey (pre ++ root_patch_key :: rest) ++ [SKey k])) = rest ++ [k]).
  { rewrite map_app. cbn [map]. rewrite <- app_assoc. cbn [app].
    replace (S (length pre)) with (length (map SKey pre ++ [SKey root_patch_key])) by (rewrite app_length, map_length; simpl; lia).
    replace (map SKey pre ++ SKey root_patch_key :: map SKey rest ++ [SKey k])
      with ((map SKey pre ++ [SKey root_patch_key]) ++ (map SKey rest ++ [SKey k])) by (rewrite <- app_assoc; reflexivity).
    rewrite skipn_app, Nat.sub_diag, skipn_all. cbn [skipn app]. rewrite map_app, map_map. cbn [map seg_name].
    f_equal. rewrite <- (map_id rest) at 2. apply map_ext. reflexivity. }
  rewrite Hskip. destruct (ps_matches w x (rest ++ [k])); reflexivity.
Qed.

(* the final checkAllFields of UnmarshalRestLiPatch: whatever is accepted has no deleted, set or nested-patched field that the
   reader excludes at its final scope, and no field with two operations *)
Lemma root_check_own_untouched e exc : forall fs ds ss ns acc acc',
  root_check_own e exc fs ds ss ns acc = Ok acc' ->
  forall i fd d s np, nth_error fs i = Some fd -> nth_error ds i = Some d -> nth_error ss i = Some s -> nth_error ns i = Some np ->
    ((is_required (f_opt fd) = false /\ d = true) \/ s <> None \/ (root_rec_of e (f_ty fd) <> None /\ np <> None)) ->
    exc (f_name fd) = false.
Proof.
  induction fs as [|fd0 fs IH]; intros ds ss ns acc acc' H i fd d s np Hf Hd Hs Hn Ht; [destruct i; discriminate|].
  destruct ds as [|d0 ds], ss as [|s0 ss], ns as [|np0 ns]; try discriminate H.
  cbn [root_check_own] in H. apply bind_ok' in H as [a [Hc H]].
  destruct i as [|i]; simpl in Hf, Hd, Hs, Hn.
  - inversion Hf; inversion Hd; inversion Hs; inversion Hn; subst. apply root_check_field_ok in Hc as [Hx _]. apply Hx.
    unfold touched, deletable. destruct Ht as [[Hr ->]|[Hs'|[Hr Hn']]].
    + left. rewrite Hr. reflexivity.
    + right. left. destruct s; [reflexivity|contradiction].
    + right. right. destruct (root_rec_of e (f_ty fd)); [|contradiction]. destruct np; [reflexivity|contradiction].
  - eapply IH; eassumption.
Qed.

(* whatever UnmarshalRestLiPatch accepts passed checkAllFields with the reader as KeyChecker: in particular a document that makes
   the struct both delete and set a field, or set and patch it, is rejected *)
Theorem root_dec_accepts_only_checked : forall e w x ig pF f n fd fs jd p tr p1 tr1,
  lookup e n = Some (DRecord [] (fd :: fs)) ->
  root_dec_patch_at e w x ig pF (S f) n jd p tr = Ok (p1, tr1) ->
  exists hs, root_check_fields e n (fun k => is_key_excluded w x ig k tr1) p1 = Ok hs.
Proof.
  intros e w x ig pF f n fd fs jd p tr p1 tr1 Hlk H. cbn [root_dec_patch_at] in H. rewrite Hlk in H.
  apply bind_ok' in H as [es [_ H]]. apply bind_ok' in H as [[p2 t2] [_ H]].
  apply bind_ok' in H as [hs [Hc H]]. inversion H; subst. exists hs. exact Hc.
Qed.

Corollary root_patch_illegal_rejected_on_decode : forall e w x ig pF f n fd fs jd p tr ds ss ns tr1,
  lookup e n = Some (DRecord [] (fd :: fs)) -> rtfields e (fd :: fs) ds ss ns ->
  root_dec_patch_at e w x ig pF (S f) n jd p tr = Ok (RPatch ds ss ns, tr1) ->
  rlevel_legal (fun k => is_key_excluded w x ig k tr1) (fd :: fs) ds ss ns.
Proof.
  intros e w x ig pF f n fd fs jd p tr ds ss ns tr1 Hlk Ht H.
  eapply root_dec_accepts_only_checked in H as [hs Hc]; [|exact Hlk].
  apply (proj1 (root_check_fields_legal_iff e n _ (fd :: fs) ds ss ns Hlk Ht)). exists hs. exact Hc.
Qed.

Theorem root_server_final_check : forall e w x ig pF f n fd0 fs jd p tr ds ss ns tr1,
  lookup e n = Some (DRecord [] (fd0 :: fs)) ->
  root_dec_patch_at e w x ig pF (S f) n jd p tr = Ok (RPatch ds ss ns, tr1) ->
  forall i fd d s np, nth_error (fd0 :: fs) i = Some fd -> nth_error ds i = Some d -> nth_error ss i = Some s -> nth_error ns i = Some np ->
    ((is_required (f_opt fd) = false /\ d = true) \/ s <> None \/ (root_rec_of e (f_ty fd) <> None /\ np <> None)) ->
    is_key_excluded w x ig (f_name fd) tr1 = false.
Proof.
  intros e w x ig pF f n fd0 fs jd p tr ds ss ns tr1 Hlk H.
  eapply root_dec_accepts_only_checked in H as [hs Hc]; [|exact Hlk].
  rewrite (root_check_fields_eq e n _ (fd0 :: fs) ds ss ns Hlk) in Hc.
  intros i fd d s np.
  exact (root_check_own_untouched e (fun k => is_key_excluded w x ig k tr1) (fd0 :: fs) ds ss ns (false, false) hs Hc i fd d s np).
Qed.

(* in path form: when the reader is back at the scope of the patch (pre ++ "patch" :: path) no accepted touch is on a field
   excluded relative to the record *)
Corollary root_server_accepts_no_excluded_touch : forall e w x pF f n fd0 fs jd p tr ds ss ns tr1 pre path,
  lookup e n = Some (DRecord [] (fd0 :: fs)) ->
  root_dec_patch_at e w x (S (length pre)) pF (S f) n jd p tr = Ok (RPatch ds ss ns, tr1) ->
  t_scope tr1 = map SKey (pre ++ root_patch_key :: path) ->
  forall i fd d s np, nth_error (fd0 :: fs) i = Some fd -> nth_error ds i = Some d -> nth_error ss i = Some s -> nth_error ns i = Some np ->
    ((is_required (f_opt fd) = false /\ d = true) \/ s <> None \/ (root_rec_of e (f_ty fd) <> None /\ np <> None)) ->
    rclient_ex w x (path ++ [f_name fd]) = false.
Proof.
  intros e w x pF f n fd0 fs jd p tr ds ss ns tr1 pre path Hlk H Hsc i fd d s np Hf Hd Hs Hn Ht.
  pose proof (root_server_final_check e w x (S (length pre)) pF f n fd0 fs jd p tr ds ss ns tr1 Hlk H i fd d s np Hf Hd Hs Hn Ht) as Hx.
  destruct tr1 as [sc ms]. simpl in Hsc. subst sc. rewrite root_reader_relative_path in Hx. exact Hx.
Qed.

(* ==================================================================================================================== *)
(* 6. Non-vacuity: the flattened twin of PatchProofs.rx_env                                                               *)
(* ==================================================================================================================== *)
From GR Require Import Base.Dec.

Definition rn_a : bytes := [x61].          (* "a" *)
Definition rn_s : bytes := [x73].          (* "s" *)
Definition rn_z : bytes := [x7a].          (* "z" *)
Definition rn_w : bytes := [x77].          (* "w" *)
Definition rn_dr : bytes := [x64; x72].    (* "dr" *)
Definition rwc : bytes := [x2a].           (* "*" *)

(* 0: Inner {a: int (required), s: string (optional)}   1: D {dr: Inner (optional)}
   2: Incl includes Inner, D; {z: string (required)}  -> flattened {a, s, dr, z}
   3: Incl2 includes Incl; {w: int (optional)}         -> flattened {a, s, dr, z, w} *)
Definition f_a := {| f_name := rn_a; f_ty := TPrim PInt; f_opt := Required |}.
Definition f_s := {| f_name := rn_s; f_ty := TPrim PString; f_opt := Optional |}.
Definition f_dr := {| f_name := rn_dr; f_ty := TRef 0; f_opt := Optional |}.
Definition f_z := {| f_name := rn_z; f_ty := TPrim PString; f_opt := Required |}.
Definition f_w := {| f_name := rn_w; f_ty := TPrim PInt; f_opt := Optional |}.
Definition rrx_env : env :=
  [ DRecord [] [f_a; f_s]; DRecord [] [f_dr]; DRecord [] [f_a; f_s; f_dr; f_z]; DRecord [] [f_a; f_s; f_dr; f_z; f_w] ].

(* the JSON tree of a document without floats *)
Fixpoint rjv (d : doc) : jdoc :=
  match d with
  | DLeaf (LInt z) => JNum (print_dec z)
  | DLeaf (LBool b) => JBool b
  | DLeaf (LStr s) => JStr s
  | DLeaf (LBytes s) => JStr s
  | DLeaf (LFloat _ _) => JNull
  | DArr l => JArr (map rjv l)
  | DObj es => JObj ((fix go (l : list (bytes * doc)) := match l with [] => [] | (k, y) :: r => (k, rjv y) :: go r end) es)
  end.

Definition rno_floats : nat -> bytes -> option N := fun _ _ => None.

(* on Incl2 (flattened): { $delete: [s], $set: {w: 7}, dr: { $delete: [s], $set: {a: 5} } } - a delete of a field inherited through
   TWO includes and a nested partial update on an INHERITED record-typed field: both are lost by the v2 bindings
   (PatchProofs.inherited_nested_patch_dropped / transitive_delete_dropped) and kept by the root bindings *)
Definition rex_inner : rpatch := RPatch [false; true] [Some (VInt 5); None] [None; None].
Definition rex_patch : rpatch :=
  RPatch [false; true; false; false; false] [None; None; None; None; Some (VInt 7)] [None; None; Some rex_inner; None; None].

Lemma rex_inner_typed : rtpatch rrx_env 0 rex_inner.
Proof.
  eapply rtp_rec; [reflexivity|]. apply rtf_cons.
  - reflexivity.
  - intros v Hv. inversion Hv. constructor.
  - intros H. exfalso. apply H. reflexivity.
  - intros q m Hq. discriminate.
  - apply rtf_cons.
    + intros H. discriminate.
    + intros v Hv. discriminate.
    + intros H. exfalso. apply H. reflexivity.
    + intros q m Hq. discriminate.
    + constructor.
Qed.

Lemma rex_patch_typed : rtpatch rrx_env 3 rex_patch.
Proof.
  eapply rtp_rec; [reflexivity|].
  apply rtf_cons; [reflexivity | intros v Hv; discriminate | intros H; exfalso; apply H; reflexivity | intros q m Hq; discriminate |].
  apply rtf_cons; [intros H; discriminate | intros v Hv; discriminate | intros H; exfalso; apply H; reflexivity | intros q m Hq; discriminate |].
  apply rtf_cons; [intros H; discriminate | intros v Hv; discriminate | intros _; discriminate | |].
  { intros q m Hq Hm. inversion Hq; subst q. inversion Hm; subst m. exact rex_inner_typed. }
  apply rtf_cons; [reflexivity | intros v Hv; discriminate | intros H; exfalso; apply H; reflexivity | intros q m Hq; discriminate |].
  apply rtf_cons; [intros H; discriminate | intros v Hv; inversion Hv; constructor | intros H; exfalso; apply H; reflexivity
                  | intros q m Hq; discriminate |].
  constructor.
Qed.

Lemma rex_inner_legal : rlegal rrx_env (rclient_ex rwc ps_empty) [rn_dr] 0 rex_inner.
Proof.
  eapply rlg_rec; [reflexivity|].
  apply rlf_cons; [unfold at_most_one; simpl; intuition discriminate | intros _; reflexivity | intros q m Hq; discriminate |].
  apply rlf_cons; [unfold at_most_one; simpl; intuition discriminate | intros _; reflexivity | intros q m Hq; discriminate |].
  constructor.
Qed.

Lemma rex_patch_legal : rlegal rrx_env (rclient_ex rwc ps_empty) [] 3 rex_patch.
Proof.
  eapply rlg_rec; [reflexivity|].
  apply rlf_cons; [unfold at_most_one; simpl; intuition discriminate | intros _; reflexivity | intros q m Hq; discriminate |].
  apply rlf_cons; [unfold at_most_one; simpl; intuition discriminate | intros _; reflexivity | intros q m Hq; discriminate |].
  apply rlf_cons; [unfold at_most_one; simpl; intuition discriminate | intros _; reflexivity | |].
  { intros q m Hq Hm. inversion Hq; subst q. inversion Hm; subst m. exact rex_inner_legal. }
  apply rlf_cons; [unfold at_most_one; simpl; intuition discriminate | intros _; reflexivity | intros q m Hq; discriminate |].
  apply rlf_cons; [unfold at_most_one; simpl; intuition discriminate | intros _; reflexivity | intros q m Hq; discriminate |].
  constructor.
Qed.

Lemma root_patch_roundtrip_example :
  exists d, root_enc_patch rrx_env rwc ps_empty 8 3 rex_patch = Ok d /\
            d = DObj [(root_patch_key,
                       DObj [(op_delete, DArr [DLeaf (LStr rn_s)]); (op_set, DObj [(rn_w, DLeaf (LInt 7))]);
                             (rn_dr, DObj [(op_delete, DArr [DLeaf (LStr rn_s)]); (op_set, DObj [(rn_a, DLeaf (LInt 5))])])])] /\
            root_dec_patch rrx_env rwc ps_empty 1 rno_floats 8 3 (rjv d) tracker0 = Ok (rex_patch, tracker0).
Proof. eexists. split; [vm_compute; reflexivity|]. split; vm_compute; reflexivity. Qed.

(* the same partial update is refused on the client as soon as the nested field (or the inherited record field) is read-only ... *)
Lemma root_excluded_example :
  root_enc_patch rrx_env rwc (new_pathspec [[x64; x72; x2f; x61]]) 8 3 rex_patch = Err EPatch /\      (* directive "dr/a" *)
  root_enc_patch rrx_env rwc (new_pathspec [rn_dr]) 8 3 rex_patch = Err EPatch /\                      (* directive "dr" *)
  root_enc_patch rrx_env rwc (new_pathspec [rn_s]) 8 3 rex_patch = Err EPatch.                         (* directive "s" *)
Proof. repeat split; vm_compute; reflexivity. Qed.

(* ... and on the server, for partial_update (leading scope 1) and for batch_partial_update (leading scope 3); a $delete of the
   required field "a" (inherited through two includes) is refused, an unknown name is ignored *)
Lemma root_server_example :
  let body := JObj [(root_patch_key, JObj [(rn_dr, JObj [(op_set, JObj [(rn_a, JNum [x35])])])])] in
  is_ok (root_dec_patch rrx_env rwc (new_pathspec [[x64; x72; x2f; x61]]) 1 rno_floats 8 3 body tracker0) = false /\
  is_ok (root_dec_patch rrx_env rwc (new_pathspec [[x64; x72; x2f; x61]]) 3 rno_floats 8 3 body
                        {| t_scope := [SKey [x65]; SKey [x6b]]; t_missing := [] |}) = false /\
  is_ok (root_dec_patch rrx_env rwc ps_empty 1 rno_floats 8 3 body tracker0) = true /\
  root_dec_patch rrx_env rwc ps_empty 1 rno_floats 8 3 (JObj [(root_patch_key, JObj [(op_delete, JArr [JStr rn_a])])]) tracker0
    = Err EPatch /\
  root_dec_patch rrx_env rwc ps_empty 1 rno_floats 8 3 (JObj [(root_patch_key, JObj [(op_delete, JArr [JStr [x71]])])]) tracker0
    = Ok (root_zero_patch rrx_env 3, tracker0).
Proof. repeat split; vm_compute; reflexivity. Qed.
