(* The untyped reader (Codec/AnyReader.v decA): C04 (never a panic) and C06 / C13 (it agrees with the JSON tree decoder decJ on what
   encoding/json.Unmarshal yields for a document, so every theorem about decJ - exact missing set, order independence, unknown
   fields, defaults - transfers).

   Method (as in Ror2NoPanic.v): one step of decA is re-stated as a non-recursive body [stepA] over an abstract recursive call
   [DA] (the nested loops become top-level fixpoints); [decA_unfold] proves by [reflexivity] that the re-statement IS the model.
   - no panic: no primitive of the reader can reach [Panic] (every reflect call is guarded by a kind test: val, readString,
     CanInt / CanFloat, the kind tests of ReadMap / ReadArray), so no step does.
   - agreement: stepA over [of_jdoc d] and stepJ over [d] are equal, loop by loop, when the recursive calls are; the side
     conditions are collected by [untyped_exact]. *)
From Coq Require Import List Bool Arith ZArith NArith Lia Permutation.
From Coq.Strings Require Import Byte.
From GR Require Import Base.Bytes Base.Res Base.Dec Codec.Schema Codec.Doc Codec.Escape Codec.Utf8 Codec.Json Codec.Tracker
  Codec.Decode Codec.AnyReader Proofs.Ror2NoPanic Proofs.MissingProofs Proofs.DefaultsProofs.
Import ListNotations.

#[local] Hint Resolve np_ok np_err : np.

(* ---------------------------------------------------------------------------------------------------------------------------
   A. one step of decA over an abstract recursive call
   --------------------------------------------------------------------------------------------------------------------------- *)
Section StepA.
  Variable e : env.
  Variable wildcard : bytes.
  Variable excl : pathspec.
  Variable ignore : nat.
  Variable parseF : nat -> bytes -> option N.
  Variable unspec : Z -> N -> Z.

  Notation enter_map := (enter_map wildcard excl ignore).
  Notation record_missing := (record_missing wildcard excl ignore).
  Notation aprim := (aprim parseF unspec).

  Variable DJ : bool -> ty -> jdoc -> tracker -> res (value * tracker).   (* decJ at the smaller fuel (default literals) *)
  Variable DA : bool -> ty -> gval -> tracker -> res (value * tracker).   (* decA at the smaller fuel *)

  Fixpoint umfA (k : nat) (n : nat) (key : bytes) (x : gval) (rv : value) (tr : tracker) {struct k}
      : res (bool * value * tracker) :=
    match k with
    | 0 => Err EFuel
    | S k' =>
        match lookup e n, rv with
        | Some (DRecord incs fs), VRec ivs fvs =>
            let fix try_incs (is : list nat) (vs : list value) (pos : nat) : res (option (nat * value * tracker)) :=
              match is, vs with
              | i :: is', iv :: vs' =>
                  do r <- umfA k' i key x iv tr;
                  let '(found, iv', tr') := r in
                  if found then Ok (Some (pos, iv', tr')) else try_incs is' vs' (S pos)
              | _, _ => Ok None
              end in
            do hit <- try_incs incs ivs 0;
            match hit with
            | Some (pos, iv', tr') => Ok (true, VRec (set_nth pos iv' ivs) fvs, tr')
            | None =>
                match index_of key (map f_name fs) 0 with
                | Some j =>
                    match nth_error fs j with
                    | Some fd =>
                        do r <- DA false (f_ty fd) x tr;
                        let '(v, tr') := r in
                        Ok (true, VRec ivs (set_nth j (Some v) fvs), tr')
                    | None => Err EType
                    end
                | None => Ok (false, rv, tr)
                end
            end
        | _, _ => Err EType
        end
    end.

  Definition goAarr (t' : ty) :=
    fix go (l : list gval) (i : nat) (acc : list value) (tr : tracker) : res (value * tracker) :=
      match l with
      | [] => Ok (VArr (rev acc), tr)
      | x :: r =>
          do rr <- DA false t' x (enter_array i tr);
          let '(v, tr') := rr in go r (S i) (v :: acc) (pop tr')
      end.

  Definition goAmap (t' : ty) :=
    fix go (l : list (bytes * gval)) (acc : list (bytes * value)) (tr : tracker) : res (value * tracker) :=
      match l with
      | [] => Ok (VMap (sort_entries acc), tr)
      | (k, x) :: r =>
          match x with
          | GNil => go r acc tr
          | _ => do tr1 <- enter_map k tr;
                 do rr <- DA false t' x tr1;
                 let '(v, tr2) := rr in go r (map_put k v acc) (pop tr2)
          end
      end.

  Definition goArec (n : nat) :=
    fix go (l : list (bytes * gval)) (rv : value) (rem : list bytes) (tr : tracker)
      : res (value * list bytes * tracker) :=
      match l with
      | [] => Ok (rv, rem, tr)
      | (k, x) :: r =>
          match x with
          | GNil => go r rv rem tr
          | _ => do tr1 <- enter_map k tr;
                 do u <- umfA (S (length e)) n k x rv tr1;
                 let '(_, rv', tr2) := u in
                 go r rv' (remove_bytes k rem) (pop tr2)
          end
      end.

  Definition goAuni (ms : list (bytes * ty)) :=
    fix go (l : list (bytes * gval)) (uv : list (option value)) (wasSet : bool) (tr : tracker)
      : res (list (option value) * bool * tracker) :=
      match l with
      | [] => Ok (uv, wasSet, tr)
      | (k, x) :: r =>
          match x with
          | GNil => go r uv wasSet tr
          | _ => do tr1 <- enter_map k tr;
                 if wasSet then Err EUnion
                 else match index_of k (map fst ms) 0 with
                      | Some j =>
                          match nth_error ms j with
                          | Some (_, mt) =>
                              do rr <- DA false mt x tr1;
                              let '(v, tr2) := rr in go r (set_nth j (Some v) uv) true (pop tr2)
                          | None => Err EType
                          end
                      | None => Err EUnion
                      end
          end
      end.

  Definition stepA (top : bool) (t : ty) (g : gval) (tr : tracker) : res (value * tracker) :=
    match t with
    | TPrim p => do v <- aprim p g; Ok (v, tr)
    | TEnum syms => do s <- read_string g; Ok (enum_value syms s, tr)
    | TFixed n =>
        do v <- aprim PBytes g;
        match v with VBytes b => if Nat.eqb (length b) n then Ok (VFixed b, tr) else Err EFixedSize | _ => Err EType end
    | TArray t' => do items <- aarr g; goAarr t' items 0 [] tr
    | TMap t' => do es <- amap g; goAmap t' es [] tr
    | TRef n =>
        match lookup e n with
        | Some (DRecord incs fs) =>
            do es <- amap g;
            do r <- goArec n es (zero_value e (S (S (length e))) t) (required_fields e (S (length e)) n) tr;
            let '(rv, rem, tr1) := r in
            let tr2 := record_missing rem tr1 in
            let raising := top && negb (match t_missing tr2 with [] => true | _ => false end) in
            let rv' := if raising || negb (own_has_default fs) then rv
                       else match rv with VRec ivs fvs => VRec ivs (fill_defaultsS DJ fs fvs) | _ => rv end in
            Ok (rv', tr2)
        | Some (DUnion nullable ms) =>
            do es <- amap g;
            do r <- goAuni ms es (map (fun _ => None) ms) false tr;
            let '(uv, wasSet, tr') := r in
            if negb nullable && negb wasSet then Err EUnion else Ok (VUnion uv, tr')
        | None => Err EType
        end
    end.
End StepA.

Lemma decA_unfold : forall e wildcard excl ignore parseF unspec f top t g tr,
  decA e wildcard excl ignore parseF unspec (S f) top t g tr
  = stepA e wildcard excl ignore parseF unspec (djmix e wildcard excl ignore parseF f)
      (decA e wildcard excl ignore parseF unspec f) top t g tr.
Proof. intros. reflexivity. Qed.

(* ---------------------------------------------------------------------------------------------------------------------------
   B. C04: never a panic
   --------------------------------------------------------------------------------------------------------------------------- *)
Lemma aval_np : forall g, np (aval g).
Proof. intros g. destruct g; cbn; auto with np. Qed.

Lemma astring_np : forall v, np (astring v).
Proof. intros v. destruct v; cbn; auto with np. Qed.

Section NoPanic.
  Variable e : env.
  Variable wildcard : bytes.
  Variable excl : pathspec.
  Variable ignore : nat.
  Variable parseF : nat -> bytes -> option N.
  Variable unspec : Z -> N -> Z.
  Variable DJ : bool -> ty -> jdoc -> tracker -> res (value * tracker).
  Variable DA : bool -> ty -> gval -> tracker -> res (value * tracker).

  Notation umfA := (umfA e DA).
  Notation goAarr := (goAarr DA).
  Notation goAmap := (goAmap wildcard excl ignore DA).
  Notation goArec := (goArec e wildcard excl ignore DA).
  Notation goAuni := (goAuni wildcard excl ignore DA).
  Notation stepA := (stepA e wildcard excl ignore parseF unspec DJ DA).

  Hypothesis DA_np : forall top t g tr, np (DA top t g tr).

  Lemma read_string_np : forall g, np (read_string g).
  Proof.
    intros g. unfold read_string. apply np_bind'; [apply aval_np|]. intros v.
    apply np_bind'; [apply astring_np|]. intros [s|]; auto with np.
  Qed.

  Lemma read_int_np : forall w g, np (read_int unspec w g).
  Proof.
    intros w g. unfold read_int. apply np_bind'; [apply aval_np|]. intros v.
    apply np_bind'; [apply astring_np|]. intros [s|].
    - destruct (parse_i64 s); auto with np.
    - destruct v; auto with np.
  Qed.

  Lemma read_float_np : forall b g, np (read_float parseF b g).
  Proof.
    intros b g. unfold read_float. apply np_bind'; [apply aval_np|]. intros v.
    apply np_bind'; [apply astring_np|]. intros [s|].
    - destruct (parseF 0 s); auto with np.
    - destruct v; auto with np.
  Qed.

  Lemma read_bool_np : forall g, np (read_bool g).
  Proof.
    intros g. unfold read_bool. apply np_bind'; [apply aval_np|]. intros v.
    apply np_bind'; [apply astring_np|]. intros [s|].
    - destruct (parse_bool s); auto with np.
    - destruct v; auto with np.
  Qed.

  Lemma read_bytes_np : forall g, np (read_bytes g).
  Proof.
    intros g. unfold read_bytes. apply np_bind'; [apply aval_np|]. intros v.
    assert (H : np (do os <- astring v; match os with Some s => Ok s | None => Err EDeser end)).
    { apply np_bind'; [apply astring_np|]. intros [s|]; auto with np. }
    destruct v; try exact H. destruct (latin1_decode (S (length s)) s); auto with np.
  Qed.

  Lemma aprim_np : forall p g, np (aprim parseF unspec p g).
  Proof.
    intros p g. unfold aprim. destruct p; (apply np_bind'; [|auto with np]).
    - apply read_int_np.
    - apply read_int_np.
    - apply read_float_np.
    - apply read_float_np.
    - apply read_bool_np.
    - apply read_string_np.
    - apply read_bytes_np.
  Qed.

  Lemma amap_np : forall g, np (amap g).
  Proof. intros g. unfold amap. apply np_bind'; [apply aval_np|]. intros v. destruct v; auto with np. Qed.
  Lemma aarr_np : forall g, np (aarr g).
  Proof. intros g. unfold aarr. apply np_bind'; [apply aval_np|]. intros v. destruct v; auto with np. Qed.

  Lemma umfA_np : forall k n key x rv tr, np (umfA k n key x rv tr).
  Proof.
    induction k as [|k IH]; intros n key x rv tr; cbn [AnyProofs.umfA]; [apply np_err|].
    destruct (lookup e n) as [[incs fs|nullable ms]|]; try apply np_err.
    destruct rv; try apply np_err.
    apply np_bind'.
    - generalize 0 as pos. generalize incs0 as vs.
      induction incs as [|i is IHis]; intros vs pos; [apply np_ok|].
      destruct vs as [|iv vs]; [apply np_ok|].
      apply np_bind'; [apply IH|]. intros [[found iv'] tr'].
      apply np_if; [apply np_ok|apply IHis].
    - intros [[[pos iv'] tr']|]; [apply np_ok|].
      destruct (index_of key (map f_name fs) 0) as [j|]; [|apply np_ok].
      destruct (nth_error fs j) as [fd|]; [|apply np_err].
      apply np_bind'; [apply DA_np|]. intros [v tr']. apply np_ok.
  Qed.

  Lemma goAarr_np : forall t' l i acc tr, np (goAarr t' l i acc tr).
  Proof.
    intros t'. induction l as [|x r IH]; intros i acc tr; cbn [AnyProofs.goAarr]; [apply np_ok|].
    apply np_bind'; [apply DA_np|]. intros [v tr']. apply IH.
  Qed.

  Lemma goAmap_np : forall t' l acc tr, np (goAmap t' l acc tr).
  Proof.
    intros t'. induction l as [|[k x] r IH]; intros acc tr; cbn [AnyProofs.goAmap]; [apply np_ok|].
    assert (H : np (do tr1 <- enter_map wildcard excl ignore k tr; do rr <- DA false t' x tr1;
                    let '(v, tr2) := rr in goAmap t' r (map_put k v acc) (pop tr2))).
    { apply np_bind'; [apply enter_map_np|]. intro tr1.
      apply np_bind'; [apply DA_np|]. intros [v tr2]. apply IH. }
    destruct x; first [apply IH | exact H].
  Qed.

  Lemma goArec_np : forall n l rv rem tr, np (goArec n l rv rem tr).
  Proof.
    intros n. induction l as [|[k x] r IH]; intros rv rem tr; cbn [AnyProofs.goArec]; [apply np_ok|].
    assert (H : np (do tr1 <- enter_map wildcard excl ignore k tr; do u <- umfA (S (length e)) n k x rv tr1;
                    let '(_, rv', tr2) := u in goArec n r rv' (remove_bytes k rem) (pop tr2))).
    { apply np_bind'; [apply enter_map_np|]. intro tr1.
      apply np_bind'; [apply umfA_np|]. intros [[found rv'] tr2]. apply IH. }
    destruct x; first [apply IH | exact H].
  Qed.

  Lemma goAuni_np : forall ms l uv wasSet tr, np (goAuni ms l uv wasSet tr).
  Proof.
    intros ms. induction l as [|[k x] r IH]; intros uv wasSet tr; cbn [AnyProofs.goAuni]; [apply np_ok|].
    assert (H : np (do tr1 <- enter_map wildcard excl ignore k tr;
                    if wasSet then Err EUnion
                    else match index_of k (map fst ms) 0 with
                         | Some j =>
                             match nth_error ms j with
                             | Some (_, mt) =>
                                 do rr <- DA false mt x tr1;
                                 let '(v, tr2) := rr in goAuni ms r (set_nth j (Some v) uv) true (pop tr2)
                             | None => Err EType
                             end
                         | None => Err EUnion
                         end)).
    { apply np_bind'; [apply enter_map_np|]. intro tr1.
      apply np_if; [apply np_err|].
      destruct (index_of k (map fst ms) 0) as [j|]; [|apply np_err].
      destruct (nth_error ms j) as [[a mt]|]; [|apply np_err].
      apply np_bind'; [apply DA_np|]. intros [v tr2]. apply IH. }
    destruct x; first [apply IH | exact H].
  Qed.

  Lemma stepA_np : forall top t g tr, np (stepA top t g tr).
  Proof.
    intros top t g tr. unfold AnyProofs.stepA. destruct t as [p|syms|n|n|t'|t'].
    - apply np_bind'; [apply aprim_np|]. intro v. apply np_ok.
    - apply np_bind'; [apply read_string_np|]. intro v. apply np_ok.
    - apply np_bind'; [apply aprim_np|]. intro v. destruct v; try apply np_err. apply np_if; auto with np.
    - destruct (lookup e n) as [[incs fs|nullable ms]|]; [| |apply np_err].
      + apply np_bind'; [apply amap_np|]. intros es.
        apply np_bind'; [apply goArec_np|]. intros [[rv rem] tr1]. apply np_ok.
      + apply np_bind'; [apply amap_np|]. intros es.
        apply np_bind'; [apply goAuni_np|]. intros [[uv wasSet] tr']. apply np_if; auto with np.
    - apply np_bind'; [apply aarr_np|]. intros items. apply goAarr_np.
    - apply np_bind'; [apply amap_np|]. intros es. apply goAmap_np.
  Qed.
End NoPanic.

(* C04 for the untyped reader: no Go value, schema, tracker state, float oracle or implementation-defined conversion result
   makes the decoder panic; no fuel bound *)
Theorem decA_never_panics : forall e wildcard excl ignore parseF unspec fuel top t g tr,
  decA e wildcard excl ignore parseF unspec fuel top t g tr <> Panic.
Proof.
  intros e wildcard excl ignore parseF unspec fuel.
  induction fuel as [|f IH]; intros top t g tr.
  - cbn [decA]. discriminate.
  - rewrite decA_unfold. apply stepA_np. exact IH.
Qed.

Theorem decode_any_never_panics : forall e wildcard excl ignore parseF unspec fuel t g,
  decode_any e wildcard excl ignore parseF unspec fuel t g <> DPanic.
Proof.
  intros e wildcard excl ignore parseF unspec fuel t g. unfold decode_any, finish.
  pose proof (decA_never_panics e wildcard excl ignore parseF unspec fuel true t g tracker0) as H.
  destruct (decA e wildcard excl ignore parseF unspec fuel true t g tracker0) as [[v tr]| |]; try discriminate.
  - destruct (t_missing tr); [discriminate|]. destruct (is_record e t); discriminate.
  - contradiction H. reflexivity.
Qed.

(* ---------------------------------------------------------------------------------------------------------------------------
   C. C06 / C13: the untyped reader over what encoding/json yields agrees with the JSON tree decoder
   --------------------------------------------------------------------------------------------------------------------------- *)
Section Agree.
  Variable e : env.
  Variable parseF : nat -> bytes -> option N.

  (* the types at which the generated UnmarshalField of record n reads the member [key]: the depth-first search through the
     embedded includes, then the own switch (with distinct names, wf_schema, there is at most one) *)
  Fixpoint field_tys (k : nat) (n : nat) (key : bytes) : list ty :=
    match k with
    | 0 => []
    | S k' =>
        match lookup e n with
        | Some (DRecord incs fs) =>
            flat_map (fun i => field_tys k' i key) incs ++
            match index_of key (map f_name fs) 0 with
            | Some j => match nth_error fs j with Some fd => [f_ty fd] | None => [] end
            | None => []
            end
        | _ => []
        end
    end.

  (* an integer where the schema expects one: NOT a string (the untyped reader would ParseInt it, the JSON reader rejects it),
     and a number whose text is a decimal integer of the field's width and of magnitude at most 2^53 (it went through float64) *)
  Definition int_ok (w : Z) (d : jdoc) : Prop :=
    match d with
    | JStr _ => False
    | JNum txt => exists z, parse_dec txt = Some z /\ in_width w z = true /\ (Z.abs z <= 2 ^ 53)%Z
    | _ => True
    end.

  Section UStep.
    Variable U : ty -> jdoc -> Prop.
    Definition ue_members (P : bytes -> jdoc -> Prop) (es : list (bytes * jdoc)) : Prop :=
      NoDup (map fst es) /\ Forall (fun kx => is_null (snd kx) = false -> P (fst kx) (snd kx)) es.
    Definition ue_step (t : ty) (d : jdoc) : Prop :=
      match t with
      | TPrim PInt => int_ok 32 d
      | TPrim PLong => int_ok 64 d
      | TPrim PBool => match d with JStr _ => False | _ => True end      (* the untyped reader would ParseBool it *)
      | TPrim _ | TEnum _ | TFixed _ => True
      (* a JSON null where a container is expected (the document itself or an array item: null members are skipped by
         both readers) is the empty container for the JSON reader and an InvalidTypeError for the untyped reader *)
      | TArray t' => match d with JNull => False | JArr items => Forall (U t') items | _ => True end
      | TMap t' => match d with JNull => False | JObj es => ue_members (fun _ x => U t' x) es | _ => True end
      | TRef n =>
          match lookup e n with
          | Some (DRecord _ _) =>
              match d with
              | JNull => False
              | JObj es => ue_members (fun k x => forall ft, In ft (field_tys (S (length e)) n k) -> U ft x) es
              | _ => True
              end
          | Some (DUnion _ ms) =>
              match d with
              | JNull => False
              | JObj es => ue_members (fun k x => forall j a mt, index_of k (map fst ms) 0 = Some j ->
                                                                 nth_error ms j = Some (a, mt) -> U mt x) es
              | _ => True
              end
          | None => True
          end
      end.
  End UStep.

  (* the documents on which the two readers are claimed to agree (to depth fuel; unknown record fields are unconstrained) *)
  Fixpoint untyped_exact (fuel : nat) (t : ty) (d : jdoc) : Prop :=
    match fuel with 0 => True | S f => ue_step (untyped_exact f) t d end.

  (* ---- the two facts about strconv.ParseFloat the agreement rests on ---- *)
  (* ParseFloat(s, 64) of the decimal text of an integer of magnitude at most 2^53 is that integer, exactly *)
  Definition parseF_int_exact : Prop :=
    forall txt z, parse_dec txt = Some z -> (Z.abs z <= 2 ^ 53)%Z ->
      exists b, parseF 0 txt = Some b /\ f64_trunc b = Some z.
  (* mode 2 of the oracle is, by definition (Decode.v), float32(ParseFloat(s, 64)): the float32-via-float64 path *)
  Definition parseF_f32_via_f64 : Prop :=
    forall txt, parseF 2 txt = option_map f64_to_f32 (parseF 0 txt).

  Hypothesis Hint : parseF_int_exact.
  Hypothesis Hf32 : parseF_f32_via_f64.

  Variable wildcard : bytes.
  Variable excl : pathspec.
  Variable ignore : nat.
  Variable unspec : Z -> N -> Z.
  Notation of_jdoc := (of_jdoc parseF).
  Notation aprim := (aprim parseF unspec).
  Notation jprim := (jprim parseF).

  Lemma of_jdoc_nil : forall x, of_jdoc x = GNil -> x = JNull.
  Proof. intros x H. destruct x; cbn in H; try discriminate; [reflexivity|]. destruct (parseF 0 text); discriminate. Qed.

  Lemma int_agree : forall w lo hi txt z,
    (lo = - 2 ^ (w - 1))%Z -> (hi = 2 ^ (w - 1) - 1)%Z ->
    parse_dec txt = Some z -> in_width w z = true -> (Z.abs z <= 2 ^ 53)%Z ->
    read_int unspec w (of_jdoc (JNum txt)) = match parse_int lo hi txt with Some z => Ok z | None => Err EDeser end.
  Proof.
    intros w lo hi txt z Hlo Hhi Hp Hw Hz. destruct (Hint txt z Hp Hz) as [b [Hb Ht]].
    cbn [AnyReader.of_jdoc]. rewrite Hb. cbn. unfold float_to_int. rewrite Ht, Hw.
    unfold parse_int. rewrite Hp. unfold in_width in Hw. apply andb_true_iff in Hw as [H1 H2].
    apply Z.leb_le in H1. apply Z.ltb_lt in H2.
    destruct (Z.leb_spec lo z); destruct (Z.leb_spec z hi); try lia. reflexivity.
  Qed.

  Lemma aprim_agree : forall p d,
    ue_step (fun _ _ => True) (TPrim p) d -> aprim p (of_jdoc d) = jprim p d.
  Proof.
    intros p d H. destruct d as [|b|txt|s|items|es].
    - destruct p; reflexivity.
    - destruct p; reflexivity.
    - destruct p.
      + cbn in H. destruct H as [z [Hp [Hw Hz]]]. unfold AnyReader.aprim.
        rewrite (int_agree 32 (-2147483648) 2147483647 txt z eq_refl eq_refl Hp Hw Hz).
        cbn. unfold parse_i32. destruct (parse_int (-2147483648) 2147483647 txt); reflexivity.
      + cbn in H. destruct H as [z [Hp [Hw Hz]]]. unfold AnyReader.aprim.
        rewrite (int_agree 64 (-9223372036854775808) 9223372036854775807 txt z eq_refl eq_refl Hp Hw Hz).
        cbn. unfold parse_i64. destruct (parse_int (-9223372036854775808) 9223372036854775807 txt); reflexivity.
      + cbn. rewrite Hf32. destruct (parseF 0 txt); reflexivity.
      + cbn. destruct (parseF 0 txt); reflexivity.
      + cbn. destruct (parseF 0 txt); reflexivity.
      + cbn. destruct (parseF 0 txt); reflexivity.
      + cbn. destruct (parseF 0 txt); reflexivity.
    - destruct p; try contradiction.
      + cbn. rewrite Hf32. destruct (parseF 0 s); reflexivity.
      + cbn. destruct (parseF 0 s); reflexivity.
      + reflexivity.
      + unfold AnyReader.aprim, read_bytes, Decode.jprim. cbn [AnyReader.of_jdoc aval bind].
        destruct (latin1_decode (S (length s)) s); reflexivity.
    - destruct p; reflexivity.
    - destruct p; reflexivity.
  Qed.

  Lemma read_string_agree : forall d, read_string (of_jdoc d) = jstring d.
  Proof. intros d. destruct d; try reflexivity. cbn. destruct (parseF 0 text); reflexivity. Qed.

  Section StepAgree.
    Variable DJ : bool -> ty -> jdoc -> tracker -> res (value * tracker).
    Variable DA : bool -> ty -> gval -> tracker -> res (value * tracker).
    Variable U : ty -> jdoc -> Prop.
    (* only the children ([top = false]): the default literals go through DJ true on both sides *)
    Hypothesis HD : forall t x tr, U t x -> DA false t (of_jdoc x) tr = DJ false t x tr.

    Notation ofp := (fun kx : bytes * jdoc => match kx with (k, x) => (k, of_jdoc x) end).

    Lemma umf_agree : forall k n key x rv tr,
      (forall ft, In ft (field_tys k n key) -> U ft x) ->
      umfA e DA k n key (of_jdoc x) rv tr = umfJ e DJ k n key x rv tr.
    Proof.
      induction k as [|k IH]; intros n key x rv tr HU; [reflexivity|].
      cbn [umfA umfJ]. cbn [field_tys] in HU.
      destruct (lookup e n) as [[incs fs|nullable ms]|]; try reflexivity.
      destruct rv; try reflexivity.
      assert (Hincs : forall vs pos,
        (fix try_incs (is : list nat) (vs : list value) (pos : nat) : res (option (nat * value * tracker)) :=
           match is, vs with
           | i :: is', iv :: vs' =>
               do r <- umfA e DA k i key (of_jdoc x) iv tr;
               let '(found, iv', tr') := r in
               if found then Ok (Some (pos, iv', tr')) else try_incs is' vs' (S pos)
           | _, _ => Ok None
           end) incs vs pos =
        (fix try_incs (is : list nat) (vs : list value) (pos : nat) : res (option (nat * value * tracker)) :=
           match is, vs with
           | i :: is', iv :: vs' =>
               do r <- umfJ e DJ k i key x iv tr;
               let '(found, iv', tr') := r in
               if found then Ok (Some (pos, iv', tr')) else try_incs is' vs' (S pos)
           | _, _ => Ok None
           end) incs vs pos).
      { assert (HUi : forall i, In i incs -> forall ft, In ft (field_tys k i key) -> U ft x).
        { intros i Hi ft Hft. apply HU. apply in_or_app. left. apply in_flat_map. exists i. split; assumption. }
        clear HU. induction incs as [|i is IHis]; intros vs pos; [reflexivity|].
        destruct vs as [|iv vs]; [reflexivity|].
        rewrite (IH i key x iv tr (HUi i (or_introl eq_refl))).
        destruct (umfJ e DJ k i key x iv tr) as [[[found iv'] tr']| |]; cbn [bind]; try reflexivity.
        destruct found; [reflexivity|]. apply IHis. intros i' Hi'. apply HUi. right. exact Hi'. }
      rewrite Hincs. clear Hincs.
      match goal with |- bind ?r _ = bind ?r _ => destruct r as [[[[pos iv'] tr']|]| |]; cbn [bind]; try reflexivity end.
      destruct (index_of key (map f_name fs) 0) as [j|] eqn:Ej; [|reflexivity].
      destruct (nth_error fs j) as [fd|] eqn:Efd; [|reflexivity].
      rewrite HD; [reflexivity|]. apply HU. apply in_or_app. right. left. reflexivity.
    Qed.

    Lemma goarr_agree : forall t' l i acc tr, Forall (U t') l ->
      goAarr DA t' (map of_jdoc l) i acc tr = goJarr DJ t' l i acc tr.
    Proof.
      intros t'. induction l as [|x r IH]; intros i acc tr Hl; [reflexivity|].
      inversion Hl as [|? ? Hx Hr]; subst. cbn [map goAarr goJarr]. rewrite (HD t' x _ Hx).
      destruct (DJ false t' x (enter_array i tr)) as [[v tr']| |]; cbn [bind]; try reflexivity. apply IH. exact Hr.
    Qed.

    Lemma gomap_agree : forall t' l acc tr,
      Forall (fun kx => is_null (snd kx) = false -> U t' (snd kx)) l ->
      goAmap wildcard excl ignore DA t' (map ofp l) acc tr = goJmap wildcard excl ignore DJ t' l acc tr.
    Proof.
      intros t'. induction l as [|[k x] r IH]; intros acc tr Hl; [reflexivity|].
      inversion Hl as [|? ? Hx Hr]; subst. cbn [snd] in Hx. cbn [map goAmap goJmap].
      destruct x as [|b|txt|s|items|es]; cbn [AnyReader.of_jdoc].
      - apply IH. exact Hr.
      - change (GBool b) with (of_jdoc (JBool b)). destruct (enter_map wildcard excl ignore k tr); cbn [bind]; try reflexivity.
        rewrite (HD t' (JBool b) _ (Hx eq_refl)).
        destruct (DJ false t' (JBool b) a) as [[v tr2]| |]; cbn [bind]; try reflexivity. apply IH. exact Hr.
      - pose proof (HD t' (JNum txt)) as HDx. cbn [AnyReader.of_jdoc] in HDx.
        destruct (enter_map wildcard excl ignore k tr); destruct (parseF 0 txt); cbn [bind]; try reflexivity;
          rewrite (HDx _ (Hx eq_refl));
          (destruct (DJ false t' (JNum txt) a) as [[v tr2]| |]; cbn [bind]; try reflexivity; apply IH; exact Hr).
      - change (GStr s) with (of_jdoc (JStr s)). destruct (enter_map wildcard excl ignore k tr); cbn [bind]; try reflexivity.
        rewrite (HD t' (JStr s) _ (Hx eq_refl)).
        destruct (DJ false t' (JStr s) a) as [[v tr2]| |]; cbn [bind]; try reflexivity. apply IH. exact Hr.
      - change (GArr (map of_jdoc items)) with (of_jdoc (JArr items)).
        destruct (enter_map wildcard excl ignore k tr); cbn [bind]; try reflexivity.
        rewrite (HD t' (JArr items) _ (Hx eq_refl)).
        destruct (DJ false t' (JArr items) a) as [[v tr2]| |]; cbn [bind]; try reflexivity. apply IH. exact Hr.
      - change (GMap (map ofp es)) with (of_jdoc (JObj es)).
        destruct (enter_map wildcard excl ignore k tr); cbn [bind]; try reflexivity.
        rewrite (HD t' (JObj es) _ (Hx eq_refl)).
        destruct (DJ false t' (JObj es) a) as [[v tr2]| |]; cbn [bind]; try reflexivity. apply IH. exact Hr.
    Qed.

    Lemma gnil_match {A} (x : jdoc) (a b : A) :
      is_null x = false -> match of_jdoc x with GNil => a | _ => b end = b.
    Proof. intros H. destruct x; try reflexivity; try discriminate. cbn. destruct (parseF 0 text); reflexivity. Qed.
    Lemma jnull_match {A} (x : jdoc) (a b : A) :
      is_null x = false -> match x with JNull => a | _ => b end = b.
    Proof. intros H. destruct x; try reflexivity; discriminate. Qed.

    Lemma gorec_agree : forall n l rv rem tr,
      Forall (fun kx => is_null (snd kx) = false ->
                        forall ft, In ft (field_tys (S (length e)) n (fst kx)) -> U ft (snd kx)) l ->
      goArec e wildcard excl ignore DA n (map ofp l) rv rem tr = goJrec e wildcard excl ignore DJ n l rv rem tr.
    Proof.
      intros n. induction l as [|[k x] r IH]; intros rv rem tr Hl; [reflexivity|].
      inversion Hl as [|? ? Hx Hr]; subst. cbn [snd fst] in Hx. cbn [map goArec goJrec].
      destruct (is_null x) eqn:En.
      - destruct x; try discriminate. cbn [AnyReader.of_jdoc]. apply IH. exact Hr.
      - rewrite (gnil_match x _ _ En), (jnull_match x _ _ En).
        destruct (enter_map wildcard excl ignore k tr) as [tr1| |]; cbn [bind]; try reflexivity.
        rewrite (umf_agree (S (length e)) n k x rv tr1 (Hx eq_refl)).
        destruct (umfJ e DJ (S (length e)) n k x rv tr1) as [[[found rv'] tr2]| |]; cbn [bind]; try reflexivity.
        apply IH. exact Hr.
    Qed.

    Lemma gouni_agree : forall ms l uv wasSet tr,
      Forall (fun kx => is_null (snd kx) = false ->
                        forall j a mt, index_of (fst kx) (map fst ms) 0 = Some j -> nth_error ms j = Some (a, mt) ->
                                       U mt (snd kx)) l ->
      goAuni wildcard excl ignore DA ms (map ofp l) uv wasSet tr = goJuni wildcard excl ignore DJ ms l uv wasSet tr.
    Proof.
      intros ms. induction l as [|[k x] r IH]; intros uv wasSet tr Hl; [reflexivity|].
      inversion Hl as [|? ? Hx Hr]; subst. cbn [snd fst] in Hx. cbn [map goAuni goJuni].
      destruct (is_null x) eqn:En.
      - destruct x; try discriminate. cbn [AnyReader.of_jdoc]. apply IH. exact Hr.
      - rewrite (gnil_match x _ _ En), (jnull_match x _ _ En).
        destruct (enter_map wildcard excl ignore k tr) as [tr1| |]; cbn [bind]; try reflexivity.
        destruct wasSet; [reflexivity|].
        destruct (index_of k (map fst ms) 0) as [j|] eqn:Ej; [|reflexivity].
        destruct (nth_error ms j) as [[a mt]|] eqn:Em; [|reflexivity].
        rewrite (HD mt x tr1 (Hx eq_refl j a mt eq_refl Em)).
        destruct (DJ false mt x tr1) as [[v tr2]| |]; cbn [bind]; try reflexivity.
        apply IH. exact Hr.
    Qed.

    Lemma amap_of_obj : forall es, amap (of_jdoc (JObj es)) = Ok (map ofp es).
    Proof. reflexivity. Qed.

    (* what the untyped reader answers where a container is expected and the document holds something else (not null) *)
    Lemma amap_not_obj : forall d, is_null d = false -> (forall es, d <> JObj es) -> amap (of_jdoc d) = Err EDeser.
    Proof.
      intros d Hn Ho. destruct d; try reflexivity; try discriminate.
      - cbn. destruct (parseF 0 text); reflexivity.
      - contradiction (Ho entries). reflexivity.
    Qed.

    Lemma stepA_agree : forall top t d tr,
      ue_step U t d ->
      stepA e wildcard excl ignore parseF unspec DJ DA top t (of_jdoc d) tr = stepJ e wildcard excl ignore parseF DJ top t d tr.
    Proof.
      intros top t d tr H. unfold stepA, stepJ. destruct t as [p|syms|n|n|t'|t'].
      - rewrite (aprim_agree p d); [reflexivity|]. destruct p; exact H.
      - rewrite read_string_agree. reflexivity.
      - rewrite (aprim_agree PBytes d); [reflexivity|exact I].
      - cbn [ue_step] in H. destruct (lookup e n) as [[incs fs|nullable ms]|]; [| |reflexivity].
        + destruct d as [|b|txt|s|items|es]; try contradiction; try reflexivity.
          * cbn. destruct (parseF 0 txt); reflexivity.
          * rewrite amap_of_obj. cbn [bind]. destruct H as [_ H]. rewrite (gorec_agree n es _ _ tr H). reflexivity.
        + destruct d as [|b|txt|s|items|es]; try contradiction; try reflexivity.
          * cbn. destruct (parseF 0 txt); reflexivity.
          * rewrite amap_of_obj. cbn [bind]. destruct H as [_ H]. rewrite (gouni_agree ms es _ _ tr H). reflexivity.
      - cbn [ue_step] in H. destruct d as [|b|txt|s|items|es]; try contradiction; try reflexivity.
        + cbn. destruct (parseF 0 txt); reflexivity.
        + cbn [AnyReader.of_jdoc]. cbn [aarr aval bind]. apply goarr_agree. exact H.
      - cbn [ue_step] in H. destruct d as [|b|txt|s|items|es]; try contradiction; try reflexivity.
        + cbn. destruct (parseF 0 txt); reflexivity.
        + rewrite amap_of_obj. cbn [bind]. destruct H as [_ H]. apply gomap_agree. exact H.
    Qed.
  End StepAgree.

  (* THE AGREEMENT: same result - value, scope, recorded missing paths in the same order, or the same error - for every fuel,
     tracker state, scope, exclusion set and implementation-defined conversion result *)
  Theorem readers_agree : forall fuel top t d tr,
    untyped_exact fuel t d ->
    decA e wildcard excl ignore parseF unspec fuel top t (of_jdoc d) tr = decJ e wildcard excl ignore parseF fuel top t d tr.
  Proof.
    induction fuel as [|f IH]; intros top t d tr H; [reflexivity|].
    rewrite decA_unfold, decJ_unfold. apply (stepA_agree _ _ (untyped_exact f)); [|exact H].
    intros t0 x tr0 Hx. rewrite djmix_false. apply IH. exact Hx.
  Qed.

  Corollary decode_any_agrees : forall fuel t d,
    untyped_exact fuel t d ->
    decode_any e wildcard excl ignore parseF unspec fuel t (of_jdoc d)
    = finish (is_record e t) (decJ e wildcard excl ignore parseF fuel true t d tracker0).
  Proof. intros fuel t d H. unfold decode_any. rewrite (readers_agree fuel true t d tracker0 H). reflexivity. Qed.
End Agree.

(* ---------------------------------------------------------------------------------------------------------------------------
   D. what transfers from the JSON tree decoder (excl = ps_empty, as in MissingProofs / DefaultsProofs)
   --------------------------------------------------------------------------------------------------------------------------- *)
Section Transfer.
  Variable e : env.
  Variables (wildcard : bytes) (ignore : nat).
  Variable parseF : nat -> bytes -> option N.
  Variable unspec : Z -> N -> Z.
  Hypothesis Hwf : wf_schema e.
  Hypothesis Hint : parseF_int_exact parseF.
  Hypothesis Hf32 : parseF_f32_via_f64 parseF.

  Notation decA := (decA e wildcard ps_empty ignore parseF unspec).
  Notation of_jdoc := (of_jdoc parseF).
  Notation well_shaped := (well_shaped e parseF).
  Notation untyped_exact := (untyped_exact e).

  (* value and recorded paths, exactly, at any depth and under any scope *)
  Theorem any_decA_exact : forall fuel top t d tr,
    well_shaped fuel t d -> untyped_exact fuel t d ->
    t_scope tr <> [SKey []] -> (t_scope tr = [] -> keys_nonempty (entries_of d)) ->
    exists tr',
      decA fuel top t (of_jdoc d) tr
      = Ok (decode_spec e wildcard ignore parseF fuel (raises e fuel top t d tr) t d, tr') /\
      t_scope tr' = t_scope tr /\
      Permutation (t_missing tr') (t_missing tr ++ missing_spec e fuel t d (t_scope tr)).
  Proof.
    intros fuel top t d tr Hws Hue Hsc Hke.
    rewrite (readers_agree e parseF Hint Hf32 wildcard ps_empty ignore unspec fuel top t d tr Hue).
    exact (decJ_exact e wildcard ignore parseF Hwf fuel top t d tr Hws Hsc Hke).
  Qed.

  (* a record handed to NewInterfaceReader: exactly the specified paths, sorted, in one error, with the partial value *)
  Theorem any_missing_exact : forall fuel t jd,
    is_record e t = true -> keys_nonempty (entries_of jd) -> well_shaped fuel t jd -> untyped_exact fuel t jd ->
    decode_any e wildcard ps_empty ignore parseF unspec fuel t (of_jdoc jd) =
    match missing_spec e fuel t jd [] with
    | [] => DOk (decode_spec e wildcard ignore parseF fuel false t jd)
    | ms => DMissing (sort_bytes ms) (decode_spec e wildcard ignore parseF fuel true t jd)
    end.
  Proof.
    intros fuel t jd Hrec Hke Hws Hue. unfold decode_any. rewrite Hrec.
    destruct (any_decA_exact fuel true t jd tracker0 Hws Hue) as [tr' [H1 [H2 H3]]]; [discriminate|intros _; exact Hke|].
    rewrite H1. unfold raises. simpl t_missing in *. simpl t_scope in *. simpl app in *. unfold finish.
    destruct (missing_spec e fuel t jd []) as [|m ms] eqn:Em.
    - apply Permutation_sym, Permutation_nil in H3. rewrite H3. reflexivity.
    - destruct (t_missing tr') as [|m' ms'] eqn:Et; [apply Permutation_nil in H3; discriminate|].
      rewrite (sort_bytes_perm_invariant _ _ H3). reflexivity.
  Qed.

  (* order independence and unknown fields: the result is a function of the KNOWN CONTENT (MissingProofs.sim: permuted
     objects, extra unknown record fields of any shape) *)
  Theorem any_same_content_same_result : forall fuel top t d1 d2 tr,
    well_shaped fuel t d1 -> sim e fuel t d1 d2 -> untyped_exact fuel t d1 -> untyped_exact fuel t d2 ->
    t_scope tr <> [SKey []] ->
    (t_scope tr = [] -> keys_nonempty (entries_of d1)) -> (t_scope tr = [] -> keys_nonempty (entries_of d2)) ->
    exists v tr1 tr2,
      decA fuel top t (of_jdoc d1) tr = Ok (v, tr1) /\ decA fuel top t (of_jdoc d2) tr = Ok (v, tr2) /\
      t_scope tr1 = t_scope tr2 /\ Permutation (t_missing tr1) (t_missing tr2) /\
      sort_bytes (t_missing tr1) = sort_bytes (t_missing tr2).
  Proof.
    intros fuel top t d1 d2 tr Hws Hs Hu1 Hu2 Hsc Hk1 Hk2.
    rewrite (readers_agree e parseF Hint Hf32 wildcard ps_empty ignore unspec fuel top t d1 tr Hu1).
    rewrite (readers_agree e parseF Hint Hf32 wildcard ps_empty ignore unspec fuel top t d2 tr Hu2).
    exact (same_content_same_result e wildcard ignore parseF Hwf fuel top t d1 d2 tr Hws Hs Hsc Hk1 Hk2).
  Qed.

  (* C13: every own slot of a record decoded without raising holds the present value or the schema's default literal *)
  Theorem any_fills_own_defaults : forall n incs fs, lookup e n = Some (DRecord incs fs) ->
    forall f top d tr v tr',
      well_shaped (S f) (TRef n) d -> untyped_exact (S f) (TRef n) d ->
      t_scope tr <> [SKey []] -> (t_scope tr = [] -> keys_nonempty (entries_of d)) ->
      decA (S f) top (TRef n) (of_jdoc d) tr = Ok (v, tr') ->
      top = false \/ t_missing tr' = [] ->
      exists ivs fvs, v = VRec ivs fvs /\ length fvs = length fs /\
        forall j fd, nth_error fs j = Some fd ->
          nth_error fvs j = Some (own_slot_spec e wildcard ignore parseF f true (entries_of d) fd).
  Proof.
    intros n incs fs Hn f top d tr v tr' Hws Hue Hsc Hke Hd Hnr.
    rewrite (readers_agree e parseF Hint Hf32 wildcard ps_empty ignore unspec (S f) top (TRef n) d tr Hue) in Hd.
    exact (decode_fills_own_defaults e wildcard ignore parseF Hwf n incs fs Hn f top d tr v tr' Hws Hsc Hke Hd Hnr).
  Qed.
End Transfer.

(* ---------------------------------------------------------------------------------------------------------------------------
   E. the limits of the agreement, with witnesses
   --------------------------------------------------------------------------------------------------------------------------- *)
(* a float oracle that rounds integer texts correctly (ties to even), as strconv does *)
Definition any_pf : nat -> bytes -> option N :=
  fun mode t =>
    match mode with
    | 0 => option_map f64_of_Z (parse_dec t)
    | 2 => option_map (fun z => f64_to_f32 (f64_of_Z z)) (parse_dec t)
    | _ => None
    end.

Lemma any_pf_f32 : parseF_f32_via_f64 any_pf.
Proof. intros txt. unfold any_pf. destruct (parse_dec txt); reflexivity. Qed.

(* the 2^53 bound is necessary: a long beyond it does not survive encoding/json's float64 *)
Definition long_agreement_full : Prop :=
  forall parseF unspec txt z,
    parse_dec txt = Some z -> in_width 64 z = true -> parseF 0 txt = Some (f64_of_Z z) ->
    decA [] [] ps_empty 0 parseF unspec 1 true (TPrim PLong) (of_jdoc parseF (JNum txt)) tracker0
    = decJ [] [] ps_empty 0 parseF 1 true (TPrim PLong) (JNum txt) tracker0.

Definition txt_2p53_1 : bytes := [x39;x30;x30;x37;x31;x39;x39;x32;x35;x34;x37;x34;x30;x39;x39;x33].  (* 9007199254740993 *)

Lemma precision_witness :
  decA [] [] ps_empty 0 any_pf (fun _ _ => 0%Z) 1 true (TPrim PLong) (of_jdoc any_pf (JNum txt_2p53_1)) tracker0
    = Ok (VLong 9007199254740992, tracker0)
  /\ decJ [] [] ps_empty 0 any_pf 1 true (TPrim PLong) (JNum txt_2p53_1) tracker0 = Ok (VLong 9007199254740993, tracker0).
Proof. split; vm_compute; reflexivity. Qed.

Theorem long_agreement_full_refuted : ~ long_agreement_full.
Proof.
  intros H.
  assert (H1 : parse_dec txt_2p53_1 = Some 9007199254740993%Z) by (vm_compute; reflexivity).
  assert (H2 : in_width 64 9007199254740993%Z = true) by (vm_compute; reflexivity).
  assert (H3 : any_pf 0 txt_2p53_1 = Some (f64_of_Z 9007199254740993%Z)) by (vm_compute; reflexivity).
  specialize (H any_pf (fun _ _ => 0%Z) txt_2p53_1 9007199254740993%Z H1 H2 H3).
  destruct precision_witness as [A B]. rewrite A, B in H. injection H as E. discriminate E.
Qed.

(* the other excluded cases are genuine differences between the two readers *)
Lemma reader_differences :
  (* a JSON null array item / document: the empty record for the JSON reader, InvalidTypeError for the untyped reader *)
  (decJ c06_env c06_star ps_empty 0 any_pf 8 false (TArray (TRef 0)) (JArr [JNull]) tracker0
     = Ok (VArr [VRec [] [Some (VInt 0); None; Some (VInt 7)]], {| t_scope := []; t_missing := [[x5b;x30;x5d;x2e;x61]] |})
   /\ decA c06_env c06_star ps_empty 0 any_pf (fun _ _ => 0%Z) 8 false (TArray (TRef 0)) (of_jdoc any_pf (JArr [JNull])) tracker0
     = Err EDeser)
  (* a string where an integer / a boolean is expected: rejected by the JSON reader, parsed by the untyped reader *)
  /\ (decJ [] [] ps_empty 0 any_pf 1 true (TPrim PInt) (JStr [x31; x32]) tracker0 = Err EDeser
      /\ decA [] [] ps_empty 0 any_pf (fun _ _ => 0%Z) 1 true (TPrim PInt) (of_jdoc any_pf (JStr [x31; x32])) tracker0
         = Ok (VInt 12, tracker0))
  /\ (decJ [] [] ps_empty 0 any_pf 1 true (TPrim PBool) (JStr [x74]) tracker0 = Err EDeser
      /\ decA [] [] ps_empty 0 any_pf (fun _ _ => 0%Z) 1 true (TPrim PBool) (of_jdoc any_pf (JStr [x74])) tracker0
         = Ok (VBool true, tracker0))
  (* an integer that does not fit the field: rejected by the JSON reader, converted (implementation-defined) by the untyped one *)
  /\ (decJ [] [] ps_empty 0 any_pf 1 true (TPrim PInt) (JNum [x34;x32;x39;x34;x39;x36;x37;x32;x39;x37]) tracker0 = Err EDeser
      /\ decA [] [] ps_empty 0 any_pf (fun _ _ => 77%Z) 1 true (TPrim PInt)
           (of_jdoc any_pf (JNum [x34;x32;x39;x34;x39;x36;x37;x32;x39;x37])) tracker0 = Ok (VInt 77, tracker0)).
Proof. repeat split; vm_compute; reflexivity. Qed.

(* ---------------------------------------------------------------------------------------------------------------------------
   F. the premise parseF_int_exact is what correct rounding gives: float64(z) for |z| <= 2^53 is exact
   --------------------------------------------------------------------------------------------------------------------------- *)
Section F64Exact.
Local Open Scope Z_scope.
(* the fields of a pattern assembled from sign, exponent field and mantissa field *)
Lemma f64_fields (s : bool) (ex mf : Z) :
  0 <= ex < 2048 -> 0 <= mf < 2 ^ 52 ->
  let b := N.add (if s then (2 ^ 63)%N else 0%N) (Z.to_N (ex * 2 ^ 52 + mf)) in
  f64_exp b = Z.to_N ex /\ f64_man b = Z.to_N mf /\ f64_neg b = s.
Proof.
  intros Hex Hmf b.
  assert (Hb : Z.of_N b = (if s then 2 ^ 63 else 0) + ex * 2 ^ 52 + mf).
  { unfold b. rewrite N2Z.inj_add, Z2N.id by nia. destruct s.
    - change (Z.of_N (2 ^ 63)) with (2 ^ 63). ring.
    - change (Z.of_N 0) with 0. ring. }
  assert (E1 : Z.of_N (f64_exp b) = ex).
  { unfold f64_exp. rewrite N2Z.inj_mod, N2Z.inj_div, Hb. change (Z.of_N (2 ^ 52)) with (2 ^ 52). change (Z.of_N 2048) with 2048.
    replace ((if s then 2 ^ 63 else 0) + ex * 2 ^ 52 + mf) with (((if s then 2048 else 0) + ex) * 2 ^ 52 + mf)
      by (destruct s; change (2 ^ 63) with (2048 * 2 ^ 52); ring).
    rewrite Z.div_add_l by (vm_compute; discriminate). rewrite (Z.div_small mf) by lia. rewrite Z.add_0_r.
    destruct s.
    - replace (2048 + ex) with (ex + 1 * 2048) by ring. rewrite Z.mod_add by lia. apply Z.mod_small. lia.
    - apply Z.mod_small. lia. }
  assert (E2 : Z.of_N (f64_man b) = mf).
  { unfold f64_man. rewrite N2Z.inj_mod, Hb. change (Z.of_N (2 ^ 52)) with (2 ^ 52).
    replace ((if s then 2 ^ 63 else 0) + ex * 2 ^ 52 + mf) with (mf + ((if s then 2048 else 0) + ex) * 2 ^ 52)
      by (destruct s; change (2 ^ 63) with (2048 * 2 ^ 52); ring).
    rewrite Z.mod_add by (vm_compute; discriminate). apply Z.mod_small. lia. }
  split; [|split].
  - apply N2Z.inj. rewrite E1, Z2N.id; lia.
  - apply N2Z.inj. rewrite E2, Z2N.id; lia.
  - unfold f64_neg. apply eq_true_iff_eq. rewrite N.testbit_true.
    assert (Hd : Z.of_N (b / 2 ^ 63) = if s then 1 else 0).
    { rewrite N2Z.inj_div, Hb. change (Z.of_N (2 ^ 63)) with (2 ^ 63).
      assert (0 <= ex * 2 ^ 52 + mf < 2 ^ 63) by (change (2 ^ 63) with (2048 * 2 ^ 52); nia).
      destruct s.
      - replace (2 ^ 63 + ex * 2 ^ 52 + mf) with ((ex * 2 ^ 52 + mf) + 1 * 2 ^ 63) by ring.
        rewrite Z.div_add by (vm_compute; discriminate). rewrite Z.div_small; lia.
      - apply Z.div_small. lia. }
    destruct s.
    + replace (b / 2 ^ 63)%N with 1%N by (apply N2Z.inj; rewrite Hd; reflexivity). split; reflexivity.
    + replace (b / 2 ^ 63)%N with 0%N by (apply N2Z.inj; rewrite Hd; reflexivity). split; intro H; discriminate H.
Qed.

Lemma log2_N_Z (p : positive) : Z.of_N (N.log2 (N.pos p)) = Z.log2 (Z.pos p).
Proof.
  symmetry. apply Z.log2_unique; [apply N2Z.is_nonneg|].
  destruct (N.log2_spec (N.pos p)) as [L U]; [reflexivity|].
  apply N2Z.inj_le in L. apply N2Z.inj_lt in U. rewrite N2Z.inj_pow in L, U. rewrite N2Z.inj_succ in U.
  change (Z.of_N 2) with 2 in *. change (Z.of_N (N.pos p)) with (Z.pos p) in *. split; assumption.
Qed.

Lemma rne52_small (neg : bool) (p : positive) :
  Z.pos p < 2 ^ 53 ->
  let n := Z.log2 (Z.pos p) in
  rne_encode 52 11 neg (Npos p) 0
  = N.add (if neg then (2 ^ 63)%N else 0%N) (Z.to_N ((n + 1023) * 2 ^ 52 + (Z.pos p * 2 ^ (52 - n) - 2 ^ 52))).
Proof.
  intros Hp n. unfold rne_encode.
  change (N.pos p =? 0)%N with false. cbv iota zeta.
  change (52 + 11)%N with 63%N. change (Z.of_N 52) with 52. change (Z.of_N 11) with 11.
  change (2 ^ (11 - 1) - 1) with 1023. change (1 - 1023) with (-1022).
  rewrite log2_N_Z. fold n.
  assert (Hn : 0 <= n < 53).
  { split; [apply Z.log2_nonneg|]. apply Z.log2_lt_pow2; lia. }
  rewrite Z.add_0_r. rewrite Z.max_l by lia. rewrite Z.sub_0_r.
  destruct (Z.leb_spec (n - 52) 0) as [_|H]; [|lia].
  replace (- (n - 52)) with (52 - n) by ring.
  assert (Hm : 2 ^ 52 <= Z.pos p * 2 ^ (52 - n) < 2 ^ 53).
  { pose proof (Z.log2_spec (Z.pos p) (Pos2Z.pos_is_pos p)) as [L U]. fold n in L, U.
    assert (E52 : 2 ^ 52 = 2 ^ n * 2 ^ (52 - n)) by (rewrite <- Z.pow_add_r by lia; f_equal; lia).
    assert (E53 : 2 ^ 53 = 2 ^ Z.succ n * 2 ^ (52 - n)) by (rewrite <- Z.pow_add_r by lia; f_equal; lia).
    assert (P : 0 < 2 ^ (52 - n)) by (apply Z.pow_pos_nonneg; lia).
    rewrite E52, E53. split; nia. }
  f_equal. f_equal. change (Z.of_N (N.pos p)) with (Z.pos p).
  destruct (Z.leb_spec ((2 ^ 11 - 1) * 2 ^ 52) ((n + 1023 - 1) * 2 ^ 52 + Z.pos p * 2 ^ (52 - n))) as [H|H].
  - exfalso. change ((2 ^ 11 - 1) * 2 ^ 52) with (2047 * 2 ^ 52) in H. change (2 ^ 53) with (2 * 2 ^ 52) in Hm.
    assert (0 < 2 ^ 52) by (vm_compute; reflexivity). nia.
  - ring.
Qed.

Theorem f64_of_Z_exact : forall z, Z.abs z <= 2 ^ 53 -> f64_trunc (f64_of_Z z) = Some z.
Proof.
  intros z Hz.
  destruct (Z.eq_dec (Z.abs z) (2 ^ 53)) as [E|NE].
  { destruct z as [|p|p]; try discriminate; simpl Z.abs in E; injection E as ->; vm_compute; reflexivity. }
  assert (Hlt : Z.abs z < 2 ^ 53) by lia. clear Hz NE.
  destruct z as [|p|p]; [vm_compute; reflexivity| |].
  - unfold f64_of_Z. change (Z.pos p <? 0) with false. change (Z.abs_N (Z.pos p)) with (N.pos p).
    simpl Z.abs in Hlt. rewrite (rne52_small false p Hlt).
    set (n := Z.log2 (Z.pos p)).
    assert (Hn : 0 <= n < 53) by (split; [apply Z.log2_nonneg|apply Z.log2_lt_pow2; lia]).
    pose proof (Z.log2_spec (Z.pos p) (Pos2Z.pos_is_pos p)) as [L U]. fold n in L, U.
    assert (E52 : 2 ^ 52 = 2 ^ n * 2 ^ (52 - n)) by (rewrite <- Z.pow_add_r by lia; f_equal; lia).
    assert (E53 : 2 ^ 53 = 2 ^ Z.succ n * 2 ^ (52 - n)) by (rewrite <- Z.pow_add_r by lia; f_equal; lia).
    assert (P : 0 < 2 ^ (52 - n)) by (apply Z.pow_pos_nonneg; lia).
    assert (Hm : 2 ^ 52 <= Z.pos p * 2 ^ (52 - n) < 2 ^ 53) by (rewrite E52, E53; split; nia).
    destruct (f64_fields false (n + 1023) (Z.pos p * 2 ^ (52 - n) - 2 ^ 52)) as [F1 [F2 F3]]; [lia|change (2^53) with (2 * 2^52) in Hm; lia|].
    unfold f64_trunc. rewrite F1, F2, F3.
    destruct (N.eqb_spec (Z.to_N (n + 1023)) 2047) as [A|_]; [apply (f_equal Z.of_N) in A; rewrite Z2N.id in A by lia; simpl in A; lia|].
    destruct (N.eqb_spec (Z.to_N (n + 1023)) 0) as [A|_]; [apply (f_equal Z.of_N) in A; rewrite Z2N.id in A by lia; simpl in A; lia|].
    rewrite !Z2N.id by lia. f_equal.
    replace (2 ^ 52 + (Z.pos p * 2 ^ (52 - n) - 2 ^ 52)) with (Z.pos p * 2 ^ (52 - n)) by ring.
    replace (n + 1023 - 1075) with (n - 52) by ring.
    destruct (Z.leb_spec 0 (n - 52)) as [H|H].
    + assert (n = 52) by lia. subst n. replace (52 - 52) with 0 in * by ring. rewrite H0. change (52 - 52) with 0. simpl. lia.
    + replace (- (n - 52)) with (52 - n) by ring. apply Z.div_mul. lia.
  - unfold f64_of_Z. change (Z.neg p <? 0) with true. change (Z.abs_N (Z.neg p)) with (N.pos p).
    simpl Z.abs in Hlt. rewrite (rne52_small true p Hlt).
    set (n := Z.log2 (Z.pos p)).
    assert (Hn : 0 <= n < 53) by (split; [apply Z.log2_nonneg|apply Z.log2_lt_pow2; lia]).
    pose proof (Z.log2_spec (Z.pos p) (Pos2Z.pos_is_pos p)) as [L U]. fold n in L, U.
    assert (E52 : 2 ^ 52 = 2 ^ n * 2 ^ (52 - n)) by (rewrite <- Z.pow_add_r by lia; f_equal; lia).
    assert (E53 : 2 ^ 53 = 2 ^ Z.succ n * 2 ^ (52 - n)) by (rewrite <- Z.pow_add_r by lia; f_equal; lia).
    assert (P : 0 < 2 ^ (52 - n)) by (apply Z.pow_pos_nonneg; lia).
    assert (Hm : 2 ^ 52 <= Z.pos p * 2 ^ (52 - n) < 2 ^ 53) by (rewrite E52, E53; split; nia).
    destruct (f64_fields true (n + 1023) (Z.pos p * 2 ^ (52 - n) - 2 ^ 52)) as [F1 [F2 F3]]; [lia|change (2^53) with (2 * 2^52) in Hm; lia|].
    unfold f64_trunc. rewrite F1, F2, F3.
    destruct (N.eqb_spec (Z.to_N (n + 1023)) 2047) as [A|_]; [apply (f_equal Z.of_N) in A; rewrite Z2N.id in A by lia; simpl in A; lia|].
    destruct (N.eqb_spec (Z.to_N (n + 1023)) 0) as [A|_]; [apply (f_equal Z.of_N) in A; rewrite Z2N.id in A by lia; simpl in A; lia|].
    rewrite !Z2N.id by lia. f_equal.
    replace (2 ^ 52 + (Z.pos p * 2 ^ (52 - n) - 2 ^ 52)) with (Z.pos p * 2 ^ (52 - n)) by ring.
    replace (n + 1023 - 1075) with (n - 52) by ring.
    destruct (Z.leb_spec 0 (n - 52)) as [H|H].
    + assert (H0 : n = 52) by lia. rewrite H0. change (52 - 52) with 0. simpl. lia.
    + replace (- (n - 52)) with (52 - n) by ring. rewrite Z.div_mul by lia. reflexivity.
Qed.

End F64Exact.

Lemma any_pf_int_exact : parseF_int_exact any_pf.
Proof.
  intros txt z Hp Hz. exists (f64_of_Z z). split.
  - unfold any_pf. rewrite Hp. reflexivity.
  - apply f64_of_Z_exact. exact Hz.
Qed.

(* ---- a document exercising every position (unknown field of array shape, null map entry, union, inherited required field,
   optional and defaulted fields absent) on which every premise holds ---- *)
From Coq.Strings Require Import String.
Definition any_text : bytes :=
  Eval vm_compute in
    c06_b "{""zz"":[1,{""q"":null}],""l"":[{""a"":1},{""c"":3}],""b"":""s"",""m"":{""k"":{},""n"":null},""u"":{""t.Inner"":{""b"":""x""}}}"%string.
Definition any_doc : jdoc := Eval vm_compute in match parse_json any_text with Some j => j | None => JNull end.

Lemma any_doc_ws : well_shaped c06_env any_pf 8 (TRef 1) any_doc.
Proof. unfold any_doc. c06_ws. Qed.

Ltac any_ue :=
  repeat first
    [ progress simpl
    | match goal with
      | |- exists _, _ => eexists
      | |- ue_members _ _ => unfold ue_members
      | |- _ /\ _ => split
      | |- NoDup _ => simpl; c06_nd
      | |- Forall _ _ => constructor
      | |- _ = _ => reflexivity
      | |- (_ <= _)%Z => vm_compute; discriminate
      | |- True => exact I
      | |- forall _, _ => intro
      | H : False |- _ => contradiction H
      | H : _ \/ _ |- _ => destruct H
      | H : ?a = ?a |- _ => clear H
      | H : Some _ = Some _ |- _ => inversion H; subst; clear H
      | H : nth_error _ _ = _ |- _ => progress simpl in H
      | H : _ = _ |- _ => first [discriminate H | subst]
      end ].

Lemma any_doc_ue : untyped_exact c06_env 8 (TRef 1) any_doc.
Proof. unfold any_doc. any_ue. Qed.

Lemma any_nonvacuous :
  parseF_int_exact any_pf /\ parseF_f32_via_f64 any_pf /\ wf_schema c06_env /\
  well_shaped c06_env any_pf 8 (TRef 1) any_doc /\ untyped_exact c06_env 8 (TRef 1) any_doc /\
  keys_nonempty (entries_of any_doc) /\
  decode_any c06_env c06_star ps_empty 0 any_pf (fun _ _ => 0%Z) 8 (TRef 1) (of_jdoc any_pf any_doc)
  = DMissing (map c06_b ["a"; "l[1].a"; "m.k.a"; "u.t.Inner.a"; "x"]%string)
      (VRec [VRec [] [Some (VInt 0); Some (VStr (c06_b "s")); None]]
         [Some (VRec [] [Some (VInt 0); None; None]);
          Some (VArr [VRec [] [Some (VInt 1); None; Some (VInt 7)]; VRec [] [Some (VInt 0); None; Some (VInt 3)]]);
          Some (VMap [(c06_b "k", VRec [] [Some (VInt 0); None; Some (VInt 7)])]);
          Some (VUnion [Some (VRec [] [Some (VInt 0); Some (VStr (c06_b "x")); Some (VInt 7)]); None])]).
Proof.
  split; [exact any_pf_int_exact|]. split; [exact any_pf_f32|]. split; [exact c06_wf|].
  split; [exact any_doc_ws|]. split; [exact any_doc_ue|]. split.
  - unfold any_doc. simpl. repeat (constructor; [discriminate|]). constructor.
  - vm_compute. reflexivity.
Qed.
