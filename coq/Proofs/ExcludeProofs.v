(* C07, part 3: the writer side.  With excluded fields the encoder (Codec/Encode.v) produces exactly the document it
   produces without exclusions, minus every object entry whose path matches the PathSpec (whole subtrees; array items are
   addressed by the wildcard) - nothing else changes, in particular not the order of the remaining entries.

   Direction.  The statement is "if the unrestricted encoding succeeds with d0 then the restricted one succeeds with
   prune d0".  The converse direction is FALSE of the model (and of the Go code): the NoopWriter substituted for an
   excluded key runs no callback, so a subtree that cannot be encoded at all (union with two members set, ...) is
   silently accepted when it is excluded: see [writer_converse_refuted].  The only failure that survives exclusion is an
   illegal enum constant directly in an excluded field ([excluded_illegal_enum_still_errors]). *)
From Coq Require Import List Bool Arith ZArith NArith Lia.
From Coq.Strings Require Import Byte.
From GR Require Import Base.Bytes Base.Res Codec.Schema Codec.Doc Codec.Encode Proofs.PathSpecProofs.
Import ListNotations.

(* ------------------------------------------------------------------------------------------------------------- *)
(* 1. The body of [enc], one level unfolded, the recursive call abstracted as [rec]                                *)
(* ------------------------------------------------------------------------------------------------------------- *)
Section Body.
  Variable e : env.
  Variable wildcard : bytes.
  Variable excl : pathspec.
  Variable rec : list bytes -> ty -> value -> res doc.

  Definition enc_key (scope : list bytes) (key : bytes) (t' : ty) (v' : value) : res (list (bytes * doc)) :=
    let scope' := scope ++ [key] in
    if excluded wildcard excl scope' then do _ <- enc_noop t' v'; Ok []
    else do d <- rec scope' t' v'; Ok [(key, d)].

  Definition fields_entries (scope : list bytes) : list field -> list (option value) -> res (list (bytes * doc)) :=
    fix fields_entries (fs : list field) (vs : list (option value)) : res (list (bytes * doc)) :=
    match fs, vs with
    | [], [] => Ok []
    | fd :: fs', ov :: vs' =>
        do here <- match ov with
                   | Some v' => enc_key scope (f_name fd) (f_ty fd) v'
                   | None => if is_required (f_opt fd) then Err EType else Ok []
                   end;
        do rest <- fields_entries fs' vs';
        Ok (here ++ rest)
    | _, _ => Err EType
    end.

  Definition map_entries (scope : list bytes) (t' : ty) : list (bytes * value) -> res (list (bytes * doc)) :=
    fix go (l : list (bytes * value)) : res (list (bytes * doc)) :=
    match l with
    | [] => Ok []
    | (k, v') :: r => do a <- enc_key scope k t' v'; do b <- go r; Ok (a ++ b)
    end.

  Definition inc_entries (scope : list bytes) : list nat -> list value -> res (list (bytes * doc)) :=
    fix go (is : list nat) (vs : list value) : res (list (bytes * doc)) :=
    match is, vs with
    | [], [] => Ok []
    | i :: is', iv :: vs' =>
        do d <- rec scope (TRef i) iv;
        do a <- match d with DObj ents => Ok ents | _ => Err EType end;
        do b <- go is' vs';
        Ok (a ++ b)
    | _, _ => Err EType
    end.

  Definition union_entries (scope : list bytes)
    : list (bytes * ty) -> list (option value) -> bool -> res (list (bytes * doc) * bool) :=
    fix go (mts : list (bytes * ty)) (vs : list (option value)) (isSet : bool) : res (list (bytes * doc) * bool) :=
    match mts, vs with
    | [], [] => Ok ([], isSet)
    | (alias, mt) :: mts', ov :: vs' =>
        match ov with
        | None => go mts' vs' isSet
        | Some v' =>
            if isSet then Err EUnion
            else do a <- enc_key scope alias mt v';
                 do br <- go mts' vs' true;
                 Ok (a ++ fst br, snd br)
        end
    | _, _ => Err EType
    end.

  Definition enc_body (scope : list bytes) (t : ty) (v : value) : res doc :=
    match t, v with
    | TPrim PInt, VInt z => Ok (DLeaf (LInt z))
    | TPrim PLong, VLong z => Ok (DLeaf (LInt z))
    | TPrim PFloat, VFloat b => Ok (DLeaf (LFloat true b))
    | TPrim PDouble, VDouble b => Ok (DLeaf (LFloat false b))
    | TPrim PBool, VBool b => Ok (DLeaf (LBool b))
    | TPrim PString, VStr s => Ok (DLeaf (LStr s))
    | TPrim PBytes, VBytes s => Ok (DLeaf (LBytes s))
    | TEnum syms, VEnum k =>
        match k with
        | 0 => Err EEnumConst
        | S i => match nth_error syms i with Some s => Ok (DLeaf (LStr s)) | None => Err EEnumConst end
        end
    | TFixed n, VFixed s => Ok (DLeaf (LBytes s))
    | TArray t', VArr l => do ds <- mapM (rec (scope ++ [wildcard]) t') l; Ok (DArr ds)
    | TMap t', VMap es => do ents <- map_entries scope t' es; Ok (DObj (sort_entries ents))
    | TRef n, VRec ivs fvs =>
        match lookup e n with
        | Some (DRecord incs fs) =>
            do inc_ents <- inc_entries scope incs ivs;
            do own <- fields_entries scope fs fvs;
            Ok (DObj (sort_entries (inc_ents ++ own)))
        | _ => Err EType
        end
    | TRef n, VUnion ms =>
        match lookup e n with
        | Some (DUnion nullable members) =>
            do ents <- union_entries scope members ms false;
            if negb nullable && negb (snd ents) then Err EUnion
            else Ok (DObj (sort_entries (fst ents)))
        | _ => Err EType
        end
    | _, _ => Err EType
    end.
End Body.

Lemma enc_S e w x f scope t v : enc e w x (S f) scope t v = enc_body e w x (enc e w x f) scope t v.
Proof. reflexivity. Qed.

Lemma bind_ok {A B} (r : res A) (k : A -> res B) b : bind r k = Ok b -> exists a, r = Ok a /\ k a = Ok b.
Proof. destruct r as [a| |]; simpl; intros H; try discriminate. exists a. split; [reflexivity|exact H]. Qed.

(* ------------------------------------------------------------------------------------------------------------- *)
(* 2. Sorting commutes with dropping / rewriting entries by key                                                    *)
(* ------------------------------------------------------------------------------------------------------------- *)
Section FilterMap.
  Context {A B : Type}.
  Variable keep : bytes -> bool.
  Variable g : bytes -> A -> B.

  Definition fm : list (bytes * A) -> list (bytes * B) :=
    fix go l := match l with
                | [] => []
                | (k, v) :: r => if keep k then (k, g k v) :: go r else go r
                end.

  Lemma fm_app a b : fm (a ++ b) = fm a ++ fm b.
  Proof.
    induction a as [|[k v] a IH]; simpl; [reflexivity|]. destruct (keep k); simpl; rewrite IH; reflexivity.
  Qed.

  Lemma fm_key k b l : In (k, b) (fm l) -> exists a, In (k, a) l.
  Proof.
    induction l as [|[k' v'] l IH]; simpl; [contradiction|]. destruct (keep k').
    - intros [H|H]; [injection H as -> _; exists v'; left; reflexivity|].
      destruct (IH H) as [a Ha]. exists a. right. exact Ha.
    - intros H. destruct (IH H) as [a Ha]. exists a. right. exact Ha.
  Qed.
End FilterMap.

Inductive ksorted {A} : list (bytes * A) -> Prop :=
| ks_nil : ksorted []
| ks_cons : forall k v l, (forall k' v', In (k', v') l -> bytes_ltb k' k = false) -> ksorted l -> ksorted ((k, v) :: l).

Lemma lt_le_trans a b c : bytes_ltb a b = true -> bytes_ltb c b = false -> bytes_ltb a c = true.
Proof.
  intros Hab Hcb. destruct (bytes_ltb a c) eqn:Eac; [reflexivity|]. exfalso.
  destruct (bytes_ltb c a) eqn:Eca.
  - rewrite (bytes_ltb_trans _ _ _ Eca Hab) in Hcb. discriminate.
  - pose proof (bytes_ltb_total _ _ Eac Eca). subst c. rewrite Hab in Hcb. discriminate.
Qed.

Lemma le_lt_false a b c : bytes_ltb c b = false -> bytes_ltb a b = true -> bytes_ltb c a = false.
Proof.
  intros Hcb Hab. destruct (bytes_ltb c a) eqn:E; [|reflexivity].
  rewrite (bytes_ltb_trans _ _ _ E Hab) in Hcb. discriminate.
Qed.

Lemma in_insert_entry {A} k (v : A) l x : In x (insert_entry k v l) <-> x = (k, v) \/ In x l.
Proof.
  induction l as [|[k' v'] l IH]; simpl.
  - split; [intros [H|[]]; left; symmetry; exact H|intros [H|[]]; left; symmetry; exact H].
  - destruct (bytes_ltb k k'); simpl.
    + split; [intros [H|H]; [left; symmetry; exact H|right; exact H]|intros [H|H]; [left; symmetry; exact H|right; exact H]].
    + rewrite IH. tauto.
Qed.

Lemma insert_sorted {A} k (v : A) l : ksorted l -> ksorted (insert_entry k v l).
Proof.
  induction 1 as [|k' v' l Hall Hs IH]; simpl.
  - constructor; [intros ? ? []|constructor].
  - destruct (bytes_ltb k k') eqn:E.
    + constructor; [|constructor; assumption].
      intros k2 v2 [H|H].
      * injection H as <- _. apply bytes_ltb_asym. exact E.
      * apply (le_lt_false k k' k2); [apply (Hall k2 v2 H)|exact E].
    + constructor; [|exact IH]. intros k2 v2 H. apply in_insert_entry in H. destruct H as [H|H].
      * injection H as -> _. exact E.
      * apply (Hall k2 v2 H).
Qed.

Lemma sort_sorted {A} (l : list (bytes * A)) : ksorted (sort_entries l).
Proof. induction l as [|[k v] l IH]; simpl; [constructor|apply insert_sorted; exact IH]. Qed.

Lemma insert_head {A} k (v : A) l :
  (forall k' v', In (k', v') l -> bytes_ltb k k' = true) -> insert_entry k v l = (k, v) :: l.
Proof.
  destruct l as [|[k' v'] l]; simpl; [reflexivity|]. intros H. rewrite (H k' v'); [reflexivity|left; reflexivity].
Qed.

Lemma fm_insert {A B} keep (g : bytes -> A -> B) k v l :
  ksorted l ->
  fm keep g (insert_entry k v l) = if keep k then insert_entry k (g k v) (fm keep g l) else fm keep g l.
Proof.
  induction 1 as [|k' v' l Hall Hs IH].
  - simpl. destruct (keep k); reflexivity.
  - simpl insert_entry. destruct (bytes_ltb k k') eqn:E.
    + change (fm keep g ((k, v) :: (k', v') :: l))
        with (if keep k then (k, g k v) :: fm keep g ((k', v') :: l) else fm keep g ((k', v') :: l)).
      destruct (keep k); [|reflexivity]. symmetry. apply insert_head.
      intros k2 b2 H. apply fm_key in H. destruct H as [a [H|H]].
      * injection H as <- _. exact E.
      * apply (lt_le_trans k k' k2 E). apply (Hall k2 a H).
    + change (fm keep g ((k', v') :: insert_entry k v l))
        with (if keep k' then (k', g k' v') :: fm keep g (insert_entry k v l) else fm keep g (insert_entry k v l)).
      change (fm keep g ((k', v') :: l)) with (if keep k' then (k', g k' v') :: fm keep g l else fm keep g l).
      rewrite IH. destruct (keep k'), (keep k); try reflexivity. simpl. rewrite E. reflexivity.
Qed.

Lemma fm_sort {A B} keep (g : bytes -> A -> B) l : fm keep g (sort_entries l) = sort_entries (fm keep g l).
Proof.
  induction l as [|[k v] l IH]; [reflexivity|]. simpl sort_entries.
  rewrite fm_insert by apply sort_sorted. rewrite IH. simpl fm. destruct (keep k); reflexivity.
Qed.

(* ------------------------------------------------------------------------------------------------------------- *)
(* 3. prune                                                                                                        *)
(* ------------------------------------------------------------------------------------------------------------- *)
Section Prune.
  Variable wc : bytes.
  Variable excl : pathspec.

  (* remove every object entry whose path matches, recursively; array items live under the wildcard segment *)
  Fixpoint prune (scope : list bytes) (d : doc) : doc :=
    match d with
    | DLeaf l => DLeaf l
    | DArr items => DArr (map (prune (scope ++ [wc])) items)
    | DObj ents =>
        DObj (fm (fun k => negb (ps_matches wc excl (scope ++ [k]))) (fun k v => prune (scope ++ [k]) v) ents)
    end.

  Definition prune_entries (scope : list bytes) : list (bytes * doc) -> list (bytes * doc) :=
    fm (fun k => negb (ps_matches wc excl (scope ++ [k]))) (fun k v => prune (scope ++ [k]) v).

  Lemma prune_obj scope ents : prune scope (DObj ents) = DObj (prune_entries scope ents).
  Proof. reflexivity. Qed.

  (* what prune means, entry by entry *)
  Lemma prune_entries_in scope ents k d :
    In (k, d) (prune_entries scope ents) <->
    ps_matches wc excl (scope ++ [k]) = false /\ exists d0, In (k, d0) ents /\ d = prune (scope ++ [k]) d0.
  Proof.
    unfold prune_entries. induction ents as [|[k' v'] ents IH]; simpl.
    - split; [contradiction|intros [_ [d0 [[] _]]]].
    - destruct (ps_matches wc excl (scope ++ [k'])) eqn:E; simpl.
      + rewrite IH. split.
        * intros [Hm [d0 [Hin Hd]]]. split; [exact Hm|]. exists d0. split; [right; exact Hin|exact Hd].
        * intros [Hm [d0 [[Hin|Hin] Hd]]]; [injection Hin as -> _; congruence|].
          split; [exact Hm|]. exists d0. split; assumption.
      + rewrite IH. split.
        * intros [H|[Hm [d0 [Hin Hd]]]].
          -- injection H as -> <-. split; [exact E|]. exists v'. split; [left; reflexivity|reflexivity].
          -- split; [exact Hm|]. exists d0. split; [right; exact Hin|exact Hd].
        * intros [Hm [d0 [[Hin|Hin] Hd]]].
          -- injection Hin as -> ->. left. rewrite Hd. reflexivity.
          -- right. split; [exact Hm|]. exists d0. split; assumption.
  Qed.
End Prune.

(* An independent reading of prune: the object entries of a document, at any depth, addressed by their path (array
   items under the wildcard).  An entry survives pruning iff its own path does not match - because matching is closed
   under extension (matches_subtree), this also says that no ancestor key matched.  Corner: a directive that ends AT an
   array item ("a/*" with a an array) removes no item - neither side consults the PathSpec for array items - but every
   keyed entry below the items. *)
Section EntryPaths.
  Variable wc : bytes.
  Variable excl : pathspec.

  Inductive entry_at : list bytes -> doc -> list bytes -> Prop :=
  | ea_here : forall scope ents k d, In (k, d) ents -> entry_at scope (DObj ents) (scope ++ [k])
  | ea_obj : forall scope ents k d p, In (k, d) ents -> entry_at (scope ++ [k]) d p -> entry_at scope (DObj ents) p
  | ea_arr : forall scope items d p, In d items -> entry_at (scope ++ [wc]) d p -> entry_at scope (DArr items) p.

  Lemma entry_at_prefix scope d p : entry_at scope d p -> exists b, p = scope ++ b.
  Proof.
    induction 1 as [scope ents k d Hin|scope ents k d p Hin H [b IH]|scope items d p Hin H [b IH]].
    - exists [k]. reflexivity.
    - exists (k :: b). rewrite IH, <- app_assoc. reflexivity.
    - exists (wc :: b). rewrite IH, <- app_assoc. reflexivity.
  Qed.

  Theorem prune_entry_exact scope d0 p :
    entry_at scope (prune wc excl scope d0) p <-> entry_at scope d0 p /\ ps_matches wc excl p = false.
  Proof.
    split.
    - intros H. remember (prune wc excl scope d0) as d' eqn:Hd. revert d0 Hd.
      induction H as [scope ents k d Hin|scope ents k d p Hin H IH|scope items d p Hin H IH]; intros d0 Hd.
      + destruct d0 as [|?|ents0]; try discriminate. rewrite prune_obj in Hd. injection Hd as ->.
        apply prune_entries_in in Hin. destruct Hin as [Hm [d1 [Hin1 _]]].
        split; [apply (ea_here scope ents0 k d1 Hin1)|exact Hm].
      + destruct d0 as [|?|ents0]; try discriminate. rewrite prune_obj in Hd. injection Hd as ->.
        apply prune_entries_in in Hin. destruct Hin as [Hm [d1 [Hin1 Hd1]]].
        destruct (IH d1 Hd1) as [He Hp]. split; [apply (ea_obj scope ents0 k d1 p Hin1 He)|exact Hp].
      + destruct d0 as [|items0|]; try discriminate. simpl in Hd. injection Hd as ->.
        apply in_map_iff in Hin. destruct Hin as [d1 [Hd1 Hin1]]. symmetry in Hd1.
        destruct (IH d1 Hd1) as [He Hp]. split; [apply (ea_arr scope items0 d1 p Hin1 He)|exact Hp].
    - intros [H Hm].
      induction H as [scope ents k d Hin|scope ents k d p Hin H IH|scope items d p Hin H IH].
      + rewrite prune_obj. apply (ea_here scope _ k (prune wc excl (scope ++ [k]) d)).
        apply prune_entries_in. split; [exact Hm|]. exists d. split; [exact Hin|reflexivity].
      + rewrite prune_obj. apply (ea_obj scope _ k (prune wc excl (scope ++ [k]) d)); [|apply IH; exact Hm].
        apply prune_entries_in. split; [|exists d; split; [exact Hin|reflexivity]].
        destruct (entry_at_prefix _ _ _ H) as [b ->].
        destruct (ps_matches wc excl (scope ++ [k])) eqn:E; [|reflexivity].
        rewrite (matches_subtree wc excl _ b E) in Hm. discriminate.
      + simpl. apply (ea_arr scope _ (prune wc excl (scope ++ [wc]) d)); [|apply IH; exact Hm].
        apply in_map. exact Hin.
  Qed.
End EntryPaths.

(* with no exclusions prune is the identity *)
Lemma prune_empty wc : forall d scope, prune wc ps_empty scope d = d.
Proof.
  fix IH 1. intros d scope. destruct d as [l|items|ents]; simpl.
  - reflexivity.
  - f_equal. induction items as [|x items IHi]; simpl; [reflexivity|]. rewrite IH, IHi. reflexivity.
  - f_equal. induction ents as [|[k v] ents IHe]; simpl; [reflexivity|].
    rewrite matches_empty. simpl. rewrite IH, IHe. reflexivity.
Qed.

(* ------------------------------------------------------------------------------------------------------------- *)
(* 4. The writer theorem                                                                                           *)
(* ------------------------------------------------------------------------------------------------------------- *)
Section Writer.
  Variable e : env.
  Variable wc : bytes.
  Variable excl : pathspec.
  Notation prune := (prune wc excl).
  Notation pe := (prune_entries wc excl).

  Section Step.
    Variables rec0 rec1 : list bytes -> ty -> value -> res doc.
    Hypothesis Hrec : forall scope t v d0, rec0 scope t v = Ok d0 -> rec1 scope t v = Ok (prune scope d0).
    Hypothesis Hnoop : forall scope t v d0, rec0 scope t v = Ok d0 -> enc_noop t v = Ok tt.

    Lemma enc_key_step scope k t v a :
      enc_key wc ps_empty rec0 scope k t v = Ok a -> enc_key wc excl rec1 scope k t v = Ok (pe scope a).
    Proof.
      unfold enc_key, excluded. rewrite matches_empty. intros H.
      apply bind_ok in H. destruct H as [d [Hd Ha]]. injection Ha as <-.
      unfold prune_entries. simpl fm.
      destruct (ps_matches wc excl (scope ++ [k])) eqn:E; simpl.
      - rewrite (Hnoop _ _ _ _ Hd). reflexivity.
      - rewrite (Hrec _ _ _ _ Hd). reflexivity.
    Qed.

    Lemma map_entries_step scope t es : forall a,
      map_entries wc ps_empty rec0 scope t es = Ok a -> map_entries wc excl rec1 scope t es = Ok (pe scope a).
    Proof.
      induction es as [|[k v] es IH]; intros a H.
      - simpl in H. injection H as <-. reflexivity.
      - change (map_entries wc ps_empty rec0 scope t ((k, v) :: es))
          with (do a <- enc_key wc ps_empty rec0 scope k t v; do b <- map_entries wc ps_empty rec0 scope t es; Ok (a ++ b)) in H.
        apply bind_ok in H. destruct H as [a1 [H1 H]]. apply bind_ok in H. destruct H as [b1 [H2 H]]. injection H as <-.
        change (map_entries wc excl rec1 scope t ((k, v) :: es))
          with (do a <- enc_key wc excl rec1 scope k t v; do b <- map_entries wc excl rec1 scope t es; Ok (a ++ b)).
        rewrite (enc_key_step _ _ _ _ _ H1), (IH _ H2). simpl. unfold prune_entries. rewrite fm_app. reflexivity.
    Qed.

    Lemma fields_entries_step scope fs : forall vs a,
      fields_entries wc ps_empty rec0 scope fs vs = Ok a -> fields_entries wc excl rec1 scope fs vs = Ok (pe scope a).
    Proof.
      induction fs as [|fd fs IH]; intros [|ov vs] a H; try discriminate.
      - simpl in H. injection H as <-. reflexivity.
      - change (fields_entries wc ps_empty rec0 scope (fd :: fs) (ov :: vs))
          with (do here <- match ov with
                           | Some v' => enc_key wc ps_empty rec0 scope (f_name fd) (f_ty fd) v'
                           | None => if is_required (f_opt fd) then Err EType else Ok []
                           end;
                do rest <- fields_entries wc ps_empty rec0 scope fs vs; Ok (here ++ rest)) in H.
        apply bind_ok in H. destruct H as [a1 [H1 H]]. apply bind_ok in H. destruct H as [b1 [H2 H]]. injection H as <-.
        change (fields_entries wc excl rec1 scope (fd :: fs) (ov :: vs))
          with (do here <- match ov with
                           | Some v' => enc_key wc excl rec1 scope (f_name fd) (f_ty fd) v'
                           | None => if is_required (f_opt fd) then Err EType else Ok []
                           end;
                do rest <- fields_entries wc excl rec1 scope fs vs; Ok (here ++ rest)).
        rewrite (IH _ _ H2). unfold prune_entries. rewrite fm_app. fold (pe scope).
        destruct ov as [v'|].
        + rewrite (enc_key_step _ _ _ _ _ H1). reflexivity.
        + destruct (is_required (f_opt fd)); [discriminate|]. injection H1 as <-. reflexivity.
    Qed.

    Lemma inc_entries_step scope is : forall vs a,
      inc_entries rec0 scope is vs = Ok a -> inc_entries rec1 scope is vs = Ok (pe scope a).
    Proof.
      induction is as [|i is IH]; intros [|iv vs] a H; try discriminate.
      - simpl in H. injection H as <-. reflexivity.
      - change (inc_entries rec0 scope (i :: is) (iv :: vs))
          with (do d <- rec0 scope (TRef i) iv;
                do a <- match d with DObj ents => Ok ents | _ => Err EType end;
                do b <- inc_entries rec0 scope is vs; Ok (a ++ b)) in H.
        apply bind_ok in H. destruct H as [d [Hd H]]. apply bind_ok in H. destruct H as [a1 [H1 H]].
        apply bind_ok in H. destruct H as [b1 [H2 H]]. injection H as <-.
        destruct d as [|?|ents]; try discriminate. injection H1 as <-.
        change (inc_entries rec1 scope (i :: is) (iv :: vs))
          with (do d <- rec1 scope (TRef i) iv;
                do a <- match d with DObj ents => Ok ents | _ => Err EType end;
                do b <- inc_entries rec1 scope is vs; Ok (a ++ b)).
        rewrite (Hrec _ _ _ _ Hd), prune_obj. simpl bind. rewrite (IH _ _ H2). simpl.
        unfold prune_entries. rewrite fm_app. reflexivity.
    Qed.

    Lemma union_entries_step scope mts : forall vs isSet r,
      union_entries wc ps_empty rec0 scope mts vs isSet = Ok r ->
      union_entries wc excl rec1 scope mts vs isSet = Ok (pe scope (fst r), snd r).
    Proof.
      induction mts as [|[alias mt] mts IH]; intros [|ov vs] isSet r H; try discriminate.
      - simpl in H. injection H as <-. reflexivity.
      - change (union_entries wc ps_empty rec0 scope ((alias, mt) :: mts) (ov :: vs) isSet)
          with (match ov with
                | None => union_entries wc ps_empty rec0 scope mts vs isSet
                | Some v' =>
                    if isSet then Err EUnion
                    else do a <- enc_key wc ps_empty rec0 scope alias mt v';
                         do br <- union_entries wc ps_empty rec0 scope mts vs true;
                         Ok (a ++ fst br, snd br)
                end) in H.
        change (union_entries wc excl rec1 scope ((alias, mt) :: mts) (ov :: vs) isSet)
          with (match ov with
                | None => union_entries wc excl rec1 scope mts vs isSet
                | Some v' =>
                    if isSet then Err EUnion
                    else do a <- enc_key wc excl rec1 scope alias mt v';
                         do br <- union_entries wc excl rec1 scope mts vs true;
                         Ok (a ++ fst br, snd br)
                end).
        destruct ov as [v'|]; [|apply IH; exact H].
        destruct isSet; [discriminate|].
        apply bind_ok in H. destruct H as [a1 [H1 H]]. apply bind_ok in H. destruct H as [br [H2 H]]. injection H as <-.
        rewrite (enc_key_step _ _ _ _ _ H1), (IH _ _ _ H2). simpl. unfold prune_entries. rewrite fm_app. reflexivity.
    Qed.

    Lemma mapM_step scope t l : forall ds,
      mapM (rec0 scope t) l = Ok ds -> mapM (rec1 scope t) l = Ok (map (prune scope) ds).
    Proof.
      induction l as [|x l IH]; intros ds H.
      - simpl in H. injection H as <-. reflexivity.
      - simpl in H. apply bind_ok in H. destruct H as [y [Hy H]]. apply bind_ok in H. destruct H as [ys [Hys H]].
        injection H as <-. simpl. rewrite (Hrec _ _ _ _ Hy), (IH _ Hys). reflexivity.
    Qed.

    Lemma enc_body_step scope t v d0 :
      enc_body e wc ps_empty rec0 scope t v = Ok d0 -> enc_body e wc excl rec1 scope t v = Ok (prune scope d0).
    Proof.
      intros H. destruct t as [p|syms|n|n|t'|t']; [destruct p| | | | |]; destruct v; try (simpl in H; discriminate).
      - simpl in *; injection H as <-; reflexivity.
      - simpl in *; injection H as <-; reflexivity.
      - simpl in *; injection H as <-; reflexivity.
      - simpl in *; injection H as <-; reflexivity.
      - simpl in *; injection H as <-; reflexivity.
      - simpl in *; injection H as <-; reflexivity.
      - simpl in *; injection H as <-; reflexivity.
      - simpl in *. destruct k as [|i]; [discriminate|]. destruct (nth_error syms i); [|discriminate].
        injection H as <-. reflexivity.
      - simpl in *. injection H as <-. reflexivity.
      - simpl in *. destruct (lookup e n) as [[incs0 fs|]|]; try discriminate.
        apply bind_ok in H. destruct H as [a1 [H1 H]]. apply bind_ok in H. destruct H as [a2 [H2 H]]. injection H as <-.
        rewrite (inc_entries_step _ _ _ _ H1), (fields_entries_step _ _ _ _ H2). simpl.
        try rewrite prune_obj; simpl; unfold prune_entries. rewrite fm_sort, fm_app. reflexivity.
      - simpl in *. destruct (lookup e n) as [[|nullable mts]|]; try discriminate.
        apply bind_ok in H. destruct H as [r [H1 H]].
        rewrite (union_entries_step _ _ _ _ _ H1). simpl.
        destruct (negb nullable && negb (snd r)); [discriminate|]. injection H as <-.
        try rewrite prune_obj; simpl; unfold prune_entries. rewrite fm_sort. reflexivity.
      - simpl in *. apply bind_ok in H. destruct H as [ds [H1 H]]. injection H as <-.
        rewrite (mapM_step _ _ _ _ H1). reflexivity.
      - simpl in *. apply bind_ok in H. destruct H as [a [H1 H]]. injection H as <-.
        rewrite (map_entries_step _ _ _ _ H1). simpl. try rewrite prune_obj; simpl; unfold prune_entries. rewrite fm_sort. reflexivity.
    Qed.
  End Step.

  (* a value the encoder accepts is accepted by the NoopWriter *)
  Lemma enc_ok_noop x fuel scope t v d : enc e wc x fuel scope t v = Ok d -> enc_noop t v = Ok tt.
  Proof.
    destruct fuel as [|f]; [discriminate|]. rewrite enc_S.
    destruct t; try reflexivity. destruct v; try reflexivity.
    simpl. destruct k as [|i]; [discriminate|]. destruct (nth_error symbols i); [reflexivity|discriminate].
  Qed.

  Theorem writer_omits_exactly : forall fuel scope t v d0,
    enc e wc ps_empty fuel scope t v = Ok d0 ->
    enc e wc excl fuel scope t v = Ok (prune scope d0).
  Proof.
    induction fuel as [|f IH]; intros scope t v d0 H; [discriminate|].
    rewrite enc_S in *. apply (enc_body_step (enc e wc ps_empty f) (enc e wc excl f)); [exact IH| |exact H].
    intros sc t0 v0 d Hd. exact (enc_ok_noop _ _ _ _ _ _ Hd).
  Qed.

  (* in the form of the property text: whenever both encodings succeed, the restricted one is the pruned other one *)
  Corollary writer_omits_exactly_both fuel scope t v d d0 :
    enc e wc excl fuel scope t v = Ok d -> enc e wc ps_empty fuel scope t v = Ok d0 -> d = prune scope d0.
  Proof. intros H H0. rewrite (writer_omits_exactly _ _ _ _ _ H0) in H. injection H as <-. reflexivity. Qed.

  (* an excluded key never appears, a non-excluded one keeps its (pruned) value: the reading of prune on objects *)
  Corollary writer_object_entries fuel scope t v ents0 k d :
    enc e wc ps_empty fuel scope t v = Ok (DObj ents0) ->
    exists ents, enc e wc excl fuel scope t v = Ok (DObj ents) /\
      (In (k, d) ents <->
       ps_matches wc excl (scope ++ [k]) = false /\ exists d1, In (k, d1) ents0 /\ d = prune (scope ++ [k]) d1).
  Proof.
    intros H. exists (pe scope ents0). split.
    - rewrite (writer_omits_exactly _ _ _ _ _ H). reflexivity.
    - apply prune_entries_in.
  Qed.
  (* the exact side condition under which the two-directional statement of the property text holds: given that the
     restricted encoding succeeded, its conclusion holds iff the unrestricted encoding succeeds at all *)
  Theorem writer_omits_exactly_partial fuel scope t v d :
    enc e wc excl fuel scope t v = Ok d ->
    ((exists d0, enc e wc ps_empty fuel scope t v = Ok d0) <->
     (exists d0, enc e wc ps_empty fuel scope t v = Ok d0 /\ d = prune scope d0)).
  Proof.
    intros H. split.
    - intros [d0 H0]. exists d0. split; [exact H0|]. exact (writer_omits_exactly_both _ _ _ _ _ _ H H0).
    - intros [d0 [H0 _]]. exists d0. exact H0.
  Qed.
End Writer.

(* the writer theorem read on entry paths: an entry of the unrestricted document (at any depth) is written iff its path
   does not match *)
Corollary writer_entries_exact e wc excl fuel scope t v d0 :
  enc e wc ps_empty fuel scope t v = Ok d0 ->
  exists d, enc e wc excl fuel scope t v = Ok d /\
    forall p, entry_at wc scope d p <-> entry_at wc scope d0 p /\ ps_matches wc excl p = false.
Proof.
  intros H. exists (prune wc excl scope d0). split; [apply writer_omits_exactly; exact H|].
  intros p. apply prune_entry_exact.
Qed.

(* against the declarative specification: with a well-formed directive set, an object entry is omitted iff the
   specification excludes its path *)
Corollary writer_object_entries_spec e wc ds fuel scope t v ents0 :
  well_formed wc ds ->
  enc e wc ps_empty fuel scope t v = Ok (DObj ents0) ->
  exists ents, enc e wc (new_pathspec' ds) fuel scope t v = Ok (DObj ents) /\
    forall k d, In (k, d) ents <->
      ~ spec_excludes wc ds (scope ++ [k]) /\
      exists d1, In (k, d1) ents0 /\ d = prune wc (new_pathspec' ds) (scope ++ [k]) d1.
Proof.
  intros Hwf H. destruct (writer_object_entries e wc (new_pathspec' ds) fuel scope t v ents0 [] (DObj []) H) as [ents [He _]].
  exists ents. split; [exact He|]. intros k d.
  destruct (writer_object_entries e wc (new_pathspec' ds) fuel scope t v ents0 k d H) as [ents' [He' Hiff]].
  rewrite He in He'. injection He' as <-. rewrite Hiff.
  assert (M : ps_matches wc (new_pathspec' ds) (scope ++ [k]) = false <-> ~ spec_excludes wc ds (scope ++ [k])).
  { rewrite <- (matches_iff_spec wc ds _ Hwf). destruct (ps_matches wc (new_pathspec' ds) (scope ++ [k])); split; congruence. }
  rewrite M. reflexivity.
Qed.

(* ------------------------------------------------------------------------------------------------------------- *)
(* 5. The converse is false; the enum corner                                                                       *)
(* ------------------------------------------------------------------------------------------------------------- *)

(* the statement of the property text, both directions in one *)
Definition writer_omits_exactly_full : Prop :=
  forall e wc excl fuel scope t v d,
    enc e wc excl fuel scope t v = Ok d ->
    exists d0, enc e wc ps_empty fuel scope t v = Ok d0 /\ d = prune wc excl scope d0.

(* record R { u : union U }  with  union U = [int, long]; the value has BOTH members set; field "u" excluded *)
Definition cx_env : env :=
  [ DRecord [] [ {| f_name := [x75]; f_ty := TRef 1; f_opt := Required |} ];
    DUnion false [ ([x69], TPrim PInt); ([x6c], TPrim PLong) ] ].
Definition cx_value : value := VRec [] [ Some (VUnion [ Some (VInt 1); Some (VLong 2) ]) ].
Definition cx_excl : pathspec := new_pathspec' [[[x75]]].

Lemma writer_converse_refuted :
  enc cx_env wc_star cx_excl 5 [] (TRef 0) cx_value = Ok (DObj []) /\
  enc cx_env wc_star ps_empty 5 [] (TRef 0) cx_value = Err EUnion.
Proof. split; vm_compute; reflexivity. Qed.

Lemma writer_omits_exactly_full_refuted : ~ writer_omits_exactly_full.
Proof.
  intros H. destruct writer_converse_refuted as [H1 H2].
  destruct (H _ _ _ _ _ _ _ _ H1) as [d0 [H0 _]]. rewrite H2 in H0. discriminate.
Qed.

(* record E { c : enum {A} } with the illegal constant 7 in the excluded field: still an error *)
Definition cx_env2 : env := [ DRecord [] [ {| f_name := [x63]; f_ty := TEnum [[x41]]; f_opt := Required |} ] ].
Lemma excluded_illegal_enum_still_errors :
  enc cx_env2 wc_star (new_pathspec' [[[x63]]]) 5 [] (TRef 0) (VRec [] [Some (VEnum 7)]) = Err EEnumConst /\
  enc cx_env2 wc_star (new_pathspec' [[[x63]]]) 5 [] (TRef 0) (VRec [] [Some (VEnum 1)]) = Ok (DObj []).
Proof. split; vm_compute; reflexivity. Qed.

(* non-vacuity: record { a : array of record { b : int, c : int } , c : int } with "a/*/b" and "c" excluded *)
Definition ex_env : env :=
  [ DRecord [] [ {| f_name := seg_a; f_ty := TArray (TRef 1); f_opt := Required |};
                 {| f_name := seg_c; f_ty := TPrim PInt; f_opt := Required |} ];
    DRecord [] [ {| f_name := seg_b; f_ty := TPrim PInt; f_opt := Required |};
                 {| f_name := seg_c; f_ty := TPrim PInt; f_opt := Required |} ] ].
Definition ex_value : value :=
  VRec [] [ Some (VArr [ VRec [] [Some (VInt 1); Some (VInt 2)]; VRec [] [Some (VInt 3); Some (VInt 4)] ]); Some (VInt 5) ].
Lemma writer_example :
  enc ex_env wc_star (new_pathspec' [[seg_a; wc_star; seg_b]; [seg_c]]) 6 [] (TRef 0) ex_value =
  Ok (DObj [ (seg_a, DArr [ DObj [(seg_c, DLeaf (LInt 2))]; DObj [(seg_c, DLeaf (LInt 4))] ]) ]).
Proof. vm_compute. reflexivity. Qed.

(* corner: a directive ending AT an array item ("a/*", a : array of int) matches the item path but removes nothing *)
Definition ex_env3 : env := [ DRecord [] [ {| f_name := seg_a; f_ty := TArray (TPrim PInt); f_opt := Required |} ] ].
Lemma array_item_directive_corner :
  ps_matches wc_star (new_pathspec' [[seg_a; wc_star]]) [seg_a; wc_star] = true /\
  enc ex_env3 wc_star (new_pathspec' [[seg_a; wc_star]]) 5 [] (TRef 0) (VRec [] [Some (VArr [VInt 1; VInt 2])]) =
  Ok (DObj [(seg_a, DArr [DLeaf (LInt 1); DLeaf (LInt 2)])]).
Proof. split; vm_compute; reflexivity. Qed.
