(* Proofs about Gen2/Registry.v (the type registry of the v2 generator). *)
From Coq Require Import List Bool Arith NArith Lia Permutation.
From Coq.Strings Require Import Byte.
From GR Require Import Base.Bytes Gen.TablesGen Gen2.Ident Gen2.Registry Proofs.IdentProofs.
Import ListNotations.

(* ================================================================================================================ *)
(* Vocabulary of the statements                                                                                      *)

(* what the generator derives from a final registry for an identifier: output package and type name *)
Definition assignment (r : registry) (i : ident) : option (bytes * bytes) :=
  option_map (fun e => (out_pkg e, out_name e)) (lookup r i).
Definition same_assignment (r1 r2 : registry) : Prop := forall i, assignment r1 i = assignment r2 i.

(* two iteration orders of the same maps: the type list permuted, and each ReferencedTypes() set permuted *)
Definition same_entry (e f : entry) : Prop :=
  e_id e = e_id f /\ e_root e = e_root f /\ Permutation (e_refs e) (e_refs f) /\ e_cyc e = e_cyc f /\ e_ovr e = e_ovr f.
Definition reordered (reg1 reg2 : registry) : Prop :=
  exists l, Permutation reg1 l /\ Forall2 same_entry l reg2.

Definition results_agree (a b : gres registry) : Prop :=
  match a, b with
  | Ok r1, Ok r2 => same_assignment r1 r2
  | Err e1, Err e2 => e1 = e2
  | Panic, Panic => True
  | OutOfModel, OutOfModel => True
  | _, _ => False
  end.

Inductive reach (E : list (bytes * bytes)) : bytes -> bytes -> Prop :=
| reach_step p q : In (p, q) E -> reach E p q
| reach_trans p q s : reach E p q -> reach E q s -> reach E p s.
Definition acyclic (E : list (bytes * bytes)) : Prop := forall p, ~ reach E p p.

Definition wf_manifest (reg : registry) : Prop := wf_manifestb reg = true.

(* ================================================================================================================ *)
(* Refutations: witness manifests (the same manifests are replayed on the real generator by harness/cmd/c12)         *)

Definition w_root : bytes := [x72].
Definition wrec (ns nm : bytes) (refs : list ident) : entry := fresh (mkId nm ns) w_root refs.
Definition b_ (s : list byte) : bytes := s.

(* wx.A -> wy.B -> wx.A2 -> wy.C *)
Definition wx := b_ [x77;x78]. Definition wy := b_ [x77;x79].
Definition iA := mkId [x41] wx. Definition iB := mkId [x42] wy. Definition iA2 := mkId [x41;x32] wx. Definition iC := mkId [x43] wy.
Definition order_witness_1 : registry := [wrec wx [x41] [iB]; wrec wy [x42] [iA2]; wrec wx [x41;x32] [iC]; wrec wy [x43] []].
Definition order_witness_2 : registry := [wrec wy [x42] [iA2]; wrec wx [x41] [iB]; wrec wx [x41;x32] [iC]; wrec wy [x43] []].

Lemma registry_order_independent_refuted :
  exists reg1 reg2 r1 r2, wf_manifest reg1 /\ reordered reg1 reg2 /\
    finalize reg1 = Ok r1 /\ finalize reg2 = Ok r2 /\ ~ same_assignment r1 r2.
Proof.
  exists order_witness_1, order_witness_2.
  destruct (finalize order_witness_1) as [r1| | |] eqn:E1; try (vm_compute in E1; discriminate).
  destruct (finalize order_witness_2) as [r2| | |] eqn:E2; try (vm_compute in E2; discriminate).
  exists r1, r2. split; [vm_compute; reflexivity|]. split.
  - exists order_witness_2. split; [apply perm_swap|].
    repeat constructor.
  - split; [reflexivity|]. split; [reflexivity|].
    intros H. specialize (H iA). vm_compute in E1, E2.
    injection E1 as <-. injection E2 as <-. vm_compute in H. discriminate.
Qed.

(* px.A -> py.B ; py.B2 -> px.A2 : the packages import each other, no chain of type references returns *)
Definition px := b_ [x70;x78]. Definition py := b_ [x70;x79].
Definition package_cycle_witness : registry :=
  [wrec px [x41] [mkId [x42] py]; wrec py [x42] []; wrec py [x42;x32] [mkId [x41;x32] px]; wrec px [x41;x32] []].

Lemma package_graph_acyclic_refuted :
  exists reg r, wf_manifest reg /\ finalize reg = Ok r /\ ~ acyclic (import_edges r).
Proof.
  exists package_cycle_witness.
  destruct (finalize package_cycle_witness) as [r| | |] eqn:E; try (vm_compute in E; discriminate).
  exists r. split; [vm_compute; reflexivity|]. split; [reflexivity|].
  vm_compute in E. injection E as <-.
  intros H. apply (H (package_path w_root px)).
  apply reach_trans with (q := package_path w_root py); apply reach_step; vm_compute; auto.
Qed.

(* a.Foo <-> b.Foo (renamed AFoo, BFoo) and c.AFoo on the same cycle *)
Definition s_Foo := b_ [x46;x6f;x6f]. Definition s_AFoo := b_ [x41;x46;x6f;x6f].
Definition cross_group_witness : registry :=
  [wrec [x61] s_Foo [mkId s_Foo [x62]]; wrec [x62] s_Foo [mkId s_AFoo [x63]]; wrec [x63] s_AFoo [mkId s_Foo [x61]]].

Lemma no_duplicate_identifiers_refuted :
  exists reg r e1 e2, wf_manifest reg /\ finalize reg = Ok r /\ In e1 r /\ In e2 r /\
    e_id e1 <> e_id e2 /\ out_pkg e1 = out_pkg e2 /\ out_name e1 = out_name e2.
Proof.
  exists cross_group_witness.
  destruct (finalize cross_group_witness) as [r| | |] eqn:E; try (vm_compute in E; discriminate).
  vm_compute in E. injection E as <-.
  eexists. eexists. eexists. split; [vm_compute; reflexivity|]. split; [reflexivity|].
  split; [left; reflexivity|]. split; [right; right; left; reflexivity|].
  split; [vm_compute; discriminate|]. split; vm_compute; reflexivity.
Qed.

(* a.b.c.Foo, a.bC.Foo, x.c.Foo, y.b.c.Foo on one cycle: every attempt of resolveConflicts collides *)
Definition n_abc := b_ [x61;x2e;x62;x2e;x63]. Definition n_abC := b_ [x61;x2e;x62;x43].
Definition n_xc := b_ [x78;x2e;x63]. Definition n_ybc := b_ [x79;x2e;x62;x2e;x63].
Definition rename_witness : registry :=
  [wrec n_abc s_Foo [mkId s_Foo n_abC]; wrec n_abC s_Foo [mkId s_Foo n_xc]; wrec n_xc s_Foo [mkId s_Foo n_ybc]; wrec n_ybc s_Foo [mkId s_Foo n_abc]].

Lemma registry_total_needs_distinct_full_names :
  exists reg, forallb (fun e => legal_pegasus_name (id_name (e_id e)) && legal_ns (id_ns (e_id e))) reg = true /\
              ids_nodup reg = true /\ forallb (fun e => forallb (known reg) (e_refs e)) reg = true /\
              finalize reg = Err ERename.
Proof. exists rename_witness. vm_compute. auto. Qed.

(* ================================================================================================================ *)
(* Basic facts                                                                                                       *)

Lemma ident_eqb_eq a b : ident_eqb a b = true <-> a = b.
Proof.
  destruct a as [n1 s1], b as [n2 s2]. unfold ident_eqb; simpl. rewrite andb_true_iff, !bytes_eqb_eq.
  split; [intros [-> ->]; reflexivity | intros H; injection H; auto].
Qed.
Lemma ident_eqb_refl a : ident_eqb a a = true.
Proof. apply ident_eqb_eq; reflexivity. Qed.

Lemma lookup_In reg i e : lookup reg i = Some e -> In e reg /\ e_id e = i.
Proof.
  induction reg as [|x r IH]; simpl; [discriminate|]. destruct (ident_eqb (e_id x) i) eqn:E.
  - intros H; injection H as <-. apply ident_eqb_eq in E. auto.
  - intros H. destruct (IH H). auto.
Qed.
Lemma In_lookup reg e : In e reg -> exists u, lookup reg (e_id e) = Some u.
Proof.
  induction reg as [|x r IH]; simpl; [tauto|]. intros [->|H].
  - rewrite ident_eqb_refl. eauto.
  - destruct (ident_eqb (e_id x) (e_id e)); eauto.
Qed.

Definition knownP (reg : registry) (i : ident) : Prop := exists e, lookup reg i = Some e.
Lemma known_iff reg i : known reg i = true <-> knownP reg i.
Proof. unfold known, knownP. destruct (lookup reg i); split; eauto; try discriminate. intros [e H]; discriminate. Qed.

(* every reference is registered and every registered identifier has a namespace *)
Definition closed (reg : registry) : Prop :=
  forall e, In e reg -> id_ns (e_id e) <> [] /\ forall d, In d (e_refs e) -> knownP reg d.

(* the flag phase only sets flags: same identifiers, roots, references, overrides, position by position *)
Definition mono1 (e e' : entry) : Prop :=
  e_id e' = e_id e /\ e_root e' = e_root e /\ e_refs e' = e_refs e /\ e_ovr e' = e_ovr e /\ (e_cyc e = true -> e_cyc e' = true).
Definition mono (reg reg' : registry) : Prop := Forall2 mono1 reg reg'.

Lemma mono1_refl e : mono1 e e.
Proof. unfold mono1; auto. Qed.
Lemma mono_refl reg : mono reg reg.
Proof. induction reg; constructor; auto using mono1_refl. Qed.
Lemma mono_trans a b c : mono a b -> mono b c -> mono a c.
Proof.
  intros H; revert c; induction H as [|x y l l' Hxy Hl IH]; intros c Hc; inversion Hc; subst; constructor.
  - destruct Hxy as (A1&A2&A3&A4&A5), H1 as (B1&B2&B3&B4&B5). unfold mono1. repeat split; try congruence. auto.
  - apply IH; assumption.
Qed.
Lemma mono_length a b : mono a b -> length b = length a.
Proof. induction 1; simpl; congruence. Qed.

Lemma mono_lookup a b i : mono a b ->
  match lookup a i, lookup b i with
  | Some e, Some e' => mono1 e e'
  | None, None => True
  | _, _ => False
  end.
Proof.
  induction 1 as [|x y l l' Hxy Hl IH]; simpl; [exact I|].
  destruct Hxy as (A1&A2&A3&A4&A5). rewrite A1. destruct (ident_eqb (e_id x) i); [|exact IH].
  unfold mono1; auto.
Qed.
Lemma mono_known a b i : mono a b -> knownP a i -> knownP b i.
Proof.
  intros M [e H]. pose proof (mono_lookup a b i M) as K. rewrite H in K. destruct (lookup b i) eqn:E; [|contradiction]. exists e0; exact E.
Qed.
Lemma mono_In a b e' : mono a b -> In e' b -> exists e, In e a /\ mono1 e e'.
Proof.
  induction 1 as [|x y l l' Hxy Hl IH]; simpl; [tauto|]. intros [<-|H]; [eauto|]. destruct (IH H) as (e & He & Hm). eauto.
Qed.
Lemma mono_closed a b : mono a b -> closed a -> closed b.
Proof.
  intros M C e' He'. destruct (mono_In _ _ _ M He') as (e & He & (A1&A2&A3&A4&A5)).
  destruct (C e He) as [N R]. rewrite A1, A3. split; [exact N|]. intros d Hd. eapply mono_known; eauto.
Qed.

Lemma set_cyc_mono reg i : mono reg (set_cyc reg i).
Proof.
  unfold set_cyc. induction reg as [|x r IH]; simpl; constructor; auto.
  destruct (ident_eqb (e_id x) i); unfold mono1; simpl; auto.
Qed.

(* number of unflagged entries *)
Fixpoint ucount (reg : registry) : nat :=
  match reg with [] => 0 | e :: r => (if e_cyc e then 0 else 1) + ucount r end.
Lemma ucount_le_length reg : ucount reg <= length reg.
Proof. induction reg as [|e r IH]; simpl; [lia|]. destruct (e_cyc e); lia. Qed.
Lemma mono_ucount a b : mono a b -> ucount b <= ucount a.
Proof.
  induction 1 as [|x y l l' Hxy Hl IH]; simpl; [lia|]. destruct Hxy as (_&_&_&_&A5).
  destruct (e_cyc x); [rewrite (A5 eq_refl); lia|]. destruct (e_cyc y); lia.
Qed.
(* flagging an entry that was not flagged strictly decreases the count *)
Lemma mono_ucount_lt a b i e e' : mono a b -> lookup a i = Some e -> e_cyc e = false ->
  lookup b i = Some e' -> e_cyc e' = true -> ucount b < ucount a.
Proof.
  induction 1 as [|x y l l' Hxy Hl IH]; simpl; [discriminate|].
  pose proof (mono_ucount _ _ Hl) as Hle. destruct Hxy as (A1&_&_&_&A5). rewrite A1.
  destruct (ident_eqb (e_id x) i).
  - intros H1 F1 H2 F2. injection H1 as <-. injection H2 as <-. rewrite F1, F2. lia.
  - intros H1 F1 H2 F2. specialize (IH H1 F1 H2 F2).
    destruct (e_cyc x); [rewrite (A5 eq_refl); lia|]. destruct (e_cyc y); lia.
Qed.
Lemma lookup_set_cyc reg i j :
  lookup (set_cyc reg i) j =
  option_map (fun e => if ident_eqb (e_id e) i then mkEntry (e_id e) (e_root e) (e_refs e) true (e_ovr e) else e) (lookup reg j).
Proof.
  unfold set_cyc. induction reg as [|x r IH]; simpl; [reflexivity|].
  destruct (ident_eqb (e_id x) i) eqn:E; simpl; destruct (ident_eqb (e_id x) j) eqn:F; simpl; auto; rewrite E; reflexivity.
Qed.

(* ================================================================================================================ *)
(* flagCyclic terminates within fuel, never panics, only sets flags                                                  *)

Lemma get_known reg i : knownP reg i -> exists e, get reg i = Ok e /\ lookup reg i = Some e.
Proof. intros [e H]. exists e. unfold get. rewrite H. auto. Qed.

Lemma ucount_set_cyc_lt reg c e : lookup reg c = Some e -> e_cyc e = false -> ucount (set_cyc reg c) < ucount reg.
Proof.
  intros H F. eapply mono_ucount_lt; [apply set_cyc_mono | exact H | exact F | |].
  - rewrite lookup_set_cyc, H. simpl. destruct (lookup_In _ _ _ H) as [_ E]. rewrite E, ident_eqb_refl. reflexivity.
  - reflexivity.
Qed.

Lemma flag_cyclic_ok : forall f reg i, closed reg -> knownP reg i -> ucount (set_cyc reg i) < f ->
  exists reg', flag_cyclic f reg i = Ok reg' /\ mono (set_cyc reg i) reg'.
Proof.
  induction f as [|f IH]; intros reg i C K U; [lia|].
  simpl. destruct (get_known _ _ K) as (node & G & L). rewrite G. simpl.
  assert (C1 : closed (set_cyc reg i)) by (eapply mono_closed; [apply set_cyc_mono|exact C]).
  destruct (lookup_In _ _ _ L) as [Hin _]. destruct (C node Hin) as [_ Refs].
  (* the loop over the references, for any current state above set_cyc reg i *)
  assert (Loop : forall cs cur, (forall c, In c cs -> knownP reg c) -> mono (set_cyc reg i) cur ->
            exists reg', flag_children (flag_cyclic f) (e_root node) cs cur = Ok reg' /\ mono cur reg').
  { induction cs as [|c r IHr]; intros cur Kc M; simpl.
    - exists cur. split; [reflexivity|apply mono_refl].
    - assert (Kcur : knownP cur c).
      { eapply mono_known; [exact M|]. eapply mono_known; [apply set_cyc_mono|]. apply Kc; left; reflexivity. }
      destruct (get_known _ _ Kcur) as (child & Gc & Lc). rewrite Gc. simpl.
      assert (Ccur : closed cur) by (eapply mono_closed; eauto).
      destruct (negb (e_cyc child) && bytes_eqb (e_root node) (e_root child)) eqn:Cond.
      + apply andb_true_iff in Cond as [Cy _]. apply negb_true_iff in Cy.
        pose proof (ucount_set_cyc_lt _ _ _ Lc Cy) as Lt. pose proof (mono_ucount _ _ M) as Le.
        destruct (IH cur c Ccur Kcur ltac:(lia)) as (reg2 & E2 & M2). rewrite E2. simpl.
        assert (M3 : mono cur reg2) by (eapply mono_trans; [apply set_cyc_mono|exact M2]).
        destruct (IHr reg2 (fun x Hx => Kc x (or_intror Hx)) (mono_trans _ _ _ M M3)) as (reg3 & E3 & M4).
        exists reg3. split; [exact E3|]. eapply mono_trans; eauto.
      + apply IHr; [intros x Hx; apply Kc; right; exact Hx | exact M]. }
  destruct (Loop (e_refs node) (set_cyc reg i) Refs (mono_refl _)) as (reg' & E & M). exists reg'. auto.
Qed.

Lemma flag_cyclic_flags f reg i reg' e : flag_cyclic f reg i = Ok reg' -> mono (set_cyc reg i) reg' ->
  lookup reg i = Some e -> exists e', lookup reg' i = Some e' /\ e_cyc e' = true.
Proof.
  intros _ M L. pose proof (mono_lookup _ _ i M) as K. rewrite lookup_set_cyc, L in K. simpl in K.
  destruct (lookup_In _ _ _ L) as [_ E]. rewrite E, ident_eqb_refl in K.
  destruct (lookup reg' i) as [e'|]; [|contradiction]. exists e'. split; [reflexivity|]. destruct K as (_&_&_&_&K). apply K. reflexivity.
Qed.

(* flagging every member of a cycle *)
Lemma flag_members_ok : forall cycle reg n, closed reg -> length reg = n -> (forall c, In c cycle -> knownP reg c) ->
  exists reg', flag_members n reg cycle = Ok reg' /\ mono reg reg' /\
               forall c, In c cycle -> exists e', lookup reg' c = Some e' /\ e_cyc e' = true.
Proof.
  induction cycle as [|c r IH]; intros reg n C Len K; cbn [flag_members].
  - exists reg. split; [reflexivity|]. split; [apply mono_refl|]. intros c [].
  - assert (Kc : knownP reg c) by (apply K; left; reflexivity).
    assert (U : ucount (set_cyc reg c) < S n).
    { pose proof (ucount_le_length (set_cyc reg c)). pose proof (mono_length _ _ (set_cyc_mono reg c)). lia. }
    destruct (flag_cyclic_ok (S n) reg c C Kc U) as (reg1 & E1 & M1). rewrite E1. cbn [gbind].
    assert (M01 : mono reg reg1) by (eapply mono_trans; [apply set_cyc_mono|exact M1]).
    destruct (IH reg1 n (mono_closed _ _ M01 C) ltac:(rewrite (mono_length _ _ M01); exact Len)
                 (fun x Hx => mono_known _ _ _ M01 (K x (or_intror Hx)))) as (reg2 & E2 & M2 & F2).
    exists reg2. split; [exact E2|]. split; [eapply mono_trans; eauto|].
    intros x [<-|Hx]; [|apply F2; exact Hx].
    destruct Kc as [e Le]. destruct (flag_cyclic_flags _ _ _ _ _ E1 M1 Le) as (e1 & L1 & F1).
    pose proof (mono_lookup _ _ c M2) as Q. rewrite L1 in Q. destruct (lookup reg2 c) as [e2|]; [|contradiction].
    exists e2. split; [reflexivity|]. destruct Q as (_&_&_&_&Q). apply Q. exact F1.
Qed.

(* ================================================================================================================ *)
(* findCycle terminates within fuel and never panics                                                                 *)

Definition unflaggedP (reg : registry) (i : ident) : Prop := exists e, lookup reg i = Some e /\ e_cyc e = false.

Lemma pkg_of_ok reg i : closed reg -> knownP reg i -> exists p, pkg_of reg i = Ok p.
Proof.
  intros C [e L]. destruct (lookup_In _ _ _ L) as [Hin E]. destruct (C e Hin) as [N _]. rewrite E in N.
  unfold pkg_of. destruct (id_ns i) eqn:Ns; [congruence|]. unfold get. rewrite L. simpl. eauto.
Qed.

Lemma ic_loop_ok reg np next : closed reg -> forall rp suffix inSame, Forall (knownP reg) rp ->
  exists c, ic_loop reg np next rp suffix inSame = Ok c /\
            (c = [] \/ (rp <> [] /\ In next c /\ forall x, In x c -> x = next \/ In x rp \/ In x suffix)).
Proof.
  intros C. induction rp as [|x r IH]; intros suffix inSame K; cbn [ic_loop].
  - exists []. auto.
  - inversion K as [|? ? Kx Kr]; subst. destruct (pkg_of_ok _ _ C Kx) as (pk & E). rewrite E. cbn [gbind].
    assert (Sub : forall sfx b, exists c, ic_loop reg np next r (x :: sfx) b = Ok c /\
              (c = [] \/ ((x :: r) <> [] /\ In next c /\ forall y, In y c -> y = next \/ In y (x :: r) \/ In y sfx))).
    { intros sfx b. destruct (IH (x :: sfx) b Kr) as (c & Ec & [->|(_ & I1 & I2)]).
      - exists []. auto.
      - exists c. split; [exact Ec|]. right. split; [discriminate|]. split; [exact I1|].
        intros y Hy. destruct (I2 y Hy) as [H|[H|H]]; auto. { right; left; right; exact H. }
        destruct H as [<-|H]; [right; left; left; reflexivity | right; right; exact H]. }
    destruct (negb (bytes_eqb pk np)); [apply Sub|].
    destruct (negb inSame); [|apply Sub].
    exists (x :: suffix ++ [next]). split; [reflexivity|]. right. split; [discriminate|]. split.
    + right. apply in_or_app. right. left. reflexivity.
    + intros y [<-|Hy]; [right; left; left; reflexivity|]. apply in_app_or in Hy as [Hy|[<-|[]]]; auto.
Qed.

Lemma introduces_cycle_ok reg path next : closed reg -> knownP reg next -> Forall (knownP reg) path ->
  exists c, introduces_cycle reg path next = Ok c /\
            (c = [] \/ (path <> [] /\ In next c /\ forall x, In x c -> x = next \/ In x path)).
Proof.
  intros C Kn Kp. unfold introduces_cycle. destruct (pkg_of_ok _ _ C Kn) as (np & E). rewrite E. cbn [gbind].
  assert (Kr : Forall (knownP reg) (rev path)).
  { apply Forall_forall. intros x Hx. apply in_rev in Hx. rewrite Forall_forall in Kp. auto. }
  destruct (ic_loop_ok reg np next C (rev path) [] true Kr) as (c & Ec & [->|(N & I1 & I2)]).
  - exists []. auto.
  - exists c. split; [exact Ec|]. right. split; [|split; [exact I1|]].
    + intros ->. apply N. reflexivity.
    + intros x Hx. destruct (I2 x Hx) as [H|[H|[]]]; auto. right. apply in_rev. exact H.
Qed.

Lemma path_bound reg path : NoDup path -> Forall (knownP reg) path -> length path <= length reg.
Proof.
  intros ND K. rewrite <- (map_length e_id reg). apply NoDup_incl_length; [exact ND|].
  intros x Hx. rewrite Forall_forall in K. destruct (K x Hx) as [e L]. destruct (lookup_In _ _ _ L) as [Hin <-].
  apply in_map. exact Hin.
Qed.

Lemma seen_false path next : seen path next = false -> ~ In next path.
Proof.
  unfold seen. intros H Hin. assert (existsb (ident_eqb next) path = true); [|congruence].
  apply existsb_exists. exists next. split; [exact Hin|apply ident_eqb_refl].
Qed.

Lemma find_cycle_ok : forall f reg next path, closed reg -> knownP reg next -> Forall (knownP reg) path -> NoDup path ->
  length reg < f + length path -> (path = [] \/ unflaggedP reg next) ->
  exists c, find_cycle f reg next path = Ok c /\ (forall x, In x c -> knownP reg x) /\
            (c <> [] -> exists x, In x c /\ unflaggedP reg x).
Proof.
  induction f as [|f IH]; intros reg next path C Kn Kp ND Len Un.
  { pose proof (path_bound _ _ ND Kp). simpl in Len. lia. }
  cbn [find_cycle]. destruct (introduces_cycle_ok _ _ _ C Kn Kp) as (c0 & E0 & H0). rewrite E0. cbn [gbind].
  destruct c0 as [|x0 c0].
  2:{ destruct H0 as [H0|(Np & I1 & I2)]; [discriminate|]. eexists. split; [reflexivity|]. split.
      - intros x Hx. destruct (I2 x Hx) as [->|H]; [exact Kn|]. rewrite Forall_forall in Kp. auto.
      - intros _. exists next. split; [exact I1|]. destruct Un as [->|U]; [congruence|exact U]. }
  destruct (seen path next) eqn:Seen.
  { exists []. split; [reflexivity|]. split; [intros x []|congruence]. }
  destruct (get_known _ _ Kn) as (e & G & L). rewrite G. cbn [gbind].
  destruct (lookup_In _ _ _ L) as [Hin _]. destruct (C e Hin) as [_ Refs].
  assert (ND' : NoDup (path ++ [next])).
  { eapply Permutation_NoDup; [apply Permutation_cons_append|]. constructor; [apply seen_false; exact Seen|exact ND]. }
  assert (Kp' : Forall (knownP reg) (path ++ [next])).
  { apply Forall_app. split; [exact Kp|]. constructor; [exact Kn|constructor]. }
  assert (Len' : length reg < f + length (path ++ [next])) by (rewrite app_length; simpl; lia).
  generalize (e_refs e) Refs. induction l as [|c r IHr]; intros Kc; cbn [fc_children].
  - exists []. split; [reflexivity|]. split; [intros x []|congruence].
  - assert (Kcc : knownP reg c) by (apply Kc; left; reflexivity).
    destruct (get_known _ _ Kcc) as (ce & Gc & Lc). rewrite Gc. cbn [gbind].
    destruct (e_cyc ce) eqn:Cy; [apply IHr; intros x Hx; apply Kc; right; exact Hx|].
    destruct (IH reg c (path ++ [next]) C Kcc Kp' ND' Len' (or_intror (ex_intro _ ce (conj Lc Cy)))) as (p & Ep & P1 & P2).
    rewrite Ep. cbn [gbind]. destruct p as [|y p].
    + apply IHr; intros x Hx; apply Kc; right; exact Hx.
    + eexists. split; [reflexivity|]. split; [exact P1|exact P2].
Qed.

(* ================================================================================================================ *)
(* The whole of Finalize: the only failures are the two clean Go errors                                              *)

Definition clean {A} (x : gres A) (P : A -> Prop) : Prop :=
  match x with
  | Ok a => P a
  | Err ECrossRootCycle => True          (* "cyclic dependency between packages ... in different manifests" *)
  | Err ERename => True                  (* "Failed to rename types in import cycle with conflicting type names" *)
  | _ => False                           (* Panic, out of fuel, unknown type, duplicate registration, out of model *)
  end.

Lemma clean_bind {A B} (x : gres A) (f : A -> gres B) (P : A -> Prop) (Q : B -> Prop) :
  clean x P -> (forall a, P a -> clean (f a) Q) -> clean (gbind x f) Q.
Proof. destruct x as [a|e| |]; simpl; auto; try tauto; destruct e; simpl; tauto. Qed.
Lemma clean_weaken {A} (x : gres A) (P Q : A -> Prop) : clean x P -> (forall a, P a -> Q a) -> clean x Q.
Proof. destruct x as [a|e| |]; simpl; auto. Qed.

Lemma roots_of_ok reg l : (forall x, In x l -> knownP reg x) -> exists rs, roots_of reg l = Ok rs.
Proof.
  induction l as [|x r IH]; intros K; cbn [roots_of]; [eauto|].
  destruct (get_known _ _ (K x (or_introl eq_refl))) as (e & G & _). rewrite G. cbn [gbind].
  destruct (IH (fun y Hy => K y (or_intror Hy))) as (rs & E). rewrite E. cbn [gbind]. eauto.
Qed.

Lemma flag_loop_ok : forall f n reg i, closed reg -> length reg = n -> knownP reg i -> ucount reg < f ->
  clean (flag_loop f n reg i) (fun reg' => mono reg reg').
Proof.
  induction f as [|f IH]; intros n reg i C Len K U; [lia|].
  cbn [flag_loop].
  destruct (find_cycle_ok (S n) reg i [] C K (Forall_nil _) (NoDup_nil _) ltac:(simpl; lia) (or_introl eq_refl))
    as (c & Ec & Kc & Uc).
  rewrite Ec. cbn [gbind]. destruct c as [|x c]; [simpl; apply mono_refl|].
  destruct (roots_of_ok reg (x :: c) Kc) as (rs & Er). rewrite Er. cbn [gbind].
  destruct (all_same rs); [|exact I].
  destruct (flag_members_ok (x :: c) reg n C Len Kc) as (reg1 & E1 & M1 & F1). rewrite E1. cbn [gbind].
  destruct (Uc ltac:(discriminate)) as (y & Hy & (ey & Ly & Fy)).
  destruct (F1 y Hy) as (ey' & Ly' & Fy').
  pose proof (mono_ucount_lt _ _ _ _ _ M1 Ly Fy Ly' Fy') as Lt.
  eapply clean_weaken.
  - apply (IH n reg1 i (mono_closed _ _ M1 C)); [rewrite (mono_length _ _ M1); exact Len | eapply mono_known; eauto | lia].
  - intros a Ha. eapply mono_trans; eauto.
Qed.

Lemma flag_all_ok : forall order n reg, closed reg -> length reg = n -> (forall i, In i order -> knownP reg i) ->
  clean (flag_all n order reg) (fun reg' => mono reg reg').
Proof.
  induction order as [|i r IH]; intros n reg C Len K; cbn [flag_all]; [simpl; apply mono_refl|].
  eapply clean_bind.
  - apply flag_loop_ok; [exact C | exact Len | apply K; left; reflexivity | pose proof (ucount_le_length reg); lia].
  - intros reg1 M1. cbn beta. eapply clean_weaken.
    + apply IH; [eapply mono_closed; eauto | rewrite (mono_length _ _ M1); exact Len |].
      intros x Hx. eapply mono_known; [exact M1|]. apply K. right. exact Hx.
    + intros a Ha. cbn beta in Ha. eapply mono_trans; eauto.
Qed.

(* names *)
Definition names_legal (reg : registry) : Prop :=
  forall e, In e reg -> legal_pegasus_name (id_name (e_id e)) = true /\ legal_ns (id_ns (e_id e)) = true.

Lemma map_res_ok {A B} (f : A -> gres B) l : (forall a, In a l -> exists b, f a = Ok b) -> exists bs, map_res f l = Ok bs.
Proof.
  induction l as [|a r IH]; intros H; cbn [map_res]; [eauto|].
  destruct (H a (or_introl eq_refl)) as (b & E). rewrite E. cbn [gbind].
  destruct (IH (fun x Hx => H x (or_intror Hx))) as (bs & Eb). rewrite Eb. cbn [gbind]. eauto.
Qed.
Lemma map_res_clean {A B} (f : A -> gres B) l :
  (forall a, In a l -> clean (f a) (fun _ => True)) -> clean (map_res f l) (fun _ => True).
Proof.
  induction l as [|a r IH]; intros H; cbn [map_res]; [exact I|].
  eapply clean_bind; [apply H; left; reflexivity|]. intros b _. cbn beta.
  eapply clean_bind; [apply IH; intros x Hx; apply H; right; exact Hx|]. intros bs _. exact I.
Qed.

Lemma prepare_ok e : legal_pegasus_name (id_name (e_id e)) = true -> legal_ns (id_ns (e_id e)) = true ->
  exists p, prepare e = Ok p.
Proof.
  intros Hn Hs. unfold prepare, ns_parts.
  destruct (map_res_ok exported_identifier (split_on c_dot (id_ns (e_id e)))) as (parts & Ep).
  { intros a Ha. unfold legal_ns in Hs. rewrite forallb_forall in Hs.
    destruct (exported_identifier_valid a (Hs a Ha)) as (r & Er & _). eauto. }
  rewrite Ep. cbn [gbind]. destruct (exported_identifier_valid _ Hn) as (nm & En & _). rewrite En. cbn [gbind]. eauto.
Qed.

Lemma try_attempts_clean : forall left attempt g, clean (try_attempts left attempt g) (fun _ => True).
Proof. induction left as [|l IH]; intros attempt g; cbn [try_attempts]; [exact I|]. destruct (nodupb _); [exact I|apply IH]. Qed.

Lemma resolve_conflicts_clean g : (forall e, In e g -> legal_pegasus_name (id_name (e_id e)) = true /\ legal_ns (id_ns (e_id e)) = true) ->
  clean (resolve_conflicts g) (fun _ => True).
Proof.
  intros H. unfold resolve_conflicts. destruct g as [|a [|b g]]; try exact I.
  destruct (map_res_ok prepare (a :: b :: g)) as (ps & Ep).
  { intros e He. destruct (H e He). apply prepare_ok; assumption. }
  rewrite Ep. cbn [gbind]. apply try_attempts_clean.
Qed.

Lemma remediate_clean reg : names_legal reg -> clean (remediate reg) (fun _ => True).
Proof.
  intros NL. unfold remediate. apply map_res_clean. intros e He. unfold remediate_entry.
  destruct (e_cyc e); [|exact I].
  eapply clean_bind.
  - apply resolve_conflicts_clean. intros u Hu. unfold group_of in Hu. apply filter_In in Hu as [Hu _]. apply NL; exact Hu.
  - intros ov _. cbn beta. destruct (assoc ov (e_id e)); exact I.
Qed.

Definition wf_core (reg : registry) : Prop :=
  forallb (fun e => forallb (known reg) (e_refs e)) reg = true /\
  forallb (fun e => legal_pegasus_name (id_name (e_id e)) && legal_ns (id_ns (e_id e))) reg = true.

Lemma legal_ns_nonempty ns : legal_ns ns = true -> ns <> [].
Proof. intros H ->. vm_compute in H. discriminate. Qed.

Lemma wf_core_closed reg : wf_core reg -> closed reg /\ names_legal reg.
Proof.
  intros [H1 H2]. rewrite forallb_forall in H1, H2. split.
  - intros e He. specialize (H2 e He). apply andb_true_iff in H2 as [_ H2]. split; [apply legal_ns_nonempty; exact H2|].
    intros d Hd. apply known_iff. specialize (H1 e He). rewrite forallb_forall in H1. auto.
  - intros e He. specialize (H2 e He). apply andb_true_iff in H2. exact H2.
Qed.

Lemma mono_names_legal a b : mono a b -> names_legal a -> names_legal b.
Proof. intros M NL e' He'. destruct (mono_In _ _ _ M He') as (e & He & (A1&_)). rewrite A1. apply NL; exact He. Qed.

(* registry_total: Finalize terminates within the fuel, never panics, and the only ways it does not succeed are the two
   documented Go errors *)
Theorem registry_total : forall reg, wf_core reg ->
  match finalize reg with Ok _ => True | Err ECrossRootCycle => True | Err ERename => True | _ => False end.
Proof.
  intros reg W. destruct (wf_core_closed reg W) as [C NL]. destruct W as [W1 _].
  assert (G : clean (finalize reg) (fun _ => True)).
  { unfold finalize, validate. rewrite W1. cbn [gbind]. eapply clean_bind.
    - unfold flag_cyclic_dependencies. apply flag_all_ok; [exact C|reflexivity|].
      intros i Hi. apply in_map_iff in Hi as (e & <- & He). destruct (In_lookup _ _ He) as (u & Lu). exists u; exact Lu.
    - intros reg1 M. cbn beta. apply remediate_clean. eapply mono_names_legal; eauto. }
  exact G.
Qed.

(* ================================================================================================================ *)
(* Inputs whose package graph is already acyclic: nothing is flagged, nothing is renamed, for every iteration order   *)

Definition pk (reg : registry) (i : ident) : bytes := match lookup reg i with Some e => entry_pkg e | None => [] end.
Definition step (reg : registry) (a b : ident) : Prop := exists e, lookup reg a = Some e /\ In b (e_refs e).
(* the package graph of the input is stratified by [rank]: a reference stays in its package or goes strictly down *)
Definition stratified (rank : bytes -> nat) (reg : registry) : Prop :=
  forall a b, step reg a b -> pk reg b = pk reg a \/ rank (pk reg b) < rank (pk reg a).
Definition unflagged_all (reg : registry) : Prop := forall e, In e reg -> e_cyc e = false.

Lemma pkg_of_pk reg i : closed reg -> knownP reg i -> pkg_of reg i = Ok (pk reg i).
Proof.
  intros C [e L]. destruct (lookup_In _ _ _ L) as [Hin E]. destruct (C e Hin) as [N _]. rewrite E in N.
  unfold pkg_of, pk. destruct (id_ns i) eqn:Ns; [congruence|]. unfold get. rewrite L. reflexivity.
Qed.

Fixpoint revchain (reg : registry) (rp : list ident) (succ : ident) : Prop :=
  match rp with [] => True | x :: r => step reg x succ /\ revchain reg r x end.

Lemma ic_loop_strat rank reg np next : closed reg -> stratified rank reg ->
  forall rp succ suffix inSame, revchain reg rp succ -> Forall (knownP reg) rp ->
    (inSame = true -> pk reg succ = np) -> (inSame = false -> rank np < rank (pk reg succ)) ->
    ic_loop reg np next rp suffix inSame = Ok [].
Proof.
  intros C S. induction rp as [|x r IH]; intros succ suffix inSame RC K HT HF; cbn [ic_loop]; [reflexivity|].
  destruct RC as [St RC]. inversion K as [|? ? Kx Kr]; subst.
  rewrite (pkg_of_pk _ _ C Kx). cbn [gbind].
  destruct (S _ _ St) as [Eq|Lt]; destruct (bytes_eqb (pk reg x) np) eqn:E; cbn [negb].
  - apply bytes_eqb_eq in E. destruct inSame; cbn [negb].
    + apply (IH x); auto; congruence.
    + specialize (HF eq_refl). rewrite Eq, E in HF. lia.
  - apply bytes_eqb_neq in E. apply (IH x); auto; try congruence. intros _. destruct inSame.
    + specialize (HT eq_refl). congruence.
    + specialize (HF eq_refl). rewrite Eq in HF. exact HF.
  - apply bytes_eqb_eq in E. destruct inSame; cbn [negb].
    + apply (IH x); auto; congruence.
    + specialize (HF eq_refl). rewrite E in Lt. lia.
  - apply (IH x); auto; try congruence. intros _. destruct inSame.
    + specialize (HT eq_refl). rewrite HT in Lt. exact Lt.
    + specialize (HF eq_refl). lia.
Qed.

Lemma introduces_cycle_strat rank reg path next : closed reg -> stratified rank reg -> knownP reg next ->
  Forall (knownP reg) path -> revchain reg (rev path) next -> introduces_cycle reg path next = Ok [].
Proof.
  intros C S Kn Kp RC. unfold introduces_cycle. rewrite (pkg_of_pk _ _ C Kn). cbn [gbind].
  eapply ic_loop_strat; eauto.
  - apply Forall_forall. intros x Hx. apply in_rev in Hx. rewrite Forall_forall in Kp. auto.
  - discriminate.
Qed.

Lemma find_cycle_strat rank : forall f reg next path, closed reg -> unflagged_all reg -> stratified rank reg ->
  knownP reg next -> Forall (knownP reg) path -> NoDup path -> revchain reg (rev path) next ->
  length reg < f + length path -> find_cycle f reg next path = Ok [].
Proof.
  induction f as [|f IH]; intros reg next path C U S Kn Kp ND RC Len.
  { pose proof (path_bound _ _ ND Kp). simpl in Len. lia. }
  cbn [find_cycle]. rewrite (introduces_cycle_strat rank _ _ _ C S Kn Kp RC). cbn [gbind].
  destruct (seen path next) eqn:Seen; [reflexivity|].
  destruct (get_known _ _ Kn) as (e & G & L). rewrite G. cbn [gbind].
  destruct (lookup_In _ _ _ L) as [Hin _]. destruct (C e Hin) as [_ Refs].
  assert (ND' : NoDup (path ++ [next])).
  { eapply Permutation_NoDup; [apply Permutation_cons_append|]. constructor; [apply seen_false; exact Seen|exact ND]. }
  assert (Kp' : Forall (knownP reg) (path ++ [next])).
  { apply Forall_app. split; [exact Kp|]. constructor; [exact Kn|constructor]. }
  assert (Len' : length reg < f + length (path ++ [next])) by (rewrite app_length; simpl; lia).
  assert (Sub : forall cs, (forall c, In c cs -> In c (e_refs e)) ->
            fc_children (fun c => find_cycle f reg c (path ++ [next])) reg cs = Ok []).
  { induction cs as [|c r IHr]; intros Inc; cbn [fc_children]; [reflexivity|].
    assert (Hc : In c (e_refs e)) by (apply Inc; left; reflexivity).
    destruct (get_known _ _ (Refs c Hc)) as (ce & Gc & Lc). rewrite Gc. cbn [gbind].
    destruct (lookup_In _ _ _ Lc) as [Hce _]. rewrite (U ce Hce).
    rewrite (IH reg c (path ++ [next]) C U S (Refs c Hc) Kp' ND').
    - cbn [gbind]. apply IHr. intros x Hx. apply Inc. right. exact Hx.
    - rewrite rev_app_distr. simpl. split; [exists e; auto|exact RC].
    - exact Len'. }
  apply Sub. auto.
Qed.

Lemma map_res_id {A} (f : A -> gres A) l : (forall a, In a l -> f a = Ok a) -> map_res f l = Ok l.
Proof.
  induction l as [|a r IH]; intros H; cbn [map_res]; [reflexivity|].
  rewrite (H a (or_introl eq_refl)). cbn [gbind]. rewrite IH; [reflexivity|]. intros x Hx. apply H. right. exact Hx.
Qed.

Lemma acyclic_input_finalize rank reg : closed reg -> unflagged_all reg -> stratified rank reg -> finalize reg = Ok reg.
Proof.
  intros C U Sr. unfold finalize, validate.
  assert (V : forallb (fun e => forallb (known reg) (e_refs e)) reg = true).
  { apply forallb_forall. intros e He. apply forallb_forall. intros d Hd. apply known_iff. destruct (C e He) as [_ R]. auto. }
  rewrite V. cbn [gbind]. unfold flag_cyclic_dependencies.
  assert (FA : forall order, (forall i, In i order -> knownP reg i) -> flag_all (length reg) order reg = Ok reg).
  { induction order as [|i r IH]; intros K; cbn [flag_all]; [reflexivity|].
    cbn [flag_loop]. rewrite (find_cycle_strat rank (S (length reg)) reg i [] C U Sr (K i (or_introl eq_refl)) (Forall_nil _) (NoDup_nil _) I).
    - cbn [gbind]. apply IH. intros x Hx. apply K. right. exact Hx.
    - simpl. lia. }
  rewrite FA.
  - cbn [gbind]. unfold remediate. apply map_res_id. intros e He. unfold remediate_entry. rewrite (U e He). reflexivity.
  - intros i Hi. apply in_map_iff in Hi as (e & <- & He). destruct (In_lookup _ _ He) as (u & Lu). exists u; exact Lu.
Qed.

(* ---- iteration orders *)
Lemma lookup_perm l1 l2 i : NoDup (map e_id l1) -> Permutation l1 l2 -> lookup l1 i = lookup l2 i.
Proof.
  intros ND P. induction P as [|x l l' P IH|x y l|l l' l'' P1 IH1 P2 IH2]; simpl in *.
  - reflexivity.
  - inversion ND; subst. rewrite IH; auto.
  - inversion ND as [|? ? N1 N2]; subst. destruct (ident_eqb (e_id y) i) eqn:Ey, (ident_eqb (e_id x) i) eqn:Ex; auto.
    apply ident_eqb_eq in Ey, Ex. exfalso. apply N1. left. congruence.
  - rewrite IH1; auto. apply IH2. eapply Permutation_NoDup; [|exact ND]. apply Permutation_map. exact P1.
Qed.
Lemma lookup_F2 l l' i : Forall2 same_entry l l' ->
  match lookup l i, lookup l' i with
  | Some e, Some f => same_entry e f
  | None, None => True
  | _, _ => False
  end.
Proof.
  induction 1 as [|x y l l' Hxy Hl IH]; simpl; [exact I|].
  destruct Hxy as (A1&A2&A3&A4&A5). rewrite <- A1. destruct (ident_eqb (e_id x) i); [|exact IH].
  unfold same_entry; auto.
Qed.
Lemma reordered_lookup reg1 reg2 i : NoDup (map e_id reg1) -> reordered reg1 reg2 ->
  match lookup reg1 i, lookup reg2 i with
  | Some e, Some f => same_entry e f
  | None, None => True
  | _, _ => False
  end.
Proof. intros ND (l & P & F). rewrite (lookup_perm _ _ i ND P). apply lookup_F2. exact F. Qed.

Lemma same_entry_pkg e f : same_entry e f -> entry_pkg e = entry_pkg f /\ out_name e = out_name f.
Proof.
  intros (A1&A2&A3&A4&A5). unfold entry_pkg, seg_of, out_name. rewrite A1, A2, A4, A5. auto.
Qed.

Lemma reordered_In reg1 reg2 f : reordered reg1 reg2 -> In f reg2 -> exists e, In e reg1 /\ same_entry e f.
Proof.
  intros (l & P & F) Hf. assert (exists e, In e l /\ same_entry e f) as (e & He & S).
  { clear P. induction F as [|x y a b Hxy Hab IH]; simpl in *; [tauto|]. destruct Hf as [<-|Hf]; [eauto|].
    destruct (IH Hf) as (e & He & S). eauto. }
  exists e. split; [|exact S]. eapply Permutation_in; [apply Permutation_sym; exact P|exact He].
Qed.

Lemma reordered_known reg1 reg2 i : NoDup (map e_id reg1) -> reordered reg1 reg2 -> knownP reg1 i -> knownP reg2 i.
Proof.
  intros ND R [e L]. pose proof (reordered_lookup _ _ i ND R) as K. rewrite L in K.
  destruct (lookup reg2 i) as [f|] eqn:E; [exists f; exact E|contradiction].
Qed.

Lemma reordered_pk reg1 reg2 i : NoDup (map e_id reg1) -> reordered reg1 reg2 -> pk reg2 i = pk reg1 i.
Proof.
  intros ND R. pose proof (reordered_lookup _ _ i ND R) as K. unfold pk.
  destruct (lookup reg1 i), (lookup reg2 i); try contradiction; [|reflexivity].
  destruct (same_entry_pkg _ _ K) as [-> _]. reflexivity.
Qed.

Lemma lookup_self reg e : NoDup (map e_id reg) -> In e reg -> lookup reg (e_id e) = Some e.
Proof.
  induction reg as [|x r IH]; simpl; [tauto|]. intros ND [->|H].
  - rewrite ident_eqb_refl. reflexivity.
  - inversion ND as [|? ? N1 N2]; subst. destruct (ident_eqb (e_id x) (e_id e)) eqn:E; [|auto].
    apply ident_eqb_eq in E. exfalso. apply N1. rewrite E. apply in_map. exact H.
Qed.

Lemma reach_rank rank E : (forall p q, In (p, q) E -> rank q < rank p) -> forall p q, reach E p q -> rank q < rank p.
Proof. intros H p q R. induction R; [auto|lia]. Qed.

(* registry_order_independent / package_graph_acyclic, for inputs whose package graph is acyclic *)
Theorem acyclic_input_untouched : forall rank reg1 reg2,
  NoDup (map e_id reg1) -> closed reg1 -> unflagged_all reg1 -> stratified rank reg1 -> reordered reg1 reg2 ->
  finalize reg1 = Ok reg1 /\ finalize reg2 = Ok reg2 /\ same_assignment reg1 reg2 /\ acyclic (import_edges reg1).
Proof.
  intros rank reg1 reg2 ND C U S R.
  split; [eapply acyclic_input_finalize; eauto|]. split; [|split].
  - apply (acyclic_input_finalize rank).
    + intros f Hf. destruct (reordered_In _ _ _ R Hf) as (e & He & (A1&A2&A3&A4&A5)). destruct (C e He) as [N Rf].
      rewrite <- A1. split; [exact N|]. intros d Hd. eapply reordered_known; eauto. apply Rf.
      eapply Permutation_in; [apply Permutation_sym; exact A3|exact Hd].
    + intros f Hf. destruct (reordered_In _ _ _ R Hf) as (e & He & (A1&A2&A3&A4&A5)). rewrite <- A4. apply U; exact He.
    + intros a b (f & Lf & Hb). rewrite !(reordered_pk _ _ _ ND R). apply S.
      pose proof (reordered_lookup _ _ a ND R) as K. rewrite Lf in K. destruct (lookup reg1 a) as [e|] eqn:Le; [|contradiction].
      exists e. split; [exact Le|]. destruct K as (_&_&A3&_). eapply Permutation_in; [apply Permutation_sym; exact A3|exact Hb].
  - intros i. unfold assignment. pose proof (reordered_lookup _ _ i ND R) as K.
    destruct (lookup reg1 i), (lookup reg2 i); try contradiction; [|reflexivity].
    simpl. destruct (same_entry_pkg _ _ K) as [E1 E2]. unfold out_pkg. rewrite E1, E2. reflexivity.
  - intros p Hp. pose proof (reach_rank rank (import_edges reg1)) as RR. assert (rank p < rank p); [|lia].
    apply RR; [|exact Hp]. clear p Hp. intros p q Hin. unfold import_edges in Hin.
    apply in_flat_map in Hin as (e & He & Hin). apply in_flat_map in Hin as (d & Hd & Hin).
    destruct (lookup reg1 d) as [u|] eqn:Lu; [|destruct Hin].
    destruct (bytes_eqb (out_pkg e) (out_pkg u)) eqn:Eq; [destruct Hin|]. destruct Hin as [Hin|[]]. injection Hin as <- <-.
    assert (St : step reg1 (e_id e) d) by (exists e; split; [apply lookup_self; assumption|exact Hd]).
    destruct (S _ _ St) as [Same|Lt]; unfold pk in *; rewrite Lu, (lookup_self _ _ ND He) in *.
    + apply bytes_eqb_neq in Eq. exfalso. apply Eq. unfold out_pkg. congruence.
    + exact Lt.
Qed.

(* ================================================================================================================ *)
(* Name uniqueness: what holds.  Types that stay in their namespace package never clash with anything; every duplicate *)
(* (package, type name) pair lies inside conflictResolution (where the refutation witness lives).                     *)

Definition fresh_registry (reg : registry) : Prop := forall e, In e reg -> e_cyc e = false /\ e_ovr e = [].

(* what remediateConflictingNames may change in an entry: only the override of a cyclic entry *)
Definition rem1 (e e' : entry) : Prop :=
  e_id e' = e_id e /\ e_root e' = e_root e /\ e_cyc e' = e_cyc e /\ (e_cyc e = false -> e_ovr e' = e_ovr e).

Lemma map_res_Forall2 {A B} (f : A -> gres B) l l' : map_res f l = Ok l' -> Forall2 (fun a b => f a = Ok b) l l'.
Proof.
  revert l'. induction l as [|a r IH]; intros l'; cbn [map_res].
  - intros H; injection H as <-. constructor.
  - destruct (f a) as [b| | |] eqn:E; cbn [gbind]; try discriminate.
    destruct (map_res f r) as [bs| | |] eqn:Er; cbn [gbind]; try discriminate.
    intros H; injection H as <-. constructor; [exact E|apply IH; reflexivity].
Qed.

Lemma remediate_entry_rem1 reg e e' : remediate_entry reg e = Ok e' -> rem1 e e'.
Proof.
  unfold remediate_entry, rem1. destruct (e_cyc e) eqn:Cy.
  - destruct (resolve_conflicts (group_of reg e)) as [ov| | |]; cbn [gbind]; try discriminate.
    destruct (assoc ov (e_id e)); intros H; injection H as <-; simpl; rewrite ?Cy; repeat split; auto; discriminate.
  - intros H; injection H as <-. rewrite Cy. auto.
Qed.

Lemma Forall2_In_r {A B} (R : A -> B -> Prop) l l' b : Forall2 R l l' -> In b l' -> exists a, In a l /\ R a b.
Proof.
  induction 1 as [|x y l l' Hxy Hl IH]; simpl; [tauto|]. intros [<-|H]; [eauto|]. destruct (IH H) as (a & Ha & Hr). eauto.
Qed.

Lemma finalize_phases reg r : wf_core reg -> finalize reg = Ok r ->
  exists reg1, mono reg reg1 /\ Forall2 rem1 reg1 r.
Proof.
  intros W H. destruct (wf_core_closed reg W) as [C NL]. destruct W as [W1 _].
  unfold finalize, validate in H. rewrite W1 in H. cbn [gbind] in H.
  assert (K : forall i, In i (map e_id reg) -> knownP reg i).
  { intros i Hi. apply in_map_iff in Hi as (e & <- & He). destruct (In_lookup _ _ He) as (u & Lu). exists u; exact Lu. }
  pose proof (flag_all_ok (map e_id reg) (length reg) reg C eq_refl K) as F. unfold flag_cyclic_dependencies in H.
  destruct (flag_all (length reg) (map e_id reg) reg) as [reg1| | |]; cbn [gbind] in H; try discriminate.
  exists reg1. split; [exact F|]. unfold remediate in H. apply map_res_Forall2 in H.
  clear -H. induction H; constructor; [eapply remediate_entry_rem1; eauto|assumption].
Qed.

Lemma key_in reg e : In e reg -> In (e_root e, id_ns (e_id e)) (pkg_keys reg) /\ In (e_root e, conflict_pkg) (pkg_keys reg).
Proof. intros H. unfold pkg_keys. split; apply in_flat_map; exists e; simpl; auto. Qed.

Lemma paths_injective_spec reg a b : paths_injective reg = true -> In a (pkg_keys reg) -> In b (pkg_keys reg) ->
  package_path (fst a) (snd a) = package_path (fst b) (snd b) -> a = b.
Proof.
  unfold paths_injective. intros H Ha Hb E. rewrite forallb_forall in H. specialize (H a Ha). rewrite forallb_forall in H.
  specialize (H b Hb). rewrite E, bytes_eqb_refl in H. simpl in H. unfold key_eqb in H. apply andb_true_iff in H as [H1 H2].
  apply bytes_eqb_eq in H1, H2. destruct a, b; simpl in *; congruence.
Qed.

Theorem duplicates_only_in_conflict_resolution : forall reg r e1 e2,
  wf_core reg -> fresh_registry reg -> paths_injective reg = true -> ns_not_conflict reg = true ->
  finalize reg = Ok r -> In e1 r -> In e2 r -> e_id e1 <> e_id e2 ->
  out_pkg e1 = out_pkg e2 -> out_name e1 = out_name e2 ->
  e_cyc e1 = true /\ e_cyc e2 = true.
Proof.
  intros reg r e1 e2 W Fr PI NC Fin H1 H2 Ne Ep En.
  destruct (finalize_phases reg r W Fin) as (reg1 & M & R).
  assert (Pre : forall e, In e r -> exists y, In y reg /\ e_id e = e_id y /\ e_root e = e_root y /\
                                            (e_cyc e = false -> e_ovr e = [])).
  { intros e He. destruct (Forall2_In_r _ _ _ _ R He) as (x & Hx & (A1&A2&A3&A4)).
    destruct (mono_In _ _ _ M Hx) as (y & Hy & (B1&B2&B3&B4&B5)). exists y. split; [exact Hy|].
    split; [congruence|]. split; [congruence|]. intros Cy. rewrite A4 by congruence. rewrite B4. apply (Fr y Hy). }
  destruct (Pre e1 H1) as (y1 & Y1 & I1 & R1 & O1). destruct (Pre e2 H2) as (y2 & Y2 & I2 & R2 & O2).
  destruct (key_in reg y1 Y1) as [K1n K1c]. destruct (key_in reg y2 Y2) as [K2n K2c].
  unfold out_pkg, entry_pkg, seg_of in Ep. rewrite R1, R2, I1, I2 in Ep.
  unfold ns_not_conflict in NC. rewrite forallb_forall in NC.
  destruct (e_cyc e1) eqn:C1, (e_cyc e2) eqn:C2; [auto| | |]; exfalso.
  - pose proof (paths_injective_spec reg _ _ PI K1c K2n Ep) as E. injection E as _ E.
    specialize (NC y2 Y2). rewrite <- E, bytes_eqb_refl in NC. discriminate.
  - pose proof (paths_injective_spec reg _ _ PI K1n K2c Ep) as E. injection E as _ E.
    specialize (NC y1 Y1). rewrite E, bytes_eqb_refl in NC. discriminate.
  - pose proof (paths_injective_spec reg _ _ PI K1n K2n Ep) as E. injection E as _ E.
    unfold out_name in En. rewrite (O1 eq_refl), (O2 eq_refl), I1, I2 in En.
    apply Ne. rewrite I1, I2. destruct (e_id y1), (e_id y2); simpl in *; congruence.
Qed.

(* ================================================================================================================ *)
(* RegisterManifests (cmd/json.go): input types of all manifests first, dependency copies afterwards - the owner wins  *)

Lemma lookup_app_some reg t i e : lookup reg i = Some e -> lookup (reg ++ t) i = Some e.
Proof.
  induction reg as [|x r IH]; simpl; [discriminate|]. destruct (ident_eqb (e_id x) i); [auto|apply IH].
Qed.
Lemma lookup_app_none reg t i : lookup reg i = None -> lookup (reg ++ t) i = lookup t i.
Proof.
  induction reg as [|x r IH]; simpl; [reflexivity|]. destruct (ident_eqb (e_id x) i); [discriminate|apply IH].
Qed.

Lemma register_inv reg t reg' : register reg t = Ok reg' -> reg' = reg ++ [t] /\ lookup reg (e_id t) = None.
Proof. unfold register. destruct (lookup reg (e_id t)); [discriminate|]. intros H; injection H as <-. auto. Qed.

Lemma register_fresh reg t : lookup reg (e_id t) = None -> register reg t = Ok (reg ++ [t]).
Proof. unfold register. intros ->. reflexivity. Qed.

Lemma register_all_keeps ts : forall reg reg' i e,
  register_all reg ts = Ok reg' -> lookup reg i = Some e -> lookup reg' i = Some e.
Proof.
  induction ts as [|t r IH]; intros reg reg' i e H L; simpl in H.
  - injection H as <-. exact L.
  - destruct (register reg t) as [reg1| | |] eqn:R; simpl in H; try discriminate.
    destruct (register_inv _ _ _ R) as [-> _]. eapply IH; [exact H|]. apply lookup_app_some. exact L.
Qed.

(* every type of the first pass is filed exactly as its manifest declared it *)
Lemma register_all_finds ts : forall reg reg' t,
  register_all reg ts = Ok reg' -> In t ts -> lookup reg' (e_id t) = Some t.
Proof.
  induction ts as [|x r IH]; intros reg reg' t H Hin; simpl in H; [destruct Hin|].
  destruct (register reg x) as [reg1| | |] eqn:R; simpl in H; try discriminate.
  destruct (register_inv _ _ _ R) as [-> N]. destruct Hin as [->|Hin].
  - eapply register_all_keeps; [exact H|]. rewrite lookup_app_none by exact N. simpl. rewrite ident_eqb_refl. reflexivity.
  - eapply IH; eauto.
Qed.

Lemma register_lenient_keeps reg t i e : lookup reg i = Some e -> lookup (register_lenient reg t) i = Some e.
Proof.
  intros L. unfold register_lenient, register. destruct (lookup reg (e_id t)); [exact L|]. apply lookup_app_some. exact L.
Qed.
Lemma fold_lenient_keeps ts : forall reg i e,
  lookup reg i = Some e -> lookup (fold_left register_lenient ts reg) i = Some e.
Proof. induction ts as [|t r IH]; intros reg i e L; simpl; [exact L|]. apply IH. apply register_lenient_keeps. exact L. Qed.

Lemma register_all_total ts : forall reg,
  NoDup (map e_id (reg ++ ts)) -> (forall e, In e reg -> lookup reg (e_id e) <> None) ->
  exists reg', register_all reg ts = Ok reg'.
Proof.
  induction ts as [|t r IH]; intros reg ND _; simpl; [eauto|].
  assert (N : lookup reg (e_id t) = None).
  { destruct (lookup reg (e_id t)) as [u|] eqn:L; [|reflexivity]. exfalso.
    destruct (lookup_In _ _ _ L) as [Hin E]. rewrite map_app in ND. simpl in ND.
    apply NoDup_remove_2 in ND. apply ND. apply in_or_app. left. rewrite <- E. apply in_map. exact Hin. }
  rewrite (register_fresh _ _ N). simpl. apply IH.
  - rewrite <- app_assoc. exact ND.
  - intros e He. destruct (In_lookup _ _ He) as [u ->]. discriminate.
Qed.

Lemma In_input_entries ms m d : In m ms -> In d (m_inputs m) -> In (entry_of (m_root m) d) (input_entries ms).
Proof. intros Hm Hd. unfold input_entries. apply in_flat_map. exists m. split; [exact Hm|]. apply in_map. exact Hd. Qed.

(* the owner wins: whatever else the manifests carry as dependency copies, and in whatever order the manifests were
   read, an input type ends up under the package root of the manifest that owns it, with the references that manifest
   declared *)
Theorem owner_wins : forall init ms reg m d,
  register_inputs_then_deps init ms = Ok reg -> In m ms -> In d (m_inputs m) ->
  lookup reg (d_id d) = Some (entry_of (m_root m) d).
Proof.
  intros init ms reg m d H Hm Hd. unfold register_inputs_then_deps in H.
  destruct (register_all init (input_entries ms)) as [reg1| | |] eqn:R; simpl in H; try discriminate.
  injection H as <-. apply fold_lenient_keeps.
  apply (register_all_finds _ _ _ _ R (In_input_entries ms m d Hm Hd)).
Qed.

(* registration is total as soon as no two manifests own the same type (and none owns a native type) *)
Theorem registration_total : forall init ms,
  NoDup (map e_id (init ++ input_entries ms)) -> exists reg, register_inputs_then_deps init ms = Ok reg.
Proof.
  intros init ms ND. unfold register_inputs_then_deps.
  destruct (register_all_total (input_entries ms) init ND) as [reg1 ->].
  - intros e He. destruct (In_lookup _ _ He) as [u ->]. discriminate.
  - simpl. eauto.
Qed.

Lemma input_entries_perm ms ms' : Permutation ms ms' -> Permutation (input_entries ms) (input_entries ms').
Proof.
  unfold input_entries. induction 1; simpl.
  - constructor.
  - apply Permutation_app_head. assumption.
  - rewrite !app_assoc. apply Permutation_app_tail. apply Permutation_app_comm.
  - etransitivity; eassumption.
Qed.

(* ... and then the order in which the manifests were read does not matter for any owned type *)
Theorem registration_order_independent : forall init ms ms',
  NoDup (map e_id (init ++ input_entries ms)) -> Permutation ms ms' ->
  exists reg reg',
    register_inputs_then_deps init ms = Ok reg /\ register_inputs_then_deps init ms' = Ok reg' /\
    forall m d, In m ms -> In d (m_inputs m) ->
      lookup reg (d_id d) = Some (entry_of (m_root m) d) /\ lookup reg' (d_id d) = Some (entry_of (m_root m) d).
Proof.
  intros init ms ms' ND P.
  assert (ND' : NoDup (map e_id (init ++ input_entries ms'))).
  { eapply Permutation_NoDup; [|exact ND]. apply Permutation_map. apply Permutation_app_head. apply input_entries_perm. exact P. }
  destruct (registration_total init ms ND) as [reg R]. destruct (registration_total init ms' ND') as [reg' R'].
  exists reg, reg'. split; [exact R|]. split; [exact R'|]. intros m d Hm Hd. split.
  - eapply owner_wins; eauto.
  - eapply owner_wins; eauto. eapply Permutation_in; eauto.
Qed.

(* a witness: beta owns Money, alpha carries a copy of it and is read FIRST - Money is still filed under beta's root *)
Example owner_wins_nonvacuous :
  let money := mkId [x4d] [x62] in let cart := mkId [x43] [x61] in
  let alpha := mkManifest [x41] [mkDecl cart [money]] [mkDecl money []] in
  let beta := mkManifest [x42] [mkDecl money []] [] in
  match register_inputs_then_deps [] [alpha; beta] with
  | Ok reg => option_map e_root (lookup reg money) = Some [x42] /\ option_map e_root (lookup reg cart) = Some [x41]
  | _ => False
  end.
Proof. vm_compute. split; reflexivity. Qed.
