(* ConformProofs (C03): the encoder model (Codec/Encode.v + Codec/Render.v) against the independent reference
   Spec/RestliSpec.v.

   1. float classification of the model = the reference's [float_kind]
   2. the tree views of a document: [to_jdoc] (what the JSON rendering parses to) and [to_rtree] (ROR2)
   3. soundness of the encoder, generic in the tree type: whatever [enc] emits DENOTES the value under the data-model mapping
      of the reference (records with flattened includes, unions, maps, arrays), given soundness of the leaves
   4. JSON instance, ROR2 instance (grammar + percent-encoding: reserved characters never appear raw)
   5. emitted keys
   6. the refutation for nullable unions with no member
   7. the converse (acceptance) for the leaf / array / map fragment *)
From Coq Require Import List Bool Arith ZArith NArith Lia Permutation Sorting.Sorted.
From Coq.Strings Require Import Byte.
From GR Require Import Base.Bytes Base.Res Base.Dec Codec.Schema Codec.Doc Codec.Escape Codec.Utf8 Codec.Json Codec.Render
  Codec.Encode Codec.Tracker Codec.Decode Proofs.SortProofs Proofs.EscapeProofs Proofs.CanonProofs Proofs.Ror2NoPanic
  Spec.RestliSpec.
Import ListNotations.

(* ------------------------------------------------------------------------------------------------------------------ *)
(* 1. float kinds                                                                                                      *)
(* ------------------------------------------------------------------------------------------------------------------ *)
Definition kind_of_class (c : fclass) : fkind :=
  match c with FNaN => KNaN | FPosInf => KPosInf | FNegInf => KNegInf | FFinite => KFinite end.

Definition float_kind_g (M E b : N) : fkind :=
  let magnitude := (b mod (M * E))%N in
  if (M * (E - 1) <? magnitude)%N then KNaN
  else if (magnitude =? M * (E - 1))%N then (if (b <? M * E)%N then KPosInf else KNegInf)
  else KFinite.

Lemma kind_generic (M E b : N) : (0 < M)%N -> (1 < E)%N ->
  float_kind_g M E b =
  kind_of_class (if ((b / M) mod E =? E - 1)%N
                 then (if (b mod M =? 0)%N then (if (b / (M * E) =? 0)%N then FPosInf else FNegInf) else FNaN)
                 else FFinite).
Proof.
  intros HM HE. unfold float_kind_g. cbv zeta.
  assert (Hmag : (b mod (M * E) = b mod M + M * ((b / M) mod E))%N) by (apply N.mod_mul_r; lia).
  assert (Hm : (b mod M < M)%N) by (apply N.mod_lt; lia).
  assert (He : ((b / M) mod E < E)%N) by (apply N.mod_lt; lia).
  assert (Hs : ((b / (M * E) =? 0) = (b <? M * E))%N).
  { destruct (N.ltb_spec b (M * E)) as [L|L].
    - apply N.eqb_eq. apply N.div_small. exact L.
    - apply N.eqb_neq. intro Z. apply N.div_small_iff in Z; lia. }
  rewrite Hmag. set (m := (b mod M)%N) in *. set (x := ((b / M) mod E)%N) in *.
  destruct (N.eqb_spec x (E - 1)) as [Ex|Ex].
  - assert (Hx : (M * x = M * (E - 1))%N) by (rewrite Ex; reflexivity).
    destruct (N.eqb_spec m 0) as [Em|Em].
    + rewrite Em, N.add_0_l, Hx, N.ltb_irrefl, N.eqb_refl, Hs. destruct (b <? M * E)%N; reflexivity.
    + assert (L : (M * (E - 1) <? m + M * x = true)%N) by (apply N.ltb_lt; lia). rewrite L. reflexivity.
  - assert (Hx : (x <= E - 2)%N) by lia.
    assert (L1 : (m + M * x < M * (E - 1))%N).
    { assert (M * x <= M * (E - 2))%N by (apply N.mul_le_mono_l; exact Hx).
      assert (M * (E - 1) = M * (E - 2) + M)%N by (rewrite <- N.mul_succ_r; f_equal; lia). lia. }
    assert (L : (M * (E - 1) <? m + M * x = false)%N) by (apply N.ltb_ge; lia). rewrite L.
    assert (L' : (m + M * x =? M * (E - 1) = false)%N) by (apply N.eqb_neq; lia). rewrite L'. reflexivity.
Qed.

Lemma classify_kind is32 b : float_kind is32 b = kind_of_class (classify_float is32 b).
Proof.
  destruct is32.
  - pose proof (kind_generic 8388608 256 b ltac:(lia) ltac:(lia)) as H. exact H.
  - pose proof (kind_generic 4503599627370496 2048 b ltac:(lia) ltac:(lia)) as H. exact H.
Qed.

(* ------------------------------------------------------------------------------------------------------------------ *)
(* 2. tree views of a document                                                                                         *)
(* ------------------------------------------------------------------------------------------------------------------ *)
Section View.
  Variable T : Type.
  Variable view_leaf : Doc.leaf -> T.
  Variable mk_list : list T -> T.
  Variable mk_obj : list (bytes * T) -> T.

  Fixpoint view (d : doc) : T :=
    match d with
    | DLeaf l => view_leaf l
    | DArr items => mk_list ((fix go (l : list doc) : list T := match l with [] => [] | x :: r => view x :: go r end) items)
    | DObj ents => mk_obj ((fix go (l : list (bytes * doc)) : list (bytes * T) :=
                              match l with [] => [] | (k, x) :: r => (k, view x) :: go r end) ents)
    end.

  Definition view_ent (kd : bytes * doc) : bytes * T := (fst kd, view (snd kd)).

  Lemma view_arr items : view (DArr items) = mk_list (map view items).
  Proof. reflexivity. Qed.

  Lemma view_obj ents : view (DObj ents) = mk_obj (map view_ent ents).
  Proof.
    cbn [view]. f_equal. induction ents as [|[k x] r IH]; [reflexivity|]. cbn [map]. rewrite IH. reflexivity.
  Qed.

  Lemma view_ent_keys ents : map fst (map view_ent ents) = map fst ents.
  Proof. rewrite map_map. apply map_ext. intros [k x]. reflexivity. Qed.
End View.

(* the document as a JSON tree: what its JSON rendering stands for *)
Section ToJdoc.
  Variable fmtF : bool -> N -> bytes.
  Definition jleaf (l : Doc.leaf) : jdoc :=
    match l with
    | LInt z => JNum (print_dec z)
    | LFloat is32 bits =>
        match classify_float is32 bits with
        | FNaN => JStr s_nan | FPosInf => JStr s_inf | FNegInf => JStr s_ninf
        | FFinite => JNum (fmtF is32 bits)
        end
    | LBool b => JBool b
    | LStr s => JStr s
    | LBytes s => JStr (latin1_utf8 s)
    end.
  Definition to_jdoc : doc -> jdoc := view jdoc jleaf JArr JObj.
End ToJdoc.

(* the leaf an encodable leaf value is turned into *)
Definition leaf_of (t : ty) (v : value) : option Doc.leaf :=
  match t, v with
  | TPrim PInt, VInt z => Some (LInt z)
  | TPrim PLong, VLong z => Some (LInt z)
  | TPrim PFloat, VFloat b => Some (LFloat true b)
  | TPrim PDouble, VDouble b => Some (LFloat false b)
  | TPrim PBool, VBool b => Some (LBool b)
  | TPrim PString, VStr s => Some (LStr s)
  | TPrim PBytes, VBytes s => Some (LBytes s)
  | TEnum syms, VEnum (S i) => option_map LStr (nth_error syms i)
  | TFixed n, VFixed s => Some (LBytes s)
  | _, _ => None
  end.

Lemma enc_body_leaf e w x rec scope t v d :
  is_leaf_ty t = true -> enc_body e w x rec scope t v = Ok d -> exists l, d = DLeaf l /\ leaf_of t v = Some l.
Proof.
  intros Hl H. destruct t as [p|syms|sz|n|t'|t']; try discriminate Hl.
  - destruct p; destruct v; simpl in H; try discriminate; inversion H; subst; eexists; split; reflexivity.
  - destruct v; simpl in H; try discriminate. destruct k; [discriminate|].
    destruct (nth_error syms k) eqn:E; inversion H; subst. eexists; split; [reflexivity|]. simpl. rewrite E. reflexivity.
  - destruct v; simpl in H; try discriminate. inversion H; subst. eexists; split; reflexivity.
Qed.

Lemma ps_empty_never_matches w path : ps_matches w ps_empty path = false.
Proof. destruct path; reflexivity. Qed.

Lemma enc_key_all w rec scope k t v a :
  enc_key w ps_empty rec scope k t v = Ok a -> exists d, a = [(k, d)] /\ rec (scope ++ [k]) t v = Ok d.
Proof.
  unfold enc_key, excluded. rewrite ps_empty_never_matches.
  destruct (rec (scope ++ [k]) t v) as [d| |]; simpl; intros H; inversion H. exists d. split; reflexivity.
Qed.

(* values without a nullable union whose null member is selected *)
Definition is_leaf_value (v : value) : bool :=
  match v with VRec _ _ | VUnion _ | VArr _ | VMap _ => false | _ => true end.

Inductive nonnull : value -> Prop :=
| nn_leaf v : is_leaf_value v = true -> nonnull v
| nn_rec i f : Forall nonnull i -> Forall (oall nonnull) f -> nonnull (VRec i f)
| nn_union m : Forall (oall nonnull) m -> Exists (fun o => o <> None) m -> nonnull (VUnion m)
| nn_arr l : Forall nonnull l -> nonnull (VArr l)
| nn_map es : Forall (fun kv => nonnull (snd kv)) es -> nonnull (VMap es).

(* ------------------------------------------------------------------------------------------------------------------ *)
(* 3. soundness of the encoder, generic in the tree type                                                               *)
(* ------------------------------------------------------------------------------------------------------------------ *)
Section Sound.
  Variable e : env.
  Variable w : bytes.
  Variable names : nat -> list bytes.
  Hypothesis Hwf : names_ok e names.

  Variable T : Type.
  Variable obj_of : T -> option (list (bytes * T)).
  Variable list_of : T -> option (list T).
  Variable is_null : T -> Prop.
  Variable lf : ty -> T -> value -> Prop.
  Variable view_leaf : Doc.leaf -> T.
  Variable mk_list : list T -> T.
  Variable mk_obj : list (bytes * T) -> T.
  Hypothesis Hobj : forall ms, obj_of (mk_obj ms) = Some ms.
  Hypothesis Hlist : forall xs, list_of (mk_list xs) = Some xs.
  Hypothesis Hleaf : forall t v l, leaf_of t v = Some l -> lf t (view_leaf l) v.

  Notation view := (view T view_leaf mk_list mk_obj).
  Notation view_ent := (view_ent T view_leaf mk_list mk_obj).
  Notation denotes := (denotes e T obj_of list_of is_null lf).
  Notation record_denotes := (record_denotes e T obj_of list_of is_null lf).
  Notation includes_denote := (includes_denote e T obj_of list_of is_null lf).
  Notation fields_denote := (fields_denote e T obj_of list_of is_null lf).
  Notation items_denote := (items_denote e T obj_of list_of is_null lf).
  Notation entries_denote := (entries_denote e T obj_of list_of is_null lf).
  Notation member_denotes := (member_denotes e T obj_of list_of is_null lf).

  (* the invariant: the view of the emitted document denotes the value; for a record, the emitted entries make ANY object
     that contains them - and no other member named like a field of the record - denote the record (this is what lets the
     fields of included records be flattened into the including object) *)
  Definition sound (t : ty) (v : value) (d : doc) : Prop :=
    denotes t (view d) v /\
    forall n incs fs ents, t = TRef n -> lookup e n = Some (DRecord incs fs) -> d = DObj ents ->
      forall ms, (forall k d', In (k, d') ents -> In (k, view d') ms) ->
                 (forall k, In k (map fst ms) -> In k (names n) -> In k (map fst ents)) ->
                 record_denotes n ms v.

  Variable rec : list bytes -> ty -> value -> res doc.
  Hypothesis Hrec : forall scope t v d, keys_nodup v -> nonnull v -> rec scope t v = Ok d -> sound t v d.
  Hypothesis Hgood : forall scope t v d, keys_nodup v -> rec scope t v = Ok d -> good e names t d.

  Lemma mapM_sound scope t l ds :
    Forall keys_nodup l -> Forall nonnull l -> mapM (rec scope t) l = Ok ds -> items_denote t (map view ds) l.
  Proof.
    revert ds. induction l as [|v r IH]; intros ds HK HN H; simpl in H.
    - inversion H; subst. constructor.
    - inversion HK as [|? ? Hv Hr]; subst. inversion HN as [|? ? Nv Nr]; subst.
      destruct (rec scope t v) as [d| |] eqn:Ed; simpl in H; try discriminate.
      destruct (mapM (rec scope t) r) as [ds'| |] eqn:Er; simpl in H; try discriminate.
      inversion H; subst. cbn [map]. constructor; [apply (Hrec _ _ _ _ Hv Nv Ed) | apply IH; auto].
  Qed.

  (* with no excluded field every map entry is emitted, in order *)
  Lemma map_entries_all scope t es ents :
    map_entries w ps_empty rec scope t es = Ok ents ->
    Forall2 (fun kv kd => fst kd = fst kv /\ rec (scope ++ [fst kv]) t (snd kv) = Ok (snd kd)) es ents.
  Proof.
    revert ents. induction es as [|[k v] r IH]; intros ents H.
    - simpl in H. inversion H; subst. constructor.
    - rewrite map_entries_cons in H.
      destruct (enc_key w ps_empty rec scope k t v) as [a| |] eqn:Ea; simpl in H; try discriminate.
      destruct (map_entries w ps_empty rec scope t r) as [b| |] eqn:Eb; simpl in H; try discriminate.
      inversion H; subst ents; clear H.
      apply enc_key_all in Ea as [d [-> Hd]]. simpl. constructor; [split; [reflexivity | exact Hd] | apply IH; reflexivity].
  Qed.

  Lemma map_entries_keys scope t es ents :
    map_entries w ps_empty rec scope t es = Ok ents -> map fst ents = map fst es.
  Proof.
    intros H. apply map_entries_all in H. induction H as [|kv kd es' ents' [Hk _] _ IH]; [reflexivity|].
    cbn [map]. rewrite Hk, IH. reflexivity.
  Qed.

  Lemma map_entries_sound scope t es ents ms :
    Forall (fun kv => keys_nodup (snd kv)) es -> Forall (fun kv => nonnull (snd kv)) es ->
    map_entries w ps_empty rec scope t es = Ok ents ->
    (forall k d', In (k, d') ents -> In (k, view d') ms) ->
    entries_denote t ms es.
  Proof.
    intros HK HN H. apply map_entries_all in H. revert HK HN.
    induction H as [|[k v] [k' d'] es' ents' [Hk Hd] _ IH]; intros HK HN Hin; [constructor|].
    simpl in Hk, Hd. subst k'. inversion HK as [|? ? Kv Kr]; subst. inversion HN as [|? ? Nv Nr]; subst.
    apply en_cons with (x := view d').
    - apply Hin. left; reflexivity.
    - apply (Hrec _ _ _ _ Kv Nv Hd).
    - apply IH; auto. intros k0 d0 H0. apply Hin. right; exact H0.
  Qed.

  (* own fields *)
  Lemma fields_sound scope fs : forall fvs b,
    Forall (oall keys_nodup) fvs -> Forall (oall nonnull) fvs ->
    fields_entries w ps_empty rec scope fs fvs = Ok b -> NoDup (map f_name fs) ->
    forall ms, (forall k d', In (k, d') b -> In (k, view d') ms) ->
               (forall k, In k (map fst ms) -> In k (map f_name fs) -> In k (map fst b)) ->
               fields_denote ms fs fvs.
  Proof.
    induction fs as [|fd fs IH]; intros [|ov fvs] b HK HN H HD ms H1 H2; try discriminate.
    - constructor.
    - inversion HK as [|? ? Kov Kr]; subst. inversion HN as [|? ? Nov Nr]; subst.
      rewrite fields_entries_cons in H.
      match type of H with bind ?r _ = _ => destruct r as [here| |] eqn:Eh end; simpl in H; try discriminate.
      destruct (fields_entries w ps_empty rec scope fs fvs) as [rest| |] eqn:Er; simpl in H; try discriminate.
      inversion H; subst b; clear H.
      cbn [map] in HD. inversion HD as [|? ? Hname HD']; subst.
      destruct (fields_entries_ok _ _ _ _ _ Hgood _ _ _ _ Kr Er) as [_ [Hkeys _]].
      destruct ov as [v|].
      + inversion Kov as [|? Kv]; subst. inversion Nov as [|? Nv]; subst.
        apply enc_key_all in Eh as [d [-> Hd]].
        apply fl_set with (x := view d).
        * apply H1. left; reflexivity.
        * apply (Hrec _ _ _ _ Kv Nv Hd).
        * apply (IH fvs rest Kr Nr Er HD').
          -- intros k d' Hin. apply H1. right; exact Hin.
          -- intros k Hk Hf. specialize (H2 k Hk (or_intror Hf)). simpl in H2. destruct H2 as [E|E]; [|exact E].
             subst k. contradiction.
      + destruct (is_required (f_opt fd)) eqn:Ereq; [discriminate|]. inversion Eh; subst here; clear Eh. simpl in *.
        apply fl_unset.
        * exact Ereq.
        * intros x Hx. exfalso. apply Hname. apply Hkeys. apply H2.
          -- apply in_map_iff. exists (f_name fd, x). split; [reflexivity | exact Hx].
          -- left; reflexivity.
        * apply (IH fvs rest Kr Nr Er HD' ms H1).
          intros k Hk Hf. apply H2; [exact Hk | right; exact Hf].
  Qed.

  (* included records: their entries are members of the same object *)
  Lemma incs_sound scope incs : forall ivs a,
    Forall keys_nodup ivs -> Forall nonnull ivs ->
    Forall (fun i => exists incs' fs', lookup e i = Some (DRecord incs' fs')) incs ->
    inc_entries rec scope incs ivs = Ok a -> NoDup (flat_map names incs) ->
    forall ms, (forall k d', In (k, d') a -> In (k, view d') ms) ->
               (forall k, In k (map fst ms) -> In k (flat_map names incs) -> In k (map fst a)) ->
               includes_denote ms incs ivs.
  Proof.
    induction incs as [|i incs IH]; intros [|iv ivs] a HK HN HR H HD ms H1 H2; try discriminate.
    - constructor.
    - inversion HK as [|? ? Kiv Kr]; subst. inversion HN as [|? ? Niv Nr]; subst.
      inversion HR as [|? ? [incs' [fs' Hi]] HRs]; subst.
      rewrite inc_entries_cons in H.
      destruct (rec scope (TRef i) iv) as [d| |] eqn:Ed; simpl in H; try discriminate.
      destruct d as [?|?|ai]; simpl in H; try discriminate.
      destruct (inc_entries rec scope incs ivs) as [ar| |] eqn:Eb; simpl in H; try discriminate.
      inversion H; subst a; clear H.
      cbn [flat_map] in HD.
      destruct (Hgood _ _ _ _ Kiv Ed) as [_ Hn]. specialize (Hn i incs' fs' ai eq_refl Hi eq_refl).
      destruct (inc_entries_ok _ _ _ Hgood _ _ _ _ Kr HRs Eb) as [_ [Hr _]].
      constructor.
      + destruct (Hrec _ _ _ _ Kiv Niv Ed) as [_ Hs].
        apply (Hs i incs' fs' ai eq_refl Hi eq_refl ms).
        * intros k d' Hin. apply H1. apply in_or_app. left; exact Hin.
        * intros k Hk Hni. specialize (H2 k Hk). cbn [flat_map] in H2. specialize (H2 (in_or_app _ _ _ (or_introl Hni))).
          rewrite map_app in H2. apply in_app_or in H2 as [E|E]; [exact E|]. exfalso.
          apply (NoDup_app_disjoint _ _ k HD Hni). apply Hr. exact E.
      + apply (IH ivs ar Kr Nr HRs Eb (NoDup_app_r _ _ HD) ms).
        * intros k d' Hin. apply H1. apply in_or_app. right; exact Hin.
        * intros k Hk Hni. specialize (H2 k Hk). cbn [flat_map] in H2. specialize (H2 (in_or_app _ _ _ (or_intror Hni))).
          rewrite map_app in H2. apply in_app_or in H2 as [E|E]; [|exact E]. exfalso.
          apply (NoDup_app_disjoint _ _ k HD); [apply Hn; exact E | exact Hni].
  Qed.

  (* unions *)
  Lemma union_rest scope mts : forall vs r,
    union_entries w ps_empty rec scope mts vs true = Ok r -> vs = map (fun _ => None) mts /\ fst r = [].
  Proof.
    induction mts as [|[alias mt] mts IH]; intros [|ov vs] r H; try discriminate.
    - inversion H; subst. split; reflexivity.
    - rewrite union_entries_cons in H. destruct ov; [discriminate|].
      destruct (IH vs r H) as [-> Hr]. split; [reflexivity | exact Hr].
  Qed.

  Lemma union_sound scope mts : forall vs r,
    Forall (oall keys_nodup) vs -> Forall (oall nonnull) vs -> Exists (fun o => o <> None) vs ->
    union_entries w ps_empty rec scope mts vs false = Ok r ->
    exists alias d, fst r = [(alias, d)] /\ member_denotes mts alias (view d) vs.
  Proof.
    induction mts as [|[alias mt] mts IH]; intros [|ov vs] r HK HN HE H; try discriminate.
    - inversion HE.
    - inversion HK as [|? ? Kov Kr]; subst. inversion HN as [|? ? Nov Nr]; subst.
      rewrite union_entries_cons in H. destruct ov as [v|].
      + inversion Kov as [|? Kv]; subst. inversion Nov as [|? Nv]; subst.
        destruct (enc_key w ps_empty rec scope alias mt v) as [a| |] eqn:Ea; simpl in H; try discriminate.
        destruct (union_entries w ps_empty rec scope mts vs true) as [br| |] eqn:Eb; simpl in H; try discriminate.
        inversion H; subst r; clear H. simpl.
        apply enc_key_all in Ea as [d [-> Hd]]. apply union_rest in Eb as [-> Eb]. rewrite Eb.
        exists alias, d. split; [reflexivity|]. apply mb_here. apply (Hrec _ _ _ _ Kv Nv Hd).
      + inversion HE as [? ? Hx|? ? HE']; subst; [contradiction Hx; reflexivity|].
        destruct (IH vs r Kr Nr HE' H) as [al [d [Hr Hm]]]. exists al, d. split; [exact Hr|]. apply mb_later. exact Hm.
  Qed.

  Lemma In_sorted_iff {A} (l : list (bytes * A)) x : In x (sort_entries l) <-> In x l.
  Proof.
    split; intros H.
    - apply (Permutation_in _ (sort_entries_perm l)). exact H.
    - apply (Permutation_in _ (Permutation_sym (sort_entries_perm l))). exact H.
  Qed.

  Lemma enc_body_sound scope t v d :
    keys_nodup v -> nonnull v -> enc_body e w ps_empty rec scope t v = Ok d -> sound t v d.
  Proof.
    intros Hk Hn H.
    destruct (is_leaf_ty t) eqn:Elt.
    { destruct (enc_body_leaf _ _ _ _ _ _ _ _ Elt H) as [l [-> Hl]]. split.
      - apply dn_leaf; [exact Elt|]. apply Hleaf. exact Hl.
      - intros n incs fs ents Et. subst t. discriminate Elt. }
    destruct t as [p|syms|sz|n|t'|t']; try discriminate Elt; destruct v; simpl in H; try discriminate.
    - (* record *)
      destruct (lookup e n) as [[incs0 fs0|nullable mems]|] eqn:El; try discriminate.
      destruct (Hwf n incs0 fs0 El) as [HN [HI HR]].
      inversion Hk as [| | | | | | | | |? ? Hki Hkf| | |]; subst.
      inversion Hn as [? Hlv|? ? Hni Hnf| | |]; subst; [discriminate Hlv|].
      destruct (inc_entries rec scope incs0 incs) as [a| |] eqn:Ea; simpl in H; try discriminate.
      destruct (fields_entries w ps_empty rec scope fs0 fields) as [b| |] eqn:Eb; simpl in H; try discriminate.
      inversion H; subst d; clear H.
      destruct (inc_entries_ok _ _ _ Hgood _ _ _ _ Hki HR Ea) as [NDa [Ha _]].
      destruct (fields_entries_ok _ _ _ _ _ Hgood _ _ _ _ Hkf Eb) as [NDb [Hb _]].
      assert (Frame : forall ms, (forall k d', In (k, d') (sort_entries (a ++ b)) -> In (k, view d') ms) ->
                 (forall k, In k (map fst ms) -> In k (names n) -> In k (map fst (sort_entries (a ++ b)))) ->
                 record_denotes n ms (VRec incs fields)).
      { intros ms H1 H2.
        assert (H2' : forall k, In k (map fst ms) -> In k (flat_map names incs0 ++ map f_name fs0) -> In k (map fst a ++ map fst b)).
        { intros k Hkm Hkn. specialize (H2 k Hkm (HI k Hkn)).
          apply (Permutation_in _ (sort_entries_keys_perm (a ++ b))) in H2. rewrite map_app in H2. exact H2. }
        apply rc_intro with (incs := incs0) (fs := fs0); [exact El | |].
        - apply (incs_sound scope incs0 incs a Hki Hni HR Ea (NoDup_app_l _ _ HN) ms).
          + intros k d' Hin. apply H1. apply In_sorted_iff. apply in_or_app. left; exact Hin.
          + intros k Hkm Hkn. specialize (H2' k Hkm (in_or_app _ _ _ (or_introl Hkn))).
            apply in_app_or in H2' as [E|E]; [exact E|]. exfalso.
            apply (NoDup_app_disjoint _ _ k HN Hkn). apply Hb. exact E.
        - apply (fields_sound scope fs0 fields b Hkf Hnf Eb (NoDup_app_r _ _ HN) ms).
          + intros k d' Hin. apply H1. apply In_sorted_iff. apply in_or_app. right; exact Hin.
          + intros k Hkm Hkn. specialize (H2' k Hkm (in_or_app _ _ _ (or_intror Hkn))).
            apply in_app_or in H2' as [E|E]; [|exact E]. exfalso.
            apply (NoDup_app_disjoint _ _ k HN); [apply Ha; exact E | exact Hkn]. }
      split.
      + rewrite view_obj. apply dn_record with (ms := map view_ent (sort_entries (a ++ b))).
        * apply Hobj.
        * rewrite view_ent_keys. apply strictly_sorted_nodup. apply sort_entries_sorted.
          rewrite map_app. apply (NoDup_app_incl (flat_map names incs0) (map f_name fs0)); try assumption.
          -- apply NDa. apply (NoDup_app_l _ _ HN).
          -- apply NDb. apply (NoDup_app_r _ _ HN).
        * apply Frame.
          -- intros k d' Hin. apply in_map_iff. exists (k, d'). split; [reflexivity | exact Hin].
          -- intros k Hkm _. rewrite view_ent_keys in Hkm. exact Hkm.
      + intros n' incs' fs' ents Et El' Ed. inversion Et; subst n'. inversion Ed; subst ents. apply Frame.
    - (* union *)
      destruct (lookup e n) as [[incs0 fs0|nullable mems]|] eqn:El; try discriminate.
      inversion Hk as [| | | | | | | | | |? Hkm| |]; subst.
      inversion Hn as [? Hlv| |? Hnm Hex| |]; subst; [discriminate Hlv|].
      destruct (union_entries w ps_empty rec scope mems members false) as [r| |] eqn:Er; simpl in H; try discriminate.
      destruct (negb nullable && negb (snd r)); inversion H; subst d; clear H.
      destruct (union_sound _ _ _ _ Hkm Hnm Hex Er) as [alias [d [Hr Hm]]]. rewrite Hr. cbn [sort_entries insert_entry].
      split.
      + rewrite view_obj. cbn [map]. eapply dn_union; [exact El | apply Hobj | exact Hm].
      + intros n' incs' fs' ents Et El'. inversion Et; subst n'. congruence.
    - (* array *)
      inversion Hk as [| | | | | | | | | | |? Hkl|]; subst.
      inversion Hn as [? Hlv| | |? Hnl|]; subst; [discriminate Hlv|].
      destruct (mapM (rec (scope ++ [w]) t') l) as [ds| |] eqn:Em; simpl in H; try discriminate.
      inversion H; subst d. split; [|intros; discriminate].
      rewrite view_arr. eapply dn_array; [apply Hlist|]. eapply mapM_sound; eassumption.
    - (* map *)
      inversion Hk as [| | | | | | | | | | | |? HND HK]; subst.
      inversion Hn as [? Hlv| | | |? Hne]; subst; [discriminate Hlv|].
      destruct (map_entries w ps_empty rec scope t' es) as [ents| |] eqn:Em; simpl in H; try discriminate.
      inversion H; subst d. split; [|intros; discriminate].
      pose proof (map_entries_keys _ _ _ _ Em) as Hkeys.
      rewrite view_obj. apply dn_map with (ms := map view_ent (sort_entries ents)).
      + apply Hobj.
      + rewrite view_ent_keys. apply (Permutation_NoDup (Permutation_sym (sort_entries_keys_perm ents))). rewrite Hkeys. exact HND.
      + apply (map_entries_sound scope t' es ents _ HK Hne Em).
        intros k d' Hin. apply in_map_iff. exists (k, d'). split; [reflexivity | apply In_sorted_iff; exact Hin].
      + rewrite view_ent_keys. intros k Hin. rewrite <- Hkeys.
        apply (Permutation_in _ (sort_entries_keys_perm ents)). exact Hin.
  Qed.
End Sound.

Section SoundThm.
  Variable e : env.
  Variable w : bytes.
  Variable T : Type.
  Variable obj_of : T -> option (list (bytes * T)).
  Variable list_of : T -> option (list T).
  Variable is_null : T -> Prop.
  Variable lf : ty -> T -> value -> Prop.
  Variable view_leaf : Doc.leaf -> T.
  Variable mk_list : list T -> T.
  Variable mk_obj : list (bytes * T) -> T.
  Hypothesis Hobj : forall ms, obj_of (mk_obj ms) = Some ms.
  Hypothesis Hlist : forall xs, list_of (mk_list xs) = Some xs.
  Hypothesis Hleaf : forall t v l, leaf_of t v = Some l -> lf t (view_leaf l) v.

  Theorem enc_sound : forall names, names_ok e names -> forall fuel scope t v d,
    keys_nodup v -> nonnull v -> enc e w ps_empty fuel scope t v = Ok d ->
    sound e names T obj_of list_of is_null lf view_leaf mk_list mk_obj t v d.
  Proof.
    intros names Hwf fuel. induction fuel as [|f IH]; intros scope t v d Hk Hn H; [discriminate|].
    rewrite enc_S in H.
    eapply (enc_body_sound e w names Hwf T obj_of list_of is_null lf view_leaf mk_list mk_obj Hobj Hlist Hleaf (enc e w ps_empty f)).
    - exact IH.
    - intros sc t0 v0 d0 Hk0 H0. eapply keys_ascending_names; eassumption.
    - exact Hk.
    - exact Hn.
    - exact H.
  Qed.

  Corollary enc_denotes : forall fuel scope t v d,
    wf_env e -> keys_nodup v -> nonnull v -> enc e w ps_empty fuel scope t v = Ok d ->
    denotes e T obj_of list_of is_null lf t (view T view_leaf mk_list mk_obj d) v.
  Proof. intros fuel scope t v d [names Hwf] Hk Hn H. apply (enc_sound names Hwf fuel scope t v d Hk Hn H). Qed.
End SoundThm.

(* ------------------------------------------------------------------------------------------------------------------ *)
(* 4a. JSON                                                                                                            *)
(* ------------------------------------------------------------------------------------------------------------------ *)
Lemma latin1_utf8_text s : latin1_text (latin1_utf8 s) s.
Proof.
  induction s as [|c s IH]; [constructor|]. unfold latin1_utf8 in *. cbn [flat_map]. constructor. exact IH.
Qed.

Lemma reserved_of_class is32 b :
  classify_float is32 b <> FFinite ->
  reserved_float_text (float_kind is32 b) =
  Some (match classify_float is32 b with FNaN => s_nan | FPosInf => s_inf | FNegInf => s_ninf | FFinite => [] end).
Proof. rewrite classify_kind. destruct (classify_float is32 b); intros H; try reflexivity. contradiction H; reflexivity. Qed.

Section JsonSound.
  Variable e : env.
  Variable float_text : bool -> bytes -> N -> Prop.
  Variable fmtF : bool -> N -> bytes.
  (* oracle premise: the text Go prints for a finite float denotes that float *)
  Hypothesis Hfmt : forall is32 b, float_kind is32 b = KFinite -> float_text is32 (fmtF is32 b) b.

  Lemma json_leaf_sound t v l : leaf_of t v = Some l -> json_leaf float_text t (jleaf fmtF l) v.
  Proof.
    intros H. destruct t as [p|syms|sz|n|t'|t']; try discriminate H.
    - destruct p; destruct v; try discriminate H; inversion H; subst; cbn [jleaf]; try constructor.
      + destruct (classify_float true bits) eqn:Ec;
          try (apply jl_float_reserved; rewrite reserved_of_class; rewrite Ec; [reflexivity | discriminate]).
        assert (Hk : float_kind true bits = KFinite) by (rewrite classify_kind, Ec; reflexivity).
        apply jl_float; [exact Hk | apply Hfmt; exact Hk].
      + destruct (classify_float false bits) eqn:Ec;
          try (apply jl_double_reserved; rewrite reserved_of_class; rewrite Ec; [reflexivity | discriminate]).
        assert (Hk : float_kind false bits = KFinite) by (rewrite classify_kind, Ec; reflexivity).
        apply jl_double; [exact Hk | apply Hfmt; exact Hk].
      + apply latin1_utf8_text.
    - destruct v; try discriminate H. destruct k; [discriminate H|]. cbn [leaf_of] in H.
      destruct (nth_error syms k) as [s|] eqn:E; [|discriminate H]. inversion H; subst. cbn [jleaf]. constructor. exact E.
    - destruct v; try discriminate H. inversion H; subst. cbn [jleaf]. constructor. apply latin1_utf8_text.
  Qed.

  Theorem json_output_conforms : forall w fuel scope t v d,
    wf_env e -> keys_nodup v -> nonnull v -> enc e w ps_empty fuel scope t v = Ok d ->
    json_denotes e float_text t (to_jdoc fmtF d) v.
  Proof.
    intros w fuel scope t v d Hwf Hk Hn H. unfold json_denotes, to_jdoc.
    apply (enc_denotes e w jdoc (json_obj) (json_list) (json_null) (json_leaf float_text) (jleaf fmtF) JArr JObj
             (fun ms => eq_refl) (fun xs => eq_refl) json_leaf_sound fuel scope t v d Hwf Hk Hn H).
  Qed.
End JsonSound.

(* ------------------------------------------------------------------------------------------------------------------ *)
(* 4b. ROR2                                                                                                            *)
(* ------------------------------------------------------------------------------------------------------------------ *)
Definition ctx_of (fl : flavour) : context := match fl with FHeader => InHeader | FPath => InPath | FQuery => InQuery end.

Lemma doc_ind' (P : doc -> Prop) :
  (forall l, P (DLeaf l)) ->
  (forall items, Forall P items -> P (DArr items)) ->
  (forall ents, Forall (fun kd => P (snd kd)) ents -> P (DObj ents)) ->
  forall d, P d.
Proof.
  intros H1 H2 H3. fix F 1. intros [l|items|ents].
  - apply H1.
  - apply H2. induction items as [|x r IH]; constructor; [apply F | exact IH].
  - apply H3. induction ents as [|[k x] r IH]; constructor; [apply F | exact IH].
Qed.

Lemma join_comma l : join_bytes [x2c] l = comma_join l.
Proof. induction l as [|a r IH]; [reflexivity|]. destruct r as [|b r']; [reflexivity|]. cbn [join_bytes comma_join] in *. rewrite IH. reflexivity. Qed.

(* the tables an implementation must satisfy for its percent-encoding to conform (checked by computation on the tables of
   the current tree in Props/C03.v): the hex digits decode back to the byte, and every byte left unencoded is one the context
   allows raw - in particular never a character of the notation *)
Definition hex_table_ok (hex : bytes) : bool :=
  forallb (fun c => match hex_value (hex_digit hex (bn c / 16)), hex_value (hex_digit hex (bn c mod 16)) with
                    | Some a, Some b => N.eqb (16 * a + b) (bn c)
                    | _, _ => false
                    end) all_bytes.
Definition safe_set_ok (cx : context) (safe : byte -> bool) : bool :=
  forallb (fun c => negb (safe c) || may_be_raw cx c) all_bytes.
Definition dec_bytes_raw_ok (cx : context) : bool := forallb (fun c => negb (dec_byte c) || may_be_raw cx c) all_bytes.

Lemma dec_bytes_raw cx : dec_bytes_raw_ok cx = true.
Proof. destruct cx; vm_compute; reflexivity. Qed.

Lemma escape_pct cx hex safe s :
  hex_table_ok hex = true -> safe_set_ok cx safe = true -> pct_text cx (escape_with hex safe s) s.
Proof.
  intros Hh Hs. induction s as [|c s IH]; [constructor|].
  unfold escape_with in *. cbn [flat_map]. destruct (safe c) eqn:Ec.
  - cbn [app]. apply pt_raw; [|exact IH].
    pose proof (forall_bytes _ Hs c) as Hc. cbv beta in Hc. rewrite Ec in Hc. exact Hc.
  - unfold hex_escape. cbn [app].
    pose proof (forall_bytes _ Hh c) as Hc. cbv beta in Hc.
    destruct (hex_value (hex_digit hex (bn c / 16))) as [a|] eqn:Ea; [|discriminate].
    destruct (hex_value (hex_digit hex (bn c mod 16))) as [b|] eqn:Eb; [|discriminate].
    apply N.eqb_eq in Hc. replace (c :: s) with (nb (16 * a + b) :: s) by (rewrite Hc, nb_bn; reflexivity).
    apply pt_esc; [exact Ea | exact Eb | exact IH].
Qed.

Lemma raw_pct cx s : Forall (fun c => may_be_raw cx c = true) s -> pct_text cx s s.
Proof. induction 1; constructor; assumption. Qed.

Lemma print_dec_pct cx z : pct_text cx (print_dec z) (print_dec z).
Proof.
  apply raw_pct. pose proof (print_dec_alphabet z) as H. rewrite Forall_forall in *. intros c Hc.
  pose proof (forall_bytes _ (dec_bytes_raw cx) c) as Hr. cbv beta in Hr. rewrite (H c Hc) in Hr. exact Hr.
Qed.

Section Ror2Sound.
  Variable e : env.
  Variable float_text : bool -> bytes -> N -> Prop.
  Variable fmtF : bool -> N -> bytes.
  Variables (hex path_chars query_chars header_chars : bytes).
  Hypothesis Hfmt : forall is32 b, float_kind is32 b = KFinite -> float_text is32 (fmtF is32 b) b.
  Hypothesis Hfmt_ne : forall is32 b, float_kind is32 b = KFinite -> fmtF is32 b <> [].
  Hypothesis Hhex : hex_table_ok hex = true.
  Hypothesis Hsafe : forall fl, safe_set_ok (ctx_of fl) (safe_of path_chars query_chars header_chars fl) = true.

  Notation r_leaf := (Render.ror2_leaf fmtF hex path_chars query_chars header_chars txt_empty_string).
  Notation r_string := (ror2_string hex path_chars query_chars header_chars txt_empty_string).
  Notation render := (render_ror2 fmtF hex path_chars query_chars header_chars txt_empty_string txt_list_open).

  Definition rleaf (fl : flavour) (l : Doc.leaf) : rtree := RText (r_leaf fl l).
  Definition to_rtree (fl : flavour) : doc -> rtree := view rtree (rleaf fl) RList RObj.

  Lemma escape_fl_pct fl s : pct_text (ctx_of fl) (escape hex path_chars query_chars header_chars fl s) s.
  Proof. unfold escape. apply escape_pct; [exact Hhex | apply Hsafe]. Qed.

  Lemma ror2_string_text fl s : str_text (ctx_of fl) (r_string fl s) s.
  Proof.
    unfold ror2_string. destruct s as [|c s]; [constructor|]. apply st_some; [discriminate | apply escape_fl_pct].
  Qed.

  Lemma literal_pct cx s : forallb (may_be_raw cx) s = true -> pct_text cx s s.
  Proof. intros H. apply raw_pct. apply Forall_forall. rewrite forallb_forall in H. exact H. Qed.

  Lemma special_pct cx (c : fclass) : c <> FFinite ->
    let s := match c with FNaN => s_nan | FPosInf => s_inf | FNegInf => s_ninf | FFinite => [] end in pct_text cx s s.
  Proof. intros Hc. destruct c; try (contradiction Hc; reflexivity); apply literal_pct; destruct cx; reflexivity. Qed.

  Lemma bool_pct cx (b : bool) : pct_text cx (if b then s_true else s_false) (bool_text b).
  Proof. destruct b; apply literal_pct; destruct cx; reflexivity. Qed.

  (* every leaf is rendered as a token of the notation *)
  Lemma leaf_token fl l : exists s, str_text (ctx_of fl) (r_leaf fl l) s.
  Proof.
    destruct l as [z|is32 b|b|s|s]; cbn [Render.ror2_leaf].
    - exists (print_dec z). apply st_some; [apply print_dec_nonempty | apply print_dec_pct].
    - destruct (classify_float is32 b) eqn:Ec.
      + exists s_nan. apply st_some; [discriminate | apply (special_pct _ FNaN); discriminate].
      + exists s_inf. apply st_some; [discriminate | apply (special_pct _ FPosInf); discriminate].
      + exists s_ninf. apply st_some; [discriminate | apply (special_pct _ FNegInf); discriminate].
      + assert (Hk : float_kind is32 b = KFinite) by (rewrite classify_kind, Ec; reflexivity).
        exists (fmtF is32 b). apply st_some; [apply Hfmt_ne; exact Hk | apply escape_fl_pct].
    - exists (bool_text b). apply st_some; [destruct b; discriminate | apply bool_pct].
    - exists s. apply ror2_string_text.
    - exists s. apply ror2_string_text.
  Qed.

  (* the rendering of ANY document is a text of the notation, and stands for the tree [to_rtree] *)
  Theorem ror2_grammar fl : forall d, ror2_text (ctx_of fl) (render fl d) (to_rtree fl d).
  Proof.
    induction d as [l|items IH|ents IH] using doc_ind'.
    - destruct (leaf_token fl l) as [s Hs]. cbn [render_ror2]. unfold to_rtree. cbn [view]. unfold rleaf.
      eapply rt_token. exact Hs.
    - unfold to_rtree. rewrite view_arr.
      change (render fl (DArr items)) with (txt_list_open ++ join_bytes [x2c] (map (render fl) items) ++ [x29]).
      rewrite join_comma. apply rt_list.
      induction IH as [|x r Hx _ IHr]; [constructor|]. cbn [map]. constructor; [exact Hx | exact IHr].
    - unfold to_rtree. rewrite view_obj.
      assert (Eq : render fl (DObj ents) =
                   x28 :: join_bytes [x2c] (map (fun kd => r_string fl (fst kd) ++ [x3a] ++ render fl (snd kd)) ents) ++ [x29]).
      { cbn [render_ror2 app]. apply (f_equal (fun l => x28 :: join_bytes [x2c] l ++ [x29])). clear IH. induction ents as [|[k x] r IHr]; [reflexivity|].
        cbn [map fst snd]. rewrite <- IHr. reflexivity. }
      rewrite Eq, join_comma. apply rt_obj. clear Eq.
      induction IH as [|[k x] r Hx _ IHr]; [constructor|]. cbn [map]. constructor; [|exact IHr].
      exists (r_string fl k), (render fl x). cbn [fst snd view_ent]. split; [reflexivity|]. split; [apply ror2_string_text | exact Hx].
  Qed.

  Lemma ror2_leaf_sound fl t v l : leaf_of t v = Some l -> Spec.RestliSpec.ror2_leaf float_text (ctx_of fl) t (rleaf fl l) v.
  Proof.
    intros H. unfold rleaf. destruct t as [p|syms|sz|n|t'|t']; try discriminate H.
    - destruct p; destruct v; try discriminate H; inversion H; subst; cbn [Render.ror2_leaf].
      + apply rl_int. apply print_dec_pct.
      + apply rl_long. apply print_dec_pct.
      + destruct (classify_float true bits) eqn:Ec;
          try (eapply rl_float_reserved; [rewrite reserved_of_class; rewrite Ec; [reflexivity | discriminate]
                                         | apply literal_pct; destruct fl; reflexivity]).
        assert (Hk : float_kind true bits = KFinite) by (rewrite classify_kind, Ec; reflexivity).
        eapply rl_float; [exact Hk | apply Hfmt; exact Hk | apply escape_fl_pct].
      + destruct (classify_float false bits) eqn:Ec;
          try (eapply rl_double_reserved; [rewrite reserved_of_class; rewrite Ec; [reflexivity | discriminate]
                                          | apply literal_pct; destruct fl; reflexivity]).
        assert (Hk : float_kind false bits = KFinite) by (rewrite classify_kind, Ec; reflexivity).
        eapply rl_double; [exact Hk | apply Hfmt; exact Hk | apply escape_fl_pct].
      + apply rl_bool. apply bool_pct.
      + apply rl_string. apply ror2_string_text.
      + apply rl_bytes. apply ror2_string_text.
    - destruct v; try discriminate H. destruct k; [discriminate H|]. cbn [leaf_of] in H.
      destruct (nth_error syms k) as [s|] eqn:E; [|discriminate H]. inversion H; subst. cbn [Render.ror2_leaf].
      eapply rl_enum; [exact E | apply ror2_string_text].
    - destruct v; try discriminate H. inversion H; subst. cbn [Render.ror2_leaf]. apply rl_fixed. apply ror2_string_text.
  Qed.

  Theorem ror2_output_conforms : forall fl w fuel scope t v d,
    wf_env e -> keys_nodup v -> nonnull v -> enc e w ps_empty fuel scope t v = Ok d ->
    ror2_denotes e float_text (ctx_of fl) t (render fl d) v.
  Proof.
    intros fl w fuel scope t v d Hwf Hk Hn H. exists (to_rtree fl d). split; [apply ror2_grammar|].
    unfold rtree_denotes, to_rtree.
    apply (enc_denotes e w rtree ror2_obj ror2_list ror2_null (Spec.RestliSpec.ror2_leaf float_text (ctx_of fl)) (rleaf fl) RList RObj
             (fun ms => eq_refl) (fun xs => eq_refl) (ror2_leaf_sound fl) fuel scope t v d Hwf Hk Hn H).
  Qed.
End Ror2Sound.

(* ------------------------------------------------------------------------------------------------------------------ *)
(* 4c. the instance on the tables of the current tree (Gen/TablesCodec.v, regenerated on every run)                    *)
(* ------------------------------------------------------------------------------------------------------------------ *)
From GR Require Import Gen.TablesCodec.

Lemma v2_hex_table_ok : hex_table_ok v2_hex_chars = true.
Proof. vm_compute. reflexivity. Qed.

(* every byte the three escapers leave unencoded may be raw in the context: in particular none of ( ) , : ' % ever is *)
Lemma v2_safe_sets_ok : forall fl,
  safe_set_ok (ctx_of fl) (safe_of v2_unescaped_path_chars v2_unescaped_query_chars v2_header_escaped_chars fl) = true.
Proof. intros fl. destruct fl; vm_compute; reflexivity. Qed.

Lemma v2_markers : v2_empty_string = txt_empty_string /\ v2_list_prefix = txt_list_open.
Proof. split; reflexivity. Qed.

Theorem v2_ror2_output_conforms : forall e (float_text : bool -> bytes -> N -> Prop) (fmtF : bool -> N -> bytes),
  (forall is32 b, float_kind is32 b = KFinite -> float_text is32 (fmtF is32 b) b) ->
  (forall is32 b, float_kind is32 b = KFinite -> fmtF is32 b <> []) ->
  forall fl w fuel scope t v d,
  wf_env e -> keys_nodup v -> nonnull v -> enc e w ps_empty fuel scope t v = Ok d ->
  ror2_denotes e float_text (ctx_of fl) t
    (render_ror2 fmtF v2_hex_chars v2_unescaped_path_chars v2_unescaped_query_chars v2_header_escaped_chars
       v2_empty_string v2_list_prefix fl d) v.
Proof.
  intros e float_text fmtF Hfmt Hne fl w fuel scope t v d Hwf Hk Hn H.
  exact (ror2_output_conforms e float_text fmtF v2_hex_chars v2_unescaped_path_chars v2_unescaped_query_chars
           v2_header_escaped_chars Hfmt Hne v2_hex_table_ok v2_safe_sets_ok fl w fuel scope t v d Hwf Hk Hn H).
Qed.

(* the reserved characters of the notation never appear raw in an escaped string (all three flavours) *)
Theorem v2_reserved_never_raw : forall fl s c,
  grammar_reserved c = true -> Byte.eqb c x25 = false ->
  mem_byte c (escape v2_hex_chars v2_unescaped_path_chars v2_unescaped_query_chars v2_header_escaped_chars fl s) = false.
Proof.
  intros fl s c Hr Hp. unfold escape. apply escape_avoids; [reflexivity|].
  assert (Hall : forallb (fun c => negb (grammar_reserved c) || Byte.eqb c x25 ||
                    negb (out_byte v2_hex_chars (safe_of v2_unescaped_path_chars v2_unescaped_query_chars v2_header_escaped_chars fl) c))
                   all_bytes = true) by (destruct fl; vm_compute; reflexivity).
  pose proof (forall_bytes _ Hall c) as Hc. cbv beta in Hc. rewrite Hr, Hp in Hc. simpl in Hc.
  apply negb_true_iff in Hc. exact Hc.
Qed.

(* a Rest.li writer writes a space of a query value as %20: '+' never appears raw in the query flavour (a literal plus is %2B) *)
Theorem v2_query_output_never_plus : forall s,
  mem_byte x2b (escape v2_hex_chars v2_unescaped_path_chars v2_unescaped_query_chars v2_header_escaped_chars FQuery s) = false.
Proof. intros s. unfold escape. apply escape_avoids; [reflexivity | vm_compute; reflexivity]. Qed.

(* ------------------------------------------------------------------------------------------------------------------ *)
(* 6. nullable unions with no member: the side condition [nonnull] cannot be dropped                                   *)
(* ------------------------------------------------------------------------------------------------------------------ *)
Definition nu_env : env := [DUnion true [([x61], TPrim PInt)]].
Definition nu_value : value := VUnion [None].

Lemma nu_env_wf : wf_env nu_env.
Proof.
  exists (fun _ => []). intros n incs fs H. destruct n as [|[|n]]; simpl in H; discriminate.
Qed.

Lemma nu_keys_nodup : keys_nodup nu_value.
Proof. constructor. constructor; constructor. Qed.

Lemma nu_encodes w : enc nu_env w ps_empty 2 [] (TRef 0) nu_value = Ok (DObj []).
Proof. reflexivity. Qed.

(* whatever the tree type: the only tree that denotes the null member is the null literal *)
Lemma nu_only_null T obj_of list_of (is_null : T -> Prop) lf x :
  denotes nu_env T obj_of list_of is_null lf (TRef 0) x nu_value -> is_null x.
Proof.
  intros H. inversion H; subst.
  - discriminate.
  - match goal with R : record_denotes _ _ _ _ _ _ _ _ _ |- _ => inversion R; subst end; try discriminate.
  - match goal with L : lookup nu_env 0 = Some _ |- _ => simpl in L; inversion L; subst end.
    match goal with M : member_denotes _ _ _ _ _ _ _ _ _ _ |- _ => inversion M; subst end.
    match goal with M : member_denotes _ _ _ _ _ _ [] _ _ _ |- _ => inversion M end.
  - assumption.
Qed.

Theorem json_output_conforms_refuted :
  exists e w fuel t v d,
    wf_env e /\ keys_nodup v /\ enc e w ps_empty fuel [] t v = Ok d /\
    forall float_text fmtF, ~ json_denotes e float_text t (to_jdoc fmtF d) v.
Proof.
  exists nu_env, [x2a], 2, (TRef 0), nu_value, (DObj []).
  split; [apply nu_env_wf|]. split; [apply nu_keys_nodup|]. split; [reflexivity|].
  intros ft fm H. apply nu_only_null in H. discriminate H.
Qed.

(* in ROR2 the null member has no form at all *)
Theorem ror2_null_union_has_no_form : forall float_text cx bs, ~ ror2_denotes nu_env float_text cx (TRef 0) bs nu_value.
Proof. intros ft cx bs [tr [_ H]]. apply nu_only_null in H. exact H. Qed.

Theorem ror2_output_conforms_refuted :
  exists e w fuel t v d,
    wf_env e /\ keys_nodup v /\ enc e w ps_empty fuel [] t v = Ok d /\
    forall float_text cx bs, ~ ror2_denotes e float_text cx t bs v.
Proof.
  exists nu_env, [x2a], 2, (TRef 0), nu_value, (DObj []).
  split; [apply nu_env_wf|]. split; [apply nu_keys_nodup|]. split; [reflexivity|]. apply ror2_null_union_has_no_form.
Qed.

(* ------------------------------------------------------------------------------------------------------------------ *)
(* 8. envelopes and headers: the names used by the current tree (Gen/TablesConform.v) are the protocol's               *)
(* ------------------------------------------------------------------------------------------------------------------ *)
From GR Require Import Gen.TablesConform.

Definition implementation_names : list bytes :=
  [env_elements_field; env_paging_field; env_metadata_field; env_value_field; env_entities_field; env_entity_field;
   env_results_field; env_statuses_field; env_errors_field; env_id_field; env_location_field; env_status_field; env_error_field;
   hdr_protocol_version; protocol_version_value; hdr_method; hdr_error_response; hdr_id].

Theorem envelope_names_conform : implementation_names = protocol_names.
Proof. reflexivity. Qed.

(* ------------------------------------------------------------------------------------------------------------------ *)
(* 9. non-vacuity: a record with a set required field and an unset optional one                                        *)
(* ------------------------------------------------------------------------------------------------------------------ *)
Definition ex_env : env :=
  [DRecord [] [{| f_name := [x61]; f_ty := TPrim PInt; f_opt := Required |};
               {| f_name := [x73]; f_ty := TPrim PString; f_opt := Optional |};
               {| f_name := [x6d]; f_ty := TMap (TPrim PString); f_opt := Required |}]].
Definition ex_value : value := VRec [] [Some (VInt 7); None; Some (VMap [([x28], VStr [x20; x27])])].

Lemma ex_env_wf : wf_env ex_env.
Proof. apply wf_envb_sound. vm_compute. reflexivity. Qed.
Lemma ex_keys_nodup : keys_nodup ex_value.
Proof.
  constructor; [constructor|]. repeat constructor; simpl; try tauto.
Qed.
Lemma ex_nonnull : nonnull ex_value.
Proof.
  apply nn_rec; [constructor|].
  constructor; [constructor; apply nn_leaf; reflexivity|].
  constructor; [constructor|].
  constructor; [|constructor].
  constructor. apply nn_map. constructor; [apply nn_leaf; reflexivity | constructor].
Qed.

Example json_conforms_example : forall (float_text : bool -> bytes -> N -> Prop) (fmtF : bool -> N -> bytes),
  (forall is32 b, float_kind is32 b = KFinite -> float_text is32 (fmtF is32 b) b) ->
  json_denotes ex_env float_text (TRef 0)
    (JObj [([x61], JNum [x37]); ([x6d], JObj [([x28], JStr [x20; x27])])]) ex_value.
Proof.
  intros ft fmtF Hfmt.
  exact (json_output_conforms ex_env ft fmtF Hfmt [x2a] 4 [] (TRef 0) ex_value _ ex_env_wf ex_keys_nodup ex_nonnull eq_refl).
Qed.

(* the query flavour of the same value: "(a:7,m:(%28:%20%27))" *)
Example ror2_conforms_example : forall float_text,
  ror2_denotes ex_env float_text InQuery (TRef 0)
    [x28; x61; x3a; x37; x2c; x6d; x3a; x28; x25; x32; x38; x3a; x25; x32; x30; x25; x32; x37; x29; x29] ex_value.
Proof.
  intros ft.
  exists (RObj [([x61], RText [x37]); ([x6d], RObj [([x28], RText [x25; x32; x30; x25; x32; x37])])]). split.
  - apply (rt_obj InQuery [[x61; x3a; x37]; [x6d; x3a; x28; x25; x32; x38; x3a; x25; x32; x30; x25; x32; x37; x29]]).
    constructor; [|constructor; [|constructor]].
    + exists [x61], [x37]. split; [reflexivity|]. split.
      * apply st_some; [discriminate|]. apply pt_raw; [reflexivity | constructor].
      * apply rt_token with (s := [x37]). apply st_some; [discriminate|]. apply pt_raw; [reflexivity | constructor].
    + exists [x6d], [x28; x25; x32; x38; x3a; x25; x32; x30; x25; x32; x37; x29]. split; [reflexivity|]. split.
      * apply st_some; [discriminate|]. apply pt_raw; [reflexivity | constructor].
      * apply (rt_obj InQuery [[x25; x32; x38; x3a; x25; x32; x30; x25; x32; x37]]). constructor; [|constructor].
        exists [x25; x32; x38], [x25; x32; x30; x25; x32; x37]. split; [reflexivity|]. split.
        -- apply st_some; [discriminate|]. apply (pt_esc InQuery x32 x38 2 8 [] []); [reflexivity | reflexivity | constructor].
        -- apply rt_token with (s := [x20; x27]). apply st_some; [discriminate|].
           apply (pt_esc InQuery x32 x30 2 0 _ [x27]); [reflexivity | reflexivity |].
           apply (pt_esc InQuery x32 x37 2 7 [] []); [reflexivity | reflexivity | constructor].
  - apply dn_record with (ms := [([x61], RText [x37]); ([x6d], RObj [([x28], RText [x25; x32; x30; x25; x32; x37])])]).
    + reflexivity.
    + repeat constructor; simpl; intuition discriminate.
    + eapply rc_intro; [reflexivity | constructor |].
      eapply fl_set with (x := RText [x37]); [left; reflexivity | |].
      { apply dn_leaf; [reflexivity|]. apply rl_int. apply pt_raw; [reflexivity | constructor]. }
      apply fl_unset; [reflexivity | |].
      { intros x [E|[E|[]]]; discriminate E. }
      eapply fl_set with (x := RObj [([x28], RText [x25; x32; x30; x25; x32; x37])]); [right; left; reflexivity | | constructor].
      apply dn_map with (ms := [([x28], RText [x25; x32; x30; x25; x32; x37])]).
      * reflexivity.
      * repeat constructor; simpl; tauto.
      * eapply en_cons; [left; reflexivity | | constructor].
        apply dn_leaf; [reflexivity|]. apply rl_string. apply st_some; [discriminate|].
        apply (pt_esc InQuery x32 x30 2 0 _ [x27]); [reflexivity | reflexivity |].
        apply (pt_esc InQuery x32 x37 2 7 [] []); [reflexivity | reflexivity | constructor].
      * intros k Hk. exact Hk.
Qed.

Theorem v2_ror2_output_in_grammar :
  forall (fmtF : bool -> N -> bytes),
  (forall is32 b, float_kind is32 b = KFinite -> fmtF is32 b <> []) ->
  forall fl d, exists tr,
  ror2_text (ctx_of fl)
    (render_ror2 fmtF v2_hex_chars v2_unescaped_path_chars v2_unescaped_query_chars v2_header_escaped_chars
       v2_empty_string v2_list_prefix fl d) tr.
Proof.
  intros fmtF Hne fl d. eexists.
  exact (ror2_grammar fmtF v2_hex_chars v2_unescaped_path_chars v2_unescaped_query_chars v2_header_escaped_chars
           Hne v2_hex_table_ok v2_safe_sets_ok fl d).
Qed.

(* ------------------------------------------------------------------------------------------------------------------ *)
(* 5. emitted keys                                                                                                     *)
(* ------------------------------------------------------------------------------------------------------------------ *)
Section Keys.
  Variable e : env.
  Variable w : bytes.
  Variable rec : list bytes -> ty -> value -> res doc.

  Lemma fields_keys_set scope fs : forall fvs b k,
    fields_entries w ps_empty rec scope fs fvs = Ok b -> In k (map fst b) ->
    exists i fd v, nth_error fs i = Some fd /\ nth_error fvs i = Some (Some v) /\ k = f_name fd.
  Proof.
    induction fs as [|fd fs IH]; intros [|ov fvs] b k H Hin; try discriminate.
    - inversion H; subst. contradiction.
    - rewrite fields_entries_cons in H.
      match type of H with bind ?r _ = _ => destruct r as [here| |] eqn:Eh end; simpl in H; try discriminate.
      destruct (fields_entries w ps_empty rec scope fs fvs) as [rest| |] eqn:Er; simpl in H; try discriminate.
      inversion H; subst b; clear H. rewrite map_app in Hin. apply in_app_or in Hin as [Hin|Hin].
      + destruct ov as [v|].
        * apply enc_key_all in Eh as [d [-> _]]. simpl in Hin. destruct Hin as [<-|[]].
          exists 0, fd, v. repeat split; reflexivity.
        * destruct (is_required (f_opt fd)); inversion Eh; subst. contradiction.
      + destruct (IH fvs rest k Er Hin) as [i [fd' [v [A [B C]]]]]. exists (S i), fd', v. repeat split; assumption.
  Qed.

  Lemma incs_keys scope incs : forall ivs a k,
    inc_entries rec scope incs ivs = Ok a -> In k (map fst a) ->
    exists i m iv ai, nth_error incs i = Some m /\ nth_error ivs i = Some iv /\
                      rec scope (TRef m) iv = Ok (DObj ai) /\ In k (map fst ai).
  Proof.
    induction incs as [|m incs IH]; intros [|iv ivs] a k H Hin; try discriminate.
    - inversion H; subst. contradiction.
    - rewrite inc_entries_cons in H.
      destruct (rec scope (TRef m) iv) as [d| |] eqn:Ed; simpl in H; try discriminate.
      destruct d as [?|?|ai]; simpl in H; try discriminate.
      destruct (inc_entries rec scope incs ivs) as [ar| |] eqn:Eb; simpl in H; try discriminate.
      inversion H; subst a; clear H. rewrite map_app in Hin. apply in_app_or in Hin as [Hin|Hin].
      + exists 0, m, iv, ai. repeat split; assumption.
      + destruct (IH ivs ar k Eb Hin) as [i [m' [iv' [ai' [A [B [C D]]]]]]]. exists (S i), m', iv', ai'. repeat split; assumption.
  Qed.
End Keys.

Lemma record_keys_set e w names : names_ok e names -> forall fuel scope n v ents k,
  enc e w ps_empty fuel scope (TRef n) v = Ok (DObj ents) ->
  (exists incs fs, lookup e n = Some (DRecord incs fs)) ->
  In k (map fst ents) -> set_field e n v k.
Proof.
  intros Hwf. induction fuel as [|f IH]; intros scope n v ents k H [incs0 [fs0 El]] Hin; [discriminate|].
  rewrite enc_S in H. destruct v; simpl in H; try discriminate; rewrite El in H; try discriminate.
  destruct (inc_entries (enc e w ps_empty f) scope incs0 incs) as [a| |] eqn:Ea; simpl in H; try discriminate.
  destruct (fields_entries w ps_empty (enc e w ps_empty f) scope fs0 fields) as [b| |] eqn:Eb; simpl in H; try discriminate.
  inversion H; subst ents; clear H.
  apply (Permutation_in _ (sort_entries_keys_perm (a ++ b))) in Hin. rewrite map_app in Hin.
  apply in_app_or in Hin as [Hin|Hin].
  - destruct (incs_keys _ _ _ _ _ _ Ea Hin) as [i [m [iv [ai [A [B [C D]]]]]]].
    eapply sf_inc; [exact El | exact A | exact B |].
    apply (IH scope m iv ai k C); [|exact D].
    destruct (Hwf n incs0 fs0 El) as [_ [_ HR]]. rewrite Forall_forall in HR.
    apply HR. eapply nth_error_In. exact A.
  - destruct (fields_keys_set _ _ _ _ _ _ _ Eb Hin) as [i [fd [v [A [B C]]]]]. subst k. eapply sf_own; eassumption.
Qed.

Theorem emitted_keys_spec :
  forall e w fuel scope t v d, wf_env e -> keys_nodup v -> enc e w ps_empty fuel scope t v = Ok d ->
  match t, v, d with
  | TMap _, VMap es, DObj ents => Permutation (map fst ents) (map fst es)
  | TRef n, VRec _ _, DObj ents => forall k, In k (map fst ents) -> set_field e n v k
  | _, _, _ => True
  end.
Proof.
  intros e w fuel scope t v d [names Hwf] Hk H.
  destruct t as [p|syms|sz|n|t'|t']; try exact I; destruct v; try exact I; destruct d as [l|items|ents]; try exact I.
  - intros k Hin. destruct fuel as [|f]; [discriminate|].
    assert (Hr : exists incs0 fs0, lookup e n = Some (DRecord incs0 fs0)).
    { rewrite enc_S in H. simpl in H. destruct (lookup e n) as [[incs0 fs0|? ?]|]; try discriminate. eauto. }
    exact (record_keys_set e w names Hwf (S f) scope n _ ents k H Hr Hin).
  - destruct fuel as [|f]; [discriminate|]. rewrite enc_S in H. simpl in H.
    destruct (map_entries w ps_empty (enc e w ps_empty f) scope t' es) as [en| |] eqn:Em; simpl in H; try discriminate.
    inversion H; subst ents. rewrite <- (map_entries_keys _ _ _ _ _ _ Em). apply sort_entries_keys_perm.
Qed.

(* ------------------------------------------------------------------------------------------------------------------ *)
(* 7. the converse (acceptance), for leaf / array / map types at any nesting                                           *)
(* ------------------------------------------------------------------------------------------------------------------ *)
Fixpoint ref_free (t : ty) : bool := match t with TRef _ => false | TArray t' | TMap t' => ref_free t' | _ => true end.
Fixpoint ty_depth (t : ty) : nat := match t with TArray t' | TMap t' => S (ty_depth t') | _ => 0 end.

Lemma kind_posinf is32 b : float_kind is32 b = KPosInf -> b = inf_magnitude is32.
Proof.
  unfold float_kind. cbv zeta. destruct (N.ltb_spec (inf_magnitude is32) (b mod sign_bit is32)); [discriminate|].
  destruct (N.eqb_spec (b mod sign_bit is32) (inf_magnitude is32)) as [E|E]; [|discriminate].
  destruct (N.ltb_spec b (sign_bit is32)) as [L|L]; [|discriminate]. intros _. rewrite N.mod_small in E; assumption.
Qed.

Lemma kind_neginf is32 b : (b < 2 * sign_bit is32)%N -> float_kind is32 b = KNegInf -> b = (sign_bit is32 + inf_magnitude is32)%N.
Proof.
  intros Hb. unfold float_kind. cbv zeta. destruct (N.ltb_spec (inf_magnitude is32) (b mod sign_bit is32)); [discriminate|].
  destruct (N.eqb_spec (b mod sign_bit is32) (inf_magnitude is32)) as [E|E]; [|discriminate].
  destruct (N.ltb_spec b (sign_bit is32)) as [L|L]; [discriminate|]. intros _.
  assert (S0 : (sign_bit is32 <> 0)%N) by (destruct is32; discriminate).
  pose proof (N.div_mod' b (sign_bit is32)) as D. pose proof (N.mod_lt b (sign_bit is32) S0) as M.
  rewrite E in *. set (q := (b / sign_bit is32)%N) in *.
  assert (q = 1)%N by (destruct is32; cbn [sign_bit inf_magnitude] in *; lia). subst q. lia.
Qed.

Lemma in_i32_range z : in_i32 z = true -> (-2147483648 <= z <= 2147483647)%Z.
Proof. unfold in_i32. rewrite andb_true_iff, !Z.leb_le. tauto. Qed.
Lemma in_i64_range z : in_i64 z = true -> (-9223372036854775808 <= z <= 9223372036854775807)%Z.
Proof. unfold in_i64. rewrite andb_true_iff, !Z.leb_le. tauto. Qed.

(* one code point <= 0xFF per byte decodes back *)
Definition latin1_code_ok (c : byte) : bool :=
  match utf8_encode (bn c) with
  | [a] => (bn a <? 128)%N && (bn a =? bn c)%N
  | [a; b] => negb (bn a <? 128)%N && in_rng 194 223 a && is_cont b && (((bn a - 192) * 64 + (bn b - 128)) =? bn c)%N
  | _ => false
  end.
Lemma latin1_codes_ok : forallb latin1_code_ok all_bytes = true.
Proof. vm_compute. reflexivity. Qed.

Lemma utf8_decode_latin1 c rest :
  exists wd, utf8_decode (utf8_encode (bn c) ++ rest) = Some (bn c, wd) /\ wd = length (utf8_encode (bn c)) /\ wd > 0.
Proof.
  pose proof (forall_bytes _ latin1_codes_ok c) as H. unfold latin1_code_ok in H.
  destruct (utf8_encode (bn c)) as [|a [|b [|? ?]]]; try discriminate H.
  - apply andb_true_iff in H as [H1 H2]. apply N.eqb_eq in H2. exists 1. cbn [app utf8_decode]. rewrite H1, H2. cbn [length]. repeat split; lia.
  - apply andb_true_iff in H as [H H4]. apply andb_true_iff in H as [H H3]. apply andb_true_iff in H as [H1 H2].
    apply negb_true_iff in H1. apply N.eqb_eq in H4. exists 2. cbn [app utf8_decode]. rewrite H1, H2, H3, H4. cbn [length]. repeat split; lia.
Qed.

Lemma latin1_text_len t s : latin1_text t s -> length s <= length t.
Proof.
  induction 1 as [|c t s _ IH]; [apply le_n|]. rewrite app_length. cbn [length].
  destruct (utf8_decode_latin1 c []) as [wd [_ [Hw Hp]]]. lia.
Qed.

Lemma latin1_decode_text t s : latin1_text t s -> forall fuel, fuel > length s -> latin1_decode fuel t = Some s.
Proof.
  induction 1 as [|c t s _ IH]; intros fuel Hf.
  - destruct fuel; [inversion Hf|]. reflexivity.
  - destruct fuel as [|f]; [inversion Hf|]. cbn [length] in Hf.
    destruct (utf8_decode_latin1 c t) as [wd [Hd [Hw Hp]]].
    cbn [latin1_decode]. destruct (utf8_encode (bn c) ++ t) as [|x r] eqn:Ex.
    + apply (f_equal (@length byte)) in Ex. rewrite app_length in Ex. cbn [length] in Ex. lia.
    + rewrite Hd.
      assert (Hle : (bn c <=? 255)%N = true) by (apply N.leb_le; pose proof (bn_bounded c); lia). rewrite Hle.
      rewrite <- Ex, Hw, skipn_app, skipn_all, Nat.sub_diag. cbn [app skipn]. rewrite (IH f ltac:(lia)). cbn [option_map]. rewrite nb_bn. reflexivity.
Qed.

Lemma index_of_nth syms : forall i s k, NoDup syms -> nth_error syms i = Some s -> index_of s syms k = Some (k + i).
Proof.
  induction syms as [|x r IH]; intros i s k HN H; [destruct i; discriminate|].
  inversion HN as [|? ? Hx HN']; subst. destruct i as [|i]; cbn [nth_error index_of] in *.
  - inversion H; subst. rewrite bytes_eqb_refl. f_equal. lia.
  - destruct (bytes_eqb s x) eqn:E.
    + apply bytes_eqb_eq in E. subst. exfalso. apply Hx. eapply nth_error_In. exact H.
    + rewrite (IH i s (S k) HN' H). f_equal. lia.
Qed.

Lemma pop_push seg tr : pop (push seg tr) = tr.
Proof. unfold pop, push. destruct tr as [sc ms]. cbn. rewrite removelast_last. reflexivity. Qed.

Lemma enter_map_empty wc ig k tr : enter_map wc ps_empty ig k tr = Ok (push (SKey k) tr).
Proof. unfold enter_map. destruct (Nat.leb _ ig); [reflexivity|]. rewrite ps_empty_never_matches. reflexivity. Qed.

Lemma items_denote_Forall2 e T o l n lf t xs vs :
  items_denote e T o l n lf t xs vs -> Forall2 (denotes e T o l n lf t) xs vs.
Proof. induction 1; constructor; assumption. Qed.

Lemma entries_denote_In e T o l n lf t ms es :
  entries_denote e T o l n lf t ms es -> forall k v, In (k, v) es -> exists x, In (k, x) ms /\ denotes e T o l n lf t x v.
Proof.
  induction 1 as [|? ? k v x es' Hin Hx _ IHE]; intros k0 v0 H0; [contradiction|].
  destruct H0 as [E|H0]; [inversion E; subst; exists x; split; assumption | apply IHE; exact H0].
Qed.

Section Converse.
  Variable e : env.
  Variable float_text : bool -> bytes -> N -> Prop.
  Variable parseF : nat -> bytes -> option N.
  Variables (wc : bytes) (ignore : nat).
  Variables nan32 nan64 : N.
  (* premises about the external float parser: it accepts every text that denotes a float and returns its bits; the three
     reserved strings give Go's NaN and the two infinities *)
  Hypothesis Hp64 : forall t b, float_text false t b -> parseF 0 t = Some b.
  Hypothesis Hp32 : forall t b, float_text true t b -> parseF 2 t = Some b.
  Hypothesis Hnan64 : parseF 0 txt_NaN = Some nan64.
  Hypothesis Hinf64 : parseF 0 txt_Infinity = Some 9218868437227405312%N.
  Hypothesis Hninf64 : parseF 0 txt_NegInfinity = Some 18442240474082181120%N.
  Hypothesis Hnan32 : parseF 2 txt_NaN = Some nan32.
  Hypothesis Hinf32 : parseF 2 txt_Infinity = Some 2139095040%N.
  Hypothesis Hninf32 : parseF 2 txt_NegInfinity = Some 4286578688%N.

  (* the value as the decoder stores it: NaN is Go's NaN (the property identifies all NaNs), map entries are sorted by key *)
  Definition canon_float (is32 : bool) (b : N) : N :=
    match float_kind is32 b with KNaN => if is32 then nan32 else nan64 | _ => b end.
  Fixpoint canonical (v : value) : value :=
    match v with
    | VFloat b => VFloat (canon_float true b)
    | VDouble b => VDouble (canon_float false b)
    | VArr l => VArr ((fix go (l : list value) : list value := match l with [] => [] | x :: r => canonical x :: go r end) l)
    | VMap es => VMap (sort_entries ((fix go (l : list (bytes * value)) : list (bytes * value) :=
                                        match l with [] => [] | (k, x) :: r => (k, canonical x) :: go r end) es))
    | VRec ivs fvs =>
        VRec ((fix go (l : list value) : list value := match l with [] => [] | x :: r => canonical x :: go r end) ivs)
             ((fix go (l : list (option value)) : list (option value) :=
                 match l with [] => [] | Some x :: r => Some (canonical x) :: go r | None :: r => None :: go r end) fvs)
    | VUnion ms =>
        VUnion ((fix go (l : list (option value)) : list (option value) :=
                   match l with [] => [] | Some x :: r => Some (canonical x) :: go r | None :: r => None :: go r end) ms)
    | _ => v
    end.
  Definition canon_ent (kv : bytes * value) : bytes * value := (fst kv, canonical (snd kv)).
  Lemma canonical_arr l : canonical (VArr l) = VArr (map canonical l).
  Proof. reflexivity. Qed.
  Lemma canonical_rec ivs fvs : canonical (VRec ivs fvs) = VRec (map canonical ivs) (map (option_map canonical) fvs).
  Proof.
    cbn [canonical]. f_equal. induction fvs as [|[x|] r IH]; [reflexivity| |]; cbn [map option_map]; rewrite IH; reflexivity.
  Qed.
  Lemma canonical_union ms : canonical (VUnion ms) = VUnion (map (option_map canonical) ms).
  Proof.
    cbn [canonical]. f_equal. induction ms as [|[x|] r IH]; [reflexivity| |]; cbn [map option_map]; rewrite IH; reflexivity.
  Qed.
  Lemma canonical_map es : canonical (VMap es) = VMap (sort_entries (map canon_ent es)).
  Proof. cbn [canonical]. do 2 f_equal. induction es as [|[k x] r IH]; [reflexivity|]. cbn [map]. rewrite IH. reflexivity. Qed.

  Notation jdenotes := (json_denotes e float_text).
  Notation dec := (decJ e wc ps_empty ignore parseF).
  Notation decm f := (djmix e wc ps_empty ignore parseF f).   (* the recursive calls of one step (Ror2NoPanic.decJ_unfold) *)

  Lemma reserved_parse64 b s : (b < 18446744073709551616)%N ->
    reserved_float_text (float_kind false b) = Some s -> parseF 0 s = Some (canon_float false b).
  Proof.
    intros Hb H. unfold canon_float. destruct (float_kind false b) eqn:Ek; inversion H; subst.
    - exact Hnan64.
    - rewrite (kind_posinf false b Ek). exact Hinf64.
    - rewrite (kind_neginf false b Hb Ek). exact Hninf64.
  Qed.
  Lemma reserved_parse32 b s : (b < 4294967296)%N ->
    reserved_float_text (float_kind true b) = Some s -> parseF 2 s = Some (canon_float true b).
  Proof.
    intros Hb H. unfold canon_float. destruct (float_kind true b) eqn:Ek; inversion H; subst.
    - exact Hnan32.
    - rewrite (kind_posinf true b Ek). exact Hinf32.
    - rewrite (kind_neginf true b Hb Ek). exact Hninf32.
  Qed.

  Lemma leaf_accepted t jd v : json_leaf float_text t jd v -> valid_value e t v ->
    forall f top tr, dec (S f) top t jd tr = Ok (canonical v, tr).
  Proof.
    intros Hl Hv f top tr. rewrite decJ_unfold. unfold stepJ.
    inversion Hl; subst; inversion Hv; subst; cbn [jprim jstring bind canonical].
    - match goal with H : in_i32 _ = true |- _ => rewrite parse_print_i32 by (apply in_i32_range; exact H) end. reflexivity.
    - match goal with H : in_i64 _ = true |- _ => rewrite parse_print_i64 by (apply in_i64_range; exact H) end. reflexivity.
    - match goal with H : float_text true _ _ |- _ => rewrite (Hp32 _ _ H) end.
      match goal with H : float_kind true _ = KFinite |- _ => unfold canon_float; rewrite H end. reflexivity.
    - match goal with H : reserved_float_text _ = Some _, B : (_ < _)%N |- _ => rewrite (reserved_parse32 _ _ B H) end. reflexivity.
    - match goal with H : float_text false _ _ |- _ => rewrite (Hp64 _ _ H) end.
      match goal with H : float_kind false _ = KFinite |- _ => unfold canon_float; rewrite H end. reflexivity.
    - match goal with H : reserved_float_text _ = Some _, B : (_ < _)%N |- _ => rewrite (reserved_parse64 _ _ B H) end. reflexivity.
    - reflexivity.
    - reflexivity.
    - match goal with H : latin1_text ?t _ |- _ =>
        rewrite (latin1_decode_text _ _ H (S (length t))) by (pose proof (latin1_text_len _ _ H); lia) end. reflexivity.
    - unfold enum_value.
      match goal with H : nth_error ?syms ?i = Some ?s, N : NoDup ?syms |- _ => rewrite (index_of_nth syms i s 0 N H) end. reflexivity.
    - match goal with H : latin1_text ?t _ |- _ =>
        rewrite (latin1_decode_text _ _ H (S (length t))) by (pose proof (latin1_text_len _ _ H); lia) end. cbn [bind].
      rewrite Nat.eqb_refl. reflexivity.
  Qed.

  (* a tree that denotes a value of a leaf / array / map type is not the null literal *)
  Lemma ref_free_not_null t jd v : ref_free t = true -> jdenotes t jd v -> jd <> JNull.
  Proof.
    intros Hr H E. subst jd. inversion H; subst; try discriminate.
    match goal with L : json_leaf _ _ JNull _ |- _ => inversion L end.
  Qed.

  Lemma map_put_fresh k v acc : ~ In k (map fst acc) -> map_put k v acc = acc ++ [(k, v)].
  Proof.
    induction acc as [|[k' v'] r IH]; intros Hn; [reflexivity|]. cbn [map_put app].
    destruct (bytes_eqb k k') eqn:E.
    - apply bytes_eqb_eq in E. subst. exfalso. apply Hn. left; reflexivity.
    - rewrite IH; [reflexivity|]. intros Hin. apply Hn. right; exact Hin.
  Qed.

  Lemma nodup_keys_functional {A} (l : list (bytes * A)) k a b : NoDup (map fst l) -> In (k, a) l -> In (k, b) l -> a = b.
  Proof.
    induction l as [|[k' x] r IH]; intros HN Ha Hb; [contradiction|]. cbn [map fst] in HN. inversion HN as [|? ? Hk HN']; subst.
    destruct Ha as [Ea|Ha]; destruct Hb as [Eb|Hb].
    - congruence.
    - inversion Ea; subst. exfalso. apply Hk. apply in_map_iff. exists (k, b). split; [reflexivity | exact Hb].
    - inversion Eb; subst. exfalso. apply Hk. apply in_map_iff. exists (k, a). split; [reflexivity | exact Ha].
    - apply IH; assumption.
  Qed.

  Lemma nodup_keys_nodup {A} (l : list (bytes * A)) : NoDup (map fst l) -> NoDup l.
  Proof.
    induction l as [|[k x] r IH]; intros HN; [constructor|]. cbn [map fst] in HN. inversion HN as [|? ? Hk HN']; subst.
    constructor; [|apply IH; exact HN']. intros Hin. apply Hk. apply in_map_iff. exists (k, x). split; [reflexivity | exact Hin].
  Qed.

  Theorem json_accepts_leaf_array_map : forall t, ref_free t = true ->
    forall jd v, jdenotes t jd v -> valid_value e t v ->
    forall fuel top tr, fuel > ty_depth t -> dec fuel top t jd tr = Ok (canonical v, tr).
  Proof.
    induction t as [p|syms|sz|n|t' IH|t' IH]; intros Hr jd v Hd Hv fuel top tr Hf; try discriminate Hr;
      (destruct fuel as [|f]; [inversion Hf|]).
    1-3: (inversion Hd; subst; try discriminate; apply leaf_accepted; assumption).
    - (* arrays *)
      cbn [ref_free ty_depth] in *. inversion Hd; subst; try discriminate.
      match goal with L : json_list _ = Some _ |- _ => destruct jd; try discriminate L; cbn [json_list] in L; inversion L; subst; clear L end.
      inversion Hv; subst. rewrite decJ_unfold. unfold stepJ. rewrite canonical_arr.
      match goal with I : items_denote _ _ _ _ _ _ _ _ _ |- _ => rename I into HI end.
      match goal with F : Forall (valid_value e t') _ |- _ => rename F into HF end.
      assert (G : forall i acc tr0, goJarr (decm f) t' xs i acc tr0 = Ok (VArr (rev acc ++ map canonical vs), tr0)).
      { apply items_denote_Forall2 in HI. clear Hd Hv. revert HF.
        induction HI as [|x v xs vs Hx _ IHI]; intros HF i acc tr0.
        - cbn [goJarr map]. rewrite app_nil_r. reflexivity.
        - inversion HF as [|? ? Hvx HF']; subst. cbn [goJarr]. rewrite djmix_false.
          rewrite (IH Hr x v Hx Hvx f false (enter_array i tr0) ltac:(lia)). cbn [bind].
          unfold enter_array. rewrite pop_push. rewrite (IHI HF' (S i) (canonical v :: acc) tr0).
          cbn [rev map]. rewrite <- app_assoc. reflexivity. }
      rewrite G. reflexivity.
    - (* maps *)
      cbn [ref_free ty_depth] in *. inversion Hd; subst; try discriminate.
      match goal with L : json_obj _ = Some _ |- _ => destruct jd; try discriminate L; cbn [json_obj] in L; inversion L; subst; clear L end.
      inversion Hv; subst. rewrite decJ_unfold. unfold stepJ. rewrite canonical_map.
      match goal with I : entries_denote _ _ _ _ _ _ _ _ _ |- _ => rename I into HE end.
      match goal with N : NoDup (map fst ms) |- _ => rename N into HNm end.
      match goal with N : NoDup (map fst es) |- _ => rename N into HNe end.
      match goal with F : Forall _ es |- _ => rename F into HF end.
      match goal with I : incl (map fst ms) (map fst es) |- _ => rename I into HI end.
      (* every entry of the value has its member *)
      assert (HE' : forall k v, In (k, v) es -> exists x, In (k, x) ms /\ jdenotes t' x v).
      { exact (entries_denote_In _ _ _ _ _ _ _ _ _ HE). }
      (* the members, each with the entry it stands for *)
      assert (HM : forall l, incl l ms -> exists vs', Forall2 (fun kx kv => fst kx = fst kv /\ jdenotes t' (snd kx) (snd kv) /\ In kv es) l vs').
      { induction l as [|[k x] r IHl]; intros Hl; [exists []; constructor|].
        destruct (IHl (fun y Hy => Hl y (or_intror Hy))) as [vs' Hvs'].
        assert (Hk : In k (map fst es)) by (apply HI; apply in_map_iff; exists (k, x); split; [reflexivity | apply Hl; left; reflexivity]).
        apply in_map_iff in Hk as [[k' v] [Ek Hkv]]. cbn in Ek. subst k'.
        destruct (HE' k v Hkv) as [x' [Hx' Hd']].
        assert (x' = x) by (eapply nodup_keys_functional; [exact HNm | exact Hx' | apply Hl; left; reflexivity]). subst x'.
        exists ((k, v) :: vs'). constructor; [|exact Hvs']. cbn. auto. }
      destruct (HM ms (incl_refl ms)) as [vs' Hvs'].
      assert (G : forall l vs0, Forall2 (fun kx kv => fst kx = fst kv /\ jdenotes t' (snd kx) (snd kv) /\ In kv es) l vs0 ->
                forall acc tr0, NoDup (map fst acc ++ map fst l) ->
                goJmap wc ps_empty ignore (decm f) t' l acc tr0 = Ok (VMap (sort_entries (acc ++ map canon_ent vs0)), tr0)).
      { induction 1 as [|[k x] [k' v] l' vs0' [Ek [Hx Hin]] _ IHG]; intros acc tr0 HN.
        - cbn [goJmap map]. rewrite app_nil_r. reflexivity.
        - cbn [fst snd] in *. subst k'. cbn [goJmap].
          assert (Hnn : x <> JNull) by (eapply ref_free_not_null; [exact Hr | exact Hx]).
          assert (Hvx : valid_value e t' v) by (rewrite Forall_forall in HF; apply (HF (k, v) Hin)).
          assert (Step : (do tr1 <- enter_map wc ps_empty ignore k tr0;
                          do rr <- dec f false t' x tr1;
                          let '(v1, tr2) := rr in goJmap wc ps_empty ignore (decm f) t' l' (map_put k v1 acc) (pop tr2))
                         = Ok (VMap (sort_entries (acc ++ map canon_ent ((k, v) :: vs0'))), tr0)).
          { rewrite enter_map_empty. cbn [bind]. rewrite (IH Hr x v Hx Hvx f false _ ltac:(lia)). cbn [bind].
            rewrite pop_push. rewrite map_put_fresh.
            - rewrite IHG.
              + cbn [map]. rewrite <- app_assoc. reflexivity.
              + rewrite map_app. cbn [map fst]. rewrite <- app_assoc. exact HN.
            - intros Hin'. cbn [map] in HN. apply NoDup_remove_2 in HN. apply HN. apply in_or_app. left; exact Hin'. }
          destruct x; try exact Step. contradiction Hnn; reflexivity. }
      rewrite (G ms vs' Hvs' [] tr HNm). cbn [app].
      cut (sort_entries (map canon_ent vs') = sort_entries (map canon_ent es)); [intros Hs; rewrite Hs; reflexivity|].
      (* the decoded entries are a permutation of the value's entries *)
      assert (Hkeys : map fst vs' = map fst ms).
      { clear - Hvs'. induction Hvs' as [|kx kv l r [E _] _ IHr]; [reflexivity|]. cbn [map]. rewrite IHr, E. reflexivity. }
      assert (Hperm : Permutation vs' es).
      { apply NoDup_Permutation.
        - apply nodup_keys_nodup. rewrite Hkeys. exact HNm.
        - apply nodup_keys_nodup. exact HNe.
        - intros [k v]. split.
          + intros Hin. clear - Hvs' Hin. induction Hvs' as [|kx kv l r [_ [_ Hes]] _ IHr]; [contradiction|].
            destruct Hin as [<-|Hin]; [exact Hes | apply IHr; exact Hin].
          + intros Hin. destruct (HE' k v Hin) as [x [Hx _]].
            assert (Hk : In k (map fst vs')) by (rewrite Hkeys; apply in_map_iff; exists (k, x); split; [reflexivity | exact Hx]).
            apply in_map_iff in Hk as [[k' v'] [Ek Hv']]. cbn in Ek. subst k'.
            assert (Hes : In (k, v') es).
            { clear - Hvs' Hv'. induction Hvs' as [|kx kv l r [_ [_ Hes]] _ IHr]; [contradiction|].
              destruct Hv' as [<-|Hv']; [exact Hes | apply IHr; exact Hv']. }
            rewrite (nodup_keys_functional es k v v' HNe Hin Hes). exact Hv'. }
      apply sort_entries_perm_invariant.
      + apply Permutation_map. exact Hperm.
      + assert (Hck : map fst (map canon_ent vs') = map fst vs') by (rewrite map_map; reflexivity).
        rewrite Hck, Hkeys. exact HNm.
  Qed.
End Converse.

(* ------------------------------------------------------------------------------------------------------------------ *)
(* 10. the byte level of JSON (statement only; see Props/C03.v json_parse_render_full)                                 *)
(* ------------------------------------------------------------------------------------------------------------------ *)
(* t is the text of a JSON number: the strict parser reads exactly t when it is followed by the end of the input or by a byte
   that cannot continue a number *)
Definition ends_number (rest : bytes) : Prop :=
  match rest with
  | [] => True
  | c :: _ => is_digit c = false /\ Byte.eqb c x2e = false /\ Byte.eqb c x65 = false /\ Byte.eqb c x45 = false
  end.
Definition json_number_ok (t : bytes) : Prop := forall rest, ends_number rest -> parse_number (t ++ rest) = Some (t, rest).

(* JSON cannot carry a string that is not valid UTF-8 (the writer replaces the broken bytes by U+FFFD) *)
Inductive doc_utf8 : doc -> Prop :=
| du_leaf l : match l with LStr s => valid_utf8 s = true | _ => True end -> doc_utf8 (DLeaf l)
| du_arr items : Forall doc_utf8 items -> doc_utf8 (DArr items)
| du_obj ents : Forall (fun kd => valid_utf8 (fst kd) = true /\ doc_utf8 (snd kd)) ents -> doc_utf8 (DObj ents).
