(* Proofs about the batch key set model Hash/KeySet.v (C16): AddKey rejects exactly the duplicates, the keys of a set are the
   keys added, the "ids" parameter is the sorted encoding of the keys, LocateOriginalKey returns the stored original, and
   UnmarshalWithKeyLocator files every reply entry under the original key / fails on an unknown key. *)
From Coq Require Import List Bool Arith NArith Lia Permutation Sorting.Sorted.
From Coq.Strings Require Import Byte.
From GR Require Import Base.Bytes Codec.Tracker Hash.KeySet.
Import ListNotations.

(* ------------------------------------------------------------------------------------------------------------------ *)
(* sort_bytes: a function of the multiset of its input, a permutation of it, sorted *)

Lemma bytes_le_lt_trans x a b : bytes_ltb x a = true -> bytes_ltb x b = false -> bytes_ltb b a = true.
Proof.
  intros Hxa Hxb.
  destruct (bytes_ltb b a) eqn:Eba; [reflexivity|].
  destruct (bytes_ltb a b) eqn:Eab.
  - pose proof (bytes_ltb_trans _ _ _ Hxa Eab) as T. rewrite T in Hxb. discriminate.
  - pose proof (bytes_ltb_total _ _ Eab Eba) as E. subst b. rewrite Hxa in Hxb. discriminate.
Qed.

Lemma bytes_le_trans y x k : bytes_ltb y x = false -> bytes_ltb x k = false -> bytes_ltb y k = false.
Proof.
  intros Hyx Hxk.
  destruct (bytes_ltb y k) eqn:Eyk; [|reflexivity].
  destruct (bytes_ltb k x) eqn:Ekx.
  - pose proof (bytes_ltb_trans _ _ _ Eyk Ekx) as T. rewrite T in Hyx. discriminate.
  - pose proof (bytes_ltb_total _ _ Hxk Ekx) as E. subst k. rewrite Eyk in Hyx. discriminate.
Qed.

Lemma insert_bytes_comm a b l : insert_bytes a (insert_bytes b l) = insert_bytes b (insert_bytes a l).
Proof.
  induction l as [|x r IH]; simpl.
  - destruct (bytes_ltb b a) eqn:Eba, (bytes_ltb a b) eqn:Eab; try reflexivity.
    + pose proof (bytes_ltb_asym _ _ Eba) as T. rewrite T in Eab. discriminate.
    + pose proof (bytes_ltb_total _ _ Eab Eba) as E. subst b. reflexivity.
  - destruct (bytes_ltb x a) eqn:Exa, (bytes_ltb x b) eqn:Exb; simpl.
    + rewrite Exa, Exb. f_equal. exact IH.
    + rewrite (bytes_le_lt_trans _ _ _ Exa Exb). rewrite Exb. simpl. rewrite Exa. reflexivity.
    + rewrite (bytes_le_lt_trans _ _ _ Exb Exa). rewrite Exa. simpl. rewrite Exb. reflexivity.
    + destruct (bytes_ltb b a) eqn:Eba, (bytes_ltb a b) eqn:Eab; simpl; rewrite ?Exa, ?Exb; try reflexivity.
      * pose proof (bytes_ltb_asym _ _ Eba) as T. rewrite T in Eab. discriminate.
      * pose proof (bytes_ltb_total _ _ Eab Eba) as E. subst b. reflexivity.
Qed.

Lemma sort_bytes_perm : forall l l', Permutation l l' -> sort_bytes l = sort_bytes l'.
Proof.
  intros l l' HP. induction HP as [|x l l' HP IH|x y l|l l' l'' HP1 IH1 HP2 IH2]; simpl.
  - reflexivity.
  - rewrite IH. reflexivity.
  - apply insert_bytes_comm.
  - rewrite IH1. exact IH2.
Qed.

Lemma insert_bytes_permutation k l : Permutation (insert_bytes k l) (k :: l).
Proof.
  induction l as [|x r IH]; simpl.
  - apply Permutation_refl.
  - destruct (bytes_ltb x k).
    + eapply Permutation_trans; [apply perm_skip; exact IH|]. apply perm_swap.
    + apply Permutation_refl.
Qed.

Lemma sort_bytes_permutation : forall l, Permutation (sort_bytes l) l.
Proof.
  induction l as [|k r IH]; simpl.
  - apply perm_nil.
  - eapply Permutation_trans; [apply insert_bytes_permutation|]. apply perm_skip. exact IH.
Qed.

Lemma insert_bytes_sorted k l :
  StronglySorted (fun a b => bytes_ltb b a = false) l ->
  StronglySorted (fun a b => bytes_ltb b a = false) (insert_bytes k l).
Proof.
  induction l as [|x r IH]; intros HS; simpl.
  - constructor; [constructor|constructor].
  - inversion HS as [|x' r' HSr HF]; subst.
    destruct (bytes_ltb x k) eqn:Exk.
    + constructor; [apply IH; exact HSr|].
      eapply Permutation_Forall; [apply Permutation_sym; apply insert_bytes_permutation|].
      constructor; [apply bytes_ltb_asym; exact Exk|exact HF].
    + constructor; [exact HS|].
      constructor; [exact Exk|].
      rewrite Forall_forall in HF. apply Forall_forall. intros y Hy.
      apply (bytes_le_trans y x k); [apply HF; exact Hy|exact Exk].
Qed.

Lemma sort_bytes_sorted : forall l, StronglySorted (fun a b => bytes_ltb b a = false) (sort_bytes l).
Proof.
  induction l as [|k r IH]; simpl.
  - constructor.
  - apply insert_bytes_sorted. exact IH.
Qed.

(* ------------------------------------------------------------------------------------------------------------------ *)
(* generic list facts *)

Lemma FOP_snoc {A} (R : A -> A -> Prop) l t :
  ForallOrdPairs R (l ++ [t]) <-> ForallOrdPairs R l /\ Forall (fun a => R a t) l.
Proof.
  induction l as [|x l IH]; simpl.
  - split; [intros _; split; constructor|intros _; constructor; constructor].
  - split.
    + intros H. inversion H as [|x' l' HF HR]; subst.
      apply IH in HR. destruct HR as [HR1 HR2].
      apply Forall_app in HF. destruct HF as [HF1 HF2].
      inversion HF2; subst.
      split; [constructor; assumption|constructor; assumption].
    + intros [H1 H2]. inversion H1 as [|x' l' HF HR]; subst. inversion H2 as [|x'' l'' Hxt HF2]; subst.
      constructor.
      * apply Forall_app. split; [exact HF|constructor; [exact Hxt|constructor]].
      * apply IH. split; assumption.
Qed.

Lemma FOP_app_mid {A} (R : A -> A -> Prop) l1 x l2 y :
  ForallOrdPairs R (l1 ++ x :: l2) -> In y l1 -> R y x.
Proof.
  induction l1 as [|z l1 IH]; simpl; intros H Hy; [contradiction|].
  inversion H as [|z' l' HF HR]; subst.
  destruct Hy as [->|Hy].
  - rewrite Forall_forall in HF. apply HF. apply in_or_app. right. left. reflexivity.
  - apply IH; assumption.
Qed.

Lemma Forall2_in_r {A B} (R : A -> B -> Prop) l1 l2 y :
  Forall2 R l1 l2 -> In y l2 -> exists x, In x l1 /\ R x y.
Proof.
  intros H. induction H as [|a b l1 l2 Hab H IH]; simpl; intros Hy; [contradiction|].
  destruct Hy as [->|Hy].
  - exists a. split; [left; reflexivity|exact Hab].
  - destruct (IH Hy) as [x [Hx HR]]. exists x. split; [right; exact Hx|exact HR].
Qed.

Lemma existsb_false_forall {A} (f : A -> bool) l : existsb f l = false <-> (forall x, In x l -> f x = false).
Proof.
  split.
  - intros H x Hx. destruct (f x) eqn:E; [|reflexivity].
    assert (existsb f l = true) as T by (apply existsb_exists; exists x; split; assumption).
    rewrite T in H. discriminate.
  - intros H. destruct (existsb f l) eqn:E; [|reflexivity].
    apply existsb_exists in E. destruct E as [x [Hx Hfx]]. rewrite (H x Hx) in Hfx. discriminate.
Qed.

Lemma find_none_iff {A} (f : A -> bool) l : find f l = None <-> (forall x, In x l -> f x = false).
Proof.
  split.
  - apply find_none.
  - intros H. destruct (find f l) eqn:E; [|reflexivity].
    apply find_some in E. destruct E as [Hx Hfx]. rewrite (H a Hx) in Hfx. discriminate.
Qed.

(* ------------------------------------------------------------------------------------------------------------------ *)
Section KeySetProofs.
  Variable key : Type.
  Variable khash : key -> N.
  Variable keq : key -> key -> bool.
  Variable good : key -> Prop.          (* the keys the equality is an equivalence on (well-formed, NaN-free) *)
  Hypothesis keq_refl : forall a, good a -> keq a a = true.
  Hypothesis keq_sym : forall a b, good a -> good b -> keq a b = keq b a.
  Hypothesis keq_trans : forall a b c, good a -> good b -> good c -> keq a b = true -> keq b c = true -> keq a c = true.
  Hypothesis hash_compat : forall a b, good a -> good b -> keq a b = true -> khash a = khash b.   (* C10: Equal => same hash *)
  Variable encode_key : key -> bytes.
  Variable decode_key : bytes -> option key.
  Hypothesis decode_good : forall raw k, decode_key raw = Some k -> good k.
  Variable P : Type.

  Local Notation addall := (add_all key khash keq).
  Local Notation add1 := (add key khash keq).
  Local Notation loc := (locate key khash keq).
  Local Notation eids := (encode_ids key encode_key).
  Local Notation fil := (fill key khash keq decode_key P).
  Local Notation locraw := (locate_raw key khash keq decode_key).
  Local Notation umf := (unmarshal_fields key khash keq decode_key P).
  Local Notation um := (unmarshal_with_locator key khash keq decode_key P).

  Definition dup_free (ks : list key) : Prop := ForallOrdPairs (fun a b => keq a b = false) ks.
  Definition empty_g : kset key := GSet key [].
  Definition empty_p : kset key := PSet key [].

  (* ---- dup_free and the index formulation *)
  Definition dup_witness (ks : list key) : Prop :=
    exists i j a b, i < j /\ nth_error ks i = Some a /\ nth_error ks j = Some b /\ keq a b = true.

  Lemma dup_free_snoc ks t : dup_free (ks ++ [t]) <-> dup_free ks /\ Forall (fun a => keq a t = false) ks.
  Proof. apply FOP_snoc. Qed.

  Lemma dup_free_or_witness ks : dup_free ks \/ dup_witness ks.
  Proof.
    induction ks as [|a ks IH].
    - left. constructor.
    - destruct IH as [IH|[i [j [x [y [Hij [Hi [Hj Hxy]]]]]]]].
      + destruct (existsb (fun b => keq a b) ks) eqn:E.
        * right. apply existsb_exists in E. destruct E as [b [Hb Hab]].
          apply In_nth_error in Hb. destruct Hb as [j Hj].
          exists 0, (S j), a, b. repeat split; [lia|exact Hj|exact Hab].
        * left. constructor; [|exact IH].
          apply Forall_forall. intros b Hb. exact (proj1 (existsb_false_forall _ _) E b Hb).
      + right. exists (S i), (S j), x, y. repeat split; [lia|exact Hi|exact Hj|exact Hxy].
  Qed.

  Lemma dup_witness_not_free ks : dup_witness ks -> dup_free ks -> False.
  Proof.
    intros [i [j [a [b [Hij [Hi [Hj Hab]]]]]]] HF. revert i j Hij Hi Hj.
    induction HF as [|x l HFx HF IH]; intros i j Hij Hi Hj.
    - destruct i; discriminate.
    - destruct j as [|j]; [lia|]. simpl in Hj.
      destruct i as [|i].
      + simpl in Hi. injection Hi as ->.
        apply nth_error_In in Hj. rewrite Forall_forall in HFx.
        rewrite (HFx b Hj) in Hab. discriminate.
      + simpl in Hi. apply (IH i j); [lia|exact Hi|exact Hj].
  Qed.

  Lemma not_dup_free_iff ks : ~ dup_free ks <-> dup_witness ks.
  Proof.
    split.
    - intros H. destruct (dup_free_or_witness ks) as [F|W]; [contradiction|exact W].
    - intros W F. exact (dup_witness_not_free ks W F).
  Qed.

  Lemma dup_free_unique ks a b :
    dup_free ks -> In a ks -> In b ks -> keq a b = true -> keq b a = true -> a = b.
  Proof.
    intros HF. induction HF as [|x l HFx HF IH]; simpl; intros Ha Hb Hab Hba; [contradiction|].
    rewrite Forall_forall in HFx.
    destruct Ha as [->|Ha], Hb as [->|Hb].
    - reflexivity.
    - rewrite (HFx b Hb) in Hab. discriminate.
    - rewrite (HFx a Ha) in Hba. discriminate.
    - apply IH; assumption.
  Qed.

  (* ---- add_all over an appended list *)
  Lemma add_all_app s l1 l2 :
    addall s (l1 ++ l2) = match addall s l1 with Some s' => addall s' l2 | None => None end.
  Proof.
    revert s. induction l1 as [|k l1 IH]; intros s; simpl; [reflexivity|].
    destruct (add1 s k) as [s'|]; [apply IH|reflexivity].
  Qed.

  Lemma add_all_snoc s l t :
    addall s (l ++ [t]) = match addall s l with Some s' => add1 s' t | None => None end.
  Proof.
    rewrite add_all_app. destruct (addall s l) as [s'|]; [|reflexivity].
    simpl. destruct (add1 s' t); reflexivity.
  Qed.

  (* ---- the generic set: bucket / key invariant *)
  Definition hfilter (h : N) (ks : list key) : list key := filter (fun k => N.eqb (khash k) h) ks.

  Definition ginv (g : gset key) (ks : list key) : Prop :=
    (forall h, bucket key g h = hfilter h ks) /\ Permutation (g_keys key g) ks.

  Lemma bucket_set_bucket g h ks h' :
    bucket key (set_bucket key g h ks) h' = if N.eqb h' h then ks else bucket key g h'.
  Proof.
    induction g as [|[h0 ks0] r IH]; simpl.
    - destruct (N.eqb h' h); reflexivity.
    - destruct (N.eqb h h0) eqn:E0; simpl.
      + apply N.eqb_eq in E0. subst h0. destruct (N.eqb h' h); reflexivity.
      + destruct (N.eqb h' h0) eqn:E1.
        * destruct (N.eqb h' h) eqn:E2; [|reflexivity].
          apply N.eqb_eq in E1. apply N.eqb_eq in E2. subst. rewrite N.eqb_refl in E0. discriminate.
        * exact IH.
  Qed.

  Lemma g_keys_set_bucket g h t :
    Permutation (g_keys key (set_bucket key g h (bucket key g h ++ [t]))) (g_keys key g ++ [t]).
  Proof.
    unfold g_keys. induction g as [|[h0 ks0] r IH]; simpl.
    - apply Permutation_refl.
    - destruct (N.eqb h h0) eqn:E0; simpl.
      + rewrite <- !app_assoc. apply Permutation_app_head. apply Permutation_app_comm.
      + rewrite <- !app_assoc. apply Permutation_app_head. exact IH.
  Qed.

  Lemma ginv_empty : ginv [] [].
  Proof. split; [intros h; reflexivity|apply perm_nil]. Qed.

  Lemma ginv_add g ks t g' : ginv g ks -> g_add key khash keq g t = Some g' -> ginv g' (ks ++ [t]).
  Proof.
    intros [HB HP] H. unfold g_add in H.
    destruct (existsb (fun k => keq t k) (bucket key g (khash t))); [discriminate|].
    injection H as <-. split.
    - intros h. rewrite bucket_set_bucket. unfold hfilter. rewrite filter_app. simpl.
      rewrite (N.eqb_sym h (khash t)).
      destruct (N.eqb (khash t) h) eqn:E.
      + apply N.eqb_eq in E. subst h. rewrite HB. reflexivity.
      + rewrite app_nil_r. apply HB.
    - eapply Permutation_trans; [apply g_keys_set_bucket|].
      apply Permutation_app_tail. exact HP.
  Qed.

  Lemma add_all_g_inv ks s :
    addall empty_g ks = Some s -> exists g, s = GSet key g /\ ginv g ks.
  Proof.
    revert s. induction ks as [|t ks IH] using rev_ind; intros s H.
    - simpl in H. injection H as <-. exists []. split; [reflexivity|apply ginv_empty].
    - rewrite add_all_snoc in H. destruct (addall empty_g ks) as [s'|]; [|discriminate].
      destruct (IH s' eq_refl) as [g [-> Hg]].
      simpl in H. destruct (g_add key khash keq g t) as [g'|] eqn:E; [|discriminate].
      simpl in H. injection H as <-. exists g'. split; [reflexivity|].
      exact (ginv_add _ _ _ _ Hg E).
  Qed.

  Lemma add_all_p_inv ks s : addall empty_p ks = Some s -> s = PSet key ks.
  Proof.
    revert s. induction ks as [|t ks IH] using rev_ind; intros s H.
    - simpl in H. injection H as <-. reflexivity.
    - rewrite add_all_snoc in H. destruct (addall empty_p ks) as [s'|]; [|discriminate].
      rewrite (IH s' eq_refl) in H. simpl in H. unfold p_add in H.
      destruct (existsb (fun k => keq k t) ks); [discriminate|].
      simpl in H. injection H as <-. reflexivity.
  Qed.

  (* the single step: a key is accepted iff no stored key equals it *)
  Lemma g_add_ok_iff g ks t :
    ginv g ks -> Forall good ks -> good t ->
    (exists g', g_add key khash keq g t = Some g') <-> Forall (fun a => keq a t = false) ks.
  Proof.
    intros [HB _] Hgood Ht. rewrite Forall_forall in Hgood. unfold g_add. rewrite HB.
    destruct (existsb (fun k => keq t k) (hfilter (khash t) ks)) eqn:E.
    - split; [intros [g' H]; discriminate|].
      intros HF. exfalso. rewrite Forall_forall in HF.
      apply existsb_exists in E. destruct E as [a [Ha Hta]].
      unfold hfilter in Ha. apply filter_In in Ha. destruct Ha as [Ha _].
      rewrite (keq_sym t a Ht (Hgood a Ha)) in Hta. rewrite (HF a Ha) in Hta. discriminate.
    - split; [|intros _; eexists; reflexivity].
      intros _. apply Forall_forall. intros a Ha.
      destruct (keq a t) eqn:Eat; [|reflexivity]. exfalso.
      pose proof (hash_compat a t (Hgood a Ha) Ht Eat) as Hh.
      assert (In a (hfilter (khash t) ks)) as Hin.
      { unfold hfilter. apply filter_In. split; [exact Ha|]. apply N.eqb_eq. exact Hh. }
      pose proof (proj1 (existsb_false_forall _ _) E a Hin) as Hta. simpl in Hta.
      rewrite (keq_sym t a Ht (Hgood a Ha)) in Hta. rewrite Eat in Hta. discriminate.
  Qed.

  Lemma p_add_ok_iff ks t :
    (exists p', p_add key keq ks t = Some p') <-> Forall (fun a => keq a t = false) ks.
  Proof.
    unfold p_add. destruct (existsb (fun k => keq k t) ks) eqn:E.
    - split; [intros [p' H]; discriminate|].
      intros HF. exfalso. rewrite Forall_forall in HF.
      apply existsb_exists in E. destruct E as [a [Ha Hat]]. rewrite (HF a Ha) in Hat. discriminate.
    - split; [|intros _; eexists; reflexivity].
      intros _. apply Forall_forall. intros a Ha. exact (proj1 (existsb_false_forall _ _) E a Ha).
  Qed.

  (* ---- A *)
  Lemma add_all_ok_iff_g : forall ks, Forall good ks -> (exists s, addall empty_g ks = Some s) <-> dup_free ks.
  Proof.
    induction ks as [|t ks IH] using rev_ind; intros Hgood.
    - split; [intros _; constructor|intros _; eexists; reflexivity].
    - apply Forall_app in Hgood. destruct Hgood as [Hgks Hgt]. inversion Hgt as [|t' l' Ht _]; subst.
      specialize (IH Hgks). rewrite dup_free_snoc. rewrite add_all_snoc.
      destruct (addall empty_g ks) as [s'|] eqn:E.
      + destruct (add_all_g_inv ks s' E) as [g [-> Hg]]. simpl.
        pose proof (g_add_ok_iff g ks t Hg Hgks Ht) as Hstep.
        split.
        * intros [s H]. split; [apply IH; eexists; reflexivity|].
          apply Hstep. destruct (g_add key khash keq g t) as [g'|]; [eexists; reflexivity|discriminate].
        * intros [_ HF]. apply Hstep in HF. destruct HF as [g' ->]. eexists; reflexivity.
      + split; [intros [s H]; discriminate|].
        intros [HF _]. apply IH in HF. destruct HF as [s H]. discriminate.
  Qed.

  Lemma add_all_ok_iff_p : forall ks, Forall good ks -> (exists s, addall empty_p ks = Some s) <-> dup_free ks.
  Proof.
    induction ks as [|t ks IH] using rev_ind; intros Hgood.
    - split; [intros _; constructor|intros _; eexists; reflexivity].
    - apply Forall_app in Hgood. destruct Hgood as [Hgks _].
      specialize (IH Hgks). rewrite dup_free_snoc. rewrite add_all_snoc.
      destruct (addall empty_p ks) as [s'|] eqn:E.
      + rewrite (add_all_p_inv ks s' E). simpl.
        pose proof (p_add_ok_iff ks t) as Hstep.
        split.
        * intros [s H]. split; [apply IH; eexists; reflexivity|].
          apply Hstep. destruct (p_add key keq ks t) as [p'|]; [eexists; reflexivity|discriminate].
        * intros [_ HF]. apply Hstep in HF. destruct HF as [p' ->]. eexists; reflexivity.
      + split; [intros [s H]; discriminate|].
        intros [HF _]. apply IH in HF. destruct HF as [s H]. discriminate.
  Qed.

  Lemma add_all_ok_iff : forall s0, s0 = empty_g \/ s0 = empty_p ->
    forall ks, Forall good ks -> (exists s, addall s0 ks = Some s) <-> dup_free ks.
  Proof. intros s0 [->| ->]; [apply add_all_ok_iff_g|apply add_all_ok_iff_p]. Qed.

  Lemma none_iff_not_some {A} (o : option A) : o = None <-> ~ (exists s, o = Some s).
  Proof.
    destruct o as [a|]; split.
    - discriminate.
    - intros H. exfalso. apply H. exists a. reflexivity.
    - intros _ [s H]. discriminate.
    - reflexivity.
  Qed.

  Lemma add_rejects_duplicates : forall s0, s0 = empty_g \/ s0 = empty_p ->
    forall ks, Forall good ks ->
    (addall s0 ks = None <-> exists i j a b, i < j /\ nth_error ks i = Some a /\ nth_error ks j = Some b /\ keq a b = true).
  Proof.
    intros s0 Hs0 ks Hgood. rewrite none_iff_not_some.
    rewrite (add_all_ok_iff s0 Hs0 ks Hgood). apply not_dup_free_iff.
  Qed.

  Lemma add_rejects_duplicates_g : forall ks, Forall good ks ->
    (addall empty_g ks = None <-> exists i j a b, i < j /\ nth_error ks i = Some a /\ nth_error ks j = Some b /\ keq a b = true).
  Proof. apply add_rejects_duplicates. left. reflexivity. Qed.

  Lemma add_rejects_duplicates_p : forall ks, Forall good ks ->
    (addall empty_p ks = None <-> exists i j a b, i < j /\ nth_error ks i = Some a /\ nth_error ks j = Some b /\ keq a b = true).
  Proof. apply add_rejects_duplicates. right. reflexivity. Qed.

  (* AddAllMapKeys: the keys of a Go map come in an arbitrary order; rejection does not depend on it *)
  Lemma dup_free_perm ks ks' : Forall good ks -> Permutation ks ks' -> dup_free ks -> dup_free ks'.
  Proof.
    intros Hgood HP. induction HP as [|x l l' HP IH|x y l|l l' l'' HP1 IH1 HP2 IH2]; intros HF.
    - exact HF.
    - inversion HF as [|x' l0 HFx HFl]; subst. inversion Hgood as [|x' l0 Hx Hl]; subst.
      constructor; [exact (Permutation_Forall HP HFx)|exact (IH Hl HFl)].
    - inversion HF as [|y' l0 HFy HFxl]; subst. inversion HFxl as [|x' l1 HFx HFl]; subst.
      inversion HFy as [|x' l1 Hyx HFyl]; subst.
      inversion Hgood as [|y' l1 Hy Hxl]; subst. inversion Hxl as [|x' l2 Hx Hl]; subst.
      constructor; [constructor; [rewrite (keq_sym x y Hx Hy); exact Hyx|exact HFx]|].
      constructor; [exact HFyl|exact HFl].
    - apply IH2; [exact (Permutation_Forall HP1 Hgood)|]. apply IH1; [exact Hgood|exact HF].
  Qed.

  Lemma add_all_none_perm : forall s0, s0 = empty_g \/ s0 = empty_p ->
    forall ks ks', Forall good ks -> Permutation ks ks' -> (addall s0 ks = None <-> addall s0 ks' = None).
  Proof.
    intros s0 Hs0 ks ks' Hgood HP.
    pose proof (Permutation_Forall HP Hgood) as Hgood'.
    rewrite !none_iff_not_some.
    rewrite (add_all_ok_iff s0 Hs0 ks Hgood), (add_all_ok_iff s0 Hs0 ks' Hgood').
    split; intros H HF; apply H.
    - exact (dup_free_perm ks' ks Hgood' (Permutation_sym HP) HF).
    - exact (dup_free_perm ks ks' Hgood HP HF).
  Qed.

  (* ---- B *)
  Lemma keys_perm_g : forall ks s, addall empty_g ks = Some s -> Permutation (keys key s) ks.
  Proof. intros ks s H. destruct (add_all_g_inv ks s H) as [g [-> [_ HP]]]. exact HP. Qed.

  Lemma keys_perm_p : forall ks s, addall empty_p ks = Some s -> Permutation (keys key s) ks.
  Proof. intros ks s H. rewrite (add_all_p_inv ks s H). apply Permutation_refl. Qed.

  Lemma keys_perm : forall s0, s0 = empty_g \/ s0 = empty_p ->
    forall ks s, addall s0 ks = Some s -> Permutation (keys key s) ks.
  Proof. intros s0 [->| ->]; [apply keys_perm_g|apply keys_perm_p]. Qed.

  (* ---- C *)
  Lemma ids_sorted_once : forall s0, s0 = empty_g \/ s0 = empty_p ->
    forall ks s, addall s0 ks = Some s ->
    eids s = sort_bytes (map encode_key ks) /\
    Permutation (eids s) (map encode_key ks) /\
    StronglySorted (fun a b => bytes_ltb b a = false) (eids s).
  Proof.
    intros s0 Hs0 ks s H.
    assert (eids s = sort_bytes (map encode_key ks)) as E.
    { unfold encode_ids. apply sort_bytes_perm. apply Permutation_map. exact (keys_perm s0 Hs0 ks s H). }
    split; [exact E|]. rewrite E. split; [apply sort_bytes_permutation|apply sort_bytes_sorted].
  Qed.

  Lemma ids_sorted_once_g : forall ks s, addall empty_g ks = Some s ->
    eids s = sort_bytes (map encode_key ks) /\
    Permutation (eids s) (map encode_key ks) /\
    StronglySorted (fun a b => bytes_ltb b a = false) (eids s).
  Proof. apply ids_sorted_once. left. reflexivity. Qed.

  Lemma ids_sorted_once_p : forall ks s, addall empty_p ks = Some s ->
    eids s = sort_bytes (map encode_key ks) /\
    Permutation (eids s) (map encode_key ks) /\
    StronglySorted (fun a b => bytes_ltb b a = false) (eids s).
  Proof. apply ids_sorted_once. right. reflexivity. Qed.

  Lemma dup_free_encode_nodup :
    (forall a b, good a -> good b -> encode_key a = encode_key b -> keq a b = true) ->
    forall ks, Forall good ks -> dup_free ks -> NoDup (map encode_key ks).
  Proof.
    intros Hinj ks Hgood HF. induction HF as [|x l HFx HF IH]; simpl; [constructor|].
    inversion Hgood as [|x' l' Hx Hl]; subst.
    constructor; [|apply IH; exact Hl].
    intros Hin. apply in_map_iff in Hin. destruct Hin as [b [Hb Hbl]].
    rewrite Forall_forall in HFx, Hl.
    pose proof (HFx b Hbl) as Hxb. simpl in Hxb.
    rewrite (Hinj x b Hx (Hl b Hbl) (eq_sym Hb)) in Hxb. discriminate.
  Qed.

  Lemma ids_nodup : forall s0, s0 = empty_g \/ s0 = empty_p ->
    (forall a b, good a -> good b -> encode_key a = encode_key b -> keq a b = true) ->
    forall ks s, Forall good ks -> addall s0 ks = Some s -> NoDup (eids s).
  Proof.
    intros s0 Hs0 Hinj ks s Hgood H.
    destruct (ids_sorted_once s0 Hs0 ks s H) as [_ [HP _]].
    eapply Permutation_NoDup; [apply Permutation_sym; exact HP|].
    apply (dup_free_encode_nodup Hinj ks Hgood).
    apply (add_all_ok_iff s0 Hs0 ks Hgood). exists s. exact H.
  Qed.

  Lemma ids_nodup_g :
    (forall a b, good a -> good b -> encode_key a = encode_key b -> keq a b = true) ->
    forall ks s, Forall good ks -> addall empty_g ks = Some s -> NoDup (eids s).
  Proof. apply ids_nodup. left. reflexivity. Qed.

  Lemma ids_nodup_p :
    (forall a b, good a -> good b -> encode_key a = encode_key b -> keq a b = true) ->
    forall ks s, Forall good ks -> addall empty_p ks = Some s -> NoDup (eids s).
  Proof. apply ids_nodup. right. reflexivity. Qed.

  (* ---- D *)
  Lemma locate_sound_g : forall ks s k o,
    addall empty_g ks = Some s -> loc s k = Some o -> In o ks /\ keq o k = true.
  Proof.
    intros ks s k o H HL. destruct (add_all_g_inv ks s H) as [g [-> [HB _]]].
    simpl in HL. unfold g_locate in HL. rewrite HB in HL.
    apply find_some in HL. destruct HL as [Hin Hok].
    unfold hfilter in Hin. apply filter_In in Hin. destruct Hin as [Hin _].
    split; assumption.
  Qed.

  Lemma locate_unknown_g : forall ks s k,
    addall empty_g ks = Some s -> (forall o, In o ks -> keq o k = false) -> loc s k = None.
  Proof.
    intros ks s k H Hall. destruct (add_all_g_inv ks s H) as [g [-> [HB _]]].
    simpl. unfold g_locate. rewrite HB. apply find_none_iff.
    intros x Hx. unfold hfilter in Hx. apply filter_In in Hx. destruct Hx as [Hx _].
    apply Hall. exact Hx.
  Qed.

  (* the primitive set stores the list of keys itself and scans it *)
  Lemma locate_p : forall ks s k,
    addall empty_p ks = Some s -> loc s k = find (fun o => keq o k) ks.
  Proof. intros ks s k H. rewrite (add_all_p_inv ks s H). reflexivity. Qed.

  Lemma locate_sound_p : forall ks s k o,
    addall empty_p ks = Some s -> loc s k = Some o -> In o ks /\ keq o k = true.
  Proof.
    intros ks s k o H HL. rewrite (locate_p ks s k H) in HL.
    apply find_some in HL. exact HL.
  Qed.

  Lemma locate_unknown_p : forall ks s k,
    addall empty_p ks = Some s -> (forall o, In o ks -> keq o k = false) -> loc s k = None.
  Proof.
    intros ks s k H Hall. rewrite (locate_p ks s k H). apply find_none_iff. exact Hall.
  Qed.

  Lemma locate_sound : forall s0, s0 = empty_g \/ s0 = empty_p ->
    forall ks s k o, addall s0 ks = Some s -> loc s k = Some o -> In o ks /\ keq o k = true.
  Proof. intros s0 [->| ->]; [apply locate_sound_g|apply locate_sound_p]. Qed.

  (* an equal stored key is found (generic set: in the bucket of the looked-up key, by hash_compat) *)
  Lemma locate_finds_g : forall ks s k o,
    Forall good ks -> good k -> addall empty_g ks = Some s -> In o ks -> keq o k = true -> loc s k <> None.
  Proof.
    intros ks s k o Hgood Hk H Ho Hok HL. rewrite Forall_forall in Hgood.
    destruct (add_all_g_inv ks s H) as [g [-> [HB _]]].
    simpl in HL. unfold g_locate in HL. rewrite HB in HL.
    assert (In o (hfilter (khash k) ks)) as Hin.
    { unfold hfilter. apply filter_In. split; [exact Ho|]. apply N.eqb_eq.
      exact (hash_compat o k (Hgood o Ho) Hk Hok). }
    pose proof (find_none _ _ HL o Hin) as Hf. simpl in Hf. rewrite Hok in Hf. discriminate.
  Qed.

  Lemma locate_finds_p : forall ks s k o,
    addall empty_p ks = Some s -> In o ks -> keq o k = true -> loc s k <> None.
  Proof.
    intros ks s k o H Ho Hok HL. rewrite (locate_p ks s k H) in HL.
    pose proof (find_none _ _ HL o Ho) as Hf. simpl in Hf. rewrite Hok in Hf. discriminate.
  Qed.

  (* what is found is the original itself: the stored keys are pairwise different *)
  Lemma locate_original_of_sound ks s k o :
    Forall good ks -> good k -> dup_free ks ->
    (forall o', loc s k = Some o' -> In o' ks /\ keq o' k = true) -> loc s k <> None ->
    In o ks -> keq o k = true -> loc s k = Some o.
  Proof.
    intros Hgood Hk HF Hsound Hfound Ho Hok. rewrite Forall_forall in Hgood.
    destruct (loc s k) as [o'|] eqn:HL; [|contradiction].
    destruct (Hsound o' eq_refl) as [Ho' Ho'k].
    pose proof (Hgood o Ho) as Hgo. pose proof (Hgood o' Ho') as Hgo'.
    assert (keq k o = true) as Hko by (rewrite (keq_sym k o Hk Hgo); exact Hok).
    assert (keq k o' = true) as Hko' by (rewrite (keq_sym k o' Hk Hgo'); exact Ho'k).
    f_equal. apply (dup_free_unique ks o' o HF Ho' Ho).
    - exact (keq_trans o' k o Hgo' Hk Hgo Ho'k Hko).
    - exact (keq_trans o k o' Hgo Hk Hgo' Hok Hko').
  Qed.

  Lemma locate_returns_original_g : forall ks s k o,
    Forall good ks -> good k -> addall empty_g ks = Some s -> In o ks -> keq o k = true -> loc s k = Some o.
  Proof.
    intros ks s k o Hgood Hk H Ho Hok.
    apply (locate_original_of_sound ks s k o Hgood Hk); [| | |exact Ho|exact Hok].
    - apply (add_all_ok_iff_g ks Hgood). exists s. exact H.
    - intros o'. apply (locate_sound_g ks s k o' H).
    - exact (locate_finds_g ks s k o Hgood Hk H Ho Hok).
  Qed.

  Lemma locate_returns_original_p : forall ks s k o,
    Forall good ks -> good k -> addall empty_p ks = Some s -> In o ks -> keq o k = true -> loc s k = Some o.
  Proof.
    intros ks s k o Hgood Hk H Ho Hok.
    apply (locate_original_of_sound ks s k o Hgood Hk); [| | |exact Ho|exact Hok].
    - apply (add_all_ok_iff_p ks Hgood). exists s. exact H.
    - intros o'. apply (locate_sound_p ks s k o' H).
    - exact (locate_finds_p ks s k o H Ho Hok).
  Qed.

  Lemma locate_returns_original : forall s0, s0 = empty_g \/ s0 = empty_p ->
    forall ks s k o,
    Forall good ks -> good k -> addall s0 ks = Some s -> In o ks -> keq o k = true -> loc s k = Some o.
  Proof. intros s0 [->| ->]; [apply locate_returns_original_g|apply locate_returns_original_p]. Qed.

  (* ---- E *)
  Definition reply_nodup (entries : list (bytes * option P)) : Prop :=
    ForallOrdPairs (fun e1 e2 => forall k1 k2, decode_key (fst e1) = Some k1 -> decode_key (fst e2) = Some k2 -> keq k1 k2 = false) entries.

  Lemma put_fresh (m : list (key * P)) o p :
    Forall (fun kp => keq (fst kp) o = false) m -> put key keq P m o p = m ++ [(o, p)].
  Proof.
    induction m as [|[k' p'] r IH]; simpl; intros HF; [reflexivity|].
    inversion HF as [|x l Hx Hr]; subst. simpl in Hx. rewrite Hx. f_equal. apply IH. exact Hr.
  Qed.

  Definition filed (ks : list key) (e : bytes * option P) (kp : key * P) : Prop :=
    snd e = Some (snd kp) /\ In (fst kp) ks /\ exists k, decode_key (fst e) = Some k /\ keq (fst kp) k = true.

  (* for ANY set whose locate is sound w.r.t. a list ks of good keys *)
  Lemma fill_filed_gen ks s : Forall good ks ->
    (forall k o, loc s k = Some o -> In o ks /\ keq o k = true) ->
    forall entries pre m0 m,
      reply_nodup (pre ++ entries) -> Forall2 (filed ks) pre m0 ->
      fil s m0 entries = inr m -> Forall2 (filed ks) (pre ++ entries) m.
  Proof.
    intros Hgood Hsound. induction entries as [|[raw op] r IH]; intros pre m0 m Hnd Hpre H.
    - simpl in H. injection H as <-. rewrite app_nil_r. exact Hpre.
    - simpl in H. unfold locate_raw in H.
      destruct (decode_key raw) as [k|] eqn:Edec; [|discriminate].
      destruct (loc s k) as [o|] eqn:Eloc; [|discriminate].
      destruct op as [p|]; [|discriminate].
      destruct (Hsound k o Eloc) as [Ho Hok].
      pose proof (decode_good raw k Edec) as Hgk.
      rewrite Forall_forall in Hgood. pose proof (Hgood o Ho) as Hgo.
      rewrite put_fresh in H.
      + replace (pre ++ (raw, Some p) :: r) with ((pre ++ [(raw, Some p)]) ++ r) in * by (rewrite <- app_assoc; reflexivity).
        apply (IH (pre ++ [(raw, Some p)]) (m0 ++ [(o, p)]) m Hnd); [|exact H].
        apply Forall2_app; [exact Hpre|]. constructor; [|constructor].
        split; [reflexivity|]. split; [exact Ho|]. exists k. split; [exact Edec|exact Hok].
      + apply Forall_forall. intros [k' p'] Hin. simpl.
        destruct (Forall2_in_r _ _ _ _ Hpre Hin) as [e' [He' [_ [Hk' [k'' [Hdec'' Hk'k'']]]]]]. simpl in Hk', Hk'k''.
        pose proof (FOP_app_mid _ _ _ _ _ Hnd He' k'' k Hdec'' Edec) as Hneq. simpl in Hneq.
        pose proof (Hgood k' Hk') as Hgk'. pose proof (decode_good _ _ Hdec'') as Hgk''.
        destruct (keq k' o) eqn:Ek'o; [|reflexivity]. exfalso.
        assert (keq k'' k' = true) as H1 by (rewrite (keq_sym k'' k' Hgk'' Hgk'); exact Hk'k'').
        pose proof (keq_trans k'' k' o Hgk'' Hgk' Hgo H1 Ek'o) as H2.
        pose proof (keq_trans k'' o k Hgk'' Hgo Hgk H2 Hok) as H3.
        rewrite H3 in Hneq. discriminate.
  Qed.

  Lemma fill_filed_under_original : forall s0, s0 = empty_g \/ s0 = empty_p ->
    forall ks s entries m,
    Forall good ks -> addall s0 ks = Some s -> reply_nodup entries -> fil s [] entries = inr m ->
    Forall2 (fun e kp => snd e = Some (snd kp) /\ In (fst kp) ks /\ exists k, decode_key (fst e) = Some k /\ keq (fst kp) k = true) entries m.
  Proof.
    intros s0 Hs0 ks s entries m Hgood Hs Hnd H.
    apply (fill_filed_gen ks s Hgood) with (entries := entries) (pre := []) (m0 := []); [|exact Hnd|constructor|exact H].
    intros k o. apply (locate_sound s0 Hs0 ks s k o Hs).
  Qed.

  Lemma fill_filed_under_original_g : forall ks s entries m,
    Forall good ks -> addall empty_g ks = Some s -> reply_nodup entries -> fil s [] entries = inr m ->
    Forall2 (fun e kp => snd e = Some (snd kp) /\ In (fst kp) ks /\ exists k, decode_key (fst e) = Some k /\ keq (fst kp) k = true) entries m.
  Proof. apply fill_filed_under_original. left. reflexivity. Qed.

  Lemma fill_filed_under_original_p : forall ks s entries m,
    Forall good ks -> addall empty_p ks = Some s -> reply_nodup entries -> fil s [] entries = inr m ->
    Forall2 (fun e kp => snd e = Some (snd kp) /\ In (fst kp) ks /\ exists k, decode_key (fst e) = Some k /\ keq (fst kp) k = true) entries m.
  Proof. apply fill_filed_under_original. right. reflexivity. Qed.

  Lemma fill_locate_none_is_error s raw op k :
    decode_key raw = Some k -> loc s k = None ->
    forall entries m0, In (raw, op) entries -> exists er, fil s m0 entries = inl er.
  Proof.
    intros Hdec Hloc. induction entries as [|[raw' op'] r IH]; intros m0 Hin; [contradiction|].
    simpl. destruct Hin as [Heq|Hin].
    - injection Heq as -> ->. unfold locate_raw. rewrite Hdec, Hloc. eexists; reflexivity.
    - destruct (locraw s raw') as [er|o]; [eexists; reflexivity|].
      destruct op' as [p|]; [|eexists; reflexivity]. apply IH. exact Hin.
  Qed.

  Lemma locate_unknown : forall s0, s0 = empty_g \/ s0 = empty_p ->
    forall ks s k, addall s0 ks = Some s -> (forall o, In o ks -> keq o k = false) -> loc s k = None.
  Proof. intros s0 [->| ->]; [apply locate_unknown_g|apply locate_unknown_p]. Qed.

  (* a stranger landing in the bucket of a requested key (even a bucket of size one) is still not found *)
  Lemma locate_unrequested_colliding_is_none : forall s0, s0 = empty_g \/ s0 = empty_p ->
    forall ks s k o, addall s0 ks = Some s -> In o ks -> khash k = khash o ->
    (forall o', In o' ks -> keq o' k = false) -> loc s k = None.
  Proof. intros s0 Hs0 ks s k o Hs _ _ Hall. exact (locate_unknown s0 Hs0 ks s k Hs Hall). Qed.

  Lemma fill_unknown_is_error : forall s0, s0 = empty_g \/ s0 = empty_p ->
    forall ks s entries m0 raw op k,
    addall s0 ks = Some s -> In (raw, op) entries -> decode_key raw = Some k -> (forall o, In o ks -> keq o k = false) ->
    exists er, fil s m0 entries = inl er.
  Proof.
    intros s0 Hs0 ks s entries m0 raw op k Hs Hin Hdec Hall.
    exact (fill_locate_none_is_error s raw op k Hdec (locate_unknown s0 Hs0 ks s k Hs Hall) entries m0 Hin).
  Qed.

  Lemma fill_unknown_is_error_g : forall ks s entries m0 raw op k,
    addall empty_g ks = Some s -> In (raw, op) entries -> decode_key raw = Some k -> (forall o, In o ks -> keq o k = false) ->
    exists er, fil s m0 entries = inl er.
  Proof. apply fill_unknown_is_error. left. reflexivity. Qed.

  Lemma fill_unknown_is_error_p : forall ks s entries m0 raw op k,
    addall empty_p ks = Some s -> In (raw, op) entries -> decode_key raw = Some k -> (forall o, In o ks -> keq o k = false) ->
    exists er, fil s m0 entries = inl er.
  Proof. apply fill_unknown_is_error. right. reflexivity. Qed.

  (* ---- F *)
  Lemma unmarshal_fields_fill_error s f entries er :
    f <> FOther -> fil s [] entries = inl er ->
    forall fields b, In (f, entries) fields -> exists er', umf s b fields = inl er'.
  Proof.
    intros Hf Hfill. induction fields as [|[f' entries'] r IH]; intros b Hin; [contradiction|].
    destruct Hin as [Heq|Hin].
    - injection Heq as -> ->. simpl. rewrite Hfill. destruct f; try (eexists; reflexivity). contradiction.
    - simpl. destruct f'.
      + destruct (fil s [] entries') as [er'|m]; [eexists; reflexivity|]. apply IH. exact Hin.
      + destruct (fil s [] entries') as [er'|m]; [eexists; reflexivity|]. apply IH. exact Hin.
      + destruct (fil s [] entries') as [er'|m]; [eexists; reflexivity|]. apply IH. exact Hin.
      + apply IH. exact Hin.
  Qed.

  Lemma unmarshal_unknown_is_error : forall s0, s0 = empty_g \/ s0 = empty_p ->
    forall ks s fields f entries raw op k,
    addall s0 ks = Some s -> In (f, entries) fields -> f <> FOther -> In (raw, op) entries -> decode_key raw = Some k ->
    (forall o, In o ks -> keq o k = false) -> exists er, um s fields = inl er.
  Proof.
    intros s0 Hs0 ks s fields f entries raw op k Hs Hfin Hf Hin Hdec Hall.
    destruct (fill_unknown_is_error s0 Hs0 ks s entries [] raw op k Hs Hin Hdec Hall) as [er Her].
    destruct (unmarshal_fields_fill_error s f entries er Hf Her fields (bresp0 key P) Hfin) as [er' Her'].
    unfold unmarshal_with_locator. rewrite Her'. eexists; reflexivity.
  Qed.

  Lemma unmarshal_unknown_is_error_g : forall ks s fields f entries raw op k,
    addall empty_g ks = Some s -> In (f, entries) fields -> f <> FOther -> In (raw, op) entries -> decode_key raw = Some k ->
    (forall o, In o ks -> keq o k = false) -> exists er, um s fields = inl er.
  Proof. apply unmarshal_unknown_is_error. left. reflexivity. Qed.

  Lemma unmarshal_unknown_is_error_p : forall ks s fields f entries raw op k,
    addall empty_p ks = Some s -> In (f, entries) fields -> f <> FOther -> In (raw, op) entries -> decode_key raw = Some k ->
    (forall o, In o ks -> keq o k = false) -> exists er, um s fields = inl er.
  Proof. apply unmarshal_unknown_is_error. right. reflexivity. Qed.

  Definition getf (f : bfield) (b : bresp key P) : option (list (key * P)) :=
    match f with
    | FResults => b_results key P b
    | FStatuses => b_statuses key P b
    | FErrors => b_errors key P b
    | FOther => None
    end.

  Lemma unmarshal_fields_app s l1 l2 b0 :
    umf s b0 (l1 ++ l2) = match umf s b0 l1 with inl er => inl er | inr b1 => umf s b1 l2 end.
  Proof.
    revert b0. induction l1 as [|[f entries] r IH]; intros b0; simpl.
    - destruct (umf s b0 l2); reflexivity.
    - destruct f; try (destruct (fil s [] entries) as [er|m]; [reflexivity|apply IH]). apply IH.
  Qed.

  Lemma unmarshal_fields_other_preserved s f :
    forall l b0 b, (forall e, In e l -> fst e <> f) -> umf s b0 l = inr b -> getf f b = getf f b0.
  Proof.
    induction l as [|[f' entries] r IH]; intros b0 b Hno H.
    - simpl in H. injection H as <-. reflexivity.
    - assert (f' <> f) as Hne by (apply (Hno (f', entries)); left; reflexivity).
      assert (forall e, In e r -> fst e <> f) as Hno' by (intros e He; apply Hno; right; exact He).
      simpl in H. destruct f'.
      + destruct (fil s [] entries) as [er|m]; [discriminate|].
        rewrite (IH _ _ Hno' H). destruct f; try reflexivity. contradiction.
      + destruct (fil s [] entries) as [er|m]; [discriminate|].
        rewrite (IH _ _ Hno' H). destruct f; try reflexivity. contradiction.
      + destruct (fil s [] entries) as [er|m]; [discriminate|].
        rewrite (IH _ _ Hno' H). destruct f; try reflexivity. contradiction.
      + exact (IH _ _ Hno' H).
  Qed.

  Lemma unmarshal_fields_field_once s pre f entries post b0 b :
    f <> FOther -> (forall e, In e post -> fst e <> f) ->
    umf s b0 (pre ++ (f, entries) :: post) = inr b ->
    exists m, fil s [] entries = inr m /\ getf f b = Some m.
  Proof.
    intros Hf Hno H. rewrite unmarshal_fields_app in H.
    destruct (umf s b0 pre) as [er|b1]; [discriminate|].
    simpl in H. destruct f.
    - destruct (fil s [] entries) as [er|m]; [discriminate|]. exists m. split; [reflexivity|].
      rewrite (unmarshal_fields_other_preserved s FResults _ _ _ Hno H). reflexivity.
    - destruct (fil s [] entries) as [er|m]; [discriminate|]. exists m. split; [reflexivity|].
      rewrite (unmarshal_fields_other_preserved s FStatuses _ _ _ Hno H). reflexivity.
    - destruct (fil s [] entries) as [er|m]; [discriminate|]. exists m. split; [reflexivity|].
      rewrite (unmarshal_fields_other_preserved s FErrors _ _ _ Hno H). reflexivity.
    - contradiction.
  Qed.

  Lemma unmarshal_field_once : forall s pre f entries post b,
    f <> FOther -> (forall e, In e (pre ++ post) -> fst e <> f) ->
    um s (pre ++ (f, entries) :: post) = inr b ->
    exists m, fil s [] entries = inr m /\
      (match f with
       | FResults => b_results key P b | FStatuses => b_statuses key P b | FErrors => b_errors key P b | FOther => None
       end) = Some m.
  Proof.
    intros s pre f entries post b Hf Hno H. unfold unmarshal_with_locator in H.
    destruct (umf s (bresp0 key P) (pre ++ (f, entries) :: post)) as [er|b'] eqn:E; [discriminate|].
    destruct (b_results key P b'); [|discriminate]. injection H as <-.
    apply (unmarshal_fields_field_once s pre f entries post (bresp0 key P) b' Hf); [|exact E].
    intros e He. apply Hno. apply in_or_app. right. exact He.
  Qed.

  (* structs.go:145 + reader.go:129-141: an unknown member is skipped *)
  Lemma unmarshal_fields_other_skipped s entries post :
    forall pre b0, umf s b0 (pre ++ (FOther, entries) :: post) = umf s b0 (pre ++ post).
  Proof.
    intros pre b0. rewrite !unmarshal_fields_app. destruct (umf s b0 pre) as [er|b1]; reflexivity.
  Qed.

  Lemma unmarshal_other_skipped : forall s pre entries post,
    um s (pre ++ (FOther, entries) :: post) = um s (pre ++ post).
  Proof.
    intros s pre entries post. unfold unmarshal_with_locator.
    rewrite unmarshal_fields_other_skipped. reflexivity.
  Qed.
End KeySetProofs.
